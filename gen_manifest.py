#!/usr/bin/env python3
"""Regenerates MANIFEST.json from the claims table below (run after adding a property)."""
import json, subprocess, sys

SETUP = ("cd /verif/pkverify && PATH=/opt/veriftools/go1.26.8/bin:$PATH GOTOOLCHAIN=local "
         "GOFLAGS=-mod=mod GOPROXY=off GOSUMDB=off GOWORK=off go build -o /verif/bin/pkverify .")

BASELINE_OFF = ("cd /repo && GOFLAGS=-mod=mod GOPROXY=off go test -vet=off -count=1 -timeout 25m ./...")

# id -> (design_ref, technique, level text, level note)
CLAIMS = {}
NA = {}

def claim(pid, design_ref, technique, text, note):
    CLAIMS[pid] = (design_ref, technique, text, note)

exec(open('/verif/claims.py').read())

for line in open('/verif/properties.jsonl'):
    pid = json.loads(line)['id']
    if pid not in CLAIMS and pid not in NA:
        NA[pid] = "not claimed yet: rules designed in DESIGN.md §4 but the checker for them is not built/armed in this commit"
checks = []
for pid in sorted(CLAIMS):
    ref, tech, text, note = CLAIMS[pid]
    checks.append({
        "property_id": pid,
        "quick_cmd": f"./bin/run {pid} quick",
        "thorough_cmd": f"./bin/run {pid} thorough",
        "evidence_file": f"/verif/evidence/{pid}.json",
        "replay_cmd_template": f"./bin/run {pid} quick",
        "engine": "pkverify",
        "level_claimed": {"category": "other", "text": text, "design_ref": ref},
        "level_note": note,
        "technique": tech,
    })
m = {
    "version": 1,
    "setup_cmd": SETUP,
    "hooks": {
        "guard": "verif",
        "enable": "none needed: static analysis reads /repo's sources; no hooks are compiled in (guard name reserved, unused)",
        "baseline_off_cmd": BASELINE_OFF,
        "source_commits": [],
        "add_only": True,
    },
    "engines": [{
        "name": "pkverify",
        "path": "/verif/pkverify",
        "serves_properties": sorted(CLAIMS),
        "kind_free_text": "repository-specific static analyser (go/packages + go/types + go/ssa + call graph): path, dominance, pairing, lockset, who-may-call, table-agreement and value-dependence rules over /repo's current source",
    }],
    "checks": checks,
    "not_applicable": [{"property_id": k, "reason": v} for k, v in sorted(NA.items())],
    "notes": "Every check re-loads and re-analyses /repo's working tree on each run (nothing from /repo is executed). exit 0 = all obligations discharged or listed as known findings; exit 1 + VIOLATION line = an obligation violated/undecided or a rule found fewer instances than its floor; exit 2 = tree could not be analysed (type errors, unresolved anchor). Known findings: /verif/known_findings.json.",
}
json.dump(m, open('/verif/MANIFEST.json', 'w'), indent=1)
print("wrote MANIFEST.json with", len(checks), "checks,", len(NA), "not applicable")
