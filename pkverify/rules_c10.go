package main

import (
	"fmt"
	"go/token"
	"go/types"
	"sort"
	"strings"
	"time"

	"golang.org/x/tools/go/ssa"
)

func init() {
	register(&PropSpec{
		ID:    "C10",
		Title: "Every sorted key/value store is a byte-ordered map with atomic batches",
		Explanation: "Decided (structural necessary conditions, enumerated over every non-test type implementing sorted.KeyValue / sorted.Iterator): " +
			"V-size — in every declared Set, in every batch type's Set and in every CommitBatch that applies recorded mutations, each hand-over of the value (call argument other than log/fmt, or store outside the function) is dominated by the err==nil edge of sorted.CheckSizes applied to that very key and value (identity of the value followed through conversions, locals, varargs, map/struct literals; for batches through sorted.Mutation.Key/Value on the same mutation or the struct fields the batch's Set recorded into); a batch Set without a guard may only record into the batch object; the oversize edge never returns the CheckSizes error and, inside a batch loop, comes back to the loop header (continue, not return/break); promoted Set/BeginBatch/CommitBatch come from an enumerated implementer or from an embedded interface value; sorted.mutation.Key/Value return the fields (*batch).Set recorded into. " +
			"V-txn — kvfile: the BeginTransaction error is tested; every path from the successful begin to an exit passes Commit or Rollback on that DB (a deferred literal counts when, under the value the captured bool flag has on that path, all its paths roll back); every kv.DB write and the Commit are on the success edge of the begin; no failure edge of a write reaches Commit; one mutex is held in write mode at begin, writes, Commit and Rollback. sqlkv.CommitBatch: every path that has a batch with a transaction calls exactly one of tx.Commit/tx.Rollback; Commit only where the batch's sticky error field was tested nil; Rollback only where it was tested non-nil, and the sticky error is what is returned afterwards; the *sql.Tx that beginTx stores next to the error of the same BeginTx call is used, anywhere in package sqlkv, only where that error field was tested nil or the pointer tested non-nil (facts come from the dominating test of a load of the field; an assignment to the field between test and use is not modelled). " +
			"V-buffer-locks — buffer.KeyValue (buf/back identified by the parameter positions of buffer.New): every call on buf/back holds kv.mu — write mode in Flush, read mode elsewhere, with two reasoned exceptions (Find's iterators, the terminal back.Close); kv.buffered is read/written only under kv.bufMu; no method calls a sibling method that locks a mutex the caller holds; Flush commits the delete batch to buf only on the success edge of committing the copy to back, each batch to the store it was begun on, and every key it deletes from buf was put, with the value of the same buf iterator, into back's batch; Delete reaches both stores on every path and a batched delete goes into both batches within the iteration; Get calls back.Get only where buf.Get's error was compared equal to sorted.ErrNotFound. " +
			"V-iter — buffer.(*iter).Next advances a sub-iterator only on paths where that sub-iterator's eof flag is known false (abstract interpretation over the two flags and the results of subIter.next, whose summary 'false iff it set eof' is itself checked); buffer.(*iter).Close closes both sub-iterators on every path; Close of every sorted.Iterator implementer under pkg/sorted never returns a constant nil; every iterator obtained from Find inside pkg/sorted is closed on every path or stored/returned; for every declared Find, the end parameter is used as a bound only on the end != \"\" edge, or is passed unchanged to another Find, or is stored in an iterator field whose Next compares bytes.Compare(key, end) only under len(end) > 0 and stops exactly for results >= 0 (the branch is evaluated for -1, 0, +1). " +
			"V-notfound — every declared Get of an implementer has a return yielding sorted.ErrNotFound or returns the error of another Get; where Delete compares the error of a backend delete call with a package-level sentinel (memdb.ErrNotFound, mgo.ErrNotFound), every call of that backend function in CommitBatch compares with the same sentinel (existence of the comparison, not its polarity). " +
			"V-batch-order — clause 'a committed batch applies its sets and deletes in order', as far as the replay code goes, over every non-test implementer of sorted.BatchMutation and every declared CommitBatch of an implementer of sorted.KeyValue: (3) each batch type's Set and Delete either append (x.f = append(x.f, …), also through one helper) to the END of one and the same slice field, or hand the key synchronously (no go statement) to one common object held in a field of the batch (leveldb.Batch, *sql.Tx) at the time they are called; a method that returns the recorded slice returns it or an exact copy; " +
			"(1) in CommitBatch (and in module helpers that receive the slice, two levels) the recorded slice and every copy of it (slices.Clone, append(nil/empty, s...), make+copy, local variables) is never handed to sort.Sort/Slice/Strings…, slices.Sort/SortFunc/Reverse/Backward, container/heap, rand.Shuffle, never written by index, and never handed to code the analysis cannot follow (undecided); a STABLE sort (sort.SliceStable, sort.Stable, slices.SortStableFunc) is accepted exactly when its comparator, instruction by instruction, reads nothing of a mutation but its key (Mutation.Key() / the struct field Set and Delete record the key into) and calls nothing but strings/bytes/cmp.Compare — mutations of different keys commute, mutations of one key keep their order; unstable sorts and comparators that read the value or the delete flag are violations; " +
			"(2) every call or non-local store that receives (something derived from) a mutation sits inside ONE loop over the slice whose counter starts at element 0, advances by exactly one and is tested against len(that slice) (range, counted and range-over-int forms): descending counters, ranging over a map filled from the mutations, two passes, a go statement are violations; sub-slices, rebuilt slices, carried or deferred elements and unrecognised loop shapes are undecided; " +
			"(4) per underlying store (access path of the receiver, for a batch the store BeginBatch was called on) all mutations travel through one channel — direct calls or one batch — so buffer's buf and back each see their mutations in recording order. " +
			"NOT decided: that any store behaves as a sorted map for a concrete history; that the engines (leveldb.Batch, SQL transaction, kv.DB, memdb, mongo) apply what they are handed in the order they are handed it; atomicity of mongo/memory batches; byte ordering and the merge order of buffer's iterator (only its eof discipline); the semantics of the engines (leveldb, modernc kv, SQL text and collation, mongo queries); start-bound handling; durability across close/reopen; lock-free consistency of iterators returned by buffer.Find; direct kvfile Set/Delete racing with a transaction; whether CheckSizes' limits are the right ones.",
		RuleDocs: map[string]string{
			"V-size":         "forward value-flow from key/value (parameters, sorted.Mutation accessors, recorded struct fields) to every call/escaping store; each must be success-dominated by CheckSizes on the same key/value; oversize edge returns nil / continues the batch loop",
			"V-txn":          "path exploration from (*kv.DB).BeginTransaction to exits with constant propagation of the rollback flag; dominance rules on kvfile writes and on sqlkv.CommitBatch's Commit/Rollback; nil-tx use rule",
			"V-buffer-locks": "must-hold locksets at every buf/back invoke and every access of buffered in pkg/sorted/buffer; self-deadlock rule; Flush order and move agreement; both-store deletes; Get shadowing",
			"V-notfound":     "every declared Get yields sorted.ErrNotFound on some return or delegates to a Get that does; a backend not-found sentinel that Delete compares the backend's delete error with is compared the same way on the batch path",
			"V-batch-order":  "forward value-flow of the recorded mutation slice (field loads, Mutations()) and its copies through every CommitBatch: no reordering library call, no index write, stable sorts only with a comparator proven key-only; induction-variable recognition of the single ascending replay loop (start 0, step 1, bound len); every mutation hand-over inside that loop; one channel per underlying store; Set/Delete of every batch type append to the end of one slice or forward synchronously to one engine batch",
			"V-iter":         "abstract interpretation of buffer.(*iter).Next over the two eof flags; all-paths close of both sub-iterators; Close error propagation of every sorted.Iterator implementer in pkg/sorted; Find/Close pairing inside pkg/sorted; exclusive end-bound comparison in client-side filters",
		},
		Run:       runC10,
		DesignRef: "DESIGN.md §4 C10",
		Technique: "static analysis: forward value-flow + dominance on the CheckSizes success edge, CFG path exploration with flag constant propagation (transactions), must-hold locksets, small abstract interpretation of the merge iterator, sibling comparison over all implementers of sorted.KeyValue/sorted.Iterator/sorted.BatchMutation, forward value-flow of the recorded batch slice with induction-variable recognition of the replay loop and instruction-level whitelisting of sort comparators",
		LevelText: "Decides structural necessary conditions only: all implementations skip oversize keys/values the same way on the direct and the batch path, kvfile/sqlkv batches end in exactly one of commit/rollback and never commit after a failed write, the write buffer's lock discipline, flush order and double deletes, iterator close/eof/end-bound agreement, and that every batch implementation records mutations at the end of one sequence (or forwards them at once to one engine batch) and every CommitBatch replays that sequence once, first to last, without reordering it (stable key-only sorts excepted) and through one channel per underlying store. Does not decide that any store actually behaves as a sorted map for a concrete history, nor ordering, durability or the storage engines themselves.",
	})
}

const c10SortedPath = "perkeep.org/pkg/sorted"

func runC10(p *Program, r *Reporter) {
	t0 := time.Now()
	defer func() { r.Note("C10 rules took %.2fs after loading", time.Since(t0).Seconds()) }()
	r.Analysed("functions", len(p.FuncsUnder("pkg/sorted")))
	c10RuleSize(p, r)
	c10RuleTxn(p, r)
	c10RuleBuffer(p, r)
	c10RuleIter(p, r)
	c10RuleNotFound(p, r)
	c10RuleBatchOrder(p, r)
}

// ===========================================================================
// forward value-flow ("taint") of keys and values inside one function

// c10Flow propagates labels ("K:<id>" / "V:<id>") from source values to every
// value derived from them inside fn, through conversions, phis, loads/stores
// of function-local memory (complits, varargs arrays, spilled variables),
// map literals and call results. It records where a labelled value leaves the
// function: as a call argument (sink) or by a store into non-local memory.
type c10Flow struct {
	fn      *ssa.Function
	lab     map[ssa.Value]map[string]bool
	work    []ssa.Value
	sinks   []*c10Sink
	bySink  map[ssa.Instruction]*c10Sink
	escapes []string // labelled value captured by a closure etc.: cannot follow
	// direct stores of a source into a struct field: (named struct, field index) -> label kinds
	fieldStores map[c10FieldKey]map[byte]bool
}

type c10FieldKey struct {
	typ *types.Named
	idx int
}

type c10Sink struct {
	instr  ssa.Instruction
	call   *CallSite // nil for stores
	labels map[string]bool
	what   string
}

func c10NewFlow(fn *ssa.Function) *c10Flow {
	return &c10Flow{fn: fn, lab: map[ssa.Value]map[string]bool{}, bySink: map[ssa.Instruction]*c10Sink{}, fieldStores: map[c10FieldKey]map[byte]bool{}}
}

func (f *c10Flow) add(v ssa.Value, labels map[string]bool) {
	if v == nil || len(labels) == 0 {
		return
	}
	cur := f.lab[v]
	if cur == nil {
		cur = map[string]bool{}
		f.lab[v] = cur
	}
	grew := false
	for l := range labels {
		if !cur[l] {
			cur[l] = true
			grew = true
		}
	}
	if grew {
		f.work = append(f.work, v)
	}
}

func (f *c10Flow) source(v ssa.Value, label string) { f.add(v, map[string]bool{label: true}) }

// c10RootCell follows FieldAddr/IndexAddr chains to the base address value.
func c10RootCell(addr ssa.Value) ssa.Value {
	for i := 0; i < 16; i++ {
		switch x := addr.(type) {
		case *ssa.FieldAddr:
			addr = x.X
		case *ssa.IndexAddr:
			addr = x.X
		default:
			return addr
		}
	}
	return addr
}

func (f *c10Flow) sink(in ssa.Instruction, c *CallSite, labels map[string]bool, what string) {
	s := f.bySink[in]
	if s == nil {
		s = &c10Sink{instr: in, call: c, labels: map[string]bool{}, what: what}
		f.bySink[in] = s
		f.sinks = append(f.sinks, s)
	}
	for l := range labels {
		s.labels[l] = true
	}
}

func (f *c10Flow) run() {
	for len(f.work) > 0 {
		v := f.work[len(f.work)-1]
		f.work = f.work[:len(f.work)-1]
		labels := f.lab[v]
		refs := v.Referrers()
		if refs == nil {
			continue
		}
		for _, r := range *refs {
			if r.Parent() != f.fn {
				continue
			}
			switch x := r.(type) {
			case *ssa.Store:
				if x.Val != v {
					continue // v is the address being written through
				}
				root := c10RootCell(x.Addr)
				if fa, ok := x.Addr.(*ssa.FieldAddr); ok && c10IsBytesCarrier(x.Val.Type()) {
					if n := NamedOf(fa.X.Type()); n != nil {
						k := c10FieldKey{n, fa.Field}
						if f.fieldStores[k] == nil {
							f.fieldStores[k] = map[byte]bool{}
						}
						for l := range labels {
							f.fieldStores[k][l[0]] = true
						}
					}
				}
				if al, ok := root.(*ssa.Alloc); ok && al.Parent() == f.fn {
					f.add(al, labels)
				} else {
					f.sink(x, nil, labels, "store:"+AccessPath(x.Addr))
				}
			case *ssa.MapUpdate:
				if x.Key != v && x.Value != v {
					continue
				}
				if mk, ok := originValue(x.Map).(*ssa.MakeMap); ok && mk.Parent() == f.fn {
					f.add(mk, labels)
					if x.Map != ssa.Value(mk) {
						f.add(x.Map, labels)
					}
				} else {
					f.sink(x, nil, labels, "mapstore:"+AccessPath(x.Map))
				}
			case *ssa.MakeClosure:
				f.escapes = append(f.escapes, "captured by function literal "+x.Fn.Name())
			case ssa.CallInstruction:
				c := CallSite{f.fn, x}
				cc := c.Common()
				if b, ok := cc.Value.(*ssa.Builtin); ok {
					switch b.Name() {
					case "append":
						if call, ok := x.(*ssa.Call); ok {
							f.add(call, labels)
						}
					case "copy":
						if len(cc.Args) == 2 && cc.Args[1] == v {
							root := c10RootCell(originValue(cc.Args[0]))
							f.add(root, labels)
						}
					}
					continue
				}
				f.sink(x, &c, labels, c.CalleeKey())
				if call, ok := x.(*ssa.Call); ok {
					f.add(call, labels)
				}
			case *ssa.Return, *ssa.If, *ssa.DebugRef, *ssa.Panic, *ssa.RunDefers, *ssa.Jump:
			case *ssa.Send:
				f.sink(x, nil, labels, "send")
			case ssa.Value:
				// Convert, ChangeType, MakeInterface, Phi, BinOp, UnOp (load of a
				// labelled cell), FieldAddr/IndexAddr into labelled memory, Field,
				// Index, Slice, Extract, TypeAssert, Lookup, Range, Next ...
				if bo, ok := x.(*ssa.BinOp); ok {
					switch bo.Op {
					case token.EQL, token.NEQ, token.LSS, token.LEQ, token.GTR, token.GEQ:
						continue // a comparison yields no key/value bytes
					}
				}
				f.add(x, labels)
			}
		}
	}
}

// c10IsBytesCarrier: string or []byte — the types a key or value itself has
// (as opposed to records, slices of records, interfaces that contain one).
func c10IsBytesCarrier(t types.Type) bool {
	switch u := t.Underlying().(type) {
	case *types.Basic:
		return u.Info()&types.IsString != 0
	case *types.Slice:
		b, ok := u.Elem().Underlying().(*types.Basic)
		return ok && b.Kind() == types.Byte
	}
	return false
}

// c10Method is Program.MethodOf that prefers the declared method when the
// pointer method set only has a synthetic wrapper of a value-receiver method.
func c10Method(p *Program, n *types.Named, name string) (*ssa.Function, bool) {
	var synth *ssa.Function
	for _, t := range []types.Type{types.NewPointer(n), n} {
		sel := p.SSA.MethodSets.MethodSet(t).Lookup(n.Obj().Pkg(), name)
		if sel == nil {
			continue
		}
		f := p.SSA.MethodValue(sel)
		if f == nil {
			continue
		}
		if f.Synthetic == "" {
			return f, true
		}
		// a wrapper around a method declared on n itself (value receiver)?
		if len(sel.Index()) == 1 {
			if decl := p.SSA.FuncValue(sel.Obj().(*types.Func)); decl != nil && decl.Blocks != nil {
				return decl, true
			}
		}
		if synth == nil {
			synth = f
		}
	}
	return synth, false
}

func c10Kinds(labels map[string]bool, kind byte) []string {
	var out []string
	for l := range labels {
		if l[0] == kind {
			out = append(out, l)
		}
	}
	sort.Strings(out)
	return out
}

func c10IsCheckSizes(c CallSite) bool { return c.IsStatic(c10SortedPath, "", "CheckSizes") }

// c10Harmless: callees that only format or log their arguments.
func c10Harmless(c CallSite) bool {
	f := c.Callee()
	if f == nil {
		return false
	}
	var pkg *types.Package
	if f.Pkg != nil {
		pkg = f.Pkg.Pkg
	} else if f.Object() != nil {
		pkg = f.Object().Pkg()
	}
	if pkg == nil {
		return false
	}
	switch pkg.Path() {
	case "log", "fmt", "strconv":
		return true
	}
	return false
}

// ===========================================================================
// V-size

type c10Guard struct {
	call   *ssa.Call
	k, v   string // the single K / V label of its arguments ("" when not determinable)
	reason string
}

func c10Guards(f *c10Flow) []c10Guard {
	var out []c10Guard
	for _, c := range CallsIn(f.fn, false) {
		if !c10IsCheckSizes(c) || c.Value() == nil {
			continue
		}
		g := c10Guard{call: c.Value()}
		a := c.Args()
		la, lb := f.lab[a[0]], f.lab[a[1]]
		ka, va := c10Kinds(la, 'K'), c10Kinds(la, 'V')
		kb, vb := c10Kinds(lb, 'K'), c10Kinds(lb, 'V')
		switch {
		case len(ka) == 1 && len(va) == 0 && len(vb) == 1 && len(kb) == 0:
			g.k, g.v = ka[0], vb[0]
		default:
			g.reason = fmt.Sprintf("CheckSizes arguments are not (one key, one value): arg0 carries %v, arg1 carries %v", append(ka, va...), append(kb, vb...))
		}
		out = append(out, g)
	}
	return out
}

// c10CheckSinks applies the guard rule to every value hand-over in f.fn and
// returns the number of obligations it produced.
func c10CheckSinks(p *Program, r *Reporter, f *c10Flow, role string) (n int, guards []c10Guard) {
	fn := f.fn
	guards = c10Guards(f)
	for _, e := range f.escapes {
		r.Undecided("V-size", FuncKey(fn)+"#flow", p.Pos(fn.Pos()), "cannot follow the key/value in "+role+": "+e)
		n++
	}
	for _, s := range f.sinks {
		vs := c10Kinds(s.labels, 'V')
		if len(vs) == 0 {
			continue // only the key travels here (reads, deletes)
		}
		if s.call != nil && (c10IsCheckSizes(*s.call) || c10Harmless(*s.call)) {
			continue
		}
		ks := c10Kinds(s.labels, 'K')
		construct := FuncKey(fn) + "#" + s.what
		site := p.Pos(s.instr.Pos())
		if s.call != nil {
			site = p.Pos(s.call.Pos())
		}
		n++
		okG, why := false, "no sorted.CheckSizes call in this function"
		for _, g := range guards {
			if g.reason != "" {
				why = g.reason
				continue
			}
			if len(vs) != 1 || vs[0] != g.v {
				why = fmt.Sprintf("the value handed over (%v) is not the value CheckSizes looked at (%s)", vs, g.v)
				continue
			}
			if len(ks) > 1 || len(ks) == 1 && ks[0] != g.k {
				why = fmt.Sprintf("the key handed over (%v) is not the key CheckSizes looked at (%s)", ks, g.k)
				continue
			}
			if ok, w := SuccessDominates(g.call, s.instr); !ok {
				why = "CheckSizes on this key/value exists but " + w
				continue
			}
			okG = true
			break
		}
		r.Check(okG, "V-size", construct, site,
			role+": value reaches "+s.what+" only on the err==nil edge of sorted.CheckSizes(key, value) over the same key and value",
			role+": value reaches "+s.what+" without a dominating successful sorted.CheckSizes on that key/value ("+why+"): an oversize key/value would be written by this implementation while its siblings skip it")
	}
	return n, guards
}

// c10OversizeEdge checks what happens on the failure edge of each guard: the
// CheckSizes error is never returned, and inside a loop the next mutation is
// still processed.
func c10OversizeEdge(p *Program, r *Reporter, fn *ssa.Function, guards []c10Guard) int {
	n := 0
	for _, g := range guards {
		ev, _, discarded := ErrValue(g.call)
		construct := FuncKey(fn) + "#oversize-edge"
		site := p.Pos(g.call.Pos())
		n++
		if discarded {
			r.Violation("V-size", construct, site, "the result of sorted.CheckSizes is discarded: nothing is skipped")
			continue
		}
		bad := ""
		if ErrResultIndex(fn) >= 0 {
			idx := ErrResultIndex(fn)
			for _, ri := range Returns(fn) {
				if c10MayYield(ri.Results[idx], ev, ri.Ret.Block(), 0) {
					bad = fmt.Sprintf("the return at line %d can yield the CheckSizes error: oversize keys/values must be skipped silently (return nil), as every sibling does", p.Fset.Position(ri.Ret.Pos()).Line)
				}
			}
		}
		// inside a loop: the failure edge must come back to the loop header
		if bad == "" {
			if fail := c10FailSucc(ev); fail != nil {
				if h := c10LoopHeader(g.call.Block()); h != nil {
					if ex := c10ReachesExitAvoiding(fail, c10ContinuePoints(h)); ex != nil {
						bad = fmt.Sprintf("on the oversize edge the batch loop is left (exit at line %d) instead of continuing with the next mutation: the rest of the batch would be dropped", p.Fset.Position(ex.Pos()).Line)
					}
				}
			} else {
				r.Undecided("V-size", construct, site, "cannot find the branch on the CheckSizes result")
				continue
			}
		}
		r.Check(bad == "", "V-size", construct, site, "the oversize edge never returns the CheckSizes error and (in a batch loop) continues with the next mutation", bad)
	}
	return n
}

// c10MayYield: can value v (an error operand of a return in block at) be ev
// while ev is non-nil?
func c10MayYield(v, ev ssa.Value, at *ssa.BasicBlock, depth int) bool {
	if v == nil || IsNilConst(v) {
		return false
	}
	if ph, ok := v.(*ssa.Phi); ok && depth < 6 {
		for i, e := range ph.Edges {
			if c10MayYield(e, ev, ph.Block().Preds[i], depth+1) {
				return true
			}
		}
		return false
	}
	if v == ev || originValue(v) == originValue(ev) {
		if k, isNil := NilFact(at, ev); k && isNil {
			return false
		}
		// the block itself may end with the test (phi predecessor)
		return true
	}
	return false
}

// c10FailSucc returns the successor block taken when ev != nil, from the If
// that tests ev.
func c10FailSucc(ev ssa.Value) *ssa.BasicBlock {
	refs := ev.Referrers()
	if refs == nil {
		return nil
	}
	for _, u := range *refs {
		bo, ok := u.(*ssa.BinOp)
		if !ok || (bo.Op != token.NEQ && bo.Op != token.EQL) {
			continue
		}
		if !(IsNilConst(bo.X) || IsNilConst(bo.Y)) {
			continue
		}
		br := bo.Referrers()
		if br == nil {
			continue
		}
		for _, bu := range *br {
			if ifi, ok := bu.(*ssa.If); ok {
				b := ifi.Block()
				if bo.Op == token.NEQ {
					return b.Succs[0]
				}
				return b.Succs[1]
			}
		}
	}
	return nil
}

// c10LoopHeader returns the innermost natural-loop header dominating b whose
// loop contains b, or nil.
func c10LoopHeader(b *ssa.BasicBlock) *ssa.BasicBlock {
	for h := b; h != nil; h = h.Idom() {
		for _, p := range h.Preds {
			if h.Dominates(p) && (p == b || c10Reaches(b, p, h)) {
				return h
			}
		}
	}
	return nil
}

// c10Reaches: can control go from a to b without passing through avoid?
func c10Reaches(a, b, avoid *ssa.BasicBlock) bool {
	if a == b {
		return true
	}
	seen := map[*ssa.BasicBlock]bool{a: true}
	var walk func(x *ssa.BasicBlock) bool
	walk = func(x *ssa.BasicBlock) bool {
		for _, s := range x.Succs {
			if s == b {
				return true
			}
			if s == avoid || seen[s] {
				continue
			}
			seen[s] = true
			if walk(s) {
				return true
			}
		}
		return false
	}
	return walk(a)
}

// c10ReachesExitAvoiding returns a Return reachable from block from without
// entering block avoid (nil if none).
func c10ReachesExitAvoiding(from *ssa.BasicBlock, avoid map[*ssa.BasicBlock]bool) ssa.Instruction {
	if avoid[from] {
		return nil
	}
	seen := map[*ssa.BasicBlock]bool{from: true}
	var found ssa.Instruction
	var walk func(x *ssa.BasicBlock)
	walk = func(x *ssa.BasicBlock) {
		if found != nil {
			return
		}
		if len(x.Instrs) > 0 {
			if ret, ok := x.Instrs[len(x.Instrs)-1].(*ssa.Return); ok {
				found = ret
				return
			}
		}
		for _, s := range x.Succs {
			if avoid[s] || seen[s] {
				continue
			}
			seen[s] = true
			walk(s)
		}
	}
	walk(from)
	return found
}

// c10ContinuePoints: the blocks at which "the loop goes on with the next
// element": the header h and, for loops whose test sits at the bottom
// (range-over-int, rotated loops), the latch — a back-edge predecessor of h
// that does nothing but jump to h or choose between h and leaving the loop.
func c10ContinuePoints(h *ssa.BasicBlock) map[*ssa.BasicBlock]bool {
	out := map[*ssa.BasicBlock]bool{h: true}
	for _, p := range h.Preds {
		if !h.Dominates(p) || p == h {
			continue
		}
		latch := true
		for _, s := range p.Succs {
			if s != h && c10InLoopOf(h, s) {
				latch = false
			}
		}
		for _, in := range p.Instrs {
			switch in.(type) {
			case *ssa.BinOp, *ssa.If, *ssa.Jump, *ssa.DebugRef, *ssa.Phi:
			default:
				latch = false
			}
		}
		if latch {
			out[p] = true
		}
	}
	return out
}

// c10BatchConcrete resolves the concrete type BeginBatch returns (through
// MakeInterface and up to two static constructor calls).
func c10BatchConcrete(fn *ssa.Function, depth int) types.Type {
	if fn == nil || fn.Blocks == nil || depth > 2 {
		return nil
	}
	var res types.Type
	for _, ri := range Returns(fn) {
		if len(ri.Results) != 1 {
			return nil
		}
		var t types.Type
		v := ri.Results[0]
		if mi, ok := v.(*ssa.MakeInterface); ok {
			t = mi.X.Type()
		} else if call, ok := v.(*ssa.Call); ok {
			if f := call.Call.StaticCallee(); f != nil {
				t = c10BatchConcrete(f, depth+1)
			}
		} else if _, isIface := v.Type().Underlying().(*types.Interface); !isIface {
			t = v.Type()
		}
		if t == nil {
			return nil
		}
		if res != nil && !types.Identical(res, t) {
			return nil
		}
		res = t
	}
	return res
}

// c10MutationAccessor: invoke of sorted.Mutation.Key / Value.
func c10MutationAccessor(c CallSite) (kind byte, ok bool) {
	cc := c.Common()
	if !cc.IsInvoke() || !IsNamed(cc.Value.Type(), c10SortedPath, "Mutation") {
		return 0, false
	}
	switch cc.Method.Name() {
	case "Key":
		return 'K', true
	case "Value":
		return 'V', true
	}
	return 0, false
}

// c10SeedRecorded seeds a flow over a CommitBatch-like function with the
// places recorded keys/values come back out: sorted.Mutation accessors and
// loads of the struct fields the batch type's Set stored them into.
func c10SeedRecorded(f *c10Flow, fields map[c10FieldKey]map[byte]bool) (nV int) {
	for _, b := range f.fn.Blocks {
		for _, in := range b.Instrs {
			switch x := in.(type) {
			case *ssa.Call:
				if k, ok := c10MutationAccessor(CallSite{f.fn, x}); ok {
					f.source(x, fmt.Sprintf("%c:acc@%p", k, originValue(x.Call.Value)))
					if k == 'V' {
						nV++
					}
				}
			case *ssa.Field:
				if n := NamedOf(x.X.Type()); n != nil {
					for kind := range fields[c10FieldKey{n, x.Field}] {
						f.source(x, fmt.Sprintf("%c:fld@%p", kind, originValue(x.X)))
						if kind == 'V' {
							nV++
						}
					}
				}
			case *ssa.UnOp:
				if x.Op != token.MUL {
					continue
				}
				if fa, ok := x.X.(*ssa.FieldAddr); ok {
					if n := NamedOf(fa.X.Type()); n != nil {
						for kind := range fields[c10FieldKey{n, fa.Field}] {
							f.source(x, fmt.Sprintf("%c:fld@%p", kind, originValue(fa.X)))
							if kind == 'V' {
								nV++
							}
						}
					}
				}
			}
		}
	}
	return nV
}

// c10PromotedFrom describes where a promoted method of n comes from.
func c10PromotedFrom(n *types.Named, name string) (field types.Type, ok bool) {
	for _, t := range []types.Type{types.NewPointer(n), n} {
		obj, index, _ := types.LookupFieldOrMethod(t, true, n.Obj().Pkg(), name)
		if obj == nil || len(index) < 2 {
			continue
		}
		st, isStruct := n.Underlying().(*types.Struct)
		if !isStruct {
			return nil, false
		}
		return st.Field(index[0]).Type(), true
	}
	return nil, false
}

func c10RuleSize(p *Program, r *Reporter) {
	kvIface := p.Iface("pkg/sorted", "KeyValue")
	p.Func("pkg/sorted", "", "CheckSizes")
	impls := p.Implementers(kvIface, false)
	r.Analysed("keyvalue_implementers", len(impls))
	implSet := map[*types.Named]bool{}
	for _, n := range impls {
		implSet[n] = true
	}
	nGuards := 0
	doneBatch := map[*types.Named]map[c10FieldKey]map[byte]bool{}
	batchGuarding := map[*types.Named]bool{}
	for _, n := range impls {
		tkey := typeKey(n)
		// --- promoted methods: must come from a checked implementer or the interface itself
		declared := map[string]*ssa.Function{}
		for _, m := range []string{"Set", "BeginBatch", "CommitBatch"} {
			fn, decl := c10Method(p, n, m)
			if fn == nil {
				brokenf("anchor unresolved: method %s of %s", m, tkey)
			}
			if decl {
				declared[m] = fn
				continue
			}
			ft, ok := c10PromotedFrom(n, m)
			src := NamedOf(ft)
			switch {
			case ok && src != nil && implSet[src]:
				r.OKTable("V-size", tkey+"#"+m, p.Pos(n.Obj().Pos()), "promoted from embedded "+typeKey(ft)+", itself an enumerated implementer")
			case ok && src != nil && types.Identical(src.Underlying(), kvIface):
				r.OKTable("V-size", tkey+"#"+m, p.Pos(n.Obj().Pos()), "promoted from an embedded sorted.KeyValue interface value: the dynamic store is one of the enumerated implementers")
			default:
				r.Undecided("V-size", tkey+"#"+m, p.Pos(n.Obj().Pos()), "method is promoted from a field that is neither an enumerated implementer nor the interface")
			}
		}
		// --- direct path: Set(key, value)
		if fn := declared["Set"]; fn != nil {
			if len(fn.Params) != 3 {
				brokenf("anchor unresolved: %s does not have (recv, key, value) parameters", FuncKey(fn))
			}
			f := c10NewFlow(fn)
			f.source(fn.Params[1], "K:param")
			f.source(fn.Params[2], "V:param")
			f.run()
			cnt, guards := c10CheckSinks(p, r, f, "Set")
			if cnt == 0 {
				r.Violation("V-size", FuncKey(fn)+"#no-write", p.Pos(fn.Pos()), "Set hands its value to nothing: the implementation would drop every write (or the value flow could not be followed)")
			}
			nGuards += c10OversizeEdge(p, r, fn, guards)
		}
		// --- batch path
		bb, cb := declared["BeginBatch"], declared["CommitBatch"]
		if bb == nil && cb == nil {
			continue
		}
		if bb == nil || cb == nil {
			r.Undecided("V-size", tkey+"#batch", p.Pos(n.Obj().Pos()), "only one of BeginBatch/CommitBatch is declared on this type; cannot pair the batch type with its commit")
			continue
		}
		bt := NamedOf(c10BatchConcrete(bb, 0))
		if bt == nil {
			r.Undecided("V-size", FuncKey(bb)+"#batch-type", p.Pos(bb.Pos()), "cannot resolve the concrete batch type returned by BeginBatch")
			continue
		}
		bset, decl := c10Method(p, bt, "Set")
		if bset == nil || !decl || len(bset.Params) != 3 {
			r.Undecided("V-size", FuncKey(bb)+"#batch-type", p.Pos(bb.Pos()), "batch type "+typeKey(bt)+" has no declared Set(key, value)")
			continue
		}
		if _, seen := doneBatch[bt]; !seen {
			f := c10NewFlow(bset)
			f.source(bset.Params[1], "K:param")
			f.source(bset.Params[2], "V:param")
			f.run()
			guards := c10Guards(f)
			if len(guards) > 0 {
				cnt, gs := c10CheckSinks(p, r, f, "batch Set (guards for itself)")
				if cnt == 0 {
					r.Violation("V-size", FuncKey(bset)+"#no-write", p.Pos(bset.Pos()), "batch Set hands its value to nothing")
				}
				nGuards += c10OversizeEdge(p, r, bset, gs)
				batchGuarding[bt] = true
				doneBatch[bt] = nil
			} else {
				// recording batch: the value may only be stored into the batch itself
				bad := ""
				for _, e := range f.escapes {
					bad = "cannot follow the value: " + e
				}
				nStores := 0
				for _, s := range f.sinks {
					if len(c10Kinds(s.labels, 'V')) == 0 {
						continue
					}
					if s.call != nil {
						if c10Harmless(*s.call) {
							continue
						}
						bad = "hands the value to " + s.what + " without sorted.CheckSizes"
						continue
					}
					if !strings.HasPrefix(s.what, "store:&"+bset.Params[0].Name()+".") {
						bad = "stores the value outside the batch object (" + s.what + ") without sorted.CheckSizes"
						continue
					}
					nStores++
				}
				if bad == "" && nStores == 0 {
					bad = "does not record the value anywhere"
				}
				r.Check(bad == "", "V-size", FuncKey(bset)+"#records", p.Pos(bset.Pos()),
					"batch Set only records key/value inside the batch object; the size guard is owed by every CommitBatch that applies such a batch",
					"batch Set has no size guard and "+bad)
				doneBatch[bt] = f.fieldStores
			}
		}
		if batchGuarding[bt] {
			r.OKTable("V-size", FuncKey(cb)+"#batch", p.Pos(cb.Pos()), "batch type "+typeKey(bt)+" guards in its own Set (checked there)")
			continue
		}
		// CommitBatch applies recorded mutations: every value it hands over must be guarded
		f := c10NewFlow(cb)
		nV := c10SeedRecorded(f, doneBatch[bt])
		f.run()
		if nV == 0 {
			r.Undecided("V-size", FuncKey(cb)+"#batch", p.Pos(cb.Pos()), "batch type "+typeKey(bt)+" records values without a guard, but CommitBatch reads no recorded value (neither sorted.Mutation.Value nor a recorded field): cannot find where the batch is applied")
			continue
		}
		cnt, guards := c10CheckSinks(p, r, f, "CommitBatch (applies recorded mutations)")
		if cnt == 0 {
			r.Violation("V-size", FuncKey(cb)+"#no-write", p.Pos(cb.Pos()), "CommitBatch reads recorded values but hands them to nothing")
		}
		nGuards += c10OversizeEdge(p, r, cb, guards)
	}
	// accessor agreement: sorted.mutation.Key/Value return the fields sorted.batch.Set stored key/value into
	c10AccessorAgreement(p, r)
	r.Analysed("checksizes_guard_sites", nGuards)
	if nGuards < 12 {
		r.Violation("V-size", "guard-sites", "pkg/sorted/kv.go", fmt.Sprintf("only %d sorted.CheckSizes guard sites found in implementers of sorted.KeyValue (12 confirmed on the pinned tree)", nGuards))
	}
	r.Floor("V-size", 40)
}

// c10AccessorAgreement: the generic batch records (key,value) into fields that
// mutation.Key()/Value() read back — CommitBatch implementations rely on it.
func c10AccessorAgreement(p *Program, r *Reporter) {
	bset := p.Func("pkg/sorted", "batch", "Set")
	f := c10NewFlow(bset)
	f.source(bset.Params[1], "K:param")
	f.source(bset.Params[2], "V:param")
	f.run()
	mut := p.NamedType("pkg/sorted", "mutation")
	for _, acc := range []struct {
		name string
		kind byte
	}{{"Key", 'K'}, {"Value", 'V'}} {
		fn := p.Func("pkg/sorted", "mutation", acc.name)
		ok := false
		rets := Returns(fn)
		for _, ri := range rets {
			ok = false
			if len(ri.Results) != 1 {
				break
			}
			var key c10FieldKey
			switch x := ri.Results[0].(type) {
			case *ssa.Field:
				key = c10FieldKey{NamedOf(x.X.Type()), x.Field}
			case *ssa.UnOp:
				if fa, isFA := x.X.(*ssa.FieldAddr); isFA && x.Op == token.MUL {
					key = c10FieldKey{NamedOf(fa.X.Type()), fa.Field}
				}
			}
			kinds := f.fieldStores[key]
			ok = key.typ == mut && len(kinds) == 1 && kinds[acc.kind]
			if !ok {
				break
			}
		}
		r.Check(ok && len(rets) > 0, "V-size", FuncKey(fn)+"#accessor", p.Pos(fn.Pos()),
			"returns exactly the field into which (*batch).Set stored its "+acc.name+" parameter",
			"does not return the field into which (*batch).Set stored its "+strings.ToLower(acc.name)+": every CommitBatch that sizes and applies m.Key()/m.Value() would see the wrong bytes")
	}
}

// ===========================================================================
// V-txn

func c10IsKVDB(c CallSite, names ...string) bool {
	for _, m := range names {
		if c.IsStatic("modernc.org/kv", "DB", m) {
			return true
		}
	}
	return false
}

func c10IsSQLTx(c CallSite, names ...string) bool {
	for _, m := range names {
		if c.IsStatic("database/sql", "Tx", m) {
			return true
		}
	}
	return false
}

func c10RuleTxn(p *Program, r *Reporter) {
	p.Func("pkg/sorted/kvfile", "kvis", "CommitBatch")
	n := 0
	for _, fn := range p.FuncsUnder("pkg/sorted") {
		if fn.Parent() != nil || IsTestSupportPkg(RelPkg(fn.Pkg.Pkg)) {
			continue
		}
		for _, c := range CallsIn(fn, false) {
			if c10IsKVDB(c, "BeginTransaction") && c.Value() != nil {
				n++
				c10CheckKVTxn(p, r, fn, c)
			}
		}
	}
	if n == 0 {
		r.Violation("V-txn", "pkg/sorted/kvfile#BeginTransaction", "pkg/sorted/kvfile/kvfile.go", "no (*kv.DB).BeginTransaction call left in pkg/sorted: kvfile batches are no longer applied as one unit")
	}
	r.Analysed("kv_transactions", n)
	c10CheckSQLCommit(p, r)
	c10CheckNilTx(p, r)
	r.Floor("V-txn", 14)
}

type c10TxnState struct {
	begun, done bool
	flags       map[*ssa.Alloc]int8 // 0 false, 1 true, -1 unknown
	defers      []*ssa.Defer
}

func (s c10TxnState) key(b *ssa.BasicBlock) string {
	var fl []string
	for a, v := range s.flags {
		fl = append(fl, fmt.Sprintf("%p=%d", a, v))
	}
	sort.Strings(fl)
	return fmt.Sprintf("%d|%v|%v|%s|%d", b.Index, s.begun, s.done, strings.Join(fl, ","), len(s.defers))
}

func (s c10TxnState) clone() c10TxnState {
	o := c10TxnState{begun: s.begun, done: s.done, flags: map[*ssa.Alloc]int8{}}
	for k, v := range s.flags {
		o.flags[k] = v
	}
	o.defers = append([]*ssa.Defer(nil), s.defers...)
	return o
}

// c10ClosureEnds reports whether every path through literal cl calls
// Commit/Rollback on a kv.DB, given the known values of captured bool flags.
func c10ClosureEnds(cl *ssa.Function, flags map[*ssa.Alloc]int8) bool {
	if cl == nil || len(cl.Blocks) == 0 || len(cl.Blocks[0].Instrs) == 0 {
		return false
	}
	stop := func(in ssa.Instruction) bool {
		ci, ok := in.(ssa.CallInstruction)
		return ok && c10IsKVDB(CallSite{cl, ci}, "Commit", "Rollback")
	}
	first := cl.Blocks[0].Instrs[0]
	if stop(first) {
		return true
	}
	assume := func(cond ssa.Value) (bool, bool) {
		neg := false
		for {
			if u, ok := cond.(*ssa.UnOp); ok && u.Op == token.NOT {
				cond, neg = u.X, !neg
				continue
			}
			break
		}
		ld, ok := cond.(*ssa.UnOp)
		if !ok || ld.Op != token.MUL {
			return false, false
		}
		cell, ok := varOf(ld.X)
		if !ok {
			return false, false
		}
		al, ok := cell.(*ssa.Alloc)
		if !ok {
			return false, false
		}
		// the literal itself must not assign the flag
		for _, st := range storesTo(al) {
			if st.Parent() == cl {
				return false, false
			}
		}
		v, ok := flags[al]
		if !ok || v < 0 {
			return false, false
		}
		return true, (v == 1) != neg
	}
	return len(LeakingExits(PathQuery{Start: first, Stop: stop, Assume: assume, IgnorePanics: true})) == 0
}

func c10CheckKVTxn(p *Program, r *Reporter, fn *ssa.Function, begin CallSite) {
	key := FuncKey(fn) + "#BeginTransaction"
	site := p.Pos(begin.Pos())
	ev, _, discarded := ErrValue(begin.Value())
	fail := (*ssa.BasicBlock)(nil)
	if !discarded {
		fail = c10FailSucc(ev)
	}
	if fail == nil {
		r.Violation("V-txn", key+"#checked", site, "the error of BeginTransaction is not tested: after a failed begin the mutations would be applied outside any transaction")
		return
	}
	dbPath := AccessPath(begin.Args()[0])
	// (a) every path from the successful begin ends in Commit or Rollback
	var leaks []string
	seen := map[string]bool{}
	var walk func(b *ssa.BasicBlock, from int, st c10TxnState)
	walk = func(b *ssa.BasicBlock, from int, st c10TxnState) {
		if from == 0 {
			k := st.key(b)
			if seen[k] {
				return
			}
			seen[k] = true
		}
		st = st.clone()
		for i := from; i < len(b.Instrs); i++ {
			switch x := b.Instrs[i].(type) {
			case *ssa.Store:
				if cell, ok := varOf(x.Addr); ok {
					if al, ok := cell.(*ssa.Alloc); ok {
						if bt, ok := al.Type().(*types.Pointer).Elem().Underlying().(*types.Basic); ok && bt.Kind() == types.Bool {
							st.flags[al] = -1
							if c, ok := x.Val.(*ssa.Const); ok && c.Value != nil {
								if c.Value.String() == "true" {
									st.flags[al] = 1
								} else {
									st.flags[al] = 0
								}
							}
						}
					}
				}
			case *ssa.Defer:
				st.defers = append(st.defers, x)
			case *ssa.Call:
				c := CallSite{fn, x}
				if x == begin.Value() {
					st.begun, st.done = true, false
				} else if c10IsKVDB(c, "Commit", "Rollback") && AccessPath(c.Args()[0]) == dbPath {
					st.done = true
				}
			case *ssa.If:
				// the test of the begin error: no transaction is open on the failure edge
				if bo, ok := x.Cond.(*ssa.BinOp); ok && (bo.X == ev || bo.Y == ev) && (IsNilConst(bo.X) || IsNilConst(bo.Y)) {
					for _, s := range b.Succs {
						ns := st.clone()
						if s == fail {
							ns.begun = false
						}
						walk(s, 0, ns)
					}
					return
				}
			case *ssa.Return:
				if !st.begun || st.done {
					return
				}
				for _, d := range st.defers {
					dc := CallSite{fn, d}
					if c10IsKVDB(dc, "Commit", "Rollback") {
						return
					}
					if cl := ClosureOf(dc); cl != nil && c10ClosureEnds(cl, st.flags) {
						return
					}
				}
				leaks = append(leaks, fmt.Sprintf("line %d", p.Fset.Position(x.Pos()).Line))
				return
			case *ssa.Panic:
				return
			}
		}
		for _, s := range b.Succs {
			walk(s, 0, st)
		}
	}
	walk(fn.Blocks[0], 0, c10TxnState{flags: map[*ssa.Alloc]int8{}})
	r.Check(len(leaks) == 0, "V-txn", key+"#paired", site,
		"every path from the successful BeginTransaction to an exit passes Commit or Rollback on the same DB (deferred flag-guarded rollback evaluated with the flag's value on that path)",
		"transaction left open (neither Commit nor Rollback) on the exit(s) at "+strings.Join(dedupe(leaks), ", ")+": the kv file stays inside a transaction and later writes are swallowed by it")

	// (b) writes and the commit happen only on the success edge of the begin
	// (c) no failure edge of a write reaches Commit
	var commits []CallSite
	for _, c := range CallsIn(fn, true) {
		if c10IsKVDB(c, "Commit") {
			commits = append(commits, c)
		}
	}
	nw := 0
	for _, c := range CallsIn(fn, false) {
		if !c10IsKVDB(c, "Set", "Delete", "Put", "Inc", "Commit") || c.Value() == nil {
			continue
		}
		nw++
		ck := key + "#" + c.MethodName()
		if ok, why := SuccessDominates(begin.Value(), c.Instr); !ok {
			r.Violation("V-txn", ck+"#inside", p.Pos(c.Pos()), "write is not on the success edge of BeginTransaction ("+why+"): it would be applied outside the transaction and survive a rollback")
		} else {
			r.OK("V-txn", ck+"#inside", p.Pos(c.Pos()), "on the success edge of BeginTransaction")
		}
		if c.MethodName() == "Commit" {
			continue
		}
		wev, _, wdisc := ErrValue(c.Value())
		wfail := (*ssa.BasicBlock)(nil)
		if !wdisc {
			wfail = c10FailSucc(wev)
		}
		if wfail == nil {
			r.Violation("V-txn", ck+"#failure-not-committed", p.Pos(c.Pos()), "the error of this write is not tested: a batch whose write failed would still be committed, partially applied")
			continue
		}
		reach := BlocksFrom(wfail)
		bad := ""
		for _, cm := range commits {
			if cm.Fn == fn && reach[cm.Block()] {
				bad = fmt.Sprintf("the failure edge of this write reaches Commit at line %d: a partially applied batch would be committed", p.Fset.Position(cm.Pos()).Line)
			}
		}
		r.Check(bad == "", "V-txn", ck+"#failure-not-committed", p.Pos(c.Pos()), "no path from the failure edge of this write reaches Commit", bad)
	}
	if nw < 2 {
		r.Violation("V-txn", key+"#writes", site, "no write and commit found after BeginTransaction")
	}
	// (e) one write-mode mutex is held from the begin to every commit/rollback
	li := AnalyzeLocks(fn, LockSet{})
	var common LockSet
	first := true
	for _, c := range CallsIn(fn, true) {
		if !c10IsKVDB(c, "BeginTransaction", "Set", "Delete", "Commit", "Rollback") {
			continue
		}
		held := LockSet{}
		for k, v := range li.HeldAt(c.Instr) {
			if v == 'W' {
				held[k] = v
			}
		}
		if first {
			common, first = held, false
		} else {
			common = meet(common, held)
		}
	}
	r.Check(len(common) > 0, "V-txn", key+"#serialized", site,
		"a mutex is held in write mode at BeginTransaction, every write, Commit and Rollback: "+common.String(),
		"no single mutex is held from BeginTransaction to Commit/Rollback: kv.DB transactions are per database, so two concurrent batches would nest and one's rollback would undo the other")
}

// c10FieldNilFact: what do the dominating branch conditions of block b say
// about the field fld of the struct base points to (tested through a load)?
func c10FieldNilFact(b *ssa.BasicBlock, base ssa.Value, fld int) (known, isNil bool) {
	for _, f := range FactsAt(b) {
		cond, val := f.Cond, f.Val
		for {
			if u, ok := cond.(*ssa.UnOp); ok && u.Op == token.NOT {
				cond, val = u.X, !val
				continue
			}
			break
		}
		bo, ok := cond.(*ssa.BinOp)
		if !ok || (bo.Op != token.EQL && bo.Op != token.NEQ) {
			continue
		}
		var other ssa.Value
		if IsNilConst(bo.Y) {
			other = bo.X
		} else if IsNilConst(bo.X) {
			other = bo.Y
		} else {
			continue
		}
		if bs, idx, ok := c10FieldLoad(other); ok && idx == fld && sameOrigin(bs, base) {
			return true, (bo.Op == token.EQL) == val
		}
	}
	return false, false
}

// c10FieldLoad: v is a load of field idx of the struct base points to.
func c10FieldLoad(v ssa.Value) (base ssa.Value, idx int, ok bool) {
	switch x := v.(type) {
	case *ssa.UnOp:
		if x.Op == token.MUL {
			if fa, ok := x.X.(*ssa.FieldAddr); ok {
				return fa.X, fa.Field, true
			}
		}
	case *ssa.Field:
		return x.X, x.Field, true
	}
	return nil, 0, false
}

func c10CheckSQLCommit(p *Program, r *Reporter) {
	fn := p.Func("pkg/sorted/sqlkv", "KeyValue", "CommitBatch")
	key := FuncKey(fn)
	var ends []CallSite
	for _, c := range CallsIn(fn, false) {
		if c10IsSQLTx(c, "Commit", "Rollback") && !c.IsDefer() && !c.IsGo() {
			ends = append(ends, c)
		}
	}
	isEnd := map[ssa.Instruction]bool{}
	for _, c := range ends {
		isEnd[c.Instr] = true
	}
	// s1: exactly one of Commit/Rollback on every path that has a batch with a transaction
	type st struct {
		b    *ssa.BasicBlock
		n    int
		noTx bool
	}
	isTxLoad := func(v ssa.Value) bool {
		_, _, ok := c10FieldLoad(v)
		return ok && IsNamed(v.Type(), "database/sql", "Tx")
	}
	seen := map[st]bool{}
	var bad []string
	var walk func(b *ssa.BasicBlock, n int, noTx bool)
	walk = func(b *ssa.BasicBlock, n int, noTx bool) {
		if seen[st{b, n, noTx}] {
			return
		}
		seen[st{b, n, noTx}] = true
		for _, in := range b.Instrs {
			if isEnd[in] {
				n++
			}
			if ifi, ok := in.(*ssa.If); ok {
				// `if bt.tx != nil`: on the nil edge there is no transaction to end
				if bo, ok := ifi.Cond.(*ssa.BinOp); ok && (bo.Op == token.EQL || bo.Op == token.NEQ) &&
					(IsNilConst(bo.Y) && isTxLoad(bo.X) || IsNilConst(bo.X) && isTxLoad(bo.Y)) {
					nilSucc := 0
					if bo.Op == token.NEQ {
						nilSucc = 1
					}
					for i, s := range b.Succs {
						walk(s, n, noTx || i == nilSucc)
					}
					return
				}
			}
			if ret, ok := in.(*ssa.Return); ok {
				switch {
				case n == 1:
				case n == 0 && (noTx || c10OnAssertFailEdge(b)):
				case n == 0:
					bad = append(bad, fmt.Sprintf("neither Commit nor Rollback before the return at line %d: the transaction (and its connection) stays open", p.Fset.Position(ret.Pos()).Line))
				default:
					bad = append(bad, fmt.Sprintf("both/several Commit/Rollback calls before the return at line %d", p.Fset.Position(ret.Pos()).Line))
				}
				return
			}
		}
		for _, s := range b.Succs {
			walk(s, n, noTx)
		}
	}
	walk(fn.Blocks[0], 0, false)
	r.Check(len(bad) == 0 && len(ends) >= 2, "V-txn", key+"#commit-xor-rollback", p.Pos(fn.Pos()),
		"every path that holds a *batchTx ends the sql transaction exactly once (Commit or Rollback)", strings.Join(dedupe(bad), "; ")+c10If(len(ends) < 2, " CommitBatch no longer contains both a Commit and a Rollback", ""))
	for _, c := range ends {
		base, _, ok := c10FieldLoad(c.Args()[0])
		if !ok {
			r.Undecided("V-txn", key+"#"+c.MethodName(), p.Pos(c.Pos()), "the *sql.Tx is not loaded from a field of the batch object")
			continue
		}
		errIdx := c10ErrField(base.Type())
		if errIdx < 0 {
			r.Undecided("V-txn", key+"#"+c.MethodName(), p.Pos(c.Pos()), "the batch type has no single error field")
			continue
		}
		k, isNil := c10FieldNilFact(c.Block(), base, errIdx)
		if c.MethodName() == "Commit" {
			r.Check(k && isNil, "V-txn", key+"#Commit", p.Pos(c.Pos()),
				"Commit is reached only where the batch's sticky error is known nil",
				"Commit is not dominated by the test that the batch's sticky error is nil: a batch one of whose statements failed would be committed, partially applied")
			continue
		}
		// Rollback: must be on the error edge, and the function must then return the sticky error
		okR := k && !isNil
		why := "Rollback is not on the sticky-error edge"
		if okR {
			idx := ErrResultIndex(fn)
			// every return that can FOLLOW the Rollback (reachable from it), not only
			// those its block dominates: with `if bt.tx != nil { Rollback }; return
			// bt.err` the return is shared with the no-transaction path
			after := ReachableFrom(c.Instr, nil)
			for _, ri := range Returns(fn) {
				if !after[ri.Ret] {
					continue
				}
				v := ri.Results[idx]
				b2, i2, isLoad := c10FieldLoad(v)
				if isLoad && i2 == errIdx && sameOrigin(b2, base) {
					continue
				}
				if !IsNilConst(v) && isNonNilErrorExpr(v) {
					continue
				}
				okR, why = false, fmt.Sprintf("after Rollback the return at line %d does not yield the batch's error: the caller would take a rolled-back batch for a committed one", p.Fset.Position(ri.Ret.Pos()).Line)
			}
		}
		r.Check(okR, "V-txn", key+"#Rollback", p.Pos(c.Pos()), "Rollback only on the sticky-error edge, and the sticky error is returned afterwards", why)
	}
}

func c10If(c bool, a, b string) string {
	if c {
		return a
	}
	return b
}

// c10OnAssertFailEdge: block b is dominated by the ok==false edge of a
// comma-ok type assertion.
func c10OnAssertFailEdge(b *ssa.BasicBlock) bool {
	for _, f := range FactsAt(b) {
		if ex, ok := f.Cond.(*ssa.Extract); ok && ex.Index == 1 && !f.Val {
			if ta, ok := ex.Tuple.(*ssa.TypeAssert); ok && ta.CommaOk {
				return true
			}
		}
	}
	return false
}

// c10ErrField returns the index of the only field of type error in the struct
// t points to, or -1.
func c10ErrField(t types.Type) int {
	if pt, ok := t.Underlying().(*types.Pointer); ok {
		t = pt.Elem()
	}
	st, ok := t.Underlying().(*types.Struct)
	if !ok {
		return -1
	}
	idx := -1
	for i := 0; i < st.NumFields(); i++ {
		if isErrorType(st.Field(i).Type()) {
			if idx >= 0 {
				return -1
			}
			idx = i
		}
	}
	return idx
}

// c10CheckNilTx: a pointer stored into a struct field together with the error
// it was co-returned with (beginTx: batchTx{tx: tx, err: err}) may be nil
// whenever that error field is non-nil; it may be used only where the error
// field is known nil or the pointer itself known non-nil.
func c10CheckNilTx(p *Program, r *Reporter) {
	const rel = "pkg/sorted/sqlkv"
	fns := p.FuncsIn(rel)
	type pair struct {
		typ       *types.Named
		ptr, errI int
		where     *ssa.Function
	}
	var pairs []pair
	for _, fn := range fns {
		for _, b := range fn.Blocks {
			for _, in := range b.Instrs {
				st, ok := in.(*ssa.Store)
				if !ok {
					continue
				}
				fa, ok := st.Addr.(*ssa.FieldAddr)
				if !ok {
					continue
				}
				ex, ok := st.Val.(*ssa.Extract)
				if !ok || !isNilable(ex.Type()) || isErrorType(ex.Type()) {
					continue
				}
				call, ok := ex.Tuple.(*ssa.Call)
				if !ok {
					continue
				}
				ev, hasErr, _ := ErrValue(call)
				if !hasErr || ev == nil {
					continue
				}
				// the error of the same call stored into another field of the same object
				for _, u := range *ev.Referrers() {
					st2, ok := u.(*ssa.Store)
					if !ok || st2.Val != ev {
						continue
					}
					fa2, ok := st2.Addr.(*ssa.FieldAddr)
					if ok && fa2.X == fa.X && NamedOf(fa.X.Type()) != nil {
						pairs = append(pairs, pair{NamedOf(fa.X.Type()), fa.Field, fa2.Field, fn})
					}
				}
			}
		}
	}
	if len(pairs) == 0 {
		r.Violation("V-txn", rel+"#nil-tx#constructor", rel, "no constructor stores a (*sql.Tx, error) pair into a batch object any more; the nil-tx rule has nothing to stand on")
		return
	}
	n := 0
	for _, pr := range pairs {
		for _, fn := range fns {
			for _, b := range fn.Blocks {
				for _, in := range b.Instrs {
					ld, ok := in.(*ssa.UnOp)
					if !ok || ld.Op != token.MUL {
						continue
					}
					fa, ok := ld.X.(*ssa.FieldAddr)
					if !ok || NamedOf(fa.X.Type()) != pr.typ || fa.Field != pr.ptr {
						continue
					}
					uses := c10PointerUses(ld)
					if len(uses) == 0 {
						continue
					}
					n++
					construct := FuncKey(fn) + "#nil-tx"
					bad := ""
					for _, u := range uses {
						if k, isNil := c10FieldNilFact(u.Block(), fa.X, pr.errI); k && isNil {
							continue
						}
						if k, isNil := c10FieldNilFact(u.Block(), fa.X, pr.ptr); k && !isNil {
							continue
						}
						if k, isNil := NilFact(u.Block(), ld); k && !isNil {
							continue
						}
						bad = fmt.Sprintf("%s.%s is used at line %d where %s is not known nil; %s stores both from one failing call, so the pointer is nil there (nil-pointer panic instead of an error)",
							pr.typ.Obj().Name(), fieldName(fa.X.Type(), pr.ptr), p.Fset.Position(u.Pos()).Line, fieldName(fa.X.Type(), pr.errI), FuncKey(pr.where))
						break
					}
					r.Check(bad == "", "V-txn", construct, p.Pos(ld.Pos()),
						fmt.Sprintf("%d use(s) of the co-stored pointer, all where the error field is known nil or the pointer known non-nil", len(uses)), bad)
				}
			}
		}
	}
	if n < 6 {
		r.Violation("V-txn", rel+"#nil-tx#uses", rel, fmt.Sprintf("only %d uses of the co-stored transaction pointer found (7 on the pinned tree)", n))
	}
}

// c10PointerUses lists instructions that would fault or misbehave on a nil
// pointer v: method calls with v as receiver or argument, conversions to an
// interface that is then used, field access.
func c10PointerUses(v ssa.Value) []ssa.Instruction {
	var out []ssa.Instruction
	refs := v.Referrers()
	if refs == nil {
		return nil
	}
	for _, u := range *refs {
		switch x := u.(type) {
		case ssa.CallInstruction:
			out = append(out, x)
		case *ssa.MakeInterface:
			out = append(out, x)
		case *ssa.FieldAddr:
			out = append(out, x)
		case *ssa.UnOp:
			if x.Op == token.MUL {
				out = append(out, x)
			}
		}
	}
	return out
}

// ===========================================================================
// V-buffer-locks

const c10BufRel = "pkg/sorted/buffer"

// c10FieldChain strips loads and field selections: for `(*(&kv.buf))` it
// returns (kv, [idx(buf)]).
func c10FieldChain(v ssa.Value) (root ssa.Value, idx []int) {
	for i := 0; i < 12; i++ {
		switch x := v.(type) {
		case *ssa.UnOp:
			if x.Op != token.MUL {
				return v, idx
			}
			if _, ok := x.X.(*ssa.FieldAddr); !ok {
				return v, idx
			}
			v = x.X
		case *ssa.FieldAddr:
			idx = append([]int{x.Field}, idx...)
			v = x.X
		case *ssa.Field:
			idx = append([]int{x.Field}, idx...)
			v = x.X
		default:
			return v, idx
		}
	}
	return v, idx
}

type c10BufInfo struct {
	typ           *types.Named
	bufIdx, backI int
}

// role of a store value: "buf" / "back" / "" — by the constructor's parameter
// positions (New(buffer, backing, ...)), not by field names.
func (bi *c10BufInfo) role(fn *ssa.Function, v ssa.Value) string {
	root, idx := c10FieldChain(v)
	if len(idx) != 1 || len(fn.Params) == 0 || NamedOf(root.Type()) != bi.typ {
		return ""
	}
	switch idx[0] {
	case bi.bufIdx:
		return "buf"
	case bi.backI:
		return "back"
	}
	return ""
}

// batchRole: the store a batch value was begun on ("" when unknown or mixed).
func (bi *c10BufInfo) batchRole(fn *ssa.Function, v ssa.Value, depth int) string {
	roles := map[string]bool{}
	seen := map[ssa.Value]bool{}
	var walk func(v ssa.Value)
	walk = func(v ssa.Value) {
		if v == nil || seen[v] || IsNilConst(v) {
			return
		}
		seen[v] = true
		switch x := v.(type) {
		case *ssa.Call:
			if x.Call.IsInvoke() && x.Call.Method.Name() == "BeginBatch" {
				roles[bi.role(fn, x.Call.Value)] = true
				return
			}
		case *ssa.Phi:
			for _, e := range x.Edges {
				walk(e)
			}
			return
		case *ssa.UnOp:
			if x.Op == token.MUL {
				if cell, ok := varOf(x.X); ok {
					sts := storesTo(cell)
					for _, st := range sts {
						walk(st.Val)
					}
					if len(sts) > 0 {
						return
					}
				}
			}
		}
		roles["?"] = true
	}
	walk(v)
	if len(roles) != 1 {
		return ""
	}
	for r := range roles {
		if r != "?" {
			return r
		}
	}
	return ""
}

// exceptions: accesses to buf/back that deliberately happen without kv.mu.
var c10BufLockExceptions = map[string]string{
	"pkg/sorted/buffer.(*KeyValue).Find#buf.Find":    "iterators outlive the call; holding the read lock for an iterator's life would block Flush indefinitely (source TODO: 'hold read lock while iterating?') — accepted, and excluded from what this rule decides",
	"pkg/sorted/buffer.(*KeyValue).Find#back.Find":   "same as buf.Find",
	"pkg/sorted/buffer.(*KeyValue).Close#back.Close": "terminal call after Flush released mu; using a store concurrently with its Close is the caller's error for every sorted.KeyValue",
}

func c10RuleBuffer(p *Program, r *Reporter) {
	typ := p.NamedType(c10BufRel, "KeyValue")
	ctor := p.Func(c10BufRel, "", "New")
	bi := &c10BufInfo{typ: typ, bufIdx: -1, backI: -1}
	for _, b := range ctor.Blocks {
		for _, in := range b.Instrs {
			st, ok := in.(*ssa.Store)
			if !ok {
				continue
			}
			fa, ok := st.Addr.(*ssa.FieldAddr)
			if !ok || NamedOf(fa.X.Type()) != typ {
				continue
			}
			if len(ctor.Params) >= 2 && st.Val == ssa.Value(ctor.Params[0]) {
				bi.bufIdx = fa.Field
			}
			if len(ctor.Params) >= 2 && st.Val == ssa.Value(ctor.Params[1]) {
				bi.backI = fa.Field
			}
		}
	}
	if bi.bufIdx < 0 || bi.backI < 0 {
		brokenf("anchor unresolved: buffer.New no longer stores its (buffer, backing) parameters into fields of KeyValue")
	}
	flush := p.Func(c10BufRel, "KeyValue", "Flush")
	var methods []*ssa.Function
	for _, fn := range p.FuncsIn(c10BufRel) {
		if fn.Parent() == nil && fn.Signature.Recv() != nil && NamedOf(fn.Signature.Recv().Type()) == typ {
			methods = append(methods, fn)
		}
	}
	muPath := func(fn *ssa.Function, field string) string { return "&" + fn.Params[0].Name() + "." + field }
	nAcc := 0
	usedExc := map[string]bool{}
	locksTaken := map[*ssa.Function][]string{} // receiver-relative lock paths a method acquires itself
	for _, fn := range methods {
		for _, c := range CallsIn(fn, false) {
			if k, pth, ok := mutexOp(c); ok && (k == "Lock" || k == "RLock") && !c.IsDefer() {
				locksTaken[fn] = append(locksTaken[fn], pth)
			}
		}
	}
	for _, fn := range methods {
		li := AnalyzeLocks(fn, LockSet{})
		for _, c := range CallsIn(fn, true) {
			// L1: buf/back accesses
			if c.Common().IsInvoke() {
				role := bi.role(c.Fn, c.Common().Value)
				if role == "" {
					continue
				}
				nAcc++
				what := role + "." + c.MethodName()
				construct := FuncKey(fn) + "#" + what
				site := p.Pos(c.Pos())
				need := byte('R')
				if fn == flush {
					need = 'W'
				}
				if li.Holds(c.Instr, muPath(fn, "mu"), need) {
					r.OK("V-buffer-locks", construct, site, fmt.Sprintf("kv.mu held (%c needed) at the access: %s", need, li.HeldAt(c.Instr)))
					continue
				}
				if why, ok := c10BufLockExceptions[construct]; ok {
					usedExc[construct] = true
					r.OKTable("V-buffer-locks", construct, site, "exception: "+why)
					continue
				}
				mode := "read"
				if need == 'W' {
					mode = "write"
				}
				r.Violation("V-buffer-locks", construct, site, fmt.Sprintf("%s is called without kv.mu held for %s (held: %s): a Flush moving keys from buf to back can interleave, so the key is seen in neither store or a write is deleted by the flush", what, mode, li.HeldAt(c.Instr)))
				continue
			}
			// L3: no call of a sibling method that takes a lock the caller holds
			if f := c.Callee(); f != nil && len(locksTaken[f]) > 0 && len(c.Args()) > 0 && !c.IsGo() {
				for _, lp := range locksTaken[f] {
					tp, ok := TranslatePath(c, f, lp)
					if !ok {
						continue
					}
					held := li.HeldAt(c.Instr)
					if c.IsDefer() {
						continue
					}
					_, isHeld := held[tp]
					r.Check(!isHeld, "V-buffer-locks", FuncKey(fn)+"#calls-"+f.Name()+"#"+lp, p.Pos(c.Pos()),
						"calls "+f.Name()+" (which takes "+lp+") without holding that lock",
						"calls "+f.Name()+", which locks "+tp+", while already holding it ("+held.String()+"): sync mutexes are not reentrant — self-deadlock")
				}
			}
		}
		// L2: buffered only under bufMu
		for _, b := range fn.Blocks {
			for _, in := range b.Instrs {
				fa, ok := in.(*ssa.FieldAddr)
				if !ok || NamedOf(fa.X.Type()) != typ || fieldName(fa.X.Type(), fa.Field) != "buffered" {
					continue
				}
				for _, u := range *fa.Referrers() {
					switch u.(type) {
					case *ssa.Store, *ssa.UnOp:
						nAcc++
						r.Check(li.Holds(u, muPath(fn, "bufMu"), 'W'), "V-buffer-locks", FuncKey(fn)+"#buffered", p.Pos(u.Pos()),
							"kv.buffered accessed under kv.bufMu", "kv.buffered accessed without kv.bufMu (held: "+li.HeldAt(u).String()+"): concurrent Sets race on the byte count that triggers the automatic flush")
					}
				}
			}
		}
	}
	for k := range c10BufLockExceptions {
		if !usedExc[k] {
			r.Note("V-buffer-locks exception %s no longer needed", k)
		}
	}
	r.Analysed("buffer_store_accesses", nAcc)

	// L4 + L5: Flush order and move agreement
	c10FlushOrder(p, r, bi, flush)
	// L6: deletes reach both stores
	c10BothDeletes(p, r, bi)
	// L7: Get shadowing
	c10GetShadow(p, r, bi)
	r.Floor("V-buffer-locks", 30)
}

func c10FlushOrder(p *Program, r *Reporter, bi *c10BufInfo, flush *ssa.Function) {
	var backCommit, bufCommit *ssa.Call
	for _, c := range CallsIn(flush, false) {
		if !c.Common().IsInvoke() || c.MethodName() != "CommitBatch" || c.Value() == nil {
			continue
		}
		role := bi.role(flush, c.Common().Value)
		brole := bi.batchRole(flush, c.Common().Args[0], 0)
		if role != brole {
			r.Violation("V-buffer-locks", FuncKey(flush)+"#commit-"+role, p.Pos(c.Pos()), fmt.Sprintf("a batch begun on %q is committed to %q: every sorted.KeyValue rejects foreign batch types", brole, role))
			continue
		}
		switch role {
		case "back":
			backCommit = c.Value()
		case "buf":
			bufCommit = c.Value()
		}
	}
	if backCommit == nil || bufCommit == nil {
		r.Violation("V-buffer-locks", FuncKey(flush)+"#flush-order", p.Pos(flush.Pos()), "Flush no longer commits one batch to back and one to buf")
		return
	}
	ok, why := SuccessDominates(backCommit, bufCommit)
	r.Check(ok, "V-buffer-locks", FuncKey(flush)+"#flush-order", p.Pos(bufCommit.Pos()),
		"the delete batch is committed to buf only on the success edge of committing the copy to back",
		"the delete batch is committed to buf although the copy to back has not (successfully) been committed ("+why+"): a failing backing store loses the buffered writes")
	// L5: every key deleted from buf was copied (key and value of the same iterator) to back
	n := 0
	for _, c := range CallsIn(flush, false) {
		if !c.Common().IsInvoke() || c.MethodName() != "Delete" || bi.batchRole(flush, c.Common().Value, 0) != "buf" {
			continue
		}
		n++
		kIt := c10IterAccessor(c.Common().Args[0], "Key")
		okMove := false
		if kIt != nil {
			for _, s := range CallsIn(flush, false) {
				if !s.Common().IsInvoke() || s.MethodName() != "Set" || bi.batchRole(flush, s.Common().Value, 0) != "back" {
					continue
				}
				sk, sv := c10IterAccessor(s.Common().Args[0], "Key"), c10IterAccessor(s.Common().Args[1], "Value")
				if sk == kIt && sv == kIt && (Precedes(s.Instr, c.Instr) || Precedes(c.Instr, s.Instr)) && c10IsFindOn(bi, flush, kIt, "buf") {
					okMove = true
				}
			}
		}
		r.Check(okMove, "V-buffer-locks", FuncKey(flush)+"#move", p.Pos(c.Pos()),
			"each key deleted from buf is, in the same iteration, also put into back's batch as back.Set(it.Key(), it.Value()) of the same buf iterator",
			"a key is deleted from buf without its key/value from the same buf iterator having been put into the back batch: the flush would drop the entry")
	}
	if n == 0 {
		r.Violation("V-buffer-locks", FuncKey(flush)+"#move", p.Pos(flush.Pos()), "Flush deletes nothing from buf: flushed entries would be copied again and shadow later deletes")
	}
}

// c10IterAccessor: v is `it.<name>()` invoked on a sorted.Iterator; returns the
// iterator value (origin) or nil.
func c10IterAccessor(v ssa.Value, name string) ssa.Value {
	call, ok := v.(*ssa.Call)
	if !ok || !call.Call.IsInvoke() || call.Call.Method.Name() != name || !IsNamed(call.Call.Value.Type(), c10SortedPath, "Iterator") {
		return nil
	}
	return originValue(call.Call.Value)
}

func c10IsFindOn(bi *c10BufInfo, fn *ssa.Function, it ssa.Value, role string) bool {
	call, ok := it.(*ssa.Call)
	return ok && call.Call.IsInvoke() && call.Call.Method.Name() == "Find" && bi.role(fn, call.Call.Value) == role
}

// c10PassesBefore: every path from (after) start reaches an instruction
// satisfying stop before it reaches a Return or block `limit` (the loop header).
func c10PassesBefore(start ssa.Instruction, stop func(ssa.Instruction) bool, limit *ssa.BasicBlock) bool {
	ok := true
	seen := map[*ssa.BasicBlock]bool{}
	var walk func(b *ssa.BasicBlock, from int)
	walk = func(b *ssa.BasicBlock, from int) {
		for i := from; i < len(b.Instrs); i++ {
			in := b.Instrs[i]
			if stop(in) {
				return
			}
			if _, isRet := in.(*ssa.Return); isRet {
				ok = false
				return
			}
			if _, isPanic := in.(*ssa.Panic); isPanic {
				return
			}
		}
		for _, s := range b.Succs {
			if s == limit {
				ok = false
				continue
			}
			if !seen[s] {
				seen[s] = true
				walk(s, 0)
			}
		}
	}
	walk(start.Block(), instrIndex(start)+1)
	return ok
}

func c10BothDeletes(p *Program, r *Reporter, bi *c10BufInfo) {
	// direct Delete
	del := p.Func(c10BufRel, "KeyValue", "Delete")
	for _, role := range []string{"buf", "back"} {
		var site ssa.Instruction
		isDel := func(in ssa.Instruction) bool {
			ci, ok := in.(*ssa.Call)
			if !ok || !ci.Call.IsInvoke() || ci.Call.Method.Name() != "Delete" || bi.role(del, ci.Call.Value) != role {
				return false
			}
			return len(ci.Call.Args) == 1 && originValue(ci.Call.Args[0]) == ssa.Value(del.Params[1])
		}
		first := del.Blocks[0].Instrs[0]
		ok := isDel(first) || len(LeakingExits(PathQuery{Start: first, Stop: isDel, IgnorePanics: true})) == 0
		for _, c := range CallsIn(del, false) {
			if isDel(c.Instr) {
				site = c.Instr
			}
		}
		pos := del.Pos()
		if site != nil {
			pos = site.Pos()
		}
		r.Check(ok && site != nil, "V-buffer-locks", FuncKey(del)+"#deletes-"+role, p.Pos(pos),
			"every path through Delete deletes the key from "+role,
			"some path through Delete does not delete the key from "+role+": a key deleted only from one layer reappears from the other (back) or after the next flush")
	}
	// batch deletes
	cb := p.Func(c10BufRel, "KeyValue", "CommitBatch")
	n := 0
	for _, c := range CallsIn(cb, false) {
		if !c.Common().IsInvoke() || c.MethodName() != "Delete" || bi.batchRole(cb, c.Common().Value, 0) != "buf" {
			continue
		}
		n++
		key := c.Common().Args[0]
		kb, ki, kok := c10FieldLoad(key)
		stop := func(in ssa.Instruction) bool {
			ci, ok := in.(*ssa.Call)
			if !ok || !ci.Call.IsInvoke() || ci.Call.Method.Name() != "Delete" || bi.batchRole(cb, ci.Call.Value, 0) != "back" {
				return false
			}
			b2, i2, ok2 := c10FieldLoad(ci.Call.Args[0])
			return ci.Call.Args[0] == key || kok && ok2 && i2 == ki && sameOrigin(b2, kb)
		}
		ok := c10PassesBefore(c.Instr, stop, c10LoopHeader(c.Block()))
		r.Check(ok, "V-buffer-locks", FuncKey(cb)+"#batch-delete-both", p.Pos(c.Pos()),
			"a batched delete put into buf's batch is, on every path of that iteration, also put into back's batch",
			"a batched delete is applied to buf only: the key would reappear from the backing store")
	}
	if n == 0 {
		r.Violation("V-buffer-locks", FuncKey(cb)+"#batch-delete-both", p.Pos(cb.Pos()), "CommitBatch no longer forwards deletes to buf's batch")
	}
	// both batches are committed to their own store
	seen := map[string]bool{}
	for _, c := range CallsIn(cb, false) {
		if c.Common().IsInvoke() && c.MethodName() == "CommitBatch" {
			role := bi.role(cb, c.Common().Value)
			brole := bi.batchRole(cb, c.Common().Args[0], 0)
			if role != "" && role == brole {
				seen[role] = true
			} else {
				r.Violation("V-buffer-locks", FuncKey(cb)+"#commit-"+role, p.Pos(c.Pos()), fmt.Sprintf("a batch begun on %q is committed to %q", brole, role))
			}
		}
	}
	r.Check(seen["buf"] && seen["back"], "V-buffer-locks", FuncKey(cb)+"#commits", p.Pos(cb.Pos()),
		"CommitBatch commits buf's batch to buf and back's (delete) batch to back", "CommitBatch no longer commits a batch to each of buf and back")
}

func c10GetShadow(p *Program, r *Reporter, bi *c10BufInfo) {
	get := p.Func(c10BufRel, "KeyValue", "Get")
	var bufGet *ssa.Call
	var backGets []CallSite
	for _, c := range CallsIn(get, false) {
		if c.Common().IsInvoke() && c.MethodName() == "Get" {
			switch bi.role(get, c.Common().Value) {
			case "buf":
				bufGet = c.Value()
			case "back":
				backGets = append(backGets, c)
			}
		}
	}
	if bufGet == nil || len(backGets) == 0 {
		r.Violation("V-buffer-locks", FuncKey(get)+"#shadow", p.Pos(get.Pos()), "Get no longer consults both buf and back")
		return
	}
	ev, _, _ := ErrValue(bufGet)
	for _, bg := range backGets {
		ok := false
		for _, f := range FactsAt(bg.Block()) {
			if bo, isBo := f.Cond.(*ssa.BinOp); isBo && (bo.Op == token.EQL && f.Val || bo.Op == token.NEQ && !f.Val) {
				if (sameOrigin(bo.X, ev) && c10IsErrNotFound(bo.Y)) || (sameOrigin(bo.Y, ev) && c10IsErrNotFound(bo.X)) {
					ok = true
				}
			}
			if call, isCall := f.Cond.(*ssa.Call); isCall && f.Val {
				cs := CallSite{get, call}
				if cs.IsStatic("errors", "", "Is") && sameOrigin(call.Call.Args[0], ev) && c10IsErrNotFound(call.Call.Args[1]) {
					ok = true
				}
			}
		}
		r.Check(ok, "V-buffer-locks", FuncKey(get)+"#shadow", p.Pos(bg.Pos()),
			"back.Get is reached only where buf.Get returned sorted.ErrNotFound: a value present in the buffer always shadows the backing store",
			"back.Get is reached although buf.Get did not say ErrNotFound: a buffered value (or a buffer error) would be replaced by the stale value of the backing store")
	}
}

func c10IsErrNotFound(v ssa.Value) bool {
	u, ok := v.(*ssa.UnOp)
	if !ok || u.Op != token.MUL {
		return false
	}
	g, ok := u.X.(*ssa.Global)
	return ok && g.Name() == "ErrNotFound" && g.Pkg.Pkg.Path() == c10SortedPath
}

// ===========================================================================
// V-iter

func c10RuleIter(p *Program, r *Reporter) {
	c10IterEOF(p, r)
	c10IterCloseBoth(p, r)
	c10IterCloseErr(p, r)
	c10FindClosed(p, r)
	c10EndBound(p, r)
	r.Floor("V-iter", 20)
}

// c10SubIterInfo: the wrapper type whose `next` maintains an eof flag.
type c10SubIterInfo struct {
	typ    *types.Named
	next   *ssa.Function
	eofIdx int
}

func c10SubIter(p *Program, r *Reporter) *c10SubIterInfo {
	next := p.Func(c10BufRel, "subIter", "next")
	si := &c10SubIterInfo{typ: p.NamedType(c10BufRel, "subIter"), next: next, eofIdx: -1}
	// summary of next: "returns false" blocks set a bool field to true; "returns true" blocks do not
	ok := true
	for _, ri := range Returns(next) {
		c, isConst := ri.Results[0].(*ssa.Const)
		if !isConst || c.Value == nil {
			ok = false
			continue
		}
		setsEOF := -1
		for b := ri.Ret.Block(); b != nil; b = b.Idom() {
			for _, in := range b.Instrs {
				if st, isSt := in.(*ssa.Store); isSt {
					if fa, isFA := st.Addr.(*ssa.FieldAddr); isFA && fa.X == ssa.Value(next.Params[0]) {
						if cv, isC := st.Val.(*ssa.Const); isC && cv.Value != nil && cv.Value.String() == "true" {
							setsEOF = fa.Field
						}
					}
				}
			}
			if b == next.Blocks[0] {
				break
			}
		}
		if c.Value.String() == "false" {
			if setsEOF < 0 || si.eofIdx >= 0 && si.eofIdx != setsEOF {
				ok = false
			}
			si.eofIdx = setsEOF
		} else if setsEOF >= 0 {
			ok = false
		}
	}
	if !ok || si.eofIdx < 0 {
		r.Undecided("V-iter", FuncKey(next)+"#summary", p.Pos(next.Pos()), "cannot summarise subIter.next as 'returns false exactly when it sets the eof flag'")
		return nil
	}
	r.OK("V-iter", FuncKey(next)+"#summary", p.Pos(next.Pos()), "returns false exactly on the paths that set the eof flag ("+fieldName(next.Params[0].Type(), si.eofIdx)+"), true otherwise")
	return si
}

// c10IterEOF: abstract interpretation of buffer.(*iter).Next over the eof
// flags of its sub-iterators: a sub-iterator is advanced only where its eof
// flag is known false (sorted.Iterator does not promise that Next may be called
// again after it returned false; kvfile's panics).
func c10IterEOF(p *Program, r *Reporter) {
	si := c10SubIter(p, r)
	if si == nil {
		return
	}
	fn := p.Func(c10BufRel, "iter", "Next")
	recv := fn.Params[0]
	// role of an address/value: index of the subIter-typed field of *iter it denotes
	roleOf := func(v ssa.Value) (int, []int) {
		root, idx := c10FieldChain(v)
		if root != ssa.Value(recv) || len(idx) == 0 {
			return -1, nil
		}
		return idx[0], idx[1:]
	}
	type state struct {
		eof map[int]int8      // role -> 0 false, 1 true, -1 unknown
		res map[ssa.Value]int // result of next() -> role
	}
	clone := func(s state) state {
		o := state{eof: map[int]int8{}, res: map[ssa.Value]int{}}
		for k, v := range s.eof {
			o.eof[k] = v
		}
		for k, v := range s.res {
			o.res[k] = v
		}
		return o
	}
	keyOf := func(b *ssa.BasicBlock, s state) string {
		var parts []string
		for k, v := range s.eof {
			parts = append(parts, fmt.Sprintf("%d=%d", k, v))
		}
		for k, v := range s.res {
			parts = append(parts, fmt.Sprintf("%p>%d", k, v))
		}
		sort.Strings(parts)
		return fmt.Sprintf("%d|%s", b.Index, strings.Join(parts, ","))
	}
	bad := map[int][]string{}
	sites := map[int]int{}
	var firstPos = map[int]token.Pos{}
	seen := map[string]bool{}
	var walk func(b *ssa.BasicBlock, s state)
	get := func(s state, role int) int8 {
		if v, ok := s.eof[role]; ok {
			return v
		}
		return -1
	}
	walk = func(b *ssa.BasicBlock, s state) {
		k := keyOf(b, s)
		if seen[k] {
			return
		}
		seen[k] = true
		s = clone(s)
		for _, in := range b.Instrs {
			switch x := in.(type) {
			case *ssa.Call:
				if x.Call.StaticCallee() == si.next {
					role, rest := roleOf(x.Call.Args[0])
					if role < 0 || len(rest) != 0 {
						bad[-1] = append(bad[-1], fmt.Sprintf("line %d: cannot tell which sub-iterator is advanced", p.Fset.Position(x.Pos()).Line))
						continue
					}
					if _, ok := firstPos[role]; !ok {
						firstPos[role] = x.Pos()
					}
					sites[role]++
					if get(s, role) != 0 {
						if len(bad[role]) == 0 {
							firstPos[role] = x.Pos() // report the offending call site
						}
						bad[role] = append(bad[role], fmt.Sprintf("line %d", p.Fset.Position(x.Pos()).Line))
					}
					s.eof[role] = -1
					s.res[x] = role
				}
			case *ssa.If:
				cond, neg := x.Cond, false
				for {
					if u, ok := cond.(*ssa.UnOp); ok && u.Op == token.NOT {
						cond, neg = u.X, !neg
						continue
					}
					break
				}
				role, isFlag := -1, false
				if rl, ok := s.res[cond]; ok {
					role, neg = rl, !neg // next() true <=> eof false
				} else if ld, ok := cond.(*ssa.UnOp); ok && ld.Op == token.MUL {
					if rl, rest := roleOf(ld); rl >= 0 && len(rest) == 1 && rest[0] == si.eofIdx {
						role, isFlag = rl, true
					}
				}
				_ = isFlag
				if role < 0 {
					break
				}
				for i, succ := range b.Succs {
					eofVal := int8(1)
					if (i == 0) == neg {
						eofVal = 0
					}
					// i==0 is the branch where cond is true: eof = !neg
					if cur := get(s, role); cur >= 0 && cur != eofVal {
						continue // infeasible
					}
					ns := clone(s)
					ns.eof[role] = eofVal
					walk(succ, ns)
				}
				return
			}
		}
		for _, succ := range b.Succs {
			walk(succ, s)
		}
	}
	walk(fn.Blocks[0], state{eof: map[int]int8{}, res: map[ssa.Value]int{}})
	for _, m := range bad[-1] {
		r.Undecided("V-iter", FuncKey(fn)+"#advance", p.Pos(fn.Pos()), m)
	}
	st, _ := recv.Type().(*types.Pointer).Elem().Underlying().(*types.Struct)
	nRoles := 0
	for i := 0; st != nil && i < st.NumFields(); i++ {
		if NamedOf(st.Field(i).Type()) != si.typ {
			continue
		}
		nRoles++
		name := st.Field(i).Name()
		if sites[i] == 0 {
			r.Violation("V-iter", FuncKey(fn)+"#advance:"+name, p.Pos(fn.Pos()), "sub-iterator "+name+" is never advanced")
			continue
		}
		r.Check(len(bad[i]) == 0, "V-iter", FuncKey(fn)+"#advance:"+name, p.Pos(firstPos[i]),
			fmt.Sprintf("all %d call sites advance %s only on paths where %s.%s is known false", sites[i], name, name, fieldName(si.next.Params[0].Type(), si.eofIdx)),
			fmt.Sprintf("%s.next() is called at %s on a path where %s's eof flag is not known false: the underlying iterator's Next is called again after it returned false (kvfile's iterator panics: 'Next called after Next returned value')", name, strings.Join(dedupe(bad[i]), ", "), name))
	}
	if nRoles < 2 {
		r.Violation("V-iter", FuncKey(fn)+"#advance", p.Pos(fn.Pos()), "the merge iterator no longer has two sub-iterators")
	}
}

// c10IterCloseBoth: buffer.(*iter).Close closes every sub-iterator on every path.
func c10IterCloseBoth(p *Program, r *Reporter) {
	fn := p.Func(c10BufRel, "iter", "Close")
	sub := p.NamedType(c10BufRel, "subIter")
	st, _ := fn.Params[0].Type().(*types.Pointer).Elem().Underlying().(*types.Struct)
	for i := 0; st != nil && i < st.NumFields(); i++ {
		if NamedOf(st.Field(i).Type()) != sub {
			continue
		}
		name := st.Field(i).Name()
		stop := func(in ssa.Instruction) bool {
			ci, ok := in.(*ssa.Call)
			if !ok || !ci.Call.IsInvoke() || ci.Call.Method.Name() != "Close" {
				return false
			}
			root, idx := c10FieldChain(ci.Call.Value)
			return root == ssa.Value(fn.Params[0]) && len(idx) >= 1 && idx[0] == i
		}
		first := fn.Blocks[0].Instrs[0]
		ok := stop(first) || len(LeakingExits(PathQuery{Start: first, Stop: stop, IgnorePanics: true})) == 0
		r.Check(ok, "V-iter", FuncKey(fn)+"#closes:"+name, p.Pos(fn.Pos()),
			"every path through Close closes sub-iterator "+name,
			"some path through Close returns without closing sub-iterator "+name+": its cursor (for sqlkv: the gate slot, which serialises all access to an sqlite store) is never released")
	}
}

// c10IterCloseErr: Close of every sorted.Iterator implementer in pkg/sorted
// yields the error accumulated by the underlying cursor, never a constant nil.
func c10IterCloseErr(p *Program, r *Reporter) {
	itIface := p.Iface("pkg/sorted", "Iterator")
	n := 0
	for _, t := range p.Implementers(itIface, false) {
		if !strings.HasPrefix(RelPkg(t.Obj().Pkg()), "pkg/sorted") {
			continue
		}
		fn, declared := c10Method(p, t, "Close")
		if fn == nil {
			continue
		}
		if !declared {
			r.OKTable("V-iter", typeKey(t)+"#Close", p.Pos(t.Obj().Pos()), "Close promoted from an embedded iterator")
			continue
		}
		n++
		bad := ""
		for _, ri := range Returns(fn) {
			if c10AlwaysNil(ri.Results[0], 0) {
				bad = fmt.Sprintf("the return at line %d yields a constant nil", p.Fset.Position(ri.Ret.Pos()).Line)
			}
		}
		r.Check(bad == "", "V-iter", FuncKey(fn)+"#error", p.Pos(fn.Pos()),
			"every return of Close yields a value read from the underlying cursor or the iterator's error field",
			bad+": an iteration cut short by a read error would look like an exhausted range (sorted.Find reports errors only through Close)")
	}
	r.Analysed("iterator_implementers", n)
	if n < 6 {
		r.Violation("V-iter", "pkg/sorted#iterators", "pkg/sorted", fmt.Sprintf("only %d sorted.Iterator implementers with a declared Close found under pkg/sorted (7 on the pinned tree)", n))
	}
}

func c10AlwaysNil(v ssa.Value, depth int) bool {
	if IsNilConst(v) {
		return true
	}
	if ph, ok := v.(*ssa.Phi); ok && depth < 4 {
		for _, e := range ph.Edges {
			if !c10AlwaysNil(e, depth+1) {
				return false
			}
		}
		return true
	}
	return false
}

// c10FindClosed: an iterator obtained from Find inside pkg/sorted is closed on
// every path, or handed over (stored / returned).
func c10FindClosed(p *Program, r *Reporter) {
	n := 0
	for _, fn := range p.FuncsUnder("pkg/sorted") {
		if IsTestSupportPkg(RelPkg(fn.Pkg.Pkg)) {
			continue
		}
		for _, c := range CallsIn(fn, false) {
			call := c.Value()
			if call == nil || !c.Common().IsInvoke() || c.MethodName() != "Find" || !IsNamed(call.Type(), c10SortedPath, "Iterator") {
				continue
			}
			n++
			construct := FuncKey(fn) + "#Find"
			if c10HandedOver(call, 0) {
				r.OK("V-iter", construct, p.Pos(c.Pos()), "iterator is handed over (stored in the returned object / returned): the receiver's Close closes it (see #closes)")
				continue
			}
			stop := func(in ssa.Instruction) bool {
				ci, ok := in.(ssa.CallInstruction)
				if !ok {
					return false
				}
				cc := ci.Common()
				return cc.IsInvoke() && cc.Method.Name() == "Close" && sameOrigin(cc.Value, call)
			}
			leaks := LeakingExits(PathQuery{Start: call, Stop: stop, IgnorePanics: true})
			var where []string
			for _, l := range leaks {
				where = append(where, fmt.Sprintf("line %d", p.Fset.Position(l.Exit.Pos()).Line))
			}
			r.Check(len(leaks) == 0, "V-iter", construct, p.Pos(c.Pos()), "iterator closed on every path to every exit",
				"iterator from Find is not closed on the exit(s) at "+strings.Join(dedupe(where), ", ")+": the cursor and, for sql stores, the gate slot leak; Close is also the only place a scan error is reported")
		}
	}
	r.Analysed("find_sites_in_pkg_sorted", n)
	if n < 3 {
		r.Violation("V-iter", "pkg/sorted#Find-sites", "pkg/sorted", fmt.Sprintf("only %d Find call sites found inside pkg/sorted (4 on the pinned tree)", n))
	}
}

func c10HandedOver(v ssa.Value, depth int) bool {
	refs := v.Referrers()
	if refs == nil || depth > 3 {
		return false
	}
	for _, u := range *refs {
		switch x := u.(type) {
		case *ssa.Store:
			if x.Val == v {
				return true
			}
		case *ssa.Return:
			return true
		case *ssa.MakeInterface:
			if c10HandedOver(x, depth+1) {
				return true
			}
		case *ssa.ChangeInterface:
			if c10HandedOver(x, depth+1) {
				return true
			}
		}
	}
	return false
}

// ---------------------------------------------------------------------------
// end bound: "" means unbounded, anything else is an exclusive upper bound

func c10EndBound(p *Program, r *Reporter) {
	kvIface := p.Iface("pkg/sorted", "KeyValue")
	n := 0
	for _, t := range p.Implementers(kvIface, false) {
		fn, declared := c10Method(p, t, "Find")
		if fn == nil || !declared {
			continue
		}
		if len(fn.Params) != 3 {
			brokenf("anchor unresolved: %s is not Find(start, end)", FuncKey(fn))
		}
		if len(Returns(fn)) == 0 {
			r.OKTable("V-iter", FuncKey(fn)+"#end-bound", p.Pos(fn.Pos()), "never returns (panics unconditionally): yields no iterator")
			continue
		}
		n++
		var notes, bad, und []string
		c10EndUses(p, fn, fn.Params[2], 0, &notes, &bad, &und)
		construct := FuncKey(fn) + "#end-bound"
		switch {
		case len(bad) > 0:
			r.Violation("V-iter", construct, p.Pos(fn.Pos()), strings.Join(dedupe(bad), "; "))
		case len(und) > 0:
			r.Undecided("V-iter", construct, p.Pos(fn.Pos()), strings.Join(dedupe(und), "; "))
		case len(notes) == 0:
			r.Violation("V-iter", construct, p.Pos(fn.Pos()), "the end parameter of Find is not used at all: every range scan would run to the end of the table")
		default:
			r.OK("V-iter", construct, p.Pos(fn.Pos()), strings.Join(dedupe(notes), "; "))
		}
	}
	r.Analysed("find_implementations", n)
	if n < 6 {
		r.Violation("V-iter", "pkg/sorted#Find-impls", "pkg/sorted", fmt.Sprintf("only %d declared Find implementations (6 on the pinned tree)", n))
	}
}

// c10NonEmptyFact: do the facts at block b exclude s == "" ?
func c10NonEmptyFact(b *ssa.BasicBlock, s ssa.Value) bool {
	for _, f := range FactsAt(b) {
		bo, ok := f.Cond.(*ssa.BinOp)
		if !ok {
			continue
		}
		// s == "" / s != ""
		if cs, isC := ConstString(bo.Y); isC && cs == "" && sameOrigin(bo.X, s) || func() bool { cs, isC := ConstString(bo.X); return isC && cs == "" && sameOrigin(bo.Y, s) }() {
			if bo.Op == token.NEQ && f.Val || bo.Op == token.EQL && !f.Val {
				return true
			}
			continue
		}
		// len(s) OP c
		if c10LenExcludesZero(bo, f.Val, func(arg ssa.Value) bool { return sameOrigin(arg, s) }) {
			return true
		}
	}
	return false
}

// c10LenExcludesZero: the comparison bo (with truth value val) is over
// len(x) for an x accepted by isX and cannot hold when len(x)==0.
func c10LenExcludesZero(bo *ssa.BinOp, val bool, isX func(ssa.Value) bool) bool {
	isLen := func(v ssa.Value) bool {
		call, ok := v.(*ssa.Call)
		if !ok {
			return false
		}
		b, ok := call.Call.Value.(*ssa.Builtin)
		return ok && b.Name() == "len" && isX(call.Call.Args[0])
	}
	if isLen(bo.X) {
		if c, ok := ConstInt(bo.Y); ok {
			if res, ok := c10EvalCmp(bo.Op, 0, c); ok {
				return res != val
			}
		}
	}
	if isLen(bo.Y) {
		if c, ok := ConstInt(bo.X); ok {
			if res, ok := c10EvalCmp(bo.Op, c, 0); ok {
				return res != val
			}
		}
	}
	return false
}

func c10EvalCmp(op token.Token, x, y int64) (res, ok bool) {
	switch op {
	case token.EQL:
		return x == y, true
	case token.NEQ:
		return x != y, true
	case token.LSS:
		return x < y, true
	case token.LEQ:
		return x <= y, true
	case token.GTR:
		return x > y, true
	case token.GEQ:
		return x >= y, true
	}
	return false, false
}

func c10EndUses(p *Program, fn *ssa.Function, end ssa.Value, depth int, notes, bad, und *[]string) {
	if depth > 3 {
		*und = append(*und, "end is passed through more than 3 functions")
		return
	}
	refs := end.Referrers()
	if refs == nil {
		return
	}
	where := FuncKey(fn)
	for _, u := range nonDebug(*refs) {
		switch x := u.(type) {
		case *ssa.BinOp:
			// comparison with "" is the guard itself
		case *ssa.Convert, *ssa.MakeInterface:
			v := x.(ssa.Value)
			if c10NonEmptyFact(x.Block(), end) {
				*notes = append(*notes, where+": end is used as a bound only on the end != \"\" edge")
				continue
			}
			// unconditional: acceptable only when stored into an iterator field whose reader applies the rule
			stored := false
			vr := v.Referrers()
			for _, vu := range nonDebug(*vr) {
				st, ok := vu.(*ssa.Store)
				if !ok {
					*bad = append(*bad, fmt.Sprintf("%s: end is converted without an end != \"\" test and used at line %d: an empty end would become an empty, not an absent, upper bound (no key is < \"\")", where, p.Fset.Position(vu.Pos()).Line))
					continue
				}
				fa, ok := st.Addr.(*ssa.FieldAddr)
				if !ok || NamedOf(fa.X.Type()) == nil || !c10IsIterator(p, NamedOf(fa.X.Type())) {
					*bad = append(*bad, fmt.Sprintf("%s: end is converted without an end != \"\" test and stored at line %d into something that is not one of this repository's iterators: an empty end would become an empty, not an absent, upper bound (no key is < \"\")", where, p.Fset.Position(st.Pos()).Line))
					stored = true
					continue
				}
				stored = true
				c10ClientBound(p, NamedOf(fa.X.Type()), fa.Field, notes, bad, und)
			}
			if !stored && len(nonDebug(*vr)) == 0 {
				*bad = append(*bad, where+": end is converted and dropped")
			}
		case *ssa.Store:
			if fa, ok := x.Addr.(*ssa.FieldAddr); ok && x.Val == end && NamedOf(fa.X.Type()) != nil && c10IsIterator(p, NamedOf(fa.X.Type())) {
				c10ClientBound(p, NamedOf(fa.X.Type()), fa.Field, notes, bad, und)
			} else if al, ok := x.Addr.(*ssa.Alloc); ok && x.Val == end {
				// parameter spilled (captured by a literal): follow the loads in this function
				for _, lu := range nonDebug(*al.Referrers()) {
					if ld, ok := lu.(*ssa.UnOp); ok && ld.Op == token.MUL {
						c10EndUses(p, fn, ld, depth, notes, bad, und)
					}
				}
			} else {
				*und = append(*und, where+": end is stored into an unrecognised place")
			}
		case ssa.CallInstruction:
			c := CallSite{fn, x}
			cc := c.Common()
			if b, ok := cc.Value.(*ssa.Builtin); ok && b.Name() == "len" {
				continue
			}
			if cc.IsInvoke() && cc.Method.Name() == "Find" && len(cc.Args) == 2 && cc.Args[1] == end {
				*notes = append(*notes, where+": end is passed unchanged as the end of another Find")
				continue
			}
			if f := c.Callee(); f != nil && InModule(f) {
				for i, a := range c.Args() {
					if a == end && i < len(f.Params) {
						c10EndUses(p, f, f.Params[i], depth+1, notes, bad, und)
					}
				}
				continue
			}
			if c10Harmless(c) {
				continue
			}
			if c10NonEmptyFact(x.Block(), end) {
				*notes = append(*notes, where+": end is handed to "+c.CalleeKey()+" only on the end != \"\" edge")
				continue
			}
			*bad = append(*bad, fmt.Sprintf("%s: end is handed to %s without an end != \"\" test", where, c.CalleeKey()))
		default:
			*und = append(*und, fmt.Sprintf("%s: unrecognised use of end at line %d", where, p.Fset.Position(u.Pos()).Line))
		}
	}
}

func c10IsIterator(p *Program, n *types.Named) bool {
	it := p.Iface("pkg/sorted", "Iterator")
	return types.Implements(n, it) || types.Implements(types.NewPointer(n), it)
}

// c10ClientBound checks the reader of an end bound stored in field fld of
// iterator type t: its Next compares the current key with bytes.Compare(key,
// end), only when len(end) > 0, and stops exactly when the result is >= 0.
func c10ClientBound(p *Program, t *types.Named, fld int, notes, bad, und *[]string) {
	next, declared := c10Method(p, t, "Next")
	if next == nil || !declared {
		*und = append(*und, typeKey(t)+" has no declared Next")
		return
	}
	where := FuncKey(next)
	isEnd := func(v ssa.Value) bool {
		_, idx, ok := c10FieldLoad(v)
		if !ok {
			return false
		}
		root, chain := c10FieldChain(v)
		return root == ssa.Value(next.Params[0]) && len(chain) == 1 && idx == fld
	}
	found := 0
	for _, c := range CallsIn(next, false) {
		if !c.IsStatic("bytes", "", "Compare") || c.Value() == nil {
			continue
		}
		a := c.Args()
		flip := false
		switch {
		case isEnd(a[1]):
		case isEnd(a[0]):
			flip = true
		default:
			continue
		}
		found++
		// guard: len(end) == 0 excluded
		guarded := false
		for _, f := range FactsAt(c.Block()) {
			if bo, ok := f.Cond.(*ssa.BinOp); ok && c10LenExcludesZero(bo, f.Val, isEnd) {
				guarded = true
			}
		}
		if !guarded {
			*bad = append(*bad, where+": the key is compared with the end bound also when the bound is empty: a Find with end \"\" would return nothing")
		}
		// exclusivity: evaluate the branch on the comparison result for -1, 0, +1
		var ifi *ssa.If
		var bo *ssa.BinOp
		for _, u := range nonDebug(*c.Value().Referrers()) {
			if b, ok := u.(*ssa.BinOp); ok {
				for _, bu := range nonDebug(*b.Referrers()) {
					if i, ok := bu.(*ssa.If); ok {
						ifi, bo = i, b
					}
				}
			}
		}
		if ifi == nil {
			*und = append(*und, where+": cannot find the branch on bytes.Compare(key, end)")
			continue
		}
		okExcl := true
		for _, cmp := range []int64{-1, 0, 1} {
			val := cmp
			if flip {
				val = -cmp
			}
			var res, okE bool
			if k, isC := ConstInt(bo.Y); isC && bo.X == ssa.Value(c.Value()) {
				res, okE = c10EvalCmp(bo.Op, val, k)
			} else if k, isC := ConstInt(bo.X); isC && bo.Y == ssa.Value(c.Value()) {
				res, okE = c10EvalCmp(bo.Op, k, val)
			}
			if !okE {
				*und = append(*und, where+": comparison of bytes.Compare's result is not against a constant")
				okExcl = false
				break
			}
			succ := ifi.Block().Succs[1]
			if res {
				succ = ifi.Block().Succs[0]
			}
			stops, known := c10BlockReturnsBool(succ)
			if !known {
				*und = append(*und, where+": cannot tell whether the branch after the end comparison stops the iteration")
				okExcl = false
				break
			}
			wantStop := cmp >= 0 // key >= end: out of range
			if stops != wantStop {
				okExcl = false
				if cmp == 0 {
					*bad = append(*bad, where+": a key equal to end is returned: the end bound must be exclusive, as in every sibling implementation")
				} else {
					*bad = append(*bad, fmt.Sprintf("%s: the end comparison is wrong for key %s end", where, map[int64]string{-1: "<", 1: ">"}[cmp]))
				}
			}
		}
		if okExcl && guarded {
			*notes = append(*notes, where+": stops exactly when len(end) > 0 and bytes.Compare(key, end) >= 0")
		}
	}
	if found == 0 {
		*bad = append(*bad, where+": the stored end bound is never compared with the current key: the scan would run past end")
	}
}

// c10BlockReturnsBool: the block ends in a return of a constant bool (directly
// or through a static callee all of whose returns are the same constant):
// stops = returns false.
func c10BlockReturnsBool(b *ssa.BasicBlock) (stops, known bool) {
	for i := 0; i < 4 && b != nil; i++ {
		if len(b.Instrs) == 0 {
			return false, false
		}
		switch t := b.Instrs[len(b.Instrs)-1].(type) {
		case *ssa.Return:
			if len(t.Results) != 1 {
				return false, false
			}
			v, ok := c10ConstBool(t.Results[0], 0)
			return !v, ok
		case *ssa.Jump:
			b = b.Succs[0]
		default:
			return false, false
		}
	}
	return false, false
}

func c10ConstBool(v ssa.Value, depth int) (val, ok bool) {
	if c, isC := v.(*ssa.Const); isC && c.Value != nil {
		return c.Value.String() == "true", true
	}
	if call, isCall := v.(*ssa.Call); isCall && depth < 2 {
		if f := call.Call.StaticCallee(); f != nil && f.Blocks != nil {
			first := true
			for _, ri := range Returns(f) {
				if len(ri.Results) != 1 {
					return false, false
				}
				x, k := c10ConstBool(ri.Results[0], depth+1)
				if !k || !first && x != val {
					return false, false
				}
				val, first = x, false
			}
			return val, !first
		}
	}
	return false, false
}

// ===========================================================================
// V-notfound: absent keys look the same in every implementation

// c10SentinelCmp lists the package-level error variables that error value ev
// is compared with (==, != or errors.Is) inside its function.
func c10SentinelCmp(ev ssa.Value) []*ssa.Global {
	var out []*ssa.Global
	glob := func(v ssa.Value) *ssa.Global {
		if u, ok := v.(*ssa.UnOp); ok && u.Op == token.MUL {
			if g, ok := u.X.(*ssa.Global); ok {
				return g
			}
		}
		return nil
	}
	seen := map[ssa.Value]bool{}
	var visit func(v ssa.Value)
	visit = func(v ssa.Value) {
		if v == nil || seen[v] || v.Referrers() == nil {
			return
		}
		seen[v] = true
		for _, u := range *v.Referrers() {
			switch x := u.(type) {
			case *ssa.BinOp:
				if x.Op == token.EQL || x.Op == token.NEQ {
					if g := glob(x.X); g != nil {
						out = append(out, g)
					}
					if g := glob(x.Y); g != nil {
						out = append(out, g)
					}
				}
			case *ssa.Call:
				if (CallSite{x.Parent(), x}).IsStatic("errors", "", "Is") && len(x.Call.Args) == 2 {
					if g := glob(x.Call.Args[1]); g != nil {
						out = append(out, g)
					}
				}
			case *ssa.Phi:
				visit(x)
			}
		}
	}
	visit(ev)
	return out
}

func c10RuleNotFound(p *Program, r *Reporter) {
	kvIface := p.Iface("pkg/sorted", "KeyValue")
	nGet := 0
	for _, t := range p.Implementers(kvIface, false) {
		// N1: Get reports an absent key as sorted.ErrNotFound (or delegates to a Get that does)
		if get, declared := c10Method(p, t, "Get"); get != nil && declared && len(Returns(get)) > 0 {
			nGet++
			ok, how := c10YieldsNotFound(get, 0)
			r.Check(ok, "V-notfound", FuncKey(get)+"#ErrNotFound", p.Pos(get.Pos()), how,
				"no return of Get yields sorted.ErrNotFound and Get does not delegate to another Get: callers (index, blob stores, buffer.Get) compare the error with sorted.ErrNotFound, an absent key would surface as a backend-specific error")
		}
		// N2: a backend 'not found' tolerated by Delete is tolerated by the delete branch of CommitBatch too
		del, d1 := c10Method(p, t, "Delete")
		cb, d2 := c10Method(p, t, "CommitBatch")
		if del == nil || cb == nil || !d1 || !d2 {
			continue
		}
		for _, c := range CallsIn(del, false) {
			f := c.Callee()
			if f == nil || InModule(f) || c.Value() == nil {
				continue
			}
			ev, hasErr, _ := ErrValue(c.Value())
			if !hasErr || ev == nil {
				continue
			}
			for _, g := range c10SentinelCmp(ev) {
				// the same backend call in CommitBatch
				for _, c2 := range CallsIn(cb, false) {
					if c2.Callee() != f || c2.Value() == nil {
						continue
					}
					ev2, _, _ := ErrValue(c2.Value())
					same := false
					if ev2 != nil {
						for _, g2 := range c10SentinelCmp(ev2) {
							if g2 == g {
								same = true
							}
						}
					}
					r.Check(same, "V-notfound", FuncKey(cb)+"#"+FuncKeyAny(f)+"#"+g.Name(), p.Pos(c2.Pos()),
						"the batch path tolerates "+g.Pkg.Pkg.Name()+"."+g.Name()+" from "+f.Name()+" exactly like Delete does",
						"Delete treats "+g.Pkg.Pkg.Name()+"."+g.Name()+" from "+f.Name()+" as success but the batch path does not compare with it: a batch deleting an absent key fails (and stops half-way) in this implementation only")
				}
			}
		}
	}
	r.Analysed("get_implementations", nGet)
	r.Floor("V-notfound", 7)
}

// c10YieldsNotFound: some return of fn yields sorted.ErrNotFound, or fn returns
// the error of another Get/get (interface Get, or a module function that does).
func c10YieldsNotFound(fn *ssa.Function, depth int) (bool, string) {
	idx := ErrResultIndex(fn)
	if idx < 0 || depth > 2 {
		return false, ""
	}
	var check func(v ssa.Value, d int) (bool, string)
	check = func(v ssa.Value, d int) (bool, string) {
		if v == nil || d > 6 {
			return false, ""
		}
		if c10IsErrNotFound(v) {
			return true, "a return yields sorted.ErrNotFound"
		}
		switch x := v.(type) {
		case *ssa.Phi:
			for _, e := range x.Edges {
				if e == ssa.Value(x) {
					continue
				}
				if ok, how := check(e, d+1); ok {
					return ok, how
				}
			}
		case *ssa.Extract:
			return check(x.Tuple, d+1)
		case *ssa.Call:
			cc := x.Call
			if cc.IsInvoke() && cc.Method.Name() == "Get" {
				return true, "delegates to Get of another store/transaction"
			}
			if f := cc.StaticCallee(); f != nil && InModule(f) {
				if ok, _ := c10YieldsNotFound(f, depth+1); ok {
					return true, "delegates to " + FuncKey(f) + ", which yields sorted.ErrNotFound"
				}
			}
		case *ssa.UnOp:
			if x.Op == token.MUL {
				// named result / local: any store of ErrNotFound into it
				if cell, ok := varOf(x.X); ok {
					for _, st := range storesTo(cell) {
						if ok, how := check(st.Val, d+1); ok {
							return ok, how
						}
					}
				}
			}
		}
		return false, ""
	}
	for _, ri := range Returns(fn) {
		if ok, how := check(ri.Results[idx], 0); ok {
			return true, how
		}
		// raw (unresolved) operand too: named results assigned in several places
		if ok, how := check(ri.Ret.Results[idx], 0); ok {
			return true, how
		}
	}
	return false, ""
}

// ===========================================================================
// V-batch-order
//
// "A committed batch applies its sets and deletes in order": the order in
// which BatchMutation.Set/Delete were called is the order in which the store
// sees them, at least between mutations of one key (mutations of different
// keys commute in a map). Structurally there are two kinds of batch types:
// recording ones (Set/Delete append to a slice that CommitBatch replays) and
// direct ones (Set/Delete call an ordered engine batch / transaction right
// away). The rule follows the recorded slice through every CommitBatch.

type c10OBits uint16

const (
	c10oSeq     c10OBits = 1 << iota // the recorded slice or an exact order-preserving copy of it
	c10oPart                         // order-preserving, but a sub-slice or extended copy
	c10oElem                         // element read at the ascending counter of the loops in c10OFlow.loops
	c10oRev                          // element read at a descending counter
	c10oUnk                          // element read at an index the analysis does not recognise
	c10oUnord                        // obtained by ranging over a map filled from elements
	c10oRegroup                      // read from / being a slice rebuilt element by element
	c10oCarried                      // element carried round a loop back edge
	c10oMapOf                        // function-local map filled from elements

	c10oSeqMask  = c10oSeq | c10oPart
	c10oElemMask = c10oElem | c10oRev | c10oUnk | c10oUnord | c10oRegroup | c10oCarried
)

// c10BatchInfo: what Set/Delete of one sorted.BatchMutation implementer do.
type c10BatchInfo struct {
	typ        *types.Named
	kind       string // "recording", "direct", "" (undetermined)
	seqField   int    // recording: the slice field
	elem       types.Type
	elemStruct *types.Named // element type when it is a named struct
	keyField   int          // field of elemStruct the key is recorded into (-1 unknown)
	accessors  map[*ssa.Function]c10OBits
}

type c10OrderCtx struct {
	p         *Program
	recording map[*types.Named]*c10BatchInfo
	helpers   map[string]*c10OrderSum
}

type c10OSite struct {
	instr  ssa.Instruction
	call   *CallSite
	bits   c10OBits
	loops  map[*ssa.BasicBlock]bool
	helper *c10OrderSum // the callee replays the whole slice itself
}

// c10OrderSum: result of following the recorded slice through one function.
// Problems are keyed by clause: "intact" (1), "pass" (2), "channels" (4).
type c10OrderSum struct {
	fn     *ssa.Function
	viol   map[string][]string
	und    map[string][]string
	notes  map[string][]string
	sites  []*c10OSite
	ret    c10OBits
	nSeeds int
	passes int
}

func (s *c10OrderSum) addTo(m map[string][]string, clause, msg string) {
	for _, x := range m[clause] {
		if x == msg {
			return
		}
	}
	m[clause] = append(m[clause], msg)
}

type c10OFlow struct {
	ctx      *c10OrderCtx
	fn       *ssa.Function
	depth    int
	lab      map[ssa.Value]c10OBits
	loops    map[ssa.Value]map[*ssa.BasicBlock]bool
	work     []ssa.Value
	sum      *c10OrderSum
	siteOf   map[ssa.Instruction]*c10OSite
	idxWhy   map[ssa.Value]string
	idxWrite []*ssa.Store
	copies   []*ssa.Call // copy(dst, src) with dst carrying the recorded slice
}

func (f *c10OFlow) line(pos token.Pos) int { return f.ctx.p.Fset.Position(pos).Line }

func (f *c10OFlow) viol(clause, format string, a ...any) {
	f.sum.addTo(f.sum.viol, clause, fmt.Sprintf(format, a...))
}
func (f *c10OFlow) undec(clause, format string, a ...any) {
	f.sum.addTo(f.sum.und, clause, fmt.Sprintf(format, a...))
}
func (f *c10OFlow) note(clause, format string, a ...any) {
	f.sum.addTo(f.sum.notes, clause, fmt.Sprintf(format, a...))
}

func (f *c10OFlow) add(v ssa.Value, bits c10OBits, loops map[*ssa.BasicBlock]bool) {
	if v == nil || bits == 0 {
		return
	}
	grew := false
	if f.lab[v]|bits != f.lab[v] {
		f.lab[v] |= bits
		grew = true
	}
	if bits&c10oElem != 0 {
		m := f.loops[v]
		for h := range loops {
			if m == nil {
				m = map[*ssa.BasicBlock]bool{}
				f.loops[v] = m
			}
			if !m[h] {
				m[h] = true
				grew = true
			}
		}
	}
	if grew {
		f.work = append(f.work, v)
	}
}

// addSliceVar labels a slice value and, when it is the load of a local
// variable, the variable (so that every other load sees the label).
func (f *c10OFlow) addSliceVar(x ssa.Value, bits c10OBits, loops map[*ssa.BasicBlock]bool) {
	f.add(x, bits, loops)
	if ld, ok := x.(*ssa.UnOp); ok && ld.Op == token.MUL {
		if al, ok := ld.X.(*ssa.Alloc); ok && al.Parent() == f.fn {
			f.add(al, bits, loops)
		}
	}
}

func (f *c10OFlow) site(in ssa.Instruction, c *CallSite, bits c10OBits, loops map[*ssa.BasicBlock]bool) *c10OSite {
	s := f.siteOf[in]
	if s == nil {
		s = &c10OSite{instr: in, call: c, loops: map[*ssa.BasicBlock]bool{}}
		f.siteOf[in] = s
		f.sum.sites = append(f.sum.sites, s)
	}
	s.bits |= bits & c10oElemMask
	if bits&c10oElem != 0 {
		for h := range loops {
			s.loops[h] = true
		}
	}
	return s
}

func c10IsSlice(t types.Type) bool {
	_, ok := t.Underlying().(*types.Slice)
	return ok
}

// c10SameSlice: two mentions of one slice (same value, or loads of one variable).
func c10SameSlice(a, b ssa.Value) bool {
	if a == b || originValue(a) == originValue(b) {
		return true
	}
	la, ok1 := a.(*ssa.UnOp)
	lb, ok2 := b.(*ssa.UnOp)
	if ok1 && ok2 && la.Op == token.MUL && lb.Op == token.MUL {
		ca, oka := varOf(la.X)
		cb, okb := varOf(lb.X)
		return oka && okb && ca == cb
	}
	return false
}

// c10EmptySlice: nil, make([]T, 0, ...) or []T{}.
func c10EmptySlice(v ssa.Value) bool {
	for i := 0; i < 4; i++ {
		switch x := v.(type) {
		case *ssa.ChangeType:
			v = x.X
			continue
		case *ssa.Convert:
			v = x.X
			continue
		case *ssa.Const:
			return x.IsNil()
		case *ssa.MakeSlice:
			n, ok := ConstInt(x.Len)
			return ok && n == 0
		case *ssa.Slice:
			if al, ok := x.X.(*ssa.Alloc); ok {
				if pt, ok := al.Type().Underlying().(*types.Pointer); ok {
					if at, ok := pt.Elem().Underlying().(*types.Array); ok {
						return at.Len() == 0
					}
				}
			}
		}
		return false
	}
	return false
}

func c10LenOf(v ssa.Value) ssa.Value {
	call, ok := v.(*ssa.Call)
	if !ok {
		return nil
	}
	if b, ok := call.Call.Value.(*ssa.Builtin); ok && b.Name() == "len" && len(call.Call.Args) == 1 {
		return call.Call.Args[0]
	}
	return nil
}

// c10AddConst splits v into base + k for v = base ± const.
func c10AddConst(v ssa.Value) (ssa.Value, int64) {
	if bo, ok := v.(*ssa.BinOp); ok {
		switch bo.Op {
		case token.ADD:
			if k, ok := ConstInt(bo.Y); ok {
				return bo.X, k
			}
			if k, ok := ConstInt(bo.X); ok {
				return bo.Y, k
			}
		case token.SUB:
			if k, ok := ConstInt(bo.Y); ok {
				return bo.X, -k
			}
		}
	}
	return v, 0
}

// c10InLoopOf: b belongs to the natural loop(s) with header h.
func c10InLoopOf(h, b *ssa.BasicBlock) bool {
	if h == nil || !h.Dominates(b) {
		return false
	}
	for _, p := range h.Preds {
		if h.Dominates(p) && c10Reaches(b, p, h) {
			return true
		}
	}
	return false
}

// c10ClassifyIndex decides how the element address ia = &s[idx] walks over s:
// c10oElem (with the loop header) when idx is a loop counter that starts at
// element 0, advances by exactly one per iteration and is tested against
// len(s); c10oRev when the counter goes down; c10oUnk otherwise.
func c10ClassifyIndex(ia *ssa.IndexAddr) (c10OBits, *ssa.BasicBlock, string) {
	base, off := c10AddConst(ia.Index)
	ph, ok := base.(*ssa.Phi)
	if !ok {
		return c10oUnk, nil, "the index is not a loop counter"
	}
	h := ph.Block()
	steps := map[int64]bool{}
	nBack, badInit := 0, false
	for i, e := range ph.Edges {
		if h.Dominates(h.Preds[i]) {
			nBack++
			b2, k := c10AddConst(e)
			if b2 != ssa.Value(ph) || k == 0 {
				return c10oUnk, nil, "the loop counter is not advanced by a constant step"
			}
			steps[k] = true
			continue
		}
		if c, ok := ConstInt(e); !ok || c+off != 0 {
			badInit = true
		}
	}
	switch {
	case nBack == 0:
		return c10oUnk, nil, "the index is not a loop counter"
	case len(steps) == 1 && steps[-1]:
		return c10oRev, nil, "the loop counter goes down"
	case len(steps) != 1 || !steps[1]:
		return c10oUnk, nil, "the loop counter does not advance by exactly one"
	case badInit:
		return c10oUnk, nil, "the first element read is not element 0"
	}
	// the loop test: idx < len(s) before the access, or idx+1 < len(s) after it (rotated loop)
	for _, b := range h.Parent().Blocks {
		if len(b.Instrs) == 0 || !c10InLoopOf(h, b) {
			continue
		}
		ifi, ok := b.Instrs[len(b.Instrs)-1].(*ssa.If)
		if !ok || !c10InLoopOf(h, b.Succs[0]) || c10InLoopOf(h, b.Succs[1]) {
			continue
		}
		bo, ok := ifi.Cond.(*ssa.BinOp)
		if !ok {
			continue
		}
		var pairs [][2]ssa.Value
		switch bo.Op {
		case token.LSS:
			pairs = [][2]ssa.Value{{bo.X, bo.Y}}
		case token.GTR:
			pairs = [][2]ssa.Value{{bo.Y, bo.X}}
		case token.NEQ:
			pairs = [][2]ssa.Value{{bo.X, bo.Y}, {bo.Y, bo.X}}
		}
		for _, pr := range pairs {
			arg := c10LenOf(pr[1])
			if arg == nil || !c10SameSlice(arg, ia.X) {
				continue
			}
			if b != ia.Block() && b.Dominates(ia.Block()) {
				if pr[0] == ia.Index {
					return c10oElem, h, ""
				}
			} else if ia.Block().Dominates(b) {
				if b2, k := c10AddConst(pr[0]); k == 1 && b2 == ia.Index {
					return c10oElem, h, ""
				}
			}
		}
	}
	return c10oUnk, nil, "no loop test of the form index < len(that slice) guards the access"
}

// c10StdFunc names the (generic origin of the) static callee: package path, receiver type name, name.
func c10StdFunc(c CallSite) (pkg, recv, name string) {
	fn := c.Callee()
	if fn == nil {
		return "", "", ""
	}
	if o := fn.Origin(); o != nil {
		fn = o
	}
	if fn.Pkg != nil {
		pkg = fn.Pkg.Pkg.Path()
	} else if fn.Object() != nil && fn.Object().Pkg() != nil {
		pkg = fn.Object().Pkg().Path()
	}
	if rv := fn.Signature.Recv(); rv != nil {
		if n := NamedOf(rv.Type()); n != nil {
			recv = n.Obj().Name()
		}
	}
	return pkg, recv, fn.Name()
}

// c10ReorderKind classifies a library function that receives a slice:
// "clone" (returns an exact copy), "readonly", "stable" (stable sort: keeps
// the relative order of elements its comparator calls equal), "reorder"
// (may change the relative order of any two elements), "" (not in the table).
// One line of reason per group: these are the documented contracts of the
// standard library functions.
func c10ReorderKind(c CallSite) string {
	pkg, recv, name := c10StdFunc(c)
	switch pkg {
	case "slices":
		switch name {
		case "Clone":
			return "clone"
		case "Contains", "ContainsFunc", "Index", "IndexFunc", "Equal", "EqualFunc", "IsSorted", "IsSortedFunc",
			"BinarySearch", "BinarySearchFunc", "Max", "MaxFunc", "Min", "MinFunc", "Compare", "CompareFunc":
			return "readonly"
		case "SortStableFunc":
			return "stable"
		case "Sort", "SortFunc", "Reverse", "Backward":
			return "reorder" // pdqsort is not stable; Reverse/Backward invert the order
		}
	case "sort":
		switch name {
		case "Stable", "SliceStable":
			return "stable"
		case "IsSorted", "SliceIsSorted", "Search", "Find":
			return "readonly"
		}
		if recv == "" {
			return "reorder" // sort.Sort, sort.Slice, ...: not stable
		}
	case "container/heap":
		return "reorder" // heap order, not insertion order
	case "math/rand", "math/rand/v2":
		if name == "Shuffle" || name == "Perm" {
			return "reorder"
		}
	}
	return ""
}

func c10FuncValue(v ssa.Value) *ssa.Function {
	switch x := originValue(v).(type) {
	case *ssa.MakeClosure:
		fn, _ := x.Fn.(*ssa.Function)
		return fn
	case *ssa.Function:
		return x
	}
	return nil
}

// c10KeyOnlyCmp decides whether a comparator looks at nothing but the keys
// of the mutations it compares: 0 yes, 1 cannot tell, 2 it reads something
// else of a mutation (value, delete flag).
func c10KeyOnlyCmp(fn *ssa.Function, bi *c10BatchInfo) (int, string) {
	if fn == nil || fn.Blocks == nil {
		return 1, "the comparator is not a function literal or declared function"
	}
	verdict, why := 0, ""
	set := func(v int, w string) {
		if v > verdict {
			verdict, why = v, w
		}
	}
	_, elemIsIface := bi.elem.Underlying().(*types.Interface)
	field := func(t types.Type, idx int) {
		n := NamedOf(t)
		switch {
		case n != nil && n == bi.elemStruct && bi.keyField >= 0 && idx == bi.keyField:
		case n != nil && n == bi.elemStruct:
			set(2, "reads field "+fieldName(n, idx)+" of a mutation")
		default:
			set(1, "reads a field of "+typeKey(t))
		}
	}
	for _, b := range fn.Blocks {
		for _, in := range b.Instrs {
			switch x := in.(type) {
			case *ssa.IndexAddr, *ssa.Phi, *ssa.If, *ssa.Jump, *ssa.Return, *ssa.DebugRef, *ssa.Convert, *ssa.ChangeType, *ssa.Extract, *ssa.BinOp:
			case *ssa.UnOp:
				if x.Op == token.MUL {
					switch a := x.X.(type) {
					case *ssa.FreeVar:
						pt, _ := a.Type().Underlying().(*types.Pointer)
						if pt == nil || !c10IsSlice(pt.Elem()) || !types.Identical(pt.Elem().Underlying().(*types.Slice).Elem(), bi.elem) {
							set(1, "reads the captured variable "+a.Name())
						}
					case *ssa.Global:
						set(1, "reads the package variable "+a.Name())
					}
				}
			case *ssa.FieldAddr:
				field(x.X.Type(), x.Field)
			case *ssa.Field:
				field(x.X.Type(), x.Field)
			case *ssa.Call:
				cc := x.Common()
				switch {
				case cc.IsInvoke():
					if elemIsIface && types.Identical(cc.Value.Type(), bi.elem) && IsNamed(bi.elem, c10SortedPath, "Mutation") {
						if cc.Method.Name() != "Key" {
							set(2, "calls "+cc.Method.Name()+"() of a mutation")
						}
					} else {
						set(1, "calls "+CallSite{fn, x}.CalleeKey())
					}
				default:
					if bl, ok := cc.Value.(*ssa.Builtin); ok {
						if bl.Name() != "len" && bl.Name() != "min" && bl.Name() != "max" {
							set(1, "calls builtin "+bl.Name())
						}
						continue
					}
					pkg, recv, name := c10StdFunc(CallSite{fn, x})
					pure := recv == "" && (pkg == "strings" && name == "Compare" || pkg == "bytes" && name == "Compare" || pkg == "cmp" && (name == "Compare" || name == "Less"))
					if !pure {
						set(1, "calls "+CallSite{fn, x}.CalleeKey())
					}
				}
			default:
				set(1, fmt.Sprintf("contains a %T instruction", in))
			}
		}
	}
	return verdict, why
}

// c10CmpInfo picks the recording batch type whose element type the comparator works on.
func (f *c10OFlow) cmpInfo(elem types.Type) *c10BatchInfo {
	for _, bi := range f.ctx.recording {
		if elem != nil && types.Identical(bi.elem, elem) {
			return bi
		}
	}
	return nil
}

func c10SliceElem(t types.Type) types.Type {
	if pt, ok := t.Underlying().(*types.Pointer); ok {
		t = pt.Elem()
	}
	if s, ok := t.Underlying().(*types.Slice); ok {
		return s.Elem()
	}
	return nil
}

// stableSort judges a stable sort applied to the recorded slice.
func (f *c10OFlow) stableSort(c CallSite) {
	cc := c.Common()
	_, _, name := c10StdFunc(c)
	what := c.CalleeKey()
	var cmp *ssa.Function
	var elem types.Type
	switch name {
	case "SortStableFunc", "SliceStable":
		if len(cc.Args) == 2 {
			cmp = c10FuncValue(cc.Args[1])
			elem = c10SliceElem(originValue(cc.Args[0]).Type())
		}
	case "Stable":
		if len(cc.Args) == 1 {
			t := originValue(cc.Args[0]).Type()
			if mi, ok := cc.Args[0].(*ssa.MakeInterface); ok {
				t = mi.X.Type()
			}
			elem = c10SliceElem(t)
			if sel := f.ctx.p.SSA.MethodSets.MethodSet(t).Lookup(nil, "Less"); sel != nil {
				cmp = f.ctx.p.SSA.MethodValue(sel)
			}
		}
	}
	bi := f.cmpInfo(elem)
	if bi == nil {
		f.undec("intact", "%s at line %d sorts the mutations; cannot relate its element type to a recording batch type", what, f.line(c.Pos()))
		return
	}
	v, why := c10KeyOnlyCmp(cmp, bi)
	switch v {
	case 0:
		f.note("intact", "%s with a comparator that reads only the mutation key (%s): same-key mutations keep their relative order", what, FuncKey(cmp))
	case 2:
		f.viol("intact", "%s at line %d: the comparator %s: mutations of one key that differ in it are moved past each other, so a set and a later delete of the same key can swap", what, f.line(c.Pos()), why)
	default:
		f.undec("intact", "%s at line %d: cannot decide that the comparator reads only the mutation key (%s)", what, f.line(c.Pos()), why)
	}
}

func (f *c10OFlow) call(x ssa.CallInstruction, v ssa.Value, bits c10OBits, loops map[*ssa.BasicBlock]bool) {
	c := CallSite{f.fn, x}
	cc := c.Common()
	call, _ := x.(*ssa.Call)
	if b, ok := cc.Value.(*ssa.Builtin); ok {
		switch b.Name() {
		case "append":
			if call == nil || len(cc.Args) == 0 {
				return
			}
			if sb := bits & c10oSeqMask; sb != 0 {
				if len(cc.Args) > 1 && cc.Args[1] == v && cc.Args[0] != v && c10EmptySlice(cc.Args[0]) {
					f.add(call, sb, nil)
				} else {
					f.add(call, c10oPart, nil)
				}
			}
			if eb := bits & c10oElemMask; eb != 0 {
				if c10IsBytesCarrier(call.Type()) {
					f.add(call, eb, loops)
				} else {
					f.add(call, c10oRegroup, nil)
				}
			}
		case "copy":
			if len(cc.Args) != 2 {
				return
			}
			dst, src := cc.Args[0], cc.Args[1]
			if src == v {
				if bits&c10oSeqMask != 0 {
					nb := c10OBits(c10oPart)
					if mk, ok := originValue(dst).(*ssa.MakeSlice); ok && bits&c10oSeq != 0 {
						if a := c10LenOf(mk.Len); a != nil && c10SameSlice(a, v) {
							nb = c10oSeq
						}
					}
					f.addSliceVar(dst, nb, nil)
					if o := originValue(dst); o != dst {
						f.add(o, nb, nil)
					}
				}
				if eb := bits & c10oElemMask; eb != 0 {
					if c10IsBytesCarrier(dst.Type()) {
						f.addSliceVar(dst, eb, loops)
					} else {
						f.addSliceVar(dst, c10oRegroup, nil)
					}
				}
			}
			if dst == v && src != v && bits&c10oSeqMask != 0 && call != nil {
				f.copies = append(f.copies, call)
			}
		}
		return
	}
	if bits&c10oSeqMask != 0 {
		f.seqCall(x, c, v, bits)
	}
	if eb := bits & c10oElemMask; eb != 0 {
		// reading the element itself: sorted.Mutation accessors, parameterless methods of the element
		accessor := false
		if cc.IsInvoke() && IsNamed(cc.Value.Type(), c10SortedPath, "Mutation") && cc.Value == v {
			accessor = true
		} else if callee := cc.StaticCallee(); callee != nil && callee.Signature.Recv() != nil && len(cc.Args) == 1 && cc.Args[0] == v {
			accessor = true
		}
		carries := call != nil && c10IsBytesCarrier(call.Type())
		switch {
		case accessor:
			if call != nil {
				f.add(call, eb, loops)
			}
		case c10IsCheckSizes(c) || c10Harmless(c):
			if carries {
				f.add(call, eb, loops)
			}
		case !cc.IsInvoke() && cc.Value == v:
			f.undec("pass", "a function literal that captured a mutation is called at line %d", f.line(x.Pos()))
		default:
			f.site(x, &c, bits, loops)
			if carries {
				f.add(call, eb, loops)
			}
		}
	}
}

// seqCall: the recorded slice (or a closure that captured it) is handed to a call.
func (f *c10OFlow) seqCall(x ssa.CallInstruction, c CallSite, v ssa.Value, bits c10OBits) {
	cc := c.Common()
	call, _ := x.(*ssa.Call)
	if !cc.IsInvoke() && cc.Value == v {
		f.undec("intact", "a function literal that captured the recorded mutation slice is called at line %d; cannot follow the slice into it", f.line(x.Pos()))
		return
	}
	switch c10ReorderKind(c) {
	case "clone":
		if call != nil {
			f.add(call, bits&c10oSeqMask, nil)
		}
		f.note("intact", "%s (exact copy)", c.CalleeKey())
		return
	case "readonly":
		return
	case "reorder":
		f.viol("intact", "the recorded mutation slice (or a copy of it) is handed to %s at line %d, which does not keep the relative order of equal-keyed elements: a set and a later delete of one key inside a batch can be applied in the opposite order", c.CalleeKey(), f.line(x.Pos()))
		return
	case "stable":
		f.stableSort(c)
		return
	}
	if c10Harmless(c) {
		return
	}
	callee := c.Callee()
	if callee != nil && callee.Blocks != nil && InModule(callee) && callee.Parent() == nil && f.depth < 2 && !cc.IsInvoke() {
		seeds := map[int]c10OBits{}
		key := FuncKey(callee)
		for i, a := range cc.Args {
			if b := f.lab[a] & c10oSeqMask; b != 0 && i < len(callee.Params) {
				seeds[i] = b
				key += fmt.Sprintf("|%d:%d", i, b)
			}
		}
		sub := f.ctx.helpers[key]
		if sub == nil {
			sub = f.ctx.analyse(callee, seeds, f.depth+1)
			f.ctx.helpers[key] = sub
		}
		for cl, ms := range sub.viol {
			for _, m := range ms {
				f.viol(cl, "in %s: %s", FuncKey(callee), m)
			}
		}
		for cl, ms := range sub.und {
			for _, m := range ms {
				f.undec(cl, "in %s: %s", FuncKey(callee), m)
			}
		}
		for cl, ms := range sub.notes {
			for _, m := range ms {
				f.note(cl, "in %s: %s", FuncKey(callee), m)
			}
		}
		if call != nil && sub.ret != 0 {
			f.add(call, sub.ret, nil)
		}
		if len(sub.sites) > 0 {
			s := f.site(x, &c, 0, nil)
			s.helper = sub
		}
		return
	}
	f.undec("intact", "the recorded mutation slice is handed to %s at line %d; cannot follow it there", c.CalleeKey(), f.line(x.Pos()))
}

func (f *c10OFlow) step(v ssa.Value, bits c10OBits, loops map[*ssa.BasicBlock]bool, r ssa.Instruction) {
	eb := bits & c10oElemMask
	switch x := r.(type) {
	case *ssa.Store:
		if x.Val != v {
			return
		}
		if ia, ok := x.Addr.(*ssa.IndexAddr); ok && c10IsSlice(ia.X.Type()) && !c10IsBytesCarrier(ia.X.Type()) {
			if eb != 0 {
				f.addSliceVar(ia.X, c10oRegroup, nil)
			}
			if bits&c10oSeqMask != 0 {
				f.undec("intact", "the recorded mutation slice is stored into another slice at line %d", f.line(x.Pos()))
			}
			return
		}
		if al, ok := c10RootCell(x.Addr).(*ssa.Alloc); ok && al.Parent() == f.fn {
			f.add(al, bits, loops)
			return
		}
		if bits&c10oSeqMask != 0 {
			f.undec("intact", "the recorded mutation slice is stored to %s at line %d; cannot follow it", AccessPath(x.Addr), f.line(x.Pos()))
		}
		if eb != 0 {
			f.site(x, nil, bits, loops)
		}
	case *ssa.MapUpdate:
		if x.Key != v && x.Value != v {
			return
		}
		if bits&c10oSeqMask != 0 {
			f.undec("intact", "the recorded mutation slice is put into a map at line %d", f.line(x.Pos()))
		}
		if eb == 0 {
			return
		}
		if mk, ok := originValue(x.Map).(*ssa.MakeMap); ok && mk.Parent() == f.fn {
			f.add(mk, eb|c10oMapOf, loops)
			f.addSliceVar(x.Map, eb|c10oMapOf, loops)
		} else {
			f.site(x, nil, bits, loops)
		}
	case *ssa.MakeClosure:
		f.add(x, bits, loops)
	case ssa.CallInstruction:
		f.call(x, v, bits, loops)
	case *ssa.Return:
		f.sum.ret |= bits & c10oSeqMask
	case *ssa.If, *ssa.DebugRef, *ssa.Panic, *ssa.RunDefers, *ssa.Jump:
	case *ssa.Send:
		if bits&c10oSeqMask != 0 {
			f.undec("intact", "the recorded mutation slice is sent on a channel at line %d", f.line(x.Pos()))
		}
		if eb != 0 && x.X == v {
			f.site(x, nil, bits, loops)
		}
	case *ssa.Phi:
		hb := x.Block()
		carried := false
		if eb != 0 {
			for i, e := range x.Edges {
				if e == v && hb.Dominates(hb.Preds[i]) {
					carried = true
				}
			}
		}
		if carried {
			f.add(x, bits&^c10oElem|c10oCarried, nil)
		} else {
			f.add(x, bits, loops)
		}
	case *ssa.IndexAddr:
		if x.X != v {
			return
		}
		if bits&c10oSeqMask != 0 && c10IsSlice(v.Type()) {
			var nb c10OBits
			var h *ssa.BasicBlock
			why := ""
			if bits&c10oSeq == 0 {
				nb, why = c10oUnk, "the slice indexed is a sub-slice or an extended copy of the recorded one"
			} else {
				nb, h, why = c10ClassifyIndex(x)
			}
			if why != "" {
				f.idxWhy[x] = why
			}
			f.add(x, nb, map[*ssa.BasicBlock]bool{h: true})
			if refs := x.Referrers(); refs != nil {
				for _, u := range *refs {
					if st, ok := u.(*ssa.Store); ok && st.Addr == ssa.Value(x) {
						f.idxWrite = append(f.idxWrite, st)
					}
				}
			}
		}
		if eb != 0 {
			f.add(x, eb, loops)
		}
	case *ssa.Slice:
		if x.X != v {
			return
		}
		nb := eb
		if sb := bits & c10oSeqMask; sb != 0 && c10IsSlice(v.Type()) {
			if x.Low == nil && x.High == nil && x.Max == nil {
				nb |= sb
			} else {
				nb |= c10oPart
			}
		}
		f.add(x, nb, loops)
	case *ssa.Range:
		if bits&c10oMapOf != 0 {
			f.add(x, c10oUnord, nil)
		} else {
			f.add(x, eb, loops)
		}
	case *ssa.Lookup:
		if x.X != v {
			return
		}
		if bits&c10oMapOf != 0 {
			f.add(x, c10oUnk, nil)
			f.idxWhy[x] = "the mutation is looked up in a map filled from the mutations"
		} else {
			f.add(x, eb, loops)
		}
	case *ssa.BinOp:
		switch x.Op {
		case token.EQL, token.NEQ, token.LSS, token.LEQ, token.GTR, token.GEQ:
			return
		}
		f.add(x, eb, loops)
	case *ssa.UnOp, *ssa.FieldAddr, *ssa.Field, *ssa.ChangeType, *ssa.MakeInterface, *ssa.ChangeInterface,
		*ssa.TypeAssert, *ssa.Extract, *ssa.Convert, *ssa.SliceToArrayPointer, *ssa.MultiConvert:
		f.add(x.(ssa.Value), bits, loops)
	case ssa.Value:
		f.add(x, eb, loops)
	}
}

// seed marks where the recorded slice of a recording batch type enters fn:
// loads of the slice field and calls of a method that returns it.
func (f *c10OFlow) seed() {
	for _, b := range f.fn.Blocks {
		for _, in := range b.Instrs {
			switch x := in.(type) {
			case *ssa.UnOp:
				if x.Op != token.MUL {
					continue
				}
				if fa, ok := x.X.(*ssa.FieldAddr); ok {
					if bi := f.ctx.recording[NamedOf(fa.X.Type())]; bi != nil && fa.Field == bi.seqField {
						f.add(x, c10oSeq, nil)
						f.sum.nSeeds++
					}
				}
			case *ssa.Field:
				if bi := f.ctx.recording[NamedOf(x.X.Type())]; bi != nil && x.Field == bi.seqField {
					f.add(x, c10oSeq, nil)
					f.sum.nSeeds++
				}
			case *ssa.Call:
				cc := x.Common()
				for _, bi := range f.ctx.recording {
					for acc, bits := range bi.accessors {
						hit := false
						if cc.IsInvoke() {
							if it, ok := cc.Value.Type().Underlying().(*types.Interface); ok && cc.Method.Name() == acc.Name() &&
								types.Identical(cc.Method.Type().(*types.Signature).Results(), acc.Signature.Results()) &&
								(types.Implements(types.NewPointer(bi.typ), it) || types.Implements(bi.typ, it)) {
								hit = true
							}
						} else if cc.StaticCallee() == acc {
							hit = true
						}
						if hit {
							f.add(x, bits, nil)
							f.sum.nSeeds++
						}
					}
				}
			}
		}
	}
}

func (ctx *c10OrderCtx) analyse(fn *ssa.Function, paramSeeds map[int]c10OBits, depth int) *c10OrderSum {
	sum := &c10OrderSum{fn: fn, viol: map[string][]string{}, und: map[string][]string{}, notes: map[string][]string{}}
	f := &c10OFlow{ctx: ctx, fn: fn, depth: depth, lab: map[ssa.Value]c10OBits{}, loops: map[ssa.Value]map[*ssa.BasicBlock]bool{},
		sum: sum, siteOf: map[ssa.Instruction]*c10OSite{}, idxWhy: map[ssa.Value]string{}}
	for i, b := range paramSeeds {
		f.add(fn.Params[i], b, nil)
		sum.nSeeds++
	}
	f.seed()
	for len(f.work) > 0 {
		v := f.work[len(f.work)-1]
		f.work = f.work[:len(f.work)-1]
		refs := v.Referrers()
		if refs == nil {
			continue
		}
		for _, r := range *refs {
			if r.Parent() == fn {
				f.step(v, f.lab[v], f.loops[v], r)
			}
		}
	}
	f.finish()
	return sum
}

// finish judges index writes and the places where mutations are handed on.
func (f *c10OFlow) finish() {
	for _, st := range f.idxWrite {
		if f.lab[st.Val]&(c10oElemMask|c10oSeqMask) != 0 {
			f.viol("intact", "an element of the recorded mutation slice is overwritten with another mutation at line %d (swap/move in place): the recording order is changed before the batch is applied", f.line(st.Pos()))
		} else {
			f.undec("intact", "an element of the recorded mutation slice is overwritten at line %d", f.line(st.Pos()))
		}
	}
	for _, cp := range f.copies {
		dst, src := cp.Call.Args[0], cp.Call.Args[1]
		if _, fresh := originValue(dst).(*ssa.MakeSlice); !fresh || f.lab[src]&c10oSeqMask == 0 {
			f.undec("intact", "copy() at line %d writes into the recorded mutation slice", f.line(cp.Pos()))
		}
	}
	whyUnk := func() string {
		var ws []string
		for _, w := range f.idxWhy {
			ws = append(ws, w)
		}
		sort.Strings(ws)
		return strings.Join(dedupe(ws), "; ")
	}
	passes := map[any]bool{}
	for _, s := range f.sum.sites {
		ln := f.line(s.instr.Pos())
		what := "a store"
		if s.call != nil {
			what = s.call.CalleeKey()
			ln = f.line(s.call.Pos())
		}
		if s.helper != nil {
			passes[s.instr] = true
			if c10LoopHeader(s.instr.Block()) != nil {
				f.undec("pass", "%s, which replays the whole mutation slice, is called inside a loop at line %d", what, ln)
			}
			if s.bits == 0 {
				continue
			}
		}
		if s.call != nil && s.call.IsGo() {
			f.viol("pass", "the mutation is handed to %s in a new goroutine at line %d: nothing orders it with the mutations before and after it", what, ln)
			continue
		}
		if s.call != nil && s.call.IsDefer() {
			f.undec("pass", "the mutation is handed to the deferred call %s at line %d: deferred calls run in reverse order", what, ln)
			continue
		}
		switch b := s.bits; {
		case b&c10oRev != 0:
			f.viol("pass", "%s at line %d receives mutations read at a descending index: the batch is replayed backwards, so the FIRST set/delete of a key wins instead of the last", what, ln)
		case b&c10oUnord != 0:
			f.viol("pass", "%s at line %d receives mutations obtained by ranging over a map filled from the batch: map iteration order is random and a map keyed by mutation key keeps one mutation per key, so the recording order is lost", what, ln)
		case b&c10oRegroup != 0:
			f.undec("pass", "%s at line %d receives mutations from a slice rebuilt element by element; cannot decide that the rebuilt slice keeps sets and deletes of one key in recording order", what, ln)
		case b&c10oCarried != 0:
			f.undec("pass", "%s at line %d receives a mutation carried over from an earlier loop iteration", what, ln)
		case b&c10oUnk != 0:
			f.undec("pass", "%s at line %d receives mutations read at an index the analysis cannot prove ascending from element 0 to len-1 (%s)", what, ln, whyUnk())
		case b&c10oElem != 0:
			if len(s.loops) != 1 {
				f.undec("pass", "%s at line %d mixes mutations of %d different loops", what, ln, len(s.loops))
				continue
			}
			for h := range s.loops {
				if !c10InLoopOf(h, s.instr.Block()) {
					f.undec("pass", "%s at line %d uses a mutation outside the loop that read it", what, ln)
				} else {
					passes[h] = true
				}
			}
		}
	}
	f.sum.passes = len(passes)
	if len(passes) > 1 {
		f.viol("pass", "the mutations are handed on in %d separate passes over the recorded slice: a pass that applies some mutations (e.g. all deletes) before another pass applies the rest changes the relative order of a set and a delete of one key", len(passes))
	}
	// clause 4: one channel per underlying store
	chans := map[string]map[string]bool{}
	for _, s := range f.sum.sites {
		if s.call == nil || s.bits&c10oElem == 0 {
			continue
		}
		store, ch, ok := c10Channel(*s.call, f.line)
		if !ok {
			continue
		}
		if chans[store] == nil {
			chans[store] = map[string]bool{}
		}
		chans[store][ch] = true
	}
	var stores []string
	for st := range chans {
		stores = append(stores, st)
	}
	sort.Strings(stores)
	for _, st := range stores {
		var cs []string
		for ch := range chans[st] {
			cs = append(cs, ch)
		}
		sort.Strings(cs)
		if len(cs) > 1 {
			f.viol("channels", "mutations for %s travel through %d different channels (%s): whatever goes through one channel is applied before or after everything in the other, so a set and a delete of one key lose their relative order", st, len(cs), strings.Join(cs, ", "))
		} else {
			f.note("channels", "%s <- %s", st, cs[0])
		}
	}
}

// c10Channel names the way one mutation reaches an underlying store: store =
// access path of the store (for a batch: of the store BeginBatch was called
// on), ch = "direct" or the batch it is queued in.
func c10Channel(c CallSite, line func(token.Pos) int) (store, ch string, ok bool) {
	cc := c.Common()
	var recv ssa.Value
	switch {
	case cc.IsInvoke():
		recv = cc.Value
	case cc.StaticCallee() != nil && cc.StaticCallee().Signature.Recv() != nil && len(cc.Args) > 0:
		recv = cc.Args[0]
	default:
		return "", "", false
	}
	// a batch obtained from BeginBatch of some store?
	var begins []*ssa.Call
	clean := true
	seen := map[ssa.Value]bool{}
	var walk func(v ssa.Value)
	walk = func(v ssa.Value) {
		if v == nil || seen[v] || IsNilConst(v) {
			return
		}
		seen[v] = true
		switch x := v.(type) {
		case *ssa.Call:
			if x.Call.IsInvoke() && x.Call.Method.Name() == "BeginBatch" || x.Call.StaticCallee() != nil && x.Call.StaticCallee().Name() == "BeginBatch" {
				begins = append(begins, x)
				return
			}
		case *ssa.Phi:
			for _, e := range x.Edges {
				walk(e)
			}
			return
		case *ssa.ChangeInterface:
			walk(x.X)
			return
		case *ssa.MakeInterface:
			walk(x.X)
			return
		case *ssa.UnOp:
			if x.Op == token.MUL {
				if cell, ok := varOf(x.X); ok {
					if sts := storesTo(cell); len(sts) > 0 {
						for _, st := range sts {
							walk(st.Val)
						}
						return
					}
				}
			}
		}
		clean = false
	}
	walk(recv)
	if len(begins) > 0 && clean {
		var paths, ids []string
		for _, b := range begins {
			a := CallSite{c.Fn, b}.Args()
			if len(a) == 0 {
				return "", "", false
			}
			paths = append(paths, AccessPath(a[0]))
			ids = append(ids, fmt.Sprintf("the batch %s begun at line %d", b.Name(), line(b.Pos())))
		}
		paths = dedupe(paths)
		if len(paths) != 1 {
			return "", "", false
		}
		sort.Strings(ids)
		return paths[0], strings.Join(ids, "+"), true
	}
	return AccessPath(recv), "direct calls", true
}

// c10RecordRes: what one Set/Delete method of a batch type does with its key.
type c10RecordRes struct {
	nRecord  int
	field    int            // recording: the slice field appended to
	forwards []map[int]bool // direct: per hand-over, the receiver fields among the call's operands
	viol     []string
	und      []string
	keyFlds  map[c10FieldKey]map[byte]bool
}

// c10RecordAnalysis follows the key parameter of a batch type's Set/Delete
// (also through one helper that receives the batch) to where it is recorded
// or forwarded.
func c10RecordAnalysis(p *Program, fn *ssa.Function, recvIdx int, seeds map[int]string, depth int, res *c10RecordRes) {
	recv := ssa.Value(fn.Params[recvIdx])
	f := c10NewFlow(fn)
	for i, l := range seeds {
		f.source(fn.Params[i], l)
	}
	f.run()
	for k, v := range f.fieldStores {
		if res.keyFlds[k] == nil {
			res.keyFlds[k] = map[byte]bool{}
		}
		for b := range v {
			res.keyFlds[k][b] = true
		}
	}
	for _, e := range f.escapes {
		res.und = append(res.und, "cannot follow the key in "+FuncKey(fn)+": "+e)
	}
	line := func(pos token.Pos) int { return p.Fset.Position(pos).Line }
	for _, s := range f.sinks {
		if len(c10Kinds(s.labels, 'K')) == 0 {
			continue
		}
		if s.call != nil {
			c := *s.call
			if c10IsCheckSizes(c) || c10Harmless(c) {
				continue
			}
			if c.IsGo() {
				res.viol = append(res.viol, fmt.Sprintf("hands the key to %s in a new goroutine (line %d): the order of recording is lost", s.what, line(c.Pos())))
				continue
			}
			cc := c.Common()
			// a helper that receives the batch itself
			if callee := cc.StaticCallee(); callee != nil && InModule(callee) && callee.Blocks != nil && depth < 1 {
				ri, sub := -1, map[int]string{}
				for i, a := range cc.Args {
					if i >= len(callee.Params) {
						break
					}
					if sameOrigin(a, recv) {
						ri = i
					}
					for l := range f.lab[a] {
						sub[i] = l
					}
				}
				if ri >= 0 {
					c10RecordAnalysis(p, callee, ri, sub, depth+1, res)
					continue
				}
			}
			ops := append([]ssa.Value{}, c.Args()...)
			if !cc.IsInvoke() && cc.StaticCallee() == nil {
				ops = append(ops, cc.Value)
			}
			flds := map[int]bool{}
			for _, o := range ops {
				if root, idx := c10FieldChain(o); len(idx) > 0 && sameOrigin(root, recv) {
					flds[idx[0]] = true
				}
			}
			res.forwards = append(res.forwards, flds)
			continue
		}
		st, ok := s.instr.(*ssa.Store)
		if !ok {
			res.und = append(res.und, fmt.Sprintf("puts the key into %s (line %d); cannot tell the order in which it comes back out", s.what, line(s.instr.Pos())))
			continue
		}
		switch st.Val.Type().Underlying().(type) {
		case *types.Slice, *types.Map, *types.Struct, *types.Pointer:
		case *types.Basic:
			if !c10IsBytesCarrier(st.Val.Type()) {
				continue
			}
		case *types.Interface:
			if isErrorType(st.Val.Type()) {
				continue
			}
		default:
			continue
		}
		fa, ok := st.Addr.(*ssa.FieldAddr)
		if !ok || !sameOrigin(fa.X, recv) || !c10IsSlice(st.Val.Type()) || c10IsBytesCarrier(st.Val.Type()) {
			res.und = append(res.und, fmt.Sprintf("stores the key at %s (line %d), not in a slice field of the batch; cannot tell the order in which it comes back out", s.what, line(st.Pos())))
			continue
		}
		if res.nRecord > 0 && res.field != fa.Field {
			res.viol = append(res.viol, fmt.Sprintf("records into two different slice fields (%s and %s): the relative order of the mutations in one and the other is lost", fieldName(fa.X.Type(), res.field), fieldName(fa.X.Type(), fa.Field)))
			continue
		}
		res.nRecord++
		res.field = fa.Field
		call, isCall := st.Val.(*ssa.Call)
		isAppend := false
		if isCall {
			if b, ok := call.Call.Value.(*ssa.Builtin); ok && b.Name() == "append" {
				isAppend = true
			}
		}
		if !isAppend {
			res.und = append(res.und, fmt.Sprintf("assigns the slice field %s a value that is not append(%s, …) (line %d); cannot decide that the new mutation is placed after all earlier ones", fieldName(fa.X.Type(), fa.Field), fieldName(fa.X.Type(), fa.Field), line(st.Pos())))
			continue
		}
		ok = false
		if ld, isLd := call.Call.Args[0].(*ssa.UnOp); isLd && ld.Op == token.MUL {
			if fa0, isFA := ld.X.(*ssa.FieldAddr); isFA && fa0.Field == fa.Field && sameOrigin(fa0.X, recv) {
				ok = true
			}
		}
		if !ok {
			res.viol = append(res.viol, fmt.Sprintf("the slice field %s is assigned append(<something else>, …) at line %d: the new mutation is not placed after all earlier ones (prepending or rebuilding reverses/loses the recording order)", fieldName(fa.X.Type(), fa.Field), line(st.Pos())))
		}
	}
}

func c10RuleBatchOrder(p *Program, r *Reporter) {
	const rule = "V-batch-order"
	bmIface := p.Iface("pkg/sorted", "BatchMutation")
	kvIface := p.Iface("pkg/sorted", "KeyValue")
	ctx := &c10OrderCtx{p: p, recording: map[*types.Named]*c10BatchInfo{}, helpers: map[string]*c10OrderSum{}}
	infos := map[*types.Named]*c10BatchInfo{}
	// ---- (3): every batch type records at the end of one slice, or forwards to one ordered engine batch
	for _, n := range p.Implementers(bmIface, false) {
		bi := &c10BatchInfo{typ: n, seqField: -1, keyField: -1, accessors: map[*ssa.Function]c10OBits{}}
		infos[n] = bi
		tkey := typeKey(n)
		site := p.Pos(n.Obj().Pos())
		var results []*c10RecordRes
		allKeyFlds := map[c10FieldKey]map[byte]bool{}
		for _, m := range []string{"Set", "Delete"} {
			fn, decl := c10Method(p, n, m)
			if fn == nil || !decl || fn.Blocks == nil || len(fn.Params) < 2 {
				r.Undecided(rule, tkey+"."+m+"#records-in-order", site, "method is promoted or has no body: cannot see how the mutation is recorded")
				results = append(results, nil)
				continue
			}
			res := &c10RecordRes{keyFlds: allKeyFlds}
			seeds := map[int]string{1: "K:param"}
			if len(fn.Params) > 2 {
				seeds[2] = "V:param"
			}
			c10RecordAnalysis(p, fn, 0, seeds, 0, res)
			results = append(results, res)
			construct, fsite := FuncKey(fn)+"#records-in-order", p.Pos(fn.Pos())
			switch {
			case len(res.viol) > 0:
				r.Violation(rule, construct, fsite, strings.Join(res.viol, "; "))
			case len(res.und) > 0:
				r.Undecided(rule, construct, fsite, strings.Join(res.und, "; "))
			case res.nRecord > 0 && len(res.forwards) > 0:
				r.Undecided(rule, construct, fsite, "both records the key in a slice of the batch and hands it to a call; cannot tell which of the two is replayed")
			case res.nRecord > 0:
				r.OK(rule, construct, fsite, "records the mutation as "+fieldName(types.NewPointer(n), res.field)+" = append("+fieldName(types.NewPointer(n), res.field)+", …): placed after every earlier mutation of the batch")
			case len(res.forwards) > 0:
				r.OK(rule, construct, fsite, fmt.Sprintf("hands the key synchronously to an object held in a field of the batch at recording time (%d hand-over(s)); nothing is replayed later", len(res.forwards)))
			default:
				r.Violation(rule, construct, fsite, "the key reaches neither a slice field of the batch nor a call: the mutation is dropped (or the value flow could not be followed)")
			}
		}
		// Set and Delete go into ONE sequence
		construct := tkey + "#one-sequence"
		s, d := results[0], results[1]
		switch {
		case s == nil || d == nil || len(s.viol)+len(s.und)+len(d.viol)+len(d.und) > 0:
			r.Undecided(rule, construct, site, "Set/Delete could not be classified (see #records-in-order)")
		case s.nRecord > 0 && d.nRecord > 0 && len(s.forwards)+len(d.forwards) == 0:
			if s.field != d.field {
				r.Violation(rule, construct, site, "Set records into "+fieldName(types.NewPointer(n), s.field)+" but Delete into "+fieldName(types.NewPointer(n), d.field)+": the relative order of a set and a delete of one key is not recorded at all")
				break
			}
			bi.kind, bi.seqField = "recording", s.field
			if st, ok := n.Underlying().(*types.Struct); ok {
				bi.elem = c10SliceElem(st.Field(s.field).Type())
			}
			if bi.elem == nil {
				r.Undecided(rule, construct, site, "the recording field is not a slice")
				bi.kind = ""
				break
			}
			if es := NamedOf(bi.elem); es != nil {
				if _, ok := es.Underlying().(*types.Struct); ok && !types.IsInterface(bi.elem) {
					if _, isPtr := bi.elem.(*types.Pointer); !isPtr {
						bi.elemStruct = es
					}
					for k, kinds := range allKeyFlds {
						if k.typ == es && len(kinds) == 1 && kinds['K'] {
							if bi.keyField >= 0 && bi.keyField != k.idx {
								bi.keyField = -2
							} else if bi.keyField == -1 {
								bi.keyField = k.idx
							}
						}
					}
				}
			}
			ctx.recording[n] = bi
			r.OK(rule, construct, site, "Set and Delete append to the same slice field "+fieldName(types.NewPointer(n), s.field)+": one sequence holds the batch in recording order")
		case s.nRecord == 0 && d.nRecord == 0 && len(s.forwards) > 0 && len(d.forwards) > 0:
			common := map[int]bool{}
			for k := range s.forwards[0] {
				common[k] = true
			}
			for _, fw := range append(append([]map[int]bool{}, s.forwards...), d.forwards...) {
				for k := range common {
					if !fw[k] {
						delete(common, k)
					}
				}
			}
			if len(common) == 0 {
				r.Violation(rule, construct, site, "Set and Delete do not hand their key to one common object held in a field of the batch: sets and deletes are queued in different engine batches/transactions, so their relative order is lost")
				break
			}
			bi.kind = "direct"
			var names []string
			for k := range common {
				names = append(names, fieldName(types.NewPointer(n), k))
			}
			sort.Strings(names)
			r.OK(rule, construct, site, "every hand-over of Set and of Delete goes to the object in field "+strings.Join(names, "/")+" of the batch: one ordered engine batch/transaction receives sets and deletes in call order")
		default:
			r.Undecided(rule, construct, site, "Set and Delete work differently (one records in the batch, the other calls out); cannot tell how their relative order is kept")
		}
	}
	// ---- methods of recording types that give the slice out (Mutations())
	for _, bi := range ctx.recording {
		n := bi.typ
		for i := 0; i < n.NumMethods(); i++ {
			fn := p.SSA.FuncValue(n.Method(i))
			if fn == nil || fn.Blocks == nil {
				continue
			}
			sig := fn.Signature
			if sig.Params().Len() != 0 || sig.Results().Len() != 1 {
				continue
			}
			if el := c10SliceElem(sig.Results().At(0).Type()); el == nil || !c10IsSlice(sig.Results().At(0).Type()) || !types.Identical(el, bi.elem) {
				continue
			}
			sum := ctx.analyse(fn, nil, 1)
			construct, site := FuncKey(fn)+"#returns-sequence", p.Pos(fn.Pos())
			switch {
			case len(sum.viol["intact"])+len(sum.viol["pass"]) > 0:
				r.Violation(rule, construct, site, strings.Join(append(sum.viol["intact"], sum.viol["pass"]...), "; "))
			case len(sum.und["intact"])+len(sum.und["pass"]) > 0:
				r.Undecided(rule, construct, site, strings.Join(append(sum.und["intact"], sum.und["pass"]...), "; "))
			case sum.ret&c10oSeqMask == 0:
				r.Undecided(rule, construct, site, "returns a slice of mutations that is not the recorded slice or an order-preserving copy of it; CommitBatch implementations that replay its result cannot be followed")
			default:
				bi.accessors[fn] = sum.ret & c10oSeqMask
				r.OK(rule, construct, site, "returns the recorded slice "+fieldName(types.NewPointer(n), bi.seqField)+" itself (or an order-preserving copy), untouched")
			}
		}
	}
	// ---- (1) (2) (4): every declared CommitBatch
	done := map[*ssa.Function]bool{}
	for _, n := range p.Implementers(kvIface, false) {
		cb, decl := c10Method(p, n, "CommitBatch")
		if cb == nil || !decl || done[cb] {
			continue // promoted: V-size checks that it comes from an enumerated implementer
		}
		done[cb] = true
		site := p.Pos(cb.Pos())
		key := FuncKey(cb)
		var bt *c10BatchInfo
		if bb, declb := c10Method(p, n, "BeginBatch"); bb != nil && declb {
			bt = infos[NamedOf(c10BatchConcrete(bb, 0))]
		}
		sum := ctx.analyse(cb, nil, 0)
		if bt != nil && bt.kind == "direct" && sum.nSeeds == 0 {
			r.OKTable(rule, key+"#applied-at-recording", site, "BeginBatch returns "+typeKey(bt.typ)+", whose Set/Delete hand each mutation to the engine batch/transaction when they are called (see "+typeKey(bt.typ)+"#one-sequence); CommitBatch replays nothing")
			continue
		}
		if sum.nSeeds == 0 {
			r.Undecided(rule, key+"#one-ascending-pass", site, "CommitBatch never reads the recorded mutation slice of a recording batch type (neither the slice field nor a method returning it): cannot find where the batch is applied")
			continue
		}
		emit := func(clause, construct, okText string) {
			switch {
			case len(sum.viol[clause]) > 0:
				r.Violation(rule, construct, site, strings.Join(sum.viol[clause], "; "))
			case len(sum.und[clause]) > 0:
				r.Undecided(rule, construct, site, strings.Join(sum.und[clause], "; "))
			default:
				if ns := sum.notes[clause]; len(ns) > 0 {
					okText += " [" + strings.Join(ns, "; ") + "]"
				}
				r.OK(rule, construct, site, okText)
			}
		}
		emit("intact", key+"#sequence-intact", "the recorded mutation slice and every copy of it reach no reordering function, no unstable sort, no in-place element write and no code the analysis cannot follow before it is replayed")
		if len(sum.sites) == 0 && len(sum.viol["pass"])+len(sum.und["pass"]) == 0 {
			r.Undecided(rule, key+"#one-ascending-pass", site, "CommitBatch reads the recorded mutation slice but hands no mutation to a call or store: cannot find where the batch is applied")
		} else {
			emit("pass", key+"#one-ascending-pass", fmt.Sprintf("all %d place(s) that hand a mutation on sit in one loop whose counter starts at element 0, advances by one and is tested against len(slice): the batch is replayed once, first to last", len(sum.sites)))
		}
		emit("channels", key+"#one-channel-per-store", "each underlying store receives all its mutations through a single channel (direct calls, or one batch begun on it), so the replay order is the order that store sees")
	}
	r.Floor(rule, 24)
}
