package main

import (
	"fmt"
	"go/constant"
	"go/token"
	"go/types"
	"sort"
	"strings"
	"time"

	"golang.org/x/tools/go/ssa"
)

func init() {
	register(&PropSpec{
		ID:    "C10",
		Title: "Every sorted key/value store is a byte-ordered map with atomic batches",
		Explanation: "Decided (structural necessary conditions, enumerated over every non-test type implementing sorted.KeyValue / sorted.Iterator). " +
			"HOW THE RULES LOOK AT CODE: every rule that speaks of a function means its EFFECTIVE BODY — the function plus, four levels deep, the unexported functions/methods of its package and the function literals it calls statically (call or defer; not go), a parameter of such a helper standing for the caller's argument and its results for the call's results; exported functions and interface methods are entry points and are never followed. Anchors are resolved by role (the constructor's parameter positions, field types, what an exported entry point returns), not by the names of internal helpers, types or fields. Path rules are decided by an interpreter that walks every path of the entry function with the helpers' bodies in place and the deferred calls run at the exits, and keeps per path what is known about nil-ness/truth of values (from the branches taken, constants, what helpers return), of local flag variables and of struct fields (constant stores); it does not enter a branch whose condition is known, and splits a path at a call of interest into the world where its error is nil and the world where it is not. Locksets: a helper is entered with the locks its caller holds, what it locks or unlocks counts for the caller; a helper that is only ever called statically from its own package is judged in the context of each of its callers, never on its own. " +
			"V-size — in the effective body of every declared Set, of every batch type's Set and of every CommitBatch that applies recorded mutations, each hand-over of the value (argument of a call that is not followed, other than log/fmt, or store outside the effective body) is reached only in a world where sorted.CheckSizes over that very key and value has succeeded since that key/value was computed (identity of the value followed through conversions, locals, captured variables, varargs, map/struct literals, helper parameters and results; for batches through sorted.Mutation.Key/Value on the same mutation or the struct fields the batch's Set recorded into) — a guard wrapped in an error- or bool-returning helper, a result hoisted into a local or an inverted test are all the same to the interpreter; a batch Set without a guard may only record into the batch object; in the world where CheckSizes failed the function returns a nil error (direct Set) or comes back to the head of the innermost loop around the guard, wherever in the effective body that loop is (batch: continue, not return/break/error); promoted Set/BeginBatch/CommitBatch come from an enumerated implementer or from an embedded interface value; the Key()/Value() methods of the element type that what sorted.NewBatchMutation returns records return the fields its Set recorded into. " +
			"V-txn — kvfile (every entry function whose effective body calls (*kv.DB).BeginTransaction): the BeginTransaction error is used; every path from the successful begin to an exit passes Commit or Rollback on that DB (a deferred literal or method, with the value its bool flag — captured or passed by address — has on that path); every kv.DB write and the Commit happen only while that transaction is open (not before the begin, not in the world where it failed, not after the end); no path on which a write failed reaches Commit; one mutex is held in write mode at begin, writes, Commit and Rollback. sqlkv.CommitBatch: every path that has a batch with a transaction calls exactly one of tx.Commit/tx.Rollback; Commit only where the batch's sticky error field is known nil; Rollback only where it is known non-nil, and the function then returns a non-nil error; the *sql.Tx that a constructor stores next to the error of the same call is used, on every path of every entry function of package sqlkv, only where that error field is known nil or the pointer known non-nil (field knowledge comes from tests of loads of the field and constant stores on the path; a field is forgotten when it is assigned or its address is handed to an opaque call, not when the object itself is). " +
			"V-buffer-locks — buffer.KeyValue (buf/back identified by the parameter positions of buffer.New; the store lock is its sync.RWMutex field, the counter lock its sync.Mutex field, the counter its numeric field written by methods): every call on buf/back holds the store lock — write mode in the effective body of Flush, read mode elsewhere, with two reasoned exceptions (the iterators of Find, the terminal back.Close of Close); the counter is read/written only under the counter lock; no mutex is locked while it is already held, be it directly, in a helper or in a sibling method called with it held; Flush commits the delete batch to buf only in the world where committing the copy to back succeeded, each batch to the store it was begun on, and between two advances of the buf iterator a key is deleted from buf's batch only if back.Set(it.Key(), it.Value()) of the same buf iterator happened too; Delete reaches both stores on every path and a batched delete queued for buf is queued for back before the iteration ends; Get calls back.Get only where buf.Get's error was found equal to sorted.ErrNotFound (==, switch, errors.Is, or a predicate helper all of whose returns are such a test). " +
			"V-iter — the merge iterator (the concrete type buffer.(*KeyValue).Find returns; sub-iterators = its fields of a struct type embedding sorted.Iterator; eof flag = that struct's bool field): on every path of its Next the underlying Next of a sub-iterator is called only where that sub-iterator's flag is known false and, whenever an underlying Next returned false, the flag is true at the return and is never reset; its Close closes both sub-iterators on every path; Close of every sorted.Iterator implementer under pkg/sorted never returns a constant nil (also not through a helper); every iterator obtained from Find inside pkg/sorted is, in the entry function in whose effective body it is obtained, closed on every path or stored/returned; for every declared Find, the end parameter is used as a bound only where end != \"\" is known (a test in the function or in the callers on the way there), or is passed unchanged to another Find, or is stored in an iterator field whose Next compares bytes.Compare(key, end) only under len(end) > 0 and — interpreted for the results -1, 0, +1 — returns false on every path for results >= 0 and true on some path for -1. " +
			"V-notfound — every declared Get of an implementer has a return yielding sorted.ErrNotFound or returns the error of another Get; where the effective body of Delete compares the error of a backend delete call with a package-level sentinel (memdb.ErrNotFound, mgo.ErrNotFound), every call of that backend function in the effective body of CommitBatch compares with the same sentinel (existence of the comparison — in the same function, in a helper the error is passed to, or in the caller of the helper that returns it — not its polarity). " +
			"V-batch-order — clause 'a committed batch applies its sets and deletes in order', as far as the replay code goes, over every non-test implementer of sorted.BatchMutation and every declared CommitBatch of an implementer of sorted.KeyValue: (3) in the effective body of each batch type's Set and Delete the key is either appended (x.f = append(x.f, …)) to the END of one and the same slice field of the batch, or handed synchronously (no go statement) to one common object held in a field of the batch (leveldb.Batch, *sql.Tx) at the time they are called; a method that returns the recorded slice returns it or an exact copy; " +
			"(1) in CommitBatch (and in module functions that receive the slice, four levels) the recorded slice and every copy of it (slices.Clone, append(nil/empty, s...), make+copy, local variables) is never handed to sort.Sort/Slice/Strings…, slices.Sort/SortFunc/Reverse/Backward, container/heap, rand.Shuffle, never written by index, and never handed to code the analysis cannot follow (undecided); a STABLE sort (sort.SliceStable, sort.Stable, slices.SortStableFunc) is accepted exactly when its comparator, instruction by instruction, reads nothing of a mutation but its key (Mutation.Key() / the struct field Set and Delete record the key into) and calls nothing but strings/bytes/cmp.Compare — mutations of different keys commute, mutations of one key keep their order; unstable sorts and comparators that read the value or the delete flag are violations; " +
			"(2) every call or non-local store that receives (something derived from) a mutation sits inside ONE loop over the slice whose counter starts at element 0, advances by exactly one and is tested against len(that slice) (range, counted and range-over-int forms), or in a helper of the effective body that this loop hands the mutation to (the helper is then examined the same way: no go statement, no defer, no loop of its own around the hand-over): descending counters, ranging over a map filled from the mutations, two passes, a go statement are violations; sub-slices, rebuilt slices, carried or deferred elements and unrecognised loop shapes are undecided; " +
			"(4) per underlying store (access path, in the entry function's terms, of the receiver; for a batch the store BeginBatch was called on, also when the batch reaches a helper as a parameter or is created and returned by one) all mutations of the effective body travel through one channel — direct calls or one batch — so buffer's buf and back each see their mutations in recording order. " +
			"NOT decided: that any store behaves as a sorted map for a concrete history; that the engines (leveldb.Batch, SQL transaction, kv.DB, memdb, mongo) apply what they are handed in the order they are handed it; atomicity of mongo/memory batches; byte ordering and the merge order of buffer's iterator (only its eof discipline); the semantics of the engines (leveldb, modernc kv, SQL text and collation, mongo queries); start-bound handling; durability across close/reopen; lock-free consistency of iterators returned by buffer.Find; direct kvfile Set/Delete racing with a transaction; whether CheckSizes' limits are the right ones; helper chains deeper than four calls, recursive helpers, function values and calls through interfaces are not followed (what is handed to them counts as leaving the function); aliasing of struct fields through a second pointer is not modelled by the interpreter.",
		RuleDocs: map[string]string{
			"V-size":         "forward value-flow from key/value (parameters, sorted.Mutation accessors, recorded struct fields) through the effective body to every call that is not followed and every escaping store; path interpretation split at each CheckSizes call: hand-overs only in the world where it succeeded on the same key/value, the failed world returns nil / continues the batch loop",
			"V-txn":          "path interpretation of the effective body around (*kv.DB).BeginTransaction (begin/write error worlds, rollback flag followed through captured variables and pointer parameters, deferred calls run at the exits); effective locksets; sqlkv.CommitBatch's Commit/Rollback against the path's knowledge of the sticky error field; nil-tx use rule per path of every entry function of sqlkv",
			"V-buffer-locks": "effective must-hold locksets at every buf/back invoke and every access of the counter in pkg/sorted/buffer, helpers in the context of each caller; relock/self-deadlock rule; Flush order and move agreement, both-store deletes by path interpretation; Get shadowing by the dominating tests of the effective body",
			"V-notfound":     "every declared Get yields sorted.ErrNotFound on some return or delegates to a Get that does; a backend not-found sentinel that Delete compares the backend's delete error with is compared the same way in the effective body of the batch path",
			"V-batch-order":  "forward value-flow of the recorded mutation slice (field loads, Mutations()) and its copies through every CommitBatch and the functions it hands the slice or single mutations to: no reordering library call, no index write, stable sorts only with a comparator proven key-only; induction-variable recognition of the single ascending replay loop (start 0, step 1, bound len); every mutation hand-over inside that loop or in a helper it calls; one channel per underlying store; Set/Delete of every batch type append to the end of one slice or forward synchronously to one engine batch",
			"V-iter":         "path interpretation of the merge iterator's Next over the eof flags (fields followed through helper receivers) and the results of the underlying Next calls; all-paths close of both sub-iterators; Close error propagation of every sorted.Iterator implementer in pkg/sorted; Find/Close pairing per entry function inside pkg/sorted; exclusive end-bound comparison in client-side filters interpreted for -1/0/+1",
		},
		Run:       runC10,
		DesignRef: "DESIGN.md §4 C10",
		Technique: "static analysis over effective bodies (a function with the unexported same-package helpers and literals it calls, parameters mapped to arguments): interprocedural forward value-flow; a path interpreter with helper bodies in place, deferred calls at the exits, per-path knowledge of nil-ness/truth of values, flag variables and struct fields, and world-splitting on the error of selected calls (size guard, transactions, flush order, merge iterator, end bound); effective must-hold locksets; sibling comparison over all implementers of sorted.KeyValue/sorted.Iterator/sorted.BatchMutation; forward value-flow of the recorded batch slice with induction-variable recognition of the replay loop and instruction-level whitelisting of sort comparators",
		LevelText: "Decides structural necessary conditions only: all implementations skip oversize keys/values the same way on the direct and the batch path, kvfile/sqlkv batches end in exactly one of commit/rollback and never commit after a failed write, the write buffer's lock discipline, flush order and double deletes, iterator close/eof/end-bound agreement, and that every batch implementation records mutations at the end of one sequence (or forwards them at once to one engine batch) and every CommitBatch replays that sequence once, first to last, without reordering it (stable key-only sorts excepted) and through one channel per underlying store. All of it is judged on effective bodies (a function together with the unexported helpers and literals it calls) and, where paths matter, by interpreting those paths, so moving code into or out of helpers, reshaping branches or renaming internals does not change a verdict. Does not decide that any store actually behaves as a sorted map for a concrete history, nor ordering, durability or the storage engines themselves.",
	})
}

const c10SortedPath = "perkeep.org/pkg/sorted"

func runC10(p *Program, r *Reporter) {
	t0 := time.Now()
	defer func() { r.Note("C10 rules took %.2fs after loading", time.Since(t0).Seconds()) }()
	// memo tables are per program: do not keep a loaded program alive after the run
	c10ReachCache = map[*ssa.Function][][]bool{}
	defer func() { c10ReachCache = map[*ssa.Function][][]bool{} }()
	r.Analysed("functions", len(p.FuncsUnder("pkg/sorted")))
	c10RuleSize(p, r)
	c10RuleTxn(p, r)
	c10RuleBuffer(p, r)
	c10RuleIter(p, r)
	c10RuleNotFound(p, r)
	c10RuleBatchOrder(p, r)
}

// ===========================================================================
// Effective bodies
//
// Every C10 rule that looks for something "in function F" looks in F's
// EFFECTIVE BODY: F plus, transitively (c10MaxDepth levels), the unexported
// functions/methods of the same package and the function literals that F
// calls statically (call or defer; not go). A c10Frame is one activation in
// that tree; a parameter of a helper stands for the caller's argument
// (c10Res), and the path interpreter below (c10Walk) executes helper bodies
// in place, so that ordering, dominance and lock facts carry across calls.
// Extracting a block into a helper, splitting a function, turning a literal
// into a method — or the reverse, inlining a helper — therefore leaves what
// the rules see unchanged. Exported functions and interface methods are never
// followed: they are entry points with a contract of their own.

const c10MaxDepth = 4

type c10Frame struct {
	fn     *ssa.Function
	parent *c10Frame
	site   ssa.CallInstruction // the call/defer in parent.fn that enters fn; nil for roots
	depth  int
	kids   map[ssa.CallInstruction]*c10Frame
	// helper calls that were not followed because of the depth limit or recursion (root only)
	refused []string
}

func c10NewRoot(fn *ssa.Function) *c10Frame {
	return &c10Frame{fn: fn, kids: map[ssa.CallInstruction]*c10Frame{}}
}

func (fr *c10Frame) rootFrame() *c10Frame {
	for fr.parent != nil {
		fr = fr.parent
	}
	return fr
}

// c10IsHelper: f is part of the effective body of a function of from's
// package when called statically: a function literal, or an unexported
// declared function/method of the same package.
func c10IsHelper(from, f *ssa.Function) bool {
	if f == nil || from == nil || len(f.Blocks) == 0 || f.Synthetic != "" {
		return false
	}
	top := TopFunc(f)
	if top.Pkg == nil || top.Pkg != TopFunc(from).Pkg {
		return false
	}
	if f.Parent() != nil {
		return true
	}
	return !token.IsExported(f.Name())
}

// child returns the frame of the helper that call instruction ci (of fr.fn)
// enters, or nil when the callee is not part of the effective body.
func (fr *c10Frame) child(ci ssa.CallInstruction) *c10Frame {
	if k, ok := fr.kids[ci]; ok {
		return k
	}
	var k *c10Frame
	if _, isGo := ci.(*ssa.Go); !isGo {
		f := CallSite{fr.fn, ci}.Callee()
		if cc := ci.Common(); f == nil && !cc.IsInvoke() {
			// the callee is a function value: a literal (or declared function) the caller passed down to this helper
			switch x := c10Res(fr, cc.Value).v.(type) {
			case *ssa.MakeClosure:
				f, _ = x.Fn.(*ssa.Function)
			case *ssa.Function:
				f = x
			}
		}
		if c10IsHelper(fr.fn, f) {
			rec := false
			for a := fr; a != nil; a = a.parent {
				if a.fn == f {
					rec = true
				}
			}
			if !rec && fr.depth < c10MaxDepth {
				k = &c10Frame{fn: f, parent: fr, site: ci, depth: fr.depth + 1, kids: map[ssa.CallInstruction]*c10Frame{}}
			} else {
				r := fr.rootFrame()
				r.refused = append(r.refused, FuncKey(f))
			}
		}
	}
	fr.kids[ci] = k
	return k
}

// frameOf returns fr or the nearest ancestor that is an activation of f.
func (fr *c10Frame) frameOf(f *ssa.Function) *c10Frame {
	for a := fr; a != nil; a = a.parent {
		if a.fn == f {
			return a
		}
	}
	return nil
}

func c10ValueFn(v ssa.Value) *ssa.Function {
	switch x := v.(type) {
	case *ssa.Parameter:
		return x.Parent()
	case *ssa.FreeVar:
		return x.Parent()
	case ssa.Instruction:
		return x.Parent()
	}
	return nil
}

// frameFor: the frame (fr or an ancestor) value v lives in; fr itself when unknown.
func (fr *c10Frame) frameFor(v ssa.Value) *c10Frame {
	if fr == nil {
		return nil
	}
	if f := c10ValueFn(v); f != nil {
		if a := fr.frameOf(f); a != nil {
			return a
		}
	}
	return fr
}

// argFor maps a parameter of a helper activation to the caller's argument.
func (fr *c10Frame) argFor(p *ssa.Parameter) (*c10Frame, ssa.Value, bool) {
	if fr == nil {
		return nil, nil, false
	}
	a := fr.frameOf(p.Parent())
	if a == nil || a.site == nil || a.parent == nil {
		return nil, nil, false
	}
	args := CallSite{a.parent.fn, a.site}.Args()
	for i, q := range a.fn.Params {
		if q == p && i < len(args) {
			return a.parent, args[i], true
		}
	}
	return nil, nil, false
}

// c10EV is a value in an activation.
type c10EV struct {
	fr *c10Frame
	v  ssa.Value
}

// c10Res resolves v (in frame fr) through conversions, single-assignment
// variables and helper parameters to the value it stands for in the
// outermost activation that defines it.
func c10Res(fr *c10Frame, v ssa.Value) c10EV {
	for i := 0; i < 24 && v != nil; i++ {
		v = originValue(v)
		p, ok := v.(*ssa.Parameter)
		if !ok {
			break
		}
		pf, a, ok := fr.argFor(p)
		if !ok {
			break
		}
		fr, v = pf, a
	}
	return c10EV{fr.frameFor(v), v}
}

// c10Ident is c10Res that also looks through a struct variable that is
// assigned exactly once as a whole (a by-value parameter or range variable
// whose fields are read through its address): the identity of the variable
// is the identity of the value it was given.
func c10Ident(fr *c10Frame, v ssa.Value) c10EV {
	e := c10Res(fr, v)
	for i := 0; i < 4; i++ {
		if ld, isLoad := e.v.(*ssa.UnOp); isLoad && ld.Op == token.MUL {
			// the whole variable read back (passed by value to a helper)
			if al, ok := ld.X.(*ssa.Alloc); ok {
				e = c10EV{e.fr.frameFor(al), al}
			}
		}
		al, ok := e.v.(*ssa.Alloc)
		if !ok {
			break
		}
		sts := storesTo(al)
		if len(sts) != 1 {
			break
		}
		e = c10Res(e.fr.frameFor(sts[0].Val), sts[0].Val)
	}
	return e
}

// c10Same: two values of (possibly different) activations denote the same run-time value.
func c10Same(a, b c10EV) bool {
	ra, rb := c10Res(a.fr, a.v), c10Res(b.fr, b.v)
	if ra.v == rb.v {
		return ra.fr == rb.fr || ra.fr == nil || rb.fr == nil || c10ValueFn(ra.v) == nil
	}
	return ra.fr == rb.fr && sameOrigin(ra.v, rb.v)
}

// c10PathOf renders the access path of v in the terms of the ROOT activation
// (like AccessPath, but parameters of helpers are replaced by the arguments).
func c10PathOf(fr *c10Frame, v ssa.Value) string { return c10PathOfD(fr, v, 0) }

func c10PathOfD(fr *c10Frame, v ssa.Value, depth int) string {
	if depth > 24 || v == nil {
		return uniquePath(v)
	}
	strip := func(s string) string {
		if strings.HasPrefix(s, "&") {
			return s[1:]
		}
		return "*" + s
	}
	switch x := v.(type) {
	case *ssa.Parameter:
		if pf, a, ok := fr.argFor(x); ok {
			return c10PathOfD(pf, a, depth+1)
		}
		return x.Name()
	case *ssa.FreeVar:
		if b := bindingOf(x); b != nil {
			return c10PathOfD(fr.frameFor(b), b, depth+1)
		}
		return "&" + x.Name()
	case *ssa.UnOp:
		if x.Op == token.MUL {
			// a spilled parameter (captured by a literal) stands for the parameter
			if o := originValue(x); o != ssa.Value(x) {
				if p, ok := o.(*ssa.Parameter); ok {
					return c10PathOfD(fr.frameFor(p), p, depth+1)
				}
			}
			return strip(c10PathOfD(fr, x.X, depth+1))
		}
	case *ssa.FieldAddr:
		base := c10PathOfD(fr, x.X, depth+1)
		if strings.HasPrefix(base, "&") {
			base = base[1:]
		}
		return "&" + base + "." + fieldName(x.X.Type(), x.Field)
	case *ssa.Field:
		return c10PathOfD(fr, x.X, depth+1) + "." + fieldName(x.X.Type(), x.Field)
	case *ssa.IndexAddr:
		base := c10PathOfD(fr, x.X, depth+1)
		if strings.HasPrefix(base, "&") {
			base = base[1:]
		}
		return "&" + base + "[]"
	case *ssa.ChangeType:
		return c10PathOfD(fr, x.X, depth+1)
	case *ssa.MakeInterface:
		return c10PathOfD(fr, x.X, depth+1)
	case *ssa.ChangeInterface:
		return c10PathOfD(fr, x.X, depth+1)
	case *ssa.Phi:
		if o := originValue(x); o != ssa.Value(x) {
			return c10PathOfD(fr.frameFor(o), o, depth+1)
		}
	}
	return AccessPath(v)
}

// c10EachInstr visits every instruction of the effective body of root
// (helpers once per call site that enters them).
func c10EachInstr(fr *c10Frame, visit func(fr *c10Frame, in ssa.Instruction)) {
	for _, b := range fr.fn.Blocks {
		if b == fr.fn.Recover {
			continue
		}
		for _, in := range b.Instrs {
			visit(fr, in)
			if ci, ok := in.(ssa.CallInstruction); ok {
				if k := fr.child(ci); k != nil {
					c10EachInstr(k, visit)
				}
			}
		}
	}
}

// c10ECall is a call in an activation.
type c10ECall struct {
	fr *c10Frame
	CallSite
}

// c10EffCalls lists the calls of the effective body of root, including the
// calls that enter helpers (followed == true for those).
func c10EffCalls(root *c10Frame) []c10ECall {
	var out []c10ECall
	c10EachInstr(root, func(fr *c10Frame, in ssa.Instruction) {
		if ci, ok := in.(ssa.CallInstruction); ok {
			out = append(out, c10ECall{fr, CallSite{fr.fn, ci}})
		}
	})
	return out
}

func (c c10ECall) followed() bool { return c.fr.child(c.Instr) != nil }

// c10PureHelper: fn is only ever entered through static calls from its own
// package (never exported, never used as a value, never the target of an
// interface call): rules that look at every function of a package analyse it
// in the context of its callers instead of on its own.
func c10PureHelper(p *Program, fn *ssa.Function) bool {
	if fn.Parent() != nil || !c10IsHelper(fn, fn) {
		return false
	}
	callers := p.StaticCallers(fn)
	if len(callers) == 0 || len(p.FuncValueUses(fn)) > 0 {
		return false
	}
	for _, c := range callers {
		if c.IsGo() || TopFunc(c.Fn).Pkg != fn.Pkg {
			return false
		}
	}
	if fn.Signature.Recv() != nil && len(p.InvokeSites(fn)) > 0 {
		return false
	}
	return true
}

// c10Roots returns the activations from which the functions fns (one
// package) are analysed: every declared function that is not a pure helper,
// plus — as contexts of their own, nothing known about their callers — the
// functions no such root reaches (function literals handed to someone else or
// started with go, helpers beyond the depth limit).
func c10Roots(p *Program, fns []*ssa.Function) []*c10Frame {
	var roots []*c10Frame
	entered := map[*ssa.Function]bool{}
	add := func(fn *ssa.Function) {
		rt := c10NewRoot(fn)
		roots = append(roots, rt)
		c10EachInstr(rt, func(fr *c10Frame, in ssa.Instruction) { entered[fr.fn] = true })
	}
	for _, fn := range fns {
		if fn.Parent() == nil && len(fn.Blocks) > 0 && !c10PureHelper(p, fn) {
			add(fn)
		}
	}
	for _, fn := range fns {
		if !entered[fn] && len(fn.Blocks) > 0 {
			add(fn)
		}
	}
	return roots
}

// ---------------------------------------------------------------------------
// c10Walk: a small path interpreter over the effective body
//
// It explores the paths of the root function instruction by instruction,
// entering helpers at their call sites and running deferred calls at the
// exits, and keeps per path what is known about nil-ness/truth of SSA values
// (learned from the branches taken, from constants, from what helpers
// return) and of local variables and struct fields (constant stores). Branches
// whose condition is known are not explored. Rules hook in through Visit
// (every instruction, in execution order), Fork (split a path into the
// err==nil / err!=nil worlds of a call) and Exit (the root returns).

type c10K int8

const (
	c10Unk     c10K = 0
	c10Zero    c10K = 1 // nil / false
	c10NonZero c10K = 2 // non-nil / true
)

func (k c10K) inv() c10K {
	switch k {
	case c10Zero:
		return c10NonZero
	case c10NonZero:
		return c10Zero
	}
	return c10Unk
}

type c10Ev struct {
	fr  *c10Frame
	in  ssa.Instruction
	run bool // in is a *ssa.Defer whose call runs now (at the exit of fr.fn)
}

// A c10Cell is a variable or a (nested) field of one: base is the *ssa.Alloc /
// *ssa.Global of the variable, or the resolved pointer to the struct; path is
// the chain of field indices ("" for the variable itself, "1", "1.2", ...).
type c10Cell struct {
	base ssa.Value
	path string
}

func c10FieldCell(base ssa.Value, idx ...int) c10Cell {
	var parts []string
	for _, i := range idx {
		parts = append(parts, fmt.Sprint(i))
	}
	return c10Cell{base, strings.Join(parts, ".")}
}

// covers: a store to cell c overwrites cell d (d is c or a field inside c).
func (c c10Cell) covers(d c10Cell) bool {
	return c.base == d.base && (c.path == "" || c.path == d.path || strings.HasPrefix(d.path, c.path+"."))
}

type c10Cont struct {
	fr   *c10Frame
	b    *ssa.BasicBlock
	i    int
	site ssa.CallInstruction // the call whose callee is running; nil for a deferred-calls marker
	defs []*ssa.Defer        // marker: deferred calls of fr still to run, next first
}

type c10Def struct {
	fr *c10Frame
	d  *ssa.Defer
}

type c10Path[S any] struct {
	w      *c10Walk[S]
	fr     *c10Frame
	b      *ssa.BasicBlock
	i      int
	stack  []c10Cont
	defers []c10Def
	known  map[ssa.Value]c10K
	tuple  map[*ssa.Call][]c10K
	mem    map[c10Cell]c10K
	memV   map[c10Cell]c10EV
	src    map[ssa.Value]c10EV
	ints   map[ssa.Value]int64 // integer results a rule has assumed (Post hook)
	St     S
}

type c10Walk[S any] struct {
	Clone func(S) S
	Key   func(S) string
	// Visit sees every instruction before it takes effect; true ends the path.
	Visit func(p *c10Path[S], ev c10Ev) bool
	// Fork may name a value (defined by ev.in) on whose nil-ness/truth the path
	// is split in two; Forked is then called on each copy.
	Fork   func(p *c10Path[S], ev c10Ev) ssa.Value
	Forked func(p *c10Path[S], ev c10Ev, k c10K)
	// Post runs after the instruction has taken effect (a rule may record an
	// assumption about the value it defines in p.ints).
	Post func(p *c10Path[S], ev c10Ev)
	// Exit: the root function returns (in is the *ssa.Return) or, with Panics, panics.
	Exit     func(p *c10Path[S], fr *c10Frame, in ssa.Instruction)
	NoFollow func(fr *c10Frame, ci ssa.CallInstruction) bool
	Panics   bool
	Max      int
	Overflow bool
	seen     map[string]bool
	n        int
}

func (p *c10Path[S]) clone() *c10Path[S] {
	o := *p
	o.stack = make([]c10Cont, len(p.stack))
	for i, c := range p.stack {
		c.defs = append([]*ssa.Defer(nil), c.defs...)
		o.stack[i] = c
	}
	o.defers = append([]c10Def(nil), p.defers...)
	o.known = make(map[ssa.Value]c10K, len(p.known))
	for k, v := range p.known {
		o.known[k] = v
	}
	o.tuple = make(map[*ssa.Call][]c10K, len(p.tuple))
	for k, v := range p.tuple {
		o.tuple[k] = v
	}
	o.mem = make(map[c10Cell]c10K, len(p.mem))
	for k, v := range p.mem {
		o.mem[k] = v
	}
	o.memV = make(map[c10Cell]c10EV, len(p.memV))
	for k, v := range p.memV {
		o.memV[k] = v
	}
	o.src = make(map[ssa.Value]c10EV, len(p.src))
	for k, v := range p.src {
		o.src[k] = v
	}
	o.ints = make(map[ssa.Value]int64, len(p.ints))
	for k, v := range p.ints {
		o.ints[k] = v
	}
	if p.w.Clone != nil {
		o.St = p.w.Clone(p.St)
	}
	return &o
}

func (p *c10Path[S]) key() string {
	var sb strings.Builder
	for a := p.fr; a != nil; a = a.parent {
		fmt.Fprintf(&sb, "%p/", a)
	}
	fmt.Fprintf(&sb, "b%d|", p.b.Index)
	for _, c := range p.stack {
		fmt.Fprintf(&sb, "%p:%d:%d:%d;", c.fr, c.b.Index, c.i, len(c.defs))
	}
	sb.WriteString("|")
	for _, d := range p.defers {
		fmt.Fprintf(&sb, "%p;", d.d)
	}
	var parts []string
	for v, k := range p.known {
		parts = append(parts, fmt.Sprintf("%p=%d", v, k))
	}
	for c, t := range p.tuple {
		parts = append(parts, fmt.Sprintf("t%p=%v", c, t))
	}
	for c, k := range p.mem {
		parts = append(parts, fmt.Sprintf("m%p.%s=%d", c.base, c.path, k))
	}
	for v, k := range p.ints {
		parts = append(parts, fmt.Sprintf("i%p=%d", v, k))
	}
	sort.Strings(parts)
	sb.WriteString("|")
	sb.WriteString(strings.Join(parts, ","))
	if p.w.Key != nil {
		sb.WriteString("|")
		sb.WriteString(p.w.Key(p.St))
	}
	return sb.String()
}

func c10Nilable(t types.Type) bool {
	switch t.Underlying().(type) {
	case *types.Pointer, *types.Interface, *types.Slice, *types.Map, *types.Chan, *types.Signature:
		return true
	}
	return false
}

func c10IsBool(t types.Type) bool {
	b, ok := t.Underlying().(*types.Basic)
	return ok && b.Info()&types.IsBoolean != 0
}

// cell resolves an address to the variable or (nested) struct field it
// denotes; field chains are followed through helper parameters (a helper
// working on &it.buf sees the caller's it.buf).
func (p *c10Path[S]) cell(fr *c10Frame, addr ssa.Value) (c10Cell, bool) {
	var idx []int
	for i := 0; i < 24 && addr != nil; i++ {
		switch x := addr.(type) {
		case *ssa.Alloc:
			return c10FieldCell(x, idx...), true
		case *ssa.Global:
			return c10FieldCell(x, idx...), true
		case *ssa.FreeVar:
			b := bindingOf(x)
			if b == nil {
				return c10Cell{}, false
			}
			fr, addr = fr.frameFor(b), b
		case *ssa.Parameter:
			pf, a, ok := fr.argFor(x)
			if !ok {
				if len(idx) == 0 {
					return c10Cell{}, false
				}
				return c10FieldCell(x, idx...), true
			}
			fr, addr = pf, a
		case *ssa.FieldAddr:
			idx = append([]int{x.Field}, idx...)
			addr = x.X
		case *ssa.ChangeType:
			addr = x.X
		case *ssa.Phi:
			o := originValue(x)
			if o == ssa.Value(x) {
				if len(idx) == 0 {
					return c10Cell{}, false
				}
				return c10FieldCell(x, idx...), true
			}
			fr, addr = fr.frameFor(o), o
		case *ssa.UnOp:
			if x.Op == token.MUL {
				if o := originValue(x); o != ssa.Value(x) {
					fr, addr = fr.frameFor(o), o
					continue
				}
			}
			if len(idx) == 0 {
				return c10Cell{}, false
			}
			return c10FieldCell(x, idx...), true
		default:
			if o := originValue(addr); o != addr {
				fr, addr = fr.frameFor(o), o
				continue
			}
			// a pointer of unknown provenance: its fields are cells of that pointer value
			if len(idx) == 0 {
				return c10Cell{}, false
			}
			return c10FieldCell(addr, idx...), true
		}
	}
	return c10Cell{}, false
}

// store: cell c is overwritten; what was known about it and the fields inside it is void.
func (p *c10Path[S]) kill(c c10Cell) {
	for d := range p.mem {
		if c.covers(d) {
			delete(p.mem, d)
		}
	}
	for d := range p.memV {
		if c.covers(d) {
			delete(p.memV, d)
		}
	}
}

// Eval: what this path knows about v (nil-ness of pointers/interfaces, truth of booleans).
func (p *c10Path[S]) Eval(fr *c10Frame, v ssa.Value) c10K { return p.eval(fr, v, 0) }

func (p *c10Path[S]) eval(fr *c10Frame, v ssa.Value, d int) c10K {
	if v == nil || d > 12 {
		return c10Unk
	}
	switch x := v.(type) {
	case *ssa.Const:
		if x.Value == nil {
			if c10Nilable(x.Type()) {
				return c10Zero
			}
			return c10Unk
		}
		if x.Value.Kind() == constant.Bool {
			if constant.BoolVal(x.Value) {
				return c10NonZero
			}
			return c10Zero
		}
		return c10Unk
	case *ssa.Parameter:
		if pf, a, ok := fr.argFor(x); ok {
			return p.eval(pf, a, d+1)
		}
	}
	if k := p.known[v]; k != c10Unk {
		return k
	}
	switch x := v.(type) {
	case *ssa.UnOp:
		switch x.Op {
		case token.NOT:
			return p.eval(fr, x.X, d+1).inv()
		case token.MUL:
			if c, ok := p.cell(fr, x.X); ok {
				if k := p.mem[c]; k != c10Unk {
					return k
				}
				if sv, ok := p.memV[c]; ok {
					return p.eval(sv.fr, sv.v, d+1)
				}
				if _, tracked := p.mem[c]; tracked {
					return c10Unk
				}
			}
			if o := originValue(x); o != ssa.Value(x) {
				return p.eval(fr.frameFor(o), o, d+1)
			}
		}
	case *ssa.BinOp:
		if len(p.ints) > 0 {
			if res, ok := p.intCmp(x); ok {
				if res {
					return c10NonZero
				}
				return c10Zero
			}
		}
		if x.Op == token.EQL || x.Op == token.NEQ {
			eq := c10Unk
			switch {
			case IsNilConst(x.Y):
				eq = p.eval(fr, x.X, d+1)
			case IsNilConst(x.X):
				eq = p.eval(fr, x.Y, d+1)
			case c10IsBool(x.X.Type()):
				kx, ky := p.eval(fr, x.X, d+1), p.eval(fr, x.Y, d+1)
				if kx != c10Unk && ky != c10Unk {
					eq = c10NonZero
					if kx == ky {
						eq = c10Zero
					}
				}
			}
			// eq == c10Zero means "operands equal"
			if eq == c10Unk {
				return c10Unk
			}
			if (eq == c10Zero) == (x.Op == token.EQL) {
				return c10NonZero
			}
			return c10Zero
		}
	case *ssa.ChangeType:
		return p.eval(fr, x.X, d+1)
	case *ssa.ChangeInterface:
		return p.eval(fr, x.X, d+1)
	case *ssa.MakeInterface, *ssa.Alloc, *ssa.FieldAddr, *ssa.IndexAddr, *ssa.MakeClosure, *ssa.MakeMap, *ssa.MakeChan, *ssa.Function, *ssa.Global:
		return c10NonZero
	case *ssa.Call:
		if isErrorType(x.Type()) && isNonNilErrorExpr(x) {
			return c10NonZero
		}
	case *ssa.Phi:
		var all c10K
		for _, e := range x.Edges {
			if e == ssa.Value(x) {
				continue
			}
			k := p.eval(fr, e, d+1)
			if k == c10Unk || all != c10Unk && k != all {
				all = c10Unk
				break
			}
			all = k
		}
		if all != c10Unk {
			return all
		}
	}
	if sv, ok := p.src[v]; ok && sv.v != v {
		return p.eval(sv.fr, sv.v, d+1)
	}
	return c10Unk
}

// intCmp evaluates a comparison one side of which is an assumed integer and the other a constant.
func (p *c10Path[S]) intCmp(x *ssa.BinOp) (res, ok bool) {
	if a, okA := p.ints[x.X]; okA {
		if c, okC := ConstInt(x.Y); okC {
			return c10EvalCmp(x.Op, a, c)
		}
	}
	if b, okB := p.ints[x.Y]; okB {
		if c, okC := ConstInt(x.X); okC {
			return c10EvalCmp(x.Op, c, b)
		}
	}
	return false, false
}

// Learn records that v is nil/false (c10Zero) or non-nil/true on this path,
// and what follows from that for the values v was computed from.
func (p *c10Path[S]) Learn(fr *c10Frame, v ssa.Value, k c10K) { p.learn(fr, v, k, 0) }

func (p *c10Path[S]) learn(fr *c10Frame, v ssa.Value, k c10K, d int) {
	if v == nil || k == c10Unk || d > 10 {
		return
	}
	switch x := v.(type) {
	case *ssa.Const:
		return
	case *ssa.Parameter:
		if pf, a, ok := fr.argFor(x); ok {
			p.learn(pf, a, k, d+1)
			return
		}
	}
	p.known[v] = k
	switch x := v.(type) {
	case *ssa.UnOp:
		switch x.Op {
		case token.NOT:
			p.learn(fr, x.X, k.inv(), d+1)
		case token.MUL:
			if c, ok := p.cell(fr, x.X); ok {
				p.mem[c] = k
			}
		}
	case *ssa.BinOp:
		if x.Op == token.EQL || x.Op == token.NEQ {
			equal := (k == c10NonZero) == (x.Op == token.EQL)
			ek := c10NonZero
			if equal {
				ek = c10Zero
			}
			switch {
			case IsNilConst(x.Y):
				p.learn(fr, x.X, ek, d+1)
			case IsNilConst(x.X):
				p.learn(fr, x.Y, ek, d+1)
			case c10IsBool(x.X.Type()):
				if ky := p.eval(fr, x.Y, 0); ky != c10Unk {
					if equal {
						p.learn(fr, x.X, ky, d+1)
					} else {
						p.learn(fr, x.X, ky.inv(), d+1)
					}
				} else if kx := p.eval(fr, x.X, 0); kx != c10Unk {
					if equal {
						p.learn(fr, x.Y, kx, d+1)
					} else {
						p.learn(fr, x.Y, kx.inv(), d+1)
					}
				}
			}
		}
	case *ssa.ChangeType:
		p.learn(fr, x.X, k, d+1)
	case *ssa.ChangeInterface:
		p.learn(fr, x.X, k, d+1)
	}
	if sv, ok := p.src[v]; ok && sv.v != v {
		p.learn(sv.fr, sv.v, k, d+1)
	}
}

func (p *c10Path[S]) forget(v ssa.Value) {
	delete(p.known, v)
	delete(p.src, v)
	delete(p.ints, v)
	if c, ok := v.(*ssa.Call); ok {
		delete(p.tuple, c)
	}
}

// effects applies what instruction in does to the path's knowledge.
func (p *c10Path[S]) effects(fr *c10Frame, in ssa.Instruction) {
	if v, ok := in.(ssa.Value); ok {
		if _, isPhi := in.(*ssa.Phi); !isPhi {
			p.forget(v)
		}
	}
	switch x := in.(type) {
	case *ssa.Alloc:
		c := c10Cell{x, ""}
		p.kill(c)
		t := x.Type().(*types.Pointer).Elem()
		if c10Nilable(t) || c10IsBool(t) {
			p.mem[c] = c10Zero
		} else if st, ok := t.Underlying().(*types.Struct); ok {
			// a fresh struct: its fields are zero
			for i := 0; i < st.NumFields(); i++ {
				if ft := st.Field(i).Type(); c10Nilable(ft) || c10IsBool(ft) {
					p.mem[c10FieldCell(x, i)] = c10Zero
				}
			}
		}
	case *ssa.Store:
		if c, ok := p.cell(fr, x.Addr); ok {
			p.kill(c)
			t := x.Val.Type()
			if c10Nilable(t) || c10IsBool(t) {
				p.mem[c] = p.eval(fr, x.Val, 0)
				p.memV[c] = c10EV{fr, x.Val}
			}
		}
	case *ssa.UnOp:
		if x.Op == token.MUL {
			if c, ok := p.cell(fr, x.X); ok {
				if k, tracked := p.mem[c]; tracked {
					if k != c10Unk {
						p.known[x] = k
					}
					if sv, ok := p.memV[c]; ok {
						p.src[x] = sv
					}
				}
			}
		}
	case *ssa.Extract:
		if c, ok := x.Tuple.(*ssa.Call); ok {
			if t := p.tuple[c]; x.Index < len(t) && t[x.Index] != c10Unk {
				p.known[x] = t[x.Index]
			}
		}
	}
}

// clobber: an opaque call may write through the addresses it is given.
func (p *c10Path[S]) clobber(fr *c10Frame, ci ssa.CallInstruction) {
	c := CallSite{fr.fn, ci}
	for _, a := range c.Args() {
		if _, isPtr := a.Type().Underlying().(*types.Pointer); isPtr {
			if cl, ok := p.cell(fr, a); ok {
				p.kill(cl)
			}
		}
		if mc, ok := originValue(a).(*ssa.MakeClosure); ok {
			for _, b := range mc.Bindings {
				if cl, ok := p.cell(fr, b); ok {
					p.kill(cl)
				}
			}
		}
	}
}

// prune drops knowledge that cannot matter any more: values of functions
// that are not active, and values of the current function without a use
// reachable from block b.
func (p *c10Path[S]) prune() {
	active := map[*ssa.Function]bool{}
	for a := p.fr; a != nil; a = a.parent {
		active[a.fn] = true
		for f := a.fn.Parent(); f != nil; f = f.Parent() {
			active[f] = true
		}
	}
	reach := c10Reach(p.fr.fn)
	live := func(v ssa.Value) bool {
		f := c10ValueFn(v)
		if f == nil {
			return true
		}
		if !active[f] {
			return false
		}
		if f != p.fr.fn {
			return true
		}
		refs := v.Referrers()
		if refs == nil {
			return true
		}
		for _, r := range *refs {
			if r.Parent() != f {
				return true
			}
			if rb := r.Block(); rb == p.b || reach[p.b.Index][rb.Index] {
				return true
			}
		}
		return false
	}
	for v := range p.known {
		if !live(v) {
			p.forget(v)
		}
	}
	for v := range p.src {
		if !live(v) {
			delete(p.src, v)
		}
	}
	for c := range p.tuple {
		if !live(c) {
			delete(p.tuple, c)
		}
	}
	for v := range p.ints {
		if !live(v) {
			delete(p.ints, v)
		}
	}
	for c := range p.mem {
		if f := c10ValueFn(c.base); f != nil && !active[f] {
			delete(p.mem, c)
			delete(p.memV, c)
		}
	}
}

var c10ReachCache = map[*ssa.Function][][]bool{}

// c10Reach[b][c]: block c is reachable from block b through at least one edge.
func c10Reach(fn *ssa.Function) [][]bool {
	if r, ok := c10ReachCache[fn]; ok {
		return r
	}
	n := len(fn.Blocks)
	r := make([][]bool, n)
	for i, b := range fn.Blocks {
		r[i] = make([]bool, n)
		var stack []*ssa.BasicBlock
		stack = append(stack, b.Succs...)
		for len(stack) > 0 {
			x := stack[len(stack)-1]
			stack = stack[:len(stack)-1]
			if r[i][x.Index] {
				continue
			}
			r[i][x.Index] = true
			stack = append(stack, x.Succs...)
		}
	}
	c10ReachCache[fn] = r
	return r
}

func (w *c10Walk[S]) newPath(root *c10Frame, st S) *c10Path[S] {
	return &c10Path[S]{w: w, fr: root, b: root.fn.Blocks[0], known: map[ssa.Value]c10K{}, tuple: map[*ssa.Call][]c10K{},
		mem: map[c10Cell]c10K{}, memV: map[c10Cell]c10EV{}, src: map[ssa.Value]c10EV{}, ints: map[ssa.Value]int64{}, St: st}
}

// Run explores every path of root's effective body from its entry.
func (w *c10Walk[S]) Run(root *c10Frame, st S) {
	if w.Max == 0 {
		w.Max = 40000
	}
	w.seen = map[string]bool{}
	if len(root.fn.Blocks) == 0 {
		return
	}
	w.run(w.newPath(root, st))
}

// enter moves the path to block to (coming from block from of the same function).
func (p *c10Path[S]) enter(from, to *ssa.BasicBlock) {
	idx := -1
	for i, pr := range to.Preds {
		if pr == from {
			idx = i
			break
		}
	}
	if idx >= 0 {
		type upd struct {
			ph *ssa.Phi
			k  c10K
			e  ssa.Value
		}
		var us []upd
		for _, in := range to.Instrs {
			ph, ok := in.(*ssa.Phi)
			if !ok {
				break
			}
			us = append(us, upd{ph, p.eval(p.fr, ph.Edges[idx], 0), ph.Edges[idx]})
		}
		for _, u := range us {
			p.forget(u.ph)
			if u.k != c10Unk {
				p.known[u.ph] = u.k
			}
			p.src[u.ph] = c10EV{p.fr, u.e}
		}
	}
	p.b, p.i = to, 0
}

func (w *c10Walk[S]) run(p *c10Path[S]) {
	for {
		if w.Overflow {
			return
		}
		if p.i == 0 {
			p.prune()
			k := p.key()
			if w.seen[k] {
				return
			}
			w.seen[k] = true
			w.n++
			if w.n > w.Max {
				w.Overflow = true
				return
			}
		}
		if p.i >= len(p.b.Instrs) {
			return
		}
		in := p.b.Instrs[p.i]
		ev := c10Ev{fr: p.fr, in: in}
		if _, isPhi := in.(*ssa.Phi); !isPhi && w.Visit != nil && w.Visit(p, ev) {
			return
		}
		p.effects(p.fr, in)
		if w.Post != nil {
			w.Post(p, ev)
		}
		switch x := in.(type) {
		case *ssa.If:
			k := p.eval(p.fr, x.Cond, 0)
			from := p.b
			if k != c10Unk {
				s := from.Succs[1]
				if k == c10NonZero {
					s = from.Succs[0]
				}
				p.enter(from, s)
				continue
			}
			q := p.clone()
			q.learn(q.fr, x.Cond, c10NonZero, 0)
			q.enter(from, from.Succs[0])
			w.run(q)
			p.learn(p.fr, x.Cond, c10Zero, 0)
			p.enter(from, from.Succs[1])
			continue
		case *ssa.Jump:
			p.enter(p.b, p.b.Succs[0])
			continue
		case *ssa.Panic:
			if w.Panics && w.Exit != nil {
				w.Exit(p, p.fr, in)
			}
			return
		case *ssa.RunDefers:
			var mine []*ssa.Defer
			rest := p.defers[:0:0]
			for _, d := range p.defers {
				if d.fr == p.fr {
					mine = append(mine, d.d)
				} else {
					rest = append(rest, d)
				}
			}
			p.defers = rest
			if len(mine) > 0 {
				for i, j := 0, len(mine)-1; i < j; i, j = i+1, j-1 {
					mine[i], mine[j] = mine[j], mine[i]
				}
				p.stack = append(p.stack, c10Cont{fr: p.fr, b: p.b, i: p.i + 1, defs: mine})
				if !w.nextDeferred(p) {
					return
				}
				continue
			}
		case *ssa.Return:
			if len(p.stack) == 0 {
				if w.Exit != nil {
					w.Exit(p, p.fr, in)
				}
				return
			}
			top := p.stack[len(p.stack)-1]
			if top.site == nil {
				// a deferred callee returned: on with the next deferred call
				p.fr = top.fr
				if !w.nextDeferred(p) {
					return
				}
				continue
			}
			p.stack = p.stack[:len(p.stack)-1]
			call, isCall := top.site.(*ssa.Call)
			if isCall {
				ks := make([]c10K, len(x.Results))
				for i, r := range x.Results {
					ks[i] = p.eval(p.fr, r, 0)
				}
				callee := p.fr
				p.forget(call)
				if len(ks) == 1 {
					if ks[0] != c10Unk {
						p.known[call] = ks[0]
					}
					p.src[call] = c10EV{callee, x.Results[0]}
				} else if len(ks) > 1 {
					p.tuple[call] = ks
				}
			}
			p.fr, p.b, p.i = top.fr, top.b, top.i
			if isCall && w.Fork != nil && p.known[call] == c10Unk {
				cev := c10Ev{fr: p.fr, in: call}
				if fv := w.Fork(p, cev); fv != nil && fv == ssa.Value(call) {
					w.fork(p, cev, fv)
				}
			}
			continue
		case *ssa.Defer:
			dup := false
			for _, d := range p.defers {
				if d.d == x && d.fr == p.fr {
					dup = true
				}
			}
			if !dup {
				p.defers = append(p.defers, c10Def{p.fr, x})
			}
		case *ssa.Call:
			if k := p.fr.child(x); k != nil && (w.NoFollow == nil || !w.NoFollow(p.fr, x)) {
				// the helper's body runs in place; a Fork on its result happens when it returns
				p.stack = append(p.stack, c10Cont{fr: p.fr, b: p.b, i: p.i + 1, site: x})
				p.fr, p.b, p.i = k, k.fn.Blocks[0], 0
				continue
			}
			p.clobber(p.fr, x)
			if w.Fork != nil {
				if fv := w.Fork(p, ev); fv != nil && fv == ssa.Value(x) {
					p.i++
					w.fork(p, ev, fv)
					continue
				}
			}
		case *ssa.Extract:
			if w.Fork != nil && p.known[x] == c10Unk {
				if fv := w.Fork(p, ev); fv != nil && fv == ssa.Value(x) {
					p.i++
					w.fork(p, ev, fv)
					continue
				}
			}
		}
		p.i++
	}
}

// fork splits path p (already positioned after the instruction that defines
// fv) into the world where fv is non-nil/true (explored now) and the world
// where it is nil/false (p goes on with it).
func (w *c10Walk[S]) fork(p *c10Path[S], ev c10Ev, fv ssa.Value) {
	q := p.clone()
	q.learn(ev.fr, fv, c10NonZero, 0)
	if w.Forked != nil {
		w.Forked(q, ev, c10NonZero)
	}
	w.run(q)
	p.learn(ev.fr, fv, c10Zero, 0)
	if w.Forked != nil {
		w.Forked(p, ev, c10Zero)
	}
}

// nextDeferred runs the next deferred call of the marker on top of the stack
// (or resumes after the RunDefers when none is left). false ends the path.
func (w *c10Walk[S]) nextDeferred(p *c10Path[S]) bool {
	for {
		top := &p.stack[len(p.stack)-1]
		if len(top.defs) == 0 {
			p.fr, p.b, p.i = top.fr, top.b, top.i
			p.stack = p.stack[:len(p.stack)-1]
			return true
		}
		d := top.defs[0]
		top.defs = top.defs[1:]
		fr := top.fr
		if w.Visit != nil && w.Visit(p, c10Ev{fr: fr, in: d, run: true}) {
			return false
		}
		if k := fr.child(d); k != nil && (w.NoFollow == nil || !w.NoFollow(fr, d)) {
			p.fr, p.b, p.i = k, k.fn.Blocks[0], 0
			return true
		}
		p.clobber(fr, d)
	}
}

// ===========================================================================
// effective must-hold locksets (c10Walk with the lockset as path state)

type c10EI struct {
	fr  *c10Frame
	in  ssa.Instruction
	run bool
}

type c10LockRes struct {
	held     map[c10EI]LockSet
	overflow bool
}

// c10MutexOp: a sync.Mutex / sync.RWMutex operation and the mutex it acts on.
func c10MutexOp(c CallSite) (kind string, mu ssa.Value, ok bool) {
	for _, m := range []string{"Lock", "Unlock", "RLock", "RUnlock"} {
		if c.IsStatic("sync", "Mutex", m) || c.IsStatic("sync", "RWMutex", m) {
			return m, c.Args()[0], true
		}
	}
	return "", nil, false
}

// c10Locks computes, for every instruction of root's effective body, the
// locks (paths in root's terms, 'R'/'W') held on every path that reaches it:
// locks taken by a caller are held inside the helper, locks a helper takes or
// releases are taken or released for its caller, deferred unlocks run at the
// exit of the function that deferred them.
func c10Locks(root *c10Frame) *c10LockRes {
	res := &c10LockRes{held: map[c10EI]LockSet{}}
	w := &c10Walk[LockSet]{
		Clone: func(l LockSet) LockSet { return l.clone() },
		Key:   func(l LockSet) string { return l.String() },
	}
	w.Visit = func(p *c10Path[LockSet], ev c10Ev) bool {
		ei := c10EI{ev.fr, ev.in, ev.run}
		if cur, ok := res.held[ei]; ok {
			res.held[ei] = meet(cur, p.St)
		} else {
			res.held[ei] = p.St.clone()
		}
		ci, ok := ev.in.(ssa.CallInstruction)
		if !ok {
			return false
		}
		if _, isGo := ci.(*ssa.Go); isGo {
			return false
		}
		if _, isDefer := ci.(*ssa.Defer); isDefer && !ev.run {
			return false
		}
		if kind, mu, ok := c10MutexOp(CallSite{ev.fr.fn, ci}); ok {
			path := c10PathOf(ev.fr, mu)
			switch kind {
			case "Lock":
				p.St[path] = 'W'
			case "RLock":
				p.St[path] = 'R'
			default:
				delete(p.St, path)
			}
		}
		return false
	}
	w.Run(root, LockSet{})
	res.overflow = w.Overflow
	return res
}

// HeldAt: the locks held whenever instruction in of activation fr executes
// (for a *ssa.Defer: when it is registered); ok=false when no explored path reaches it.
func (l *c10LockRes) HeldAt(fr *c10Frame, in ssa.Instruction) (LockSet, bool) {
	ls, ok := l.held[c10EI{fr, in, false}]
	if !ok {
		return LockSet{}, false
	}
	return ls, true
}

func c10Holds(ls LockSet, path string, mode byte) bool {
	m, ok := ls[path]
	return ok && (mode == 'R' || m == 'W')
}

// ===========================================================================
// forward value-flow ("taint") of keys and values through an effective body

// A c10FlowSet propagates labels ("K:<id>" / "V:<id>") from source values to
// every value derived from them in the effective body of a function: through
// conversions, phis, loads/stores of function-local memory (complits, varargs
// arrays, spilled and captured variables), map literals, call results, and —
// one c10Flow per activation — into the parameters and out of the results of
// the helpers it calls. It records where a labelled value leaves the
// effective body: as an argument of a call that is not followed (sink) or by
// a store into non-local memory.
type c10FlowSet struct {
	root    *c10Flow
	flows   []*c10Flow
	byFrame map[*c10Frame]*c10Flow
	work    []c10FlowItem
	// direct stores of a source into a struct field: (named struct, field index) -> label kinds
	fieldStores map[c10FieldKey]map[byte]bool
}

type c10FlowItem struct {
	f *c10Flow
	v ssa.Value
}

type c10Flow struct {
	set     *c10FlowSet
	fr      *c10Frame
	fn      *ssa.Function
	lab     map[ssa.Value]map[string]bool
	sinks   []*c10Sink
	bySink  map[ssa.Instruction]*c10Sink
	escapes []string // labelled value captured by a closure that is not called here etc.: cannot follow
}

type c10FieldKey struct {
	typ *types.Named
	idx int
}

type c10Sink struct {
	fl     *c10Flow
	instr  ssa.Instruction
	call   *CallSite // nil for stores
	labels map[string]bool
	what   string
	root   c10EV // stores: the resolved root of the address written through
}

func c10NewFlowSet(root *c10Frame) *c10FlowSet {
	fs := &c10FlowSet{byFrame: map[*c10Frame]*c10Flow{}, fieldStores: map[c10FieldKey]map[byte]bool{}}
	var mk func(fr *c10Frame) *c10Flow
	mk = func(fr *c10Frame) *c10Flow {
		f := &c10Flow{set: fs, fr: fr, fn: fr.fn, lab: map[ssa.Value]map[string]bool{}, bySink: map[ssa.Instruction]*c10Sink{}}
		fs.flows = append(fs.flows, f)
		fs.byFrame[fr] = f
		for _, b := range fr.fn.Blocks {
			for _, in := range b.Instrs {
				if ci, ok := in.(ssa.CallInstruction); ok {
					if k := fr.child(ci); k != nil {
						mk(k)
					}
				}
			}
		}
		return f
	}
	fs.root = mk(root)
	return fs
}

func (fs *c10FlowSet) allSinks() []*c10Sink {
	var out []*c10Sink
	for _, f := range fs.flows {
		out = append(out, f.sinks...)
	}
	return out
}

func (f *c10Flow) add(v ssa.Value, labels map[string]bool) {
	if v == nil || len(labels) == 0 {
		return
	}
	cur := f.lab[v]
	if cur == nil {
		cur = map[string]bool{}
		f.lab[v] = cur
	}
	grew := false
	for l := range labels {
		if !cur[l] {
			cur[l] = true
			grew = true
		}
	}
	if grew {
		f.set.work = append(f.set.work, c10FlowItem{f, v})
	}
}

func (f *c10Flow) source(v ssa.Value, label string) { f.add(v, map[string]bool{label: true}) }

// c10RootCell follows FieldAddr/IndexAddr chains to the base address value.
func c10RootCell(addr ssa.Value) ssa.Value {
	for i := 0; i < 16; i++ {
		switch x := addr.(type) {
		case *ssa.FieldAddr:
			addr = x.X
		case *ssa.IndexAddr:
			addr = x.X
		default:
			return addr
		}
	}
	return addr
}

func (f *c10Flow) sink(in ssa.Instruction, c *CallSite, labels map[string]bool, what string) *c10Sink {
	s := f.bySink[in]
	if s == nil {
		s = &c10Sink{fl: f, instr: in, call: c, labels: map[string]bool{}, what: what}
		f.bySink[in] = s
		f.sinks = append(f.sinks, s)
	}
	for l := range labels {
		s.labels[l] = true
	}
	return s
}

// localCell: the address root (a base address in f's function) denotes memory
// that is local to the effective body — a variable of this activation or,
// through a captured variable or a pointer parameter, of an enclosing one.
func (f *c10Flow) localCell(root ssa.Value) (*c10Flow, ssa.Value, bool) {
	fr := f.fr
	for i := 0; i < 12 && root != nil; i++ {
		switch x := root.(type) {
		case *ssa.Alloc:
			if a := fr.frameOf(x.Parent()); a != nil {
				if fl := f.set.byFrame[a]; fl != nil {
					return fl, x, true
				}
			}
			return nil, nil, false
		case *ssa.FreeVar:
			b := bindingOf(x)
			if b == nil {
				return nil, nil, false
			}
			fr, root = fr.frameFor(b), c10RootCell(b)
		case *ssa.Parameter:
			pf, a, ok := fr.argFor(x)
			if !ok {
				return nil, nil, false
			}
			fr, root = pf, c10RootCell(a)
		default:
			return nil, nil, false
		}
	}
	return nil, nil, false
}

func (fs *c10FlowSet) run() {
	for len(fs.work) > 0 {
		it := fs.work[len(fs.work)-1]
		fs.work = fs.work[:len(fs.work)-1]
		it.f.step(it.v)
	}
}

func (f *c10Flow) step(v ssa.Value) {
	labels := f.lab[v]
	refs := v.Referrers()
	if refs == nil {
		return
	}
	for _, r := range *refs {
		if r.Parent() != f.fn {
			continue
		}
		switch x := r.(type) {
		case *ssa.Store:
			if x.Val != v {
				continue // v is the address being written through
			}
			root := c10RootCell(x.Addr)
			if fa, ok := x.Addr.(*ssa.FieldAddr); ok && c10IsBytesCarrier(x.Val.Type()) {
				if n := NamedOf(fa.X.Type()); n != nil {
					k := c10FieldKey{n, fa.Field}
					if f.set.fieldStores[k] == nil {
						f.set.fieldStores[k] = map[byte]bool{}
					}
					for l := range labels {
						f.set.fieldStores[k][l[0]] = true
					}
				}
			}
			if fl, cell, ok := f.localCell(root); ok {
				fl.add(cell, labels)
			} else {
				s := f.sink(x, nil, labels, "store:"+c10PathOf(f.fr, x.Addr))
				s.root = c10Res(f.fr, root)
			}
		case *ssa.MapUpdate:
			if x.Key != v && x.Value != v {
				continue
			}
			if mk, ok := originValue(x.Map).(*ssa.MakeMap); ok && mk.Parent() == f.fn {
				f.add(mk, labels)
				if x.Map != ssa.Value(mk) {
					f.add(x.Map, labels)
				}
			} else {
				f.sink(x, nil, labels, "mapstore:"+c10PathOf(f.fr, x.Map))
			}
		case *ssa.MakeClosure:
			lit, _ := x.Fn.(*ssa.Function)
			entered := false
			for _, kf := range f.set.flows {
				kid := kf.fr
				if kid.fn != lit || kid.parent == nil || kid.site == nil {
					continue
				}
				if cv := kid.site.Common().Value; c10Res(kid.parent, cv).v != ssa.Value(x) {
					continue
				}
				for j, b := range x.Bindings {
					if b == v && j < len(lit.FreeVars) {
						kf.add(lit.FreeVars[j], labels)
						entered = true
					}
				}
			}
			if !entered {
				f.escapes = append(f.escapes, "captured by function literal "+x.Fn.Name()+", which is not called in this function")
			}
		case ssa.CallInstruction:
			c := CallSite{f.fn, x}
			cc := c.Common()
			if b, ok := cc.Value.(*ssa.Builtin); ok {
				switch b.Name() {
				case "append":
					if call, ok := x.(*ssa.Call); ok {
						f.add(call, labels)
					}
				case "copy":
					if len(cc.Args) == 2 && cc.Args[1] == v {
						root := c10RootCell(originValue(cc.Args[0]))
						f.add(root, labels)
					}
				}
				continue
			}
			if kid := f.fr.child(x); kid != nil {
				// the helper's body is part of the effective body: the labels go to its parameters
				if kf := f.set.byFrame[kid]; kf != nil {
					for i, a := range c.Args() {
						if a == v && i < len(kid.fn.Params) {
							kf.add(kid.fn.Params[i], labels)
						}
					}
					continue
				}
			}
			f.sink(x, &c, labels, c.CalleeKey())
			if call, ok := x.(*ssa.Call); ok {
				f.add(call, labels)
			}
		case *ssa.Return:
			// what a helper returns is what its call yields
			if call, ok := f.fr.site.(*ssa.Call); ok && f.fr.parent != nil {
				if pf := f.set.byFrame[f.fr.parent]; pf != nil {
					pf.add(call, labels)
				}
			}
		case *ssa.If, *ssa.DebugRef, *ssa.Panic, *ssa.RunDefers, *ssa.Jump:
		case *ssa.Send:
			f.sink(x, nil, labels, "send")
		case ssa.Value:
			// Convert, ChangeType, MakeInterface, Phi, BinOp, UnOp (load of a
			// labelled cell), FieldAddr/IndexAddr into labelled memory, Field,
			// Index, Slice, Extract, TypeAssert, Lookup, Range, Next ...
			if bo, ok := x.(*ssa.BinOp); ok {
				switch bo.Op {
				case token.EQL, token.NEQ, token.LSS, token.LEQ, token.GTR, token.GEQ:
					continue // a comparison yields no key/value bytes
				}
			}
			f.add(x, labels)
		}
	}
}

// c10IsBytesCarrier: string or []byte — the types a key or value itself has
// (as opposed to records, slices of records, interfaces that contain one).
func c10IsBytesCarrier(t types.Type) bool {
	switch u := t.Underlying().(type) {
	case *types.Basic:
		return u.Info()&types.IsString != 0
	case *types.Slice:
		b, ok := u.Elem().Underlying().(*types.Basic)
		return ok && b.Kind() == types.Byte
	}
	return false
}

// c10Method is Program.MethodOf that prefers the declared method when the
// pointer method set only has a synthetic wrapper of a value-receiver method.
func c10Method(p *Program, n *types.Named, name string) (*ssa.Function, bool) {
	var synth *ssa.Function
	for _, t := range []types.Type{types.NewPointer(n), n} {
		sel := p.SSA.MethodSets.MethodSet(t).Lookup(n.Obj().Pkg(), name)
		if sel == nil {
			continue
		}
		f := p.SSA.MethodValue(sel)
		if f == nil {
			continue
		}
		if f.Synthetic == "" {
			return f, true
		}
		// a wrapper around a method declared on n itself (value receiver)?
		if len(sel.Index()) == 1 {
			if decl := p.SSA.FuncValue(sel.Obj().(*types.Func)); decl != nil && decl.Blocks != nil {
				return decl, true
			}
		}
		if synth == nil {
			synth = f
		}
	}
	return synth, false
}

func c10Kinds(labels map[string]bool, kind byte) []string {
	var out []string
	for l := range labels {
		if l[0] == kind {
			out = append(out, l)
		}
	}
	sort.Strings(out)
	return out
}

func c10IsCheckSizes(c CallSite) bool { return c.IsStatic(c10SortedPath, "", "CheckSizes") }

// c10Harmless: callees that only format or log their arguments.
func c10Harmless(c CallSite) bool {
	f := c.Callee()
	if f == nil {
		return false
	}
	var pkg *types.Package
	if f.Pkg != nil {
		pkg = f.Pkg.Pkg
	} else if f.Object() != nil {
		pkg = f.Object().Pkg()
	}
	if pkg == nil {
		return false
	}
	switch pkg.Path() {
	case "log", "fmt", "strconv":
		return true
	}
	return false
}

// ===========================================================================
// V-size

// A c10Guard is one call of sorted.CheckSizes in the effective body.
type c10Guard struct {
	fl     *c10Flow
	call   *ssa.Call
	k, v   string // the single K / V label of its arguments ("" when not determinable)
	reason string
	// instructions that compute the guard's key/value: when one of them runs
	// again (next mutation of a batch), the verdict of the guard is void
	srcs map[ssa.Instruction]bool
	// the innermost loop of the effective body the guard sits in (nil: none)
	loopFr *c10Frame
	loopH  *ssa.BasicBlock
}

func c10Guards(fs *c10FlowSet) []*c10Guard {
	var out []*c10Guard
	for _, f := range fs.flows {
		for _, c := range CallsIn(f.fn, false) {
			if !c10IsCheckSizes(c) || c.Value() == nil {
				continue
			}
			g := &c10Guard{fl: f, call: c.Value(), srcs: map[ssa.Instruction]bool{}}
			a := c.Args()
			la, lb := f.lab[a[0]], f.lab[a[1]]
			ka, va := c10Kinds(la, 'K'), c10Kinds(la, 'V')
			kb, vb := c10Kinds(lb, 'K'), c10Kinds(lb, 'V')
			switch {
			case len(ka) == 1 && len(va) == 0 && len(vb) == 1 && len(kb) == 0:
				g.k, g.v = ka[0], vb[0]
			default:
				g.reason = fmt.Sprintf("CheckSizes arguments are not (one key, one value): arg0 carries %v, arg1 carries %v", append(ka, va...), append(kb, vb...))
			}
			// backward slice of the two arguments inside this function
			var slice func(v ssa.Value, d int)
			slice = func(v ssa.Value, d int) {
				in, ok := v.(ssa.Instruction)
				if !ok || d > 8 || g.srcs[in] || in.Parent() != f.fn {
					return
				}
				if _, isAlloc := v.(*ssa.Alloc); isAlloc {
					return
				}
				g.srcs[in] = true
				for _, op := range in.Operands(nil) {
					if *op != nil {
						slice(*op, d+1)
					}
				}
			}
			slice(a[0], 0)
			slice(a[1], 0)
			// innermost enclosing loop, looking outwards through the call sites
			fr, blk := f.fr, g.call.Block()
			for fr != nil {
				if h := c10LoopHeader(blk); h != nil {
					g.loopFr, g.loopH = fr, h
					break
				}
				if fr.site == nil || fr.parent == nil {
					break
				}
				blk, fr = fr.site.Block(), fr.parent
			}
			out = append(out, g)
		}
	}
	return out
}

// c10FirstInstr: the first non-phi instruction of b.
func c10FirstInstr(b *ssa.BasicBlock) ssa.Instruction {
	for _, in := range b.Instrs {
		if _, isPhi := in.(*ssa.Phi); !isPhi {
			return in
		}
	}
	return nil
}

const (
	c10gNotRun = 0
	c10gOK     = 1
	c10gFailed = 2
)

// c10SizeCheck decides, by interpreting the paths of the effective body, the
// guard rule for every value hand-over (sink) and the oversize-edge rule for
// every guard. The interpreter splits each path at every CheckSizes call into
// the world where it succeeded and the world where it failed:
//   - a sink must be reached only in a world where a CheckSizes call over the
//     same key and value has succeeded since that key/value was computed;
//   - in the failed world the function must not hand the value over, must
//     return a nil error (outside a batch loop) or come back to the head of
//     the batch loop (inside one) — it must not leave the loop.
//
// Returns the number of sink obligations and of guard obligations.
func c10SizeCheck(p *Program, r *Reporter, fs *c10FlowSet, role string) (nSinks, nGuards int) {
	rootFn := fs.root.fn
	guards := c10Guards(fs)
	for _, f := range fs.flows {
		for _, e := range f.escapes {
			r.Undecided("V-size", FuncKey(f.fn)+"#flow", p.Pos(f.fn.Pos()), "cannot follow the key/value in "+role+": "+e)
			nSinks++
		}
	}
	type sinkKey struct {
		fr *c10Frame
		in ssa.Instruction
	}
	var sinks []*c10Sink
	sinkAt := map[sinkKey]*c10Sink{}
	for _, s := range fs.allSinks() {
		if len(c10Kinds(s.labels, 'V')) == 0 {
			continue // only the key travels here (reads, deletes)
		}
		if s.call != nil && (c10IsCheckSizes(*s.call) || c10Harmless(*s.call)) {
			continue
		}
		sinks = append(sinks, s)
		sinkAt[sinkKey{s.fl.fr, s.instr}] = s
	}
	// which guards speak for which sink
	match := map[*c10Sink][]int{}
	whyNo := map[*c10Sink]string{}
	for _, s := range sinks {
		vs, ks := c10Kinds(s.labels, 'V'), c10Kinds(s.labels, 'K')
		why := "no sorted.CheckSizes call in this function"
		for gi, g := range guards {
			switch {
			case g.reason != "":
				why = g.reason
			case len(vs) != 1 || vs[0] != g.v:
				why = fmt.Sprintf("the value handed over (%v) is not the value CheckSizes looked at (%s)", vs, g.v)
			case len(ks) > 1 || len(ks) == 1 && ks[0] != g.k:
				why = fmt.Sprintf("the key handed over (%v) is not the key CheckSizes looked at (%s)", ks, g.k)
			default:
				match[s] = append(match[s], gi)
			}
		}
		whyNo[s] = why
	}
	// reset points: (activation, first instruction of a continue-point block) -> guards of that loop
	type at struct {
		fr *c10Frame
		in ssa.Instruction
	}
	contAt := map[at][]int{}
	guardAt := map[at]int{}
	for gi, g := range guards {
		guardAt[at{g.fl.fr, g.call}] = gi
		if g.loopH != nil {
			for b := range c10ContinuePoints(g.loopH) {
				if in := c10FirstInstr(b); in != nil {
					contAt[at{g.loopFr, in}] = append(contAt[at{g.loopFr, in}], gi)
				}
			}
		}
	}
	sinkBad := map[*c10Sink]string{}
	sinkSeen := map[*c10Sink]bool{}
	edgeBad := map[int]string{}
	edgeUnd := map[int]string{}
	line := func(pos token.Pos) int { return p.Fset.Position(pos).Line }
	w := &c10Walk[[]int8]{
		Clone: func(s []int8) []int8 { return append([]int8(nil), s...) },
		Key:   func(s []int8) string { return fmt.Sprint(s) },
	}
	w.Visit = func(pa *c10Path[[]int8], ev c10Ev) bool {
		if ev.run {
			return false
		}
		here := at{ev.fr, ev.in}
		for _, gi := range contAt[here] {
			if pa.St[gi] == c10gFailed {
				pa.St[gi] = c10gNotRun // skipped: on with the next mutation
			}
		}
		for gi, g := range guards {
			if g.fl.fr == ev.fr && g.srcs[ev.in] && ev.in != ssa.Instruction(g.call) {
				pa.St[gi] = c10gNotRun
			}
		}
		if s := sinkAt[sinkKey{ev.fr, ev.in}]; s != nil {
			sinkSeen[s] = true
			ok, failed := false, false
			for _, gi := range match[s] {
				switch pa.St[gi] {
				case c10gOK:
					ok = true
				case c10gFailed:
					failed = true
				}
			}
			if !ok && sinkBad[s] == "" {
				switch {
				case len(match[s]) == 0:
					sinkBad[s] = whyNo[s]
				case failed:
					sinkBad[s] = "CheckSizes on this key/value exists but the value is handed over also where it reported an oversize key/value (the site is not on its err==nil edge)"
				default:
					sinkBad[s] = "CheckSizes on this key/value exists but some path reaches the hand-over without passing it first (call does not dominate the site)"
				}
			}
		}
		return false
	}
	w.Fork = func(pa *c10Path[[]int8], ev c10Ev) ssa.Value {
		if _, ok := guardAt[at{ev.fr, ev.in}]; ok {
			return ev.in.(ssa.Value)
		}
		return nil
	}
	w.Forked = func(pa *c10Path[[]int8], ev c10Ev, k c10K) {
		gi := guardAt[at{ev.fr, ev.in}]
		if k == c10Zero {
			pa.St[gi] = c10gOK
		} else {
			pa.St[gi] = c10gFailed
		}
	}
	errIdx := ErrResultIndex(rootFn)
	w.Exit = func(pa *c10Path[[]int8], fr *c10Frame, in ssa.Instruction) {
		ret, ok := in.(*ssa.Return)
		if !ok {
			return
		}
		for gi, g := range guards {
			if pa.St[gi] != c10gFailed || edgeBad[gi] != "" {
				continue
			}
			if g.loopH != nil {
				edgeBad[gi] = fmt.Sprintf("on the oversize edge the batch loop is left (exit at line %d) instead of continuing with the next mutation: the rest of the batch would be dropped", line(ret.Pos()))
				continue
			}
			if errIdx < 0 {
				continue
			}
			switch pa.Eval(fr, ret.Results[errIdx]) {
			case c10Zero:
			case c10NonZero:
				edgeBad[gi] = fmt.Sprintf("the return at line %d yields an error on the oversize edge (the CheckSizes error or one made from it): oversize keys/values must be skipped silently (return nil), as every sibling does", line(ret.Pos()))
			default:
				if edgeUnd[gi] == "" {
					edgeUnd[gi] = fmt.Sprintf("cannot tell whether the return at line %d yields nil on the oversize edge", line(ret.Pos()))
				}
			}
		}
	}
	w.Run(fs.root.fr, make([]int8, len(guards)))
	for _, s := range sinks {
		construct := FuncKey(s.fl.fn) + "#" + s.what
		site := p.Pos(s.instr.Pos())
		if s.call != nil {
			site = p.Pos(s.call.Pos())
		}
		nSinks++
		switch {
		case w.Overflow:
			r.Undecided("V-size", construct, site, role+": too many paths through "+FuncKey(rootFn)+" to interpret")
		case !sinkSeen[s] && len(match[s]) == 0:
			r.Violation("V-size", construct, site, role+": value reaches "+s.what+" without a dominating successful sorted.CheckSizes on that key/value ("+whyNo[s]+"): an oversize key/value would be written by this implementation while its siblings skip it")
		default:
			r.Check(sinkBad[s] == "", "V-size", construct, site,
				role+": value reaches "+s.what+" only on the err==nil edge of sorted.CheckSizes(key, value) over the same key and value",
				role+": value reaches "+s.what+" without a dominating successful sorted.CheckSizes on that key/value ("+sinkBad[s]+"): an oversize key/value would be written by this implementation while its siblings skip it")
		}
	}
	for gi, g := range guards {
		construct := FuncKey(g.fl.fn) + "#oversize-edge"
		site := p.Pos(g.call.Pos())
		nGuards++
		if _, _, discarded := ErrValue(g.call); discarded {
			r.Violation("V-size", construct, site, "the result of sorted.CheckSizes is discarded: nothing is skipped")
			continue
		}
		switch {
		case w.Overflow:
			r.Undecided("V-size", construct, site, "too many paths through "+FuncKey(rootFn)+" to interpret")
		case edgeBad[gi] != "":
			r.Violation("V-size", construct, site, edgeBad[gi])
		case edgeUnd[gi] != "":
			r.Undecided("V-size", construct, site, edgeUnd[gi])
		default:
			r.OK("V-size", construct, site, "on the oversize edge the function returns a nil error and (in a batch loop) continues with the next mutation")
		}
	}
	return nSinks, nGuards
}

// c10LoopHeader returns the innermost natural-loop header dominating b whose
// loop contains b, or nil.
func c10LoopHeader(b *ssa.BasicBlock) *ssa.BasicBlock {
	for h := b; h != nil; h = h.Idom() {
		for _, p := range h.Preds {
			if h.Dominates(p) && (p == b || c10Reaches(b, p, h)) {
				return h
			}
		}
	}
	return nil
}

// c10Reaches: can control go from a to b without passing through avoid?
func c10Reaches(a, b, avoid *ssa.BasicBlock) bool {
	if a == b {
		return true
	}
	seen := map[*ssa.BasicBlock]bool{a: true}
	var walk func(x *ssa.BasicBlock) bool
	walk = func(x *ssa.BasicBlock) bool {
		for _, s := range x.Succs {
			if s == b {
				return true
			}
			if s == avoid || seen[s] {
				continue
			}
			seen[s] = true
			if walk(s) {
				return true
			}
		}
		return false
	}
	return walk(a)
}

// c10ContinuePoints: the blocks at which "the loop goes on with the next
// element": the header h and, for loops whose test sits at the bottom
// (range-over-int, rotated loops), the latch — a back-edge predecessor of h
// that does nothing but jump to h or choose between h and leaving the loop.
func c10ContinuePoints(h *ssa.BasicBlock) map[*ssa.BasicBlock]bool {
	out := map[*ssa.BasicBlock]bool{h: true}
	for _, p := range h.Preds {
		if !h.Dominates(p) || p == h {
			continue
		}
		latch := true
		for _, s := range p.Succs {
			if s != h && c10InLoopOf(h, s) {
				latch = false
			}
		}
		for _, in := range p.Instrs {
			switch in.(type) {
			case *ssa.BinOp, *ssa.If, *ssa.Jump, *ssa.DebugRef, *ssa.Phi:
			default:
				latch = false
			}
		}
		if latch {
			out[p] = true
		}
	}
	return out
}

// c10BatchConcrete resolves the concrete type BeginBatch returns (through
// MakeInterface and up to two static constructor calls).
func c10BatchConcrete(fn *ssa.Function, depth int) types.Type {
	if fn == nil || fn.Blocks == nil || depth > 2 {
		return nil
	}
	var res types.Type
	for _, ri := range Returns(fn) {
		if len(ri.Results) != 1 {
			return nil
		}
		var t types.Type
		v := ri.Results[0]
		if mi, ok := v.(*ssa.MakeInterface); ok {
			t = mi.X.Type()
		} else if call, ok := v.(*ssa.Call); ok {
			if f := call.Call.StaticCallee(); f != nil {
				t = c10BatchConcrete(f, depth+1)
			}
		} else if _, isIface := v.Type().Underlying().(*types.Interface); !isIface {
			t = v.Type()
		}
		if t == nil {
			return nil
		}
		if res != nil && !types.Identical(res, t) {
			return nil
		}
		res = t
	}
	return res
}

// c10MutationAccessor: invoke of sorted.Mutation.Key / Value.
func c10MutationAccessor(c CallSite) (kind byte, ok bool) {
	cc := c.Common()
	if !cc.IsInvoke() || !IsNamed(cc.Value.Type(), c10SortedPath, "Mutation") {
		return 0, false
	}
	switch cc.Method.Name() {
	case "Key":
		return 'K', true
	case "Value":
		return 'V', true
	}
	return 0, false
}

// c10SeedRecorded seeds the flows over the effective body of a
// CommitBatch-like function with the places recorded keys/values come back
// out: sorted.Mutation accessors and loads of the struct fields the batch
// type's Set stored them into. The identity of the mutation (the part of the
// label after '@') is the resolved receiver, so that an accessor called in a
// helper on a parameter names the same mutation as one called in the caller.
func c10SeedRecorded(fs *c10FlowSet, fields map[c10FieldKey]map[byte]bool) (nV int) {
	for _, f := range fs.flows {
		id := func(v ssa.Value) string {
			e := c10Ident(f.fr, v)
			return fmt.Sprintf("%p/%p", e.fr, e.v)
		}
		for _, b := range f.fn.Blocks {
			for _, in := range b.Instrs {
				switch x := in.(type) {
				case *ssa.Call:
					if k, ok := c10MutationAccessor(CallSite{f.fn, x}); ok {
						f.source(x, fmt.Sprintf("%c:acc@%s", k, id(x.Call.Value)))
						if k == 'V' {
							nV++
						}
					}
				case *ssa.Field:
					if n := NamedOf(x.X.Type()); n != nil {
						for kind := range fields[c10FieldKey{n, x.Field}] {
							f.source(x, fmt.Sprintf("%c:fld@%s", kind, id(x.X)))
							if kind == 'V' {
								nV++
							}
						}
					}
				case *ssa.UnOp:
					if x.Op != token.MUL {
						continue
					}
					if fa, ok := x.X.(*ssa.FieldAddr); ok {
						if n := NamedOf(fa.X.Type()); n != nil {
							for kind := range fields[c10FieldKey{n, fa.Field}] {
								f.source(x, fmt.Sprintf("%c:fld@%s", kind, id(fa.X)))
								if kind == 'V' {
									nV++
								}
							}
						}
					}
				}
			}
		}
	}
	return nV
}

// c10PromotedFrom describes where a promoted method of n comes from.
func c10PromotedFrom(n *types.Named, name string) (field types.Type, ok bool) {
	for _, t := range []types.Type{types.NewPointer(n), n} {
		obj, index, _ := types.LookupFieldOrMethod(t, true, n.Obj().Pkg(), name)
		if obj == nil || len(index) < 2 {
			continue
		}
		st, isStruct := n.Underlying().(*types.Struct)
		if !isStruct {
			return nil, false
		}
		return st.Field(index[0]).Type(), true
	}
	return nil, false
}

// c10KVFlowSet: the flow set over the effective body of a (key, value) method, sources at the parameters.
func c10KVFlowSet(fn *ssa.Function) *c10FlowSet {
	fs := c10NewFlowSet(c10NewRoot(fn))
	fs.root.source(fn.Params[1], "K:param")
	fs.root.source(fn.Params[2], "V:param")
	fs.run()
	return fs
}

func c10RuleSize(p *Program, r *Reporter) {
	kvIface := p.Iface("pkg/sorted", "KeyValue")
	p.Func("pkg/sorted", "", "CheckSizes")
	impls := p.Implementers(kvIface, false)
	r.Analysed("keyvalue_implementers", len(impls))
	implSet := map[*types.Named]bool{}
	for _, n := range impls {
		implSet[n] = true
	}
	nGuards := 0
	doneBatch := map[*types.Named]map[c10FieldKey]map[byte]bool{}
	batchGuarding := map[*types.Named]bool{}
	for _, n := range impls {
		tkey := typeKey(n)
		// --- promoted methods: must come from a checked implementer or the interface itself
		declared := map[string]*ssa.Function{}
		for _, m := range []string{"Set", "BeginBatch", "CommitBatch"} {
			fn, decl := c10Method(p, n, m)
			if fn == nil {
				brokenf("anchor unresolved: method %s of %s", m, tkey)
			}
			if decl {
				declared[m] = fn
				continue
			}
			ft, ok := c10PromotedFrom(n, m)
			src := NamedOf(ft)
			switch {
			case ok && src != nil && implSet[src]:
				r.OKTable("V-size", tkey+"#"+m, p.Pos(n.Obj().Pos()), "promoted from embedded "+typeKey(ft)+", itself an enumerated implementer")
			case ok && src != nil && types.Identical(src.Underlying(), kvIface):
				r.OKTable("V-size", tkey+"#"+m, p.Pos(n.Obj().Pos()), "promoted from an embedded sorted.KeyValue interface value: the dynamic store is one of the enumerated implementers")
			default:
				r.Undecided("V-size", tkey+"#"+m, p.Pos(n.Obj().Pos()), "method is promoted from a field that is neither an enumerated implementer nor the interface")
			}
		}
		// --- direct path: Set(key, value)
		if fn := declared["Set"]; fn != nil {
			if len(fn.Params) != 3 {
				brokenf("anchor unresolved: %s does not have (recv, key, value) parameters", FuncKey(fn))
			}
			fs := c10KVFlowSet(fn)
			cnt, ng := c10SizeCheck(p, r, fs, "Set")
			if cnt == 0 {
				r.Violation("V-size", FuncKey(fn)+"#no-write", p.Pos(fn.Pos()), "Set hands its value to nothing: the implementation would drop every write (or the value flow could not be followed)")
			}
			nGuards += ng
		}
		// --- batch path
		bb, cb := declared["BeginBatch"], declared["CommitBatch"]
		if bb == nil && cb == nil {
			continue
		}
		if bb == nil || cb == nil {
			r.Undecided("V-size", tkey+"#batch", p.Pos(n.Obj().Pos()), "only one of BeginBatch/CommitBatch is declared on this type; cannot pair the batch type with its commit")
			continue
		}
		bt := NamedOf(c10BatchConcrete(bb, 0))
		if bt == nil {
			r.Undecided("V-size", FuncKey(bb)+"#batch-type", p.Pos(bb.Pos()), "cannot resolve the concrete batch type returned by BeginBatch")
			continue
		}
		bset, decl := c10Method(p, bt, "Set")
		if bset == nil || !decl || len(bset.Params) != 3 {
			r.Undecided("V-size", FuncKey(bb)+"#batch-type", p.Pos(bb.Pos()), "batch type "+typeKey(bt)+" has no declared Set(key, value)")
			continue
		}
		if _, seen := doneBatch[bt]; !seen {
			fs := c10KVFlowSet(bset)
			if len(c10Guards(fs)) > 0 {
				cnt, ng := c10SizeCheck(p, r, fs, "batch Set (guards for itself)")
				if cnt == 0 {
					r.Violation("V-size", FuncKey(bset)+"#no-write", p.Pos(bset.Pos()), "batch Set hands its value to nothing")
				}
				nGuards += ng
				batchGuarding[bt] = true
				doneBatch[bt] = nil
			} else {
				// recording batch: the value may only be stored into the batch itself
				bad := ""
				for _, f := range fs.flows {
					for _, e := range f.escapes {
						bad = "cannot follow the value: " + e
					}
				}
				nStores := 0
				for _, s := range fs.allSinks() {
					if len(c10Kinds(s.labels, 'V')) == 0 {
						continue
					}
					if s.call != nil {
						if c10Harmless(*s.call) {
							continue
						}
						bad = "hands the value to " + s.what + " without sorted.CheckSizes"
						continue
					}
					if _, isStore := s.instr.(*ssa.Store); !isStore || s.root.v != ssa.Value(bset.Params[0]) {
						bad = "stores the value outside the batch object (" + s.what + ") without sorted.CheckSizes"
						continue
					}
					nStores++
				}
				if bad == "" && nStores == 0 {
					bad = "does not record the value anywhere"
				}
				r.Check(bad == "", "V-size", FuncKey(bset)+"#records", p.Pos(bset.Pos()),
					"batch Set only records key/value inside the batch object; the size guard is owed by every CommitBatch that applies such a batch",
					"batch Set has no size guard and "+bad)
				doneBatch[bt] = fs.fieldStores
			}
		}
		if batchGuarding[bt] {
			r.OKTable("V-size", FuncKey(cb)+"#batch", p.Pos(cb.Pos()), "batch type "+typeKey(bt)+" guards in its own Set (checked there)")
			continue
		}
		// CommitBatch applies recorded mutations: every value it hands over must be guarded
		fs := c10NewFlowSet(c10NewRoot(cb))
		nV := c10SeedRecorded(fs, doneBatch[bt])
		fs.run()
		if nV == 0 {
			r.Undecided("V-size", FuncKey(cb)+"#batch", p.Pos(cb.Pos()), "batch type "+typeKey(bt)+" records values without a guard, but CommitBatch (with the helpers it calls) reads no recorded value (neither sorted.Mutation.Value nor a recorded field): cannot find where the batch is applied")
			continue
		}
		cnt, ng := c10SizeCheck(p, r, fs, "CommitBatch (applies recorded mutations)")
		if cnt == 0 {
			r.Violation("V-size", FuncKey(cb)+"#no-write", p.Pos(cb.Pos()), "CommitBatch reads recorded values but hands them to nothing")
		}
		nGuards += ng
	}
	// accessor agreement: sorted.mutation.Key/Value return the fields sorted.batch.Set stored key/value into
	c10AccessorAgreement(p, r)
	r.Analysed("checksizes_guard_sites", nGuards)
	if nGuards < 12 {
		r.Violation("V-size", "guard-sites", "pkg/sorted/kv.go", fmt.Sprintf("only %d sorted.CheckSizes guard sites found in implementers of sorted.KeyValue (12 confirmed on the pinned tree)", nGuards))
	}
	r.Floor("V-size", 40)
}

// c10AccessorAgreement: the generic batch (what sorted.NewBatchMutation
// returns) records (key,value) into fields that the Key()/Value() methods of
// the recorded element type read back — CommitBatch implementations rely on it.
func c10AccessorAgreement(p *Program, r *Reporter) {
	ctor := p.Func("pkg/sorted", "", "NewBatchMutation")
	bt := NamedOf(c10BatchConcrete(ctor, 0))
	if bt == nil {
		brokenf("anchor unresolved: concrete type returned by sorted.NewBatchMutation")
	}
	bset, decl := c10Method(p, bt, "Set")
	if bset == nil || !decl || len(bset.Params) != 3 {
		brokenf("anchor unresolved: Set(key, value) of %s", typeKey(bt))
	}
	fs := c10KVFlowSet(bset)
	// the element type: the named struct the key is stored into
	var mut *types.Named
	for k, kinds := range fs.fieldStores {
		if kinds['K'] || kinds['V'] {
			if mut != nil && mut != k.typ {
				brokenf("anchor unresolved: %s stores key and value into different struct types", FuncKey(bset))
			}
			mut = k.typ
		}
	}
	if mut == nil {
		brokenf("anchor unresolved: %s stores its key/value into no struct field", FuncKey(bset))
	}
	for _, acc := range []struct {
		name string
		kind byte
	}{{"Key", 'K'}, {"Value", 'V'}} {
		fn, decl := c10Method(p, mut, acc.name)
		if fn == nil || !decl {
			brokenf("anchor unresolved: method %s of %s", acc.name, typeKey(mut))
		}
		ok := false
		rets := Returns(fn)
		for _, ri := range rets {
			ok = false
			if len(ri.Results) != 1 {
				break
			}
			var key c10FieldKey
			switch x := ri.Results[0].(type) {
			case *ssa.Field:
				key = c10FieldKey{NamedOf(x.X.Type()), x.Field}
			case *ssa.UnOp:
				if fa, isFA := x.X.(*ssa.FieldAddr); isFA && x.Op == token.MUL {
					key = c10FieldKey{NamedOf(fa.X.Type()), fa.Field}
				}
			}
			kinds := fs.fieldStores[key]
			ok = key.typ == mut && len(kinds) == 1 && kinds[acc.kind]
			if !ok {
				break
			}
		}
		r.Check(ok && len(rets) > 0, "V-size", FuncKey(fn)+"#accessor", p.Pos(fn.Pos()),
			"returns exactly the field into which (*batch).Set stored its "+acc.name+" parameter",
			"does not return the field into which (*batch).Set stored its "+strings.ToLower(acc.name)+": every CommitBatch that sizes and applies m.Key()/m.Value() would see the wrong bytes")
	}
}

// ===========================================================================
// V-txn

func c10IsKVDB(c CallSite, names ...string) bool {
	for _, m := range names {
		if c.IsStatic("modernc.org/kv", "DB", m) {
			return true
		}
	}
	return false
}

func c10IsSQLTx(c CallSite, names ...string) bool {
	for _, m := range names {
		if c.IsStatic("database/sql", "Tx", m) {
			return true
		}
	}
	return false
}

func c10RuleTxn(p *Program, r *Reporter) {
	n := 0
	var fns []*ssa.Function
	for _, fn := range p.FuncsUnder("pkg/sorted") {
		if top := TopFunc(fn); top.Pkg != nil && !IsTestSupportPkg(RelPkg(top.Pkg.Pkg)) {
			fns = append(fns, fn)
		}
	}
	// helpers are looked at as part of the effective body of their callers
	for _, root := range c10Roots(p, fns) {
		for _, c := range c10EffCalls(root) {
			if c10IsKVDB(c.CallSite, "BeginTransaction") && c.Value() != nil {
				n++
				c10CheckKVTxn(p, r, root, c)
			}
		}
	}
	if n == 0 {
		r.Violation("V-txn", "pkg/sorted/kvfile#BeginTransaction", "pkg/sorted/kvfile/kvfile.go", "no (*kv.DB).BeginTransaction call left in pkg/sorted: kvfile batches are no longer applied as one unit")
	}
	r.Analysed("kv_transactions", n)
	c10CheckSQLCommit(p, r)
	c10CheckNilTx(p, r)
	r.Floor("V-txn", 14)
}

type c10At struct {
	fr *c10Frame
	in ssa.Instruction
}

// c10ErrDef: the instruction that defines the error result of call (the call
// itself or the Extract of its last result); nil when the error is discarded.
func c10ErrDef(call *ssa.Call) ssa.Instruction {
	ev, hasErr, discarded := ErrValue(call)
	if !hasErr || discarded || ev == nil {
		return nil
	}
	in, _ := ev.(ssa.Instruction)
	return in
}

type c10TxnSt struct {
	phase int8 // 0 no transaction yet, 1 open, 2 begin failed, 3 ended (Commit/Rollback)
	dirty int  // 1+index of the first write whose failure this path has seen
}

// c10CheckKVTxn interprets the paths of root's effective body (helpers in
// place, deferred calls at the exits, the value of flag variables followed)
// around one (*kv.DB).BeginTransaction call.
func c10CheckKVTxn(p *Program, r *Reporter, root *c10Frame, begin c10ECall) {
	fn := root.fn
	key := FuncKey(fn) + "#BeginTransaction"
	site := p.Pos(begin.Pos())
	beginDef := c10ErrDef(begin.Value())
	if beginDef == nil {
		r.Violation("V-txn", key+"#checked", site, "the error of BeginTransaction is not tested: after a failed begin the mutations would be applied outside any transaction")
		return
	}
	dbPath := c10PathOf(begin.fr, begin.Args()[0])
	line := func(pos token.Pos) int { return p.Fset.Position(pos).Line }
	// the events
	type wr struct {
		c   c10ECall
		def ssa.Instruction
	}
	var writes []wr
	var ends []c10ECall // Commit / Rollback
	writeAt := map[c10At]int{}
	writeDef := map[c10At]int{}
	endAt := map[c10At]int{}
	for _, c := range c10EffCalls(root) {
		switch {
		case c10IsKVDB(c.CallSite, "Set", "Delete", "Put", "Inc") && c.Value() != nil:
			w := wr{c, c10ErrDef(c.Value())}
			writeAt[c10At{c.fr, c.Instr}] = len(writes)
			if w.def != nil {
				writeDef[c10At{c.fr, w.def}] = len(writes)
			}
			writes = append(writes, w)
		case c10IsKVDB(c.CallSite, "Commit", "Rollback") && !c.IsGo():
			endAt[c10At{c.fr, c.Instr}] = len(ends)
			ends = append(ends, c)
		}
	}
	var leaks []string
	insideBad := map[c10At]string{}
	failBad := map[int]string{}
	w := &c10Walk[c10TxnSt]{
		Clone: func(s c10TxnSt) c10TxnSt { return s },
		Key:   func(s c10TxnSt) string { return fmt.Sprintf("%d/%d", s.phase, s.dirty) },
	}
	phaseWhy := func(ph int8) string {
		switch ph {
		case 0:
			return "it can run before BeginTransaction (call does not dominate the site)"
		case 2:
			return "it is reached although BeginTransaction failed (site is not on the err==nil edge of the call)"
		case 3:
			return "it can run after the transaction was committed or rolled back"
		}
		return ""
	}
	w.Visit = func(pa *c10Path[c10TxnSt], ev c10Ev) bool {
		ci, ok := ev.in.(ssa.CallInstruction)
		if !ok {
			return false
		}
		if _, isDefer := ci.(*ssa.Defer); isDefer && !ev.run {
			return false
		}
		here := c10At{ev.fr, ev.in}
		if wi, ok := writeAt[here]; ok {
			if pa.St.phase != 1 && insideBad[here] == "" {
				insideBad[here] = phaseWhy(pa.St.phase)
			}
			_ = wi
			return false
		}
		if ei, ok := endAt[here]; ok {
			c := ends[ei]
			if c10PathOf(c.fr, c.Args()[0]) != dbPath {
				return false
			}
			if c.MethodName() == "Commit" {
				if pa.St.phase != 1 && insideBad[here] == "" {
					insideBad[here] = phaseWhy(pa.St.phase)
				}
				if d := pa.St.dirty; d > 0 && failBad[d-1] == "" {
					failBad[d-1] = fmt.Sprintf("a path on which this write failed reaches Commit at line %d: a partially applied batch would be committed", line(c.Pos()))
				}
			}
			if pa.St.phase == 1 {
				pa.St.phase = 3
			}
		}
		return false
	}
	w.Fork = func(pa *c10Path[c10TxnSt], ev c10Ev) ssa.Value {
		here := c10At{ev.fr, ev.in}
		if ev.fr == begin.fr && ev.in == beginDef {
			return ev.in.(ssa.Value)
		}
		if _, ok := writeDef[here]; ok {
			return ev.in.(ssa.Value)
		}
		return nil
	}
	w.Forked = func(pa *c10Path[c10TxnSt], ev c10Ev, k c10K) {
		here := c10At{ev.fr, ev.in}
		if ev.fr == begin.fr && ev.in == beginDef {
			if k == c10Zero {
				pa.St.phase = 1
			} else {
				pa.St.phase = 2
			}
			return
		}
		if wi, ok := writeDef[here]; ok && k == c10NonZero && pa.St.dirty == 0 {
			pa.St.dirty = wi + 1
		}
	}
	w.Exit = func(pa *c10Path[c10TxnSt], fr *c10Frame, in ssa.Instruction) {
		if pa.St.phase == 1 {
			leaks = append(leaks, fmt.Sprintf("line %d", line(in.Pos())))
		}
	}
	w.Run(root, c10TxnSt{})
	if w.Overflow {
		r.Undecided("V-txn", key+"#paired", site, "too many paths through "+FuncKey(fn)+" to interpret")
		return
	}
	r.Check(len(leaks) == 0, "V-txn", key+"#paired", site,
		"every path from the successful BeginTransaction to an exit passes Commit or Rollback on the same DB (helpers interpreted in place, deferred calls run at the exit with the value the rollback flag has on that path)",
		"transaction left open (neither Commit nor Rollback) on the exit(s) at "+strings.Join(dedupe(leaks), ", ")+": the kv file stays inside a transaction and later writes are swallowed by it")

	// (b) writes and the commit happen only inside the open transaction
	// (c) no path on which a write failed reaches Commit
	nw := 0
	for wi, wr := range writes {
		c := wr.c
		nw++
		ck := key + "#" + c.MethodName()
		here := c10At{c.fr, c.Instr}
		r.Check(insideBad[here] == "", "V-txn", ck+"#inside", p.Pos(c.Pos()), "reached only while the transaction begun by the successful BeginTransaction is open",
			"write is not inside the transaction ("+insideBad[here]+"): it would be applied outside the transaction and survive a rollback")
		if wr.def == nil {
			r.Violation("V-txn", ck+"#failure-not-committed", p.Pos(c.Pos()), "the error of this write is not tested: a batch whose write failed would still be committed, partially applied")
			continue
		}
		r.Check(failBad[wi] == "", "V-txn", ck+"#failure-not-committed", p.Pos(c.Pos()), "no path on which this write failed reaches Commit", failBad[wi])
	}
	nCommit := 0
	for _, c := range ends {
		if c.MethodName() != "Commit" || c10PathOf(c.fr, c.Args()[0]) != dbPath {
			continue
		}
		nCommit++
		here := c10At{c.fr, c.Instr}
		r.Check(insideBad[here] == "", "V-txn", key+"#Commit#inside", p.Pos(c.Pos()), "reached only while the transaction begun by the successful BeginTransaction is open",
			"Commit is not inside the transaction ("+insideBad[here]+")")
	}
	if nw == 0 || nCommit == 0 {
		r.Violation("V-txn", key+"#writes", site, "no write and commit found after BeginTransaction")
	}
	// (e) one write-mode mutex is held from the begin to every commit/rollback
	locks := c10Locks(root)
	var common LockSet
	first := true
	see := func(c c10ECall) {
		ls, ok := locks.HeldAt(c.fr, c.Instr)
		if c.IsDefer() {
			ls, ok = locks.held[c10EI{c.fr, c.Instr, true}]
		}
		if !ok {
			return // never reached
		}
		held := LockSet{}
		for k, v := range ls {
			if v == 'W' {
				held[k] = v
			}
		}
		if first {
			common, first = held, false
		} else {
			common = meet(common, held)
		}
	}
	see(begin)
	for _, wr := range writes {
		see(wr.c)
	}
	for _, c := range ends {
		if c10PathOf(c.fr, c.Args()[0]) == dbPath {
			see(c)
		}
	}
	r.Check(len(common) > 0 && !locks.overflow, "V-txn", key+"#serialized", site,
		"a mutex is held in write mode at BeginTransaction, every write, Commit and Rollback: "+common.String(),
		"no single mutex is held from BeginTransaction to Commit/Rollback: kv.DB transactions are per database, so two concurrent batches would nest and one's rollback would undo the other")
}

// c10FieldNilFact: what do the dominating branch conditions of block b say
// about the field fld of the struct base points to (tested through a load)?
func c10FieldNilFact(b *ssa.BasicBlock, base ssa.Value, fld int) (known, isNil bool) {
	for _, f := range FactsAt(b) {
		cond, val := f.Cond, f.Val
		for {
			if u, ok := cond.(*ssa.UnOp); ok && u.Op == token.NOT {
				cond, val = u.X, !val
				continue
			}
			break
		}
		bo, ok := cond.(*ssa.BinOp)
		if !ok || (bo.Op != token.EQL && bo.Op != token.NEQ) {
			continue
		}
		var other ssa.Value
		if IsNilConst(bo.Y) {
			other = bo.X
		} else if IsNilConst(bo.X) {
			other = bo.Y
		} else {
			continue
		}
		if bs, idx, ok := c10FieldLoad(other); ok && idx == fld && sameOrigin(bs, base) {
			return true, (bo.Op == token.EQL) == val
		}
	}
	return false, false
}

// c10FieldLoad: v is a load of field idx of the struct base points to.
func c10FieldLoad(v ssa.Value) (base ssa.Value, idx int, ok bool) {
	switch x := v.(type) {
	case *ssa.UnOp:
		if x.Op == token.MUL {
			if fa, ok := x.X.(*ssa.FieldAddr); ok {
				return fa.X, fa.Field, true
			}
		}
	case *ssa.Field:
		return x.X, x.Field, true
	}
	return nil, 0, false
}

type c10SQLSt struct {
	n       int8 // Commit/Rollback calls so far (capped at 2)
	rolled  bool
	noBatch bool // the batch's comma-ok type assertion failed on this path
}

// c10CheckSQLCommit interprets the paths of sqlkv's CommitBatch (helpers in place).
func c10CheckSQLCommit(p *Program, r *Reporter) {
	fn := p.Func("pkg/sorted/sqlkv", "KeyValue", "CommitBatch")
	key := FuncKey(fn)
	root := c10NewRoot(fn)
	line := func(pos token.Pos) int { return p.Fset.Position(pos).Line }
	var ends []c10ECall
	endAt := map[c10At]int{}
	for _, c := range c10EffCalls(root) {
		if c10IsSQLTx(c.CallSite, "Commit", "Rollback") && !c.IsGo() {
			endAt[c10At{c.fr, c.Instr}] = len(ends)
			ends = append(ends, c)
		}
	}
	// the cells holding the transaction pointer and the sticky error
	type cells struct {
		tx, err c10Cell
		ok      bool
		why     string
	}
	info := make([]cells, len(ends))
	for i, c := range ends {
		base, idx, ok := c10FieldLoad(c.Args()[0])
		if !ok {
			info[i].why = "the *sql.Tx is not loaded from a field of the batch object"
			continue
		}
		errIdx := c10ErrField(base.Type())
		if errIdx < 0 {
			info[i].why = "the batch type has no single error field"
			continue
		}
		b := c10Res(c.fr, base).v
		info[i] = cells{tx: c10FieldCell(b, idx), err: c10FieldCell(b, errIdx), ok: true}
	}
	var bad []string
	endBad := map[int]string{}
	errIdx := ErrResultIndex(fn)
	w := &c10Walk[c10SQLSt]{
		Clone: func(s c10SQLSt) c10SQLSt { return s },
		Key:   func(s c10SQLSt) string { return fmt.Sprint(s) },
	}
	w.Visit = func(pa *c10Path[c10SQLSt], ev c10Ev) bool {
		ci, ok := ev.in.(ssa.CallInstruction)
		if !ok {
			return false
		}
		if _, isDefer := ci.(*ssa.Defer); isDefer && !ev.run {
			return false
		}
		ei, ok := endAt[c10At{ev.fr, ev.in}]
		if !ok {
			return false
		}
		if pa.St.n < 2 {
			pa.St.n++
		}
		c := ends[ei]
		if !info[ei].ok {
			return false
		}
		k := pa.mem[info[ei].err]
		if c.MethodName() == "Commit" {
			if k != c10Zero && endBad[ei] == "" {
				endBad[ei] = "Commit is not dominated by the test that the batch's sticky error is nil: a batch one of whose statements failed would be committed, partially applied"
			}
		} else {
			pa.St.rolled = true
			if k != c10NonZero && endBad[ei] == "" {
				endBad[ei] = "Rollback is not on the sticky-error edge"
			}
		}
		return false
	}
	w.Fork = func(pa *c10Path[c10SQLSt], ev c10Ev) ssa.Value {
		if ex, ok := ev.in.(*ssa.Extract); ok && ex.Index == 1 {
			if ta, ok := ex.Tuple.(*ssa.TypeAssert); ok && ta.CommaOk {
				return ex
			}
		}
		return nil
	}
	w.Forked = func(pa *c10Path[c10SQLSt], ev c10Ev, k c10K) {
		if k == c10Zero {
			pa.St.noBatch = true
		}
	}
	w.Exit = func(pa *c10Path[c10SQLSt], fr *c10Frame, in ssa.Instruction) {
		ret, ok := in.(*ssa.Return)
		if !ok {
			return
		}
		switch {
		case pa.St.n == 1:
		case pa.St.n == 0:
			noTx := pa.St.noBatch
			for _, ci := range info {
				if ci.ok && pa.mem[ci.tx] == c10Zero {
					noTx = true
				}
			}
			if !noTx {
				bad = append(bad, fmt.Sprintf("neither Commit nor Rollback before the return at line %d: the transaction (and its connection) stays open", line(ret.Pos())))
			}
		default:
			bad = append(bad, fmt.Sprintf("both/several Commit/Rollback calls before the return at line %d", line(ret.Pos())))
		}
		if pa.St.rolled && errIdx >= 0 && pa.Eval(fr, ret.Results[errIdx]) != c10NonZero {
			for ei, c := range ends {
				if c.MethodName() == "Rollback" && endBad[ei] == "" {
					endBad[ei] = fmt.Sprintf("after Rollback the return at line %d does not yield the batch's (non-nil) error: the caller would take a rolled-back batch for a committed one", line(ret.Pos()))
				}
			}
		}
	}
	w.Run(root, c10SQLSt{})
	if w.Overflow {
		r.Undecided("V-txn", key+"#commit-xor-rollback", p.Pos(fn.Pos()), "too many paths through CommitBatch to interpret")
		return
	}
	r.Check(len(bad) == 0 && len(ends) >= 2, "V-txn", key+"#commit-xor-rollback", p.Pos(fn.Pos()),
		"every path that holds a *batchTx ends the sql transaction exactly once (Commit or Rollback)", strings.Join(dedupe(bad), "; ")+c10If(len(ends) < 2, " CommitBatch no longer contains both a Commit and a Rollback", ""))
	for ei, c := range ends {
		name := c.MethodName()
		if !info[ei].ok {
			r.Undecided("V-txn", key+"#"+name, p.Pos(c.Pos()), info[ei].why)
			continue
		}
		if name == "Commit" {
			r.Check(endBad[ei] == "", "V-txn", key+"#Commit", p.Pos(c.Pos()), "Commit is reached only where the batch's sticky error is known nil", endBad[ei])
		} else {
			r.Check(endBad[ei] == "", "V-txn", key+"#Rollback", p.Pos(c.Pos()), "Rollback only on the sticky-error edge, and the sticky error is returned afterwards", endBad[ei])
		}
	}
}

func c10If(c bool, a, b string) string {
	if c {
		return a
	}
	return b
}

// c10ErrField returns the index of the only field of type error in the struct
// t points to, or -1.
func c10ErrField(t types.Type) int {
	if pt, ok := t.Underlying().(*types.Pointer); ok {
		t = pt.Elem()
	}
	st, ok := t.Underlying().(*types.Struct)
	if !ok {
		return -1
	}
	idx := -1
	for i := 0; i < st.NumFields(); i++ {
		if isErrorType(st.Field(i).Type()) {
			if idx >= 0 {
				return -1
			}
			idx = i
		}
	}
	return idx
}

// c10CheckNilTx: a pointer stored into a struct field together with the error
// it was co-returned with (beginTx: batchTx{tx: tx, err: err}) may be nil
// whenever that error field is non-nil; it may be used only where the error
// field is known nil or the pointer itself known non-nil. Decided per path of
// every entry function of the package (helpers in the context of each caller).
func c10CheckNilTx(p *Program, r *Reporter) {
	const rel = "pkg/sorted/sqlkv"
	fns := p.FuncsIn(rel)
	type pair struct {
		typ       *types.Named
		ptr, errI int
		where     *ssa.Function
	}
	var pairs []pair
	for _, fn := range fns {
		for _, b := range fn.Blocks {
			for _, in := range b.Instrs {
				st, ok := in.(*ssa.Store)
				if !ok {
					continue
				}
				fa, ok := st.Addr.(*ssa.FieldAddr)
				if !ok {
					continue
				}
				ex, ok := st.Val.(*ssa.Extract)
				if !ok || !isNilable(ex.Type()) || isErrorType(ex.Type()) {
					continue
				}
				call, ok := ex.Tuple.(*ssa.Call)
				if !ok {
					continue
				}
				ev, hasErr, _ := ErrValue(call)
				if !hasErr || ev == nil {
					continue
				}
				// the error of the same call stored into another field of the same object
				for _, u := range *ev.Referrers() {
					st2, ok := u.(*ssa.Store)
					if !ok || st2.Val != ev {
						continue
					}
					fa2, ok := st2.Addr.(*ssa.FieldAddr)
					if ok && fa2.X == fa.X && NamedOf(fa.X.Type()) != nil {
						pairs = append(pairs, pair{NamedOf(fa.X.Type()), fa.Field, fa2.Field, fn})
					}
				}
			}
		}
	}
	if len(pairs) == 0 {
		r.Violation("V-txn", rel+"#nil-tx#constructor", rel, "no constructor stores a (*sql.Tx, error) pair into a batch object any more; the nil-tx rule has nothing to stand on")
		return
	}
	line := func(pos token.Pos) int { return p.Fset.Position(pos).Line }
	n := 0
	for _, pr := range pairs {
		// the loads of the pointer field and the instructions that use them
		type ldInfo struct {
			fn   *ssa.Function
			ld   *ssa.UnOp
			base ssa.Value
			uses []ssa.Instruction
		}
		var loads []*ldInfo
		useOf := map[ssa.Instruction][]*ldInfo{}
		for _, fn := range fns {
			for _, b := range fn.Blocks {
				for _, in := range b.Instrs {
					ld, ok := in.(*ssa.UnOp)
					if !ok || ld.Op != token.MUL {
						continue
					}
					fa, ok := ld.X.(*ssa.FieldAddr)
					if !ok || NamedOf(fa.X.Type()) != pr.typ || fa.Field != pr.ptr {
						continue
					}
					uses := c10PointerUses(ld)
					if len(uses) == 0 {
						continue
					}
					li := &ldInfo{fn, ld, fa.X, uses}
					loads = append(loads, li)
					for _, u := range uses {
						useOf[u] = append(useOf[u], li)
					}
				}
			}
		}
		bad := map[*ldInfo]string{}
		seen := map[*ldInfo]bool{}
		for _, root := range c10Roots(p, fns) {
			fn := root.fn
			w := &c10Walk[struct{}]{}
			w.Visit = func(pa *c10Path[struct{}], ev c10Ev) bool {
				if _, isDefer := ev.in.(*ssa.Defer); isDefer && !ev.run {
					return false
				}
				for _, li := range useOf[ev.in] {
					seen[li] = true
					if bad[li] != "" {
						continue
					}
					if pa.Eval(ev.fr, li.ld) == c10NonZero {
						continue
					}
					b := c10Res(ev.fr, li.base).v
					if pa.mem[c10FieldCell(b, pr.errI)] == c10Zero || pa.mem[c10FieldCell(b, pr.ptr)] == c10NonZero {
						continue
					}
					bad[li] = fmt.Sprintf("%s.%s is used at line %d where %s is not known nil (entered through %s); %s stores both from one failing call, so the pointer is nil there (nil-pointer panic instead of an error)",
						pr.typ.Obj().Name(), fieldName(li.base.Type(), pr.ptr), line(ev.in.Pos()), fieldName(li.base.Type(), pr.errI), FuncKey(fn), FuncKey(pr.where))
				}
				return false
			}
			w.Run(root, struct{}{})
			if w.Overflow {
				for _, li := range loads {
					if bad[li] == "" && TopFunc(li.fn) == fn {
						bad[li] = "too many paths through " + FuncKey(fn) + " to interpret"
					}
				}
			}
		}
		for _, li := range loads {
			n++
			construct := FuncKey(li.fn) + "#nil-tx"
			if !seen[li] {
				// not on any interpreted path (function literal handed to someone else, go statement): dominating tests of the same function
				for _, u := range li.uses {
					if k, isNil := c10FieldNilFact(u.Block(), li.base, pr.errI); k && isNil {
						continue
					}
					if k, isNil := c10FieldNilFact(u.Block(), li.base, pr.ptr); k && !isNil {
						continue
					}
					if k, isNil := NilFact(u.Block(), li.ld); k && !isNil {
						continue
					}
					bad[li] = fmt.Sprintf("%s.%s is used at line %d where %s is not known nil; %s stores both from one failing call, so the pointer is nil there (nil-pointer panic instead of an error)",
						pr.typ.Obj().Name(), fieldName(li.base.Type(), pr.ptr), line(u.Pos()), fieldName(li.base.Type(), pr.errI), FuncKey(pr.where))
					break
				}
			}
			r.Check(bad[li] == "", "V-txn", construct, p.Pos(li.ld.Pos()),
				fmt.Sprintf("%d use(s) of the co-stored pointer, all where the error field is known nil or the pointer known non-nil", len(li.uses)), bad[li])
		}
	}
	if n < 6 {
		r.Violation("V-txn", rel+"#nil-tx#uses", rel, fmt.Sprintf("only %d uses of the co-stored transaction pointer found (7 on the pinned tree)", n))
	}
}

// c10PointerUses lists instructions that would fault or misbehave on a nil
// pointer v: method calls with v as receiver or argument, conversions to an
// interface that is then used, field access.
func c10PointerUses(v ssa.Value) []ssa.Instruction {
	var out []ssa.Instruction
	refs := v.Referrers()
	if refs == nil {
		return nil
	}
	for _, u := range *refs {
		switch x := u.(type) {
		case ssa.CallInstruction:
			out = append(out, x)
		case *ssa.MakeInterface:
			out = append(out, x)
		case *ssa.FieldAddr:
			out = append(out, x)
		case *ssa.UnOp:
			if x.Op == token.MUL {
				out = append(out, x)
			}
		}
	}
	return out
}

// ===========================================================================
// V-buffer-locks

const c10BufRel = "pkg/sorted/buffer"

// c10FieldChain strips loads and field selections: for `(*(&kv.buf))` it
// returns (kv, [idx(buf)]).
func c10FieldChain(v ssa.Value) (root ssa.Value, idx []int) {
	for i := 0; i < 12; i++ {
		switch x := v.(type) {
		case *ssa.UnOp:
			if x.Op != token.MUL {
				return v, idx
			}
			if _, ok := x.X.(*ssa.FieldAddr); !ok {
				return v, idx
			}
			v = x.X
		case *ssa.FieldAddr:
			idx = append([]int{x.Field}, idx...)
			v = x.X
		case *ssa.Field:
			idx = append([]int{x.Field}, idx...)
			v = x.X
		default:
			return v, idx
		}
	}
	return v, idx
}

type c10BufInfo struct {
	typ           *types.Named
	bufIdx, backI int
	muIdx         int   // the sync.RWMutex field ("mu")
	bufMuIdx      int   // the sync.Mutex field ("bufMu")
	counters      []int // numeric fields written outside the constructor ("buffered")
}

// role of a store value: "buf" / "back" / "" — by the constructor's parameter
// positions (New(buffer, backing, ...)), not by field names. v is a value of
// activation fr (a parameter of a helper stands for the caller's argument).
func (bi *c10BufInfo) role(fr *c10Frame, v ssa.Value) string {
	root, idx := c10FieldChain(c10Res(fr, v).v)
	if len(idx) != 1 || NamedOf(root.Type()) != bi.typ {
		return ""
	}
	switch idx[0] {
	case bi.bufIdx:
		return "buf"
	case bi.backI:
		return "back"
	}
	return ""
}

// owner: the *KeyValue value whose buf/back field v is loaded from.
func (bi *c10BufInfo) owner(fr *c10Frame, v ssa.Value) c10EV {
	e := c10Res(fr, v)
	root, _ := c10FieldChain(e.v)
	return c10EV{e.fr.frameFor(root), root}
}

// c10Origins expands v into the values it may stand for: through phis,
// local variables (every store), conversions, helper parameters (the caller's
// argument) and the results of helpers that are part of the effective body
// (what they return). nil constants are dropped.
func c10Origins(fr *c10Frame, v ssa.Value) []c10EV {
	var out []c10EV
	type key struct {
		fr *c10Frame
		v  ssa.Value
	}
	seen := map[key]bool{}
	var walk func(fr *c10Frame, v ssa.Value, d int)
	walk = func(fr *c10Frame, v ssa.Value, d int) {
		if v == nil || IsNilConst(v) || seen[key{fr, v}] {
			return
		}
		seen[key{fr, v}] = true
		if d > 16 {
			out = append(out, c10EV{fr, v})
			return
		}
		switch x := v.(type) {
		case *ssa.Phi:
			for _, e := range x.Edges {
				walk(fr, e, d+1)
			}
			return
		case *ssa.ChangeInterface:
			walk(fr, x.X, d+1)
			return
		case *ssa.MakeInterface:
			walk(fr, x.X, d+1)
			return
		case *ssa.ChangeType:
			walk(fr, x.X, d+1)
			return
		case *ssa.Parameter:
			if pf, a, ok := fr.argFor(x); ok {
				walk(pf, a, d+1)
				return
			}
		case *ssa.UnOp:
			if x.Op == token.MUL {
				if cell, ok := varOf(x.X); ok {
					if sts := storesTo(cell); len(sts) > 0 {
						for _, st := range sts {
							walk(fr.frameFor(st.Val), st.Val, d+1)
						}
						return
					}
				}
			}
		case *ssa.Call:
			if fr != nil {
				if k := fr.child(x); k != nil {
					rets := Returns(k.fn)
					if len(rets) > 0 && len(rets[0].Results) == 1 {
						for _, ri := range rets {
							walk(k, ri.Results[0], d+1)
						}
						return
					}
				}
			}
		case *ssa.Extract:
			if call, ok := x.Tuple.(*ssa.Call); ok && fr != nil {
				if k := fr.child(call); k != nil {
					rets := Returns(k.fn)
					if len(rets) > 0 && x.Index < len(rets[0].Results) {
						for _, ri := range rets {
							walk(k, ri.Results[x.Index], d+1)
						}
						return
					}
				}
			}
		}
		out = append(out, c10EV{fr, v})
	}
	walk(fr, v, 0)
	return out
}

// batchRole: the store a batch value was begun on ("" when unknown or mixed).
func (bi *c10BufInfo) batchRole(fr *c10Frame, v ssa.Value) string {
	roles := map[string]bool{}
	for _, o := range c10Origins(fr, v) {
		if call, ok := o.v.(*ssa.Call); ok && call.Call.IsInvoke() && call.Call.Method.Name() == "BeginBatch" {
			roles[bi.role(o.fr, call.Call.Value)] = true
		} else {
			roles["?"] = true
		}
	}
	if len(roles) != 1 {
		return ""
	}
	for r := range roles {
		if r != "?" {
			return r
		}
	}
	return ""
}

// c10EffLoop: the innermost loop of the effective body that contains block
// blk of activation fr, looking outwards through the call sites.
func c10EffLoop(fr *c10Frame, blk *ssa.BasicBlock) (*c10Frame, *ssa.BasicBlock) {
	for fr != nil {
		if h := c10LoopHeader(blk); h != nil {
			return fr, h
		}
		if fr.site == nil || fr.parent == nil {
			break
		}
		blk, fr = fr.site.Block(), fr.parent
	}
	return nil, nil
}

// exceptions: accesses to buf/back that deliberately happen without kv.mu,
// keyed by the entry method in whose effective body they happen.
var c10BufLockExceptions = map[string]string{
	"Find#buf.Find":    "iterators outlive the call; holding the read lock for an iterator's life would block Flush indefinitely (source TODO: 'hold read lock while iterating?') — accepted, and excluded from what this rule decides",
	"Find#back.Find":   "same as buf.Find",
	"Close#back.Close": "terminal call after Flush released mu; using a store concurrently with its Close is the caller's error for every sorted.KeyValue",
}

func c10IsSyncType(t types.Type, name string) bool { return IsNamed(t, "sync", name) }

func c10RuleBuffer(p *Program, r *Reporter) {
	typ := p.NamedType(c10BufRel, "KeyValue")
	ctor := p.Func(c10BufRel, "", "New")
	bi := &c10BufInfo{typ: typ, bufIdx: -1, backI: -1, muIdx: -1, bufMuIdx: -1}
	ctorStores := map[int]bool{}
	for _, b := range ctor.Blocks {
		for _, in := range b.Instrs {
			st, ok := in.(*ssa.Store)
			if !ok {
				continue
			}
			fa, ok := st.Addr.(*ssa.FieldAddr)
			if !ok || NamedOf(fa.X.Type()) != typ {
				continue
			}
			ctorStores[fa.Field] = true
			if len(ctor.Params) >= 2 && st.Val == ssa.Value(ctor.Params[0]) {
				bi.bufIdx = fa.Field
			}
			if len(ctor.Params) >= 2 && st.Val == ssa.Value(ctor.Params[1]) {
				bi.backI = fa.Field
			}
		}
	}
	if bi.bufIdx < 0 || bi.backI < 0 {
		brokenf("anchor unresolved: buffer.New no longer stores its (buffer, backing) parameters into fields of KeyValue")
	}
	// the locks and the mutable counter by role: the RWMutex, the Mutex, the
	// numeric field(s) that methods write
	st, _ := typ.Underlying().(*types.Struct)
	if st == nil {
		brokenf("anchor unresolved: buffer.KeyValue is not a struct")
	}
	for i := 0; i < st.NumFields(); i++ {
		switch t := st.Field(i).Type(); {
		case c10IsSyncType(t, "RWMutex"):
			if bi.muIdx >= 0 {
				brokenf("anchor unresolved: buffer.KeyValue has two sync.RWMutex fields")
			}
			bi.muIdx = i
		case c10IsSyncType(t, "Mutex"):
			if bi.bufMuIdx >= 0 {
				brokenf("anchor unresolved: buffer.KeyValue has two sync.Mutex fields")
			}
			bi.bufMuIdx = i
		}
	}
	if bi.muIdx < 0 || bi.bufMuIdx < 0 {
		brokenf("anchor unresolved: buffer.KeyValue no longer has one sync.RWMutex (store lock) and one sync.Mutex (counter lock)")
	}
	pkgFns := p.FuncsIn(c10BufRel)
	isCounter := map[int]bool{}
	for _, fn := range pkgFns {
		if fn == ctor {
			continue
		}
		for _, b := range fn.Blocks {
			for _, in := range b.Instrs {
				if s, ok := in.(*ssa.Store); ok {
					if fa, ok := s.Addr.(*ssa.FieldAddr); ok && NamedOf(fa.X.Type()) == typ {
						if bt, ok := st.Field(fa.Field).Type().Underlying().(*types.Basic); ok && bt.Info()&types.IsNumeric != 0 && !isCounter[fa.Field] {
							isCounter[fa.Field] = true
							bi.counters = append(bi.counters, fa.Field)
						}
					}
				}
			}
		}
	}
	muName, bufMuName := st.Field(bi.muIdx).Name(), st.Field(bi.bufMuIdx).Name()
	flush := p.Func(c10BufRel, "KeyValue", "Flush")
	// entry functions: everything that is not only ever called as a helper
	roots := c10Roots(p, pkgFns)
	// locks a function's effective body takes itself, relative to its parameters
	locksTaken := map[*ssa.Function][]string{}
	for _, fn := range pkgFns {
		if fn.Parent() != nil || len(fn.Blocks) == 0 {
			continue
		}
		seen := map[string]bool{}
		for _, c := range c10EffCalls(c10NewRoot(fn)) {
			if k, mu, ok := c10MutexOp(c.CallSite); ok && (k == "Lock" || k == "RLock") && !c.IsDefer() && !c.IsGo() {
				if pth := c10PathOf(c.fr, mu); !seen[pth] {
					seen[pth] = true
					locksTaken[fn] = append(locksTaken[fn], pth)
				}
			}
		}
	}
	nAcc := 0
	usedExc := map[string]bool{}
	type verdict struct {
		site    string
		ok      bool
		table   bool
		detail  string
		present bool
	}
	var order []string
	verdicts := map[string]*verdict{}
	report := func(construct, site string, ok, table bool, detail string) {
		v := verdicts[construct+"@"+site]
		if v == nil {
			v = &verdict{site: site, ok: true}
			verdicts[construct+"@"+site] = v
			order = append(order, construct+"@"+site)
		}
		if !v.present || v.ok && !ok {
			v.ok, v.table, v.detail = ok, table, detail
		}
		v.present = true
	}
	for _, rt := range roots {
		locks := c10Locks(rt)
		rootName := ""
		if rt.fn.Signature.Recv() != nil && NamedOf(rt.fn.Signature.Recv().Type()) == typ {
			rootName = rt.fn.Name()
		}
		heldAt := func(c c10ECall) LockSet {
			if c.IsDefer() {
				if ls, ok := locks.held[c10EI{c.fr, c.Instr, true}]; ok {
					return ls
				}
				return LockSet{}
			}
			ls, _ := locks.HeldAt(c.fr, c.Instr)
			return ls
		}
		ownerPath := func(e c10EV, field string) string {
			base := c10PathOf(e.fr, e.v)
			base = strings.TrimPrefix(base, "&")
			return "&" + base + "." + field
		}
		c10EachInstr(rt, func(fr *c10Frame, in ssa.Instruction) {
			switch x := in.(type) {
			case ssa.CallInstruction:
				c := c10ECall{fr, CallSite{fr.fn, x}}
				if c.IsGo() {
					return
				}
				// L1: buf/back accesses
				if c.Common().IsInvoke() {
					role := bi.role(fr, c.Common().Value)
					if role == "" {
						return
					}
					nAcc++
					what := role + "." + c.MethodName()
					construct := FuncKey(fr.fn) + "#" + what
					site := p.Pos(c.Pos())
					need := byte('R')
					if rt.fn == flush {
						need = 'W'
					}
					held := heldAt(c)
					mu := ownerPath(bi.owner(fr, c.Common().Value), muName)
					if locks.overflow {
						report(construct, site, false, false, "too many paths through "+FuncKey(rt.fn)+" to interpret")
						return
					}
					if c10Holds(held, mu, need) {
						report(construct, site, true, false, fmt.Sprintf("kv.%s held (%c needed) at the access: %s", muName, need, held))
						return
					}
					if why, ok := c10BufLockExceptions[rootName+"#"+what]; ok {
						usedExc[rootName+"#"+what] = true
						report(construct, site, true, true, "exception: "+why)
						return
					}
					mode := "read"
					if need == 'W' {
						mode = "write"
					}
					report(construct, site, false, false, fmt.Sprintf("%s is called (entered through %s) without kv.%s held for %s (held: %s): a Flush moving keys from buf to back can interleave, so the key is seen in neither store or a write is deleted by the flush", what, FuncKey(rt.fn), muName, mode, held))
					return
				}
				// L3: no mutex is taken (directly, in a helper, or by a sibling method) while it is already held
				if c.IsDefer() {
					return
				}
				if k, muv, ok := c10MutexOp(c.CallSite); ok && (k == "Lock" || k == "RLock") {
					pth := c10PathOf(fr, muv)
					held := heldAt(c)
					if _, isHeld := held[pth]; isHeld {
						report(FuncKey(fr.fn)+"#relock#"+pth, p.Pos(c.Pos()), false, false, "locks "+pth+" while the caller ("+FuncKey(rt.fn)+") already holds it ("+held.String()+"): sync mutexes are not reentrant — self-deadlock")
					}
					return
				}
				if f := c.Callee(); f != nil && fr.child(x) == nil && len(locksTaken[f]) > 0 && len(c.Args()) > 0 {
					for _, lp := range locksTaken[f] {
						tp, ok := c10Translate(fr, c.CallSite, f, lp)
						if !ok {
							continue
						}
						held := heldAt(c)
						_, isHeld := held[tp]
						report(FuncKey(fr.fn)+"#calls-"+f.Name()+"#"+lp, p.Pos(c.Pos()), !isHeld, false,
							c10If(!isHeld, "calls "+f.Name()+" (which takes "+lp+") without holding that lock",
								"calls "+f.Name()+", which locks "+tp+", while already holding it ("+held.String()+"): sync mutexes are not reentrant — self-deadlock"))
					}
				}
			case *ssa.FieldAddr:
				// L2: the counter only under the counter lock
				if NamedOf(x.X.Type()) != typ || !isCounter[x.Field] {
					return
				}
				for _, u := range *x.Referrers() {
					switch u.(type) {
					case *ssa.Store, *ssa.UnOp:
						nAcc++
						held, _ := locks.HeldAt(fr, u)
						own := c10Res(fr, x.X)
						lockPath := ownerPath(c10EV{own.fr, own.v}, bufMuName)
						name := st.Field(x.Field).Name()
						report(FuncKey(fr.fn)+"#"+name, p.Pos(u.Pos()), c10Holds(held, lockPath, 'W') && !locks.overflow, false,
							c10If(c10Holds(held, lockPath, 'W'), "kv."+name+" accessed under kv."+bufMuName,
								"kv."+name+" accessed without kv."+bufMuName+" (held: "+held.String()+"): concurrent Sets race on the byte count that triggers the automatic flush"))
					}
				}
			}
		})
	}
	for _, k := range order {
		v := verdicts[k]
		construct := k[:strings.LastIndex(k, "@")]
		switch {
		case !v.ok:
			r.Violation("V-buffer-locks", construct, v.site, v.detail)
		case v.table:
			r.OKTable("V-buffer-locks", construct, v.site, v.detail)
		default:
			r.OK("V-buffer-locks", construct, v.site, v.detail)
		}
	}
	for k := range c10BufLockExceptions {
		if !usedExc[k] {
			r.Note("V-buffer-locks exception %s no longer needed", k)
		}
	}
	r.Analysed("buffer_store_accesses", nAcc)

	// L4 + L5: Flush order and move agreement
	c10FlushOrder(p, r, bi, flush)
	// L6: deletes reach both stores
	c10BothDeletes(p, r, bi)
	// L7: Get shadowing
	c10GetShadow(p, r, bi)
	r.Floor("V-buffer-locks", 30)
}

// c10Translate rewrites a path rooted at a parameter of callee into the
// terms of the root activation, using the arguments of call c in activation fr.
func c10Translate(fr *c10Frame, c CallSite, callee *ssa.Function, path string) (string, bool) {
	pre := ""
	for strings.HasPrefix(path, "&") || strings.HasPrefix(path, "*") {
		pre, path = pre+path[:1], path[1:]
	}
	args := c.Args()
	for i, prm := range callee.Params {
		if i >= len(args) {
			break
		}
		name := prm.Name()
		if path == name || strings.HasPrefix(path, name+".") || strings.HasPrefix(path, name+"[") {
			ap := c10PathOf(fr, args[i])
			if strings.HasPrefix(ap, "&") || strings.HasPrefix(ap, "*") || strings.HasPrefix(ap, "?") {
				if path != name {
					if strings.HasPrefix(ap, "&") {
						ap = ap[1:]
					} else {
						return "", false
					}
				}
			}
			return pre + ap + path[len(name):], true
		}
	}
	return "", false
}

type c10FlushSt struct {
	back     int8 // commit of the copy to back: 0 not run, 1 succeeded, 2 failed
	set, del bool // this iteration of the buf iterator: put into back's batch / deleted from buf's batch
}

func c10FlushOrder(p *Program, r *Reporter, bi *c10BufInfo, flush *ssa.Function) {
	root := c10NewRoot(flush)
	calls := c10EffCalls(root)
	var backCommit, bufCommit *c10ECall
	for i := range calls {
		c := calls[i]
		if !c.Common().IsInvoke() || c.MethodName() != "CommitBatch" || c.Value() == nil {
			continue
		}
		role := bi.role(c.fr, c.Common().Value)
		brole := bi.batchRole(c.fr, c.Common().Args[0])
		if role != brole {
			r.Violation("V-buffer-locks", FuncKey(flush)+"#commit-"+role, p.Pos(c.Pos()), fmt.Sprintf("a batch begun on %q is committed to %q: every sorted.KeyValue rejects foreign batch types", brole, role))
			continue
		}
		switch role {
		case "back":
			backCommit = &calls[i]
		case "buf":
			bufCommit = &calls[i]
		}
	}
	if backCommit == nil || bufCommit == nil {
		r.Violation("V-buffer-locks", FuncKey(flush)+"#flush-order", p.Pos(flush.Pos()), "Flush no longer commits one batch to back and one to buf")
		return
	}
	backDef := c10ErrDef(backCommit.Value())
	// the events of the move: deletes queued for buf, sets queued for back, advances of the buf iterator
	type moveEv struct {
		kind byte // 'd' delete from buf's batch, 's' set into back's batch, 'n' Next of the buf iterator
		it   ssa.Value
	}
	events := map[c10At]moveEv{}
	nDel := 0
	var delSite token.Pos
	isBufIter := func(fr *c10Frame, v ssa.Value) ssa.Value {
		e := c10Res(fr, v)
		call, ok := e.v.(*ssa.Call)
		if ok && call.Call.IsInvoke() && call.Call.Method.Name() == "Find" && bi.role(e.fr, call.Call.Value) == "buf" {
			return call
		}
		return nil
	}
	for _, c := range calls {
		cc := c.Common()
		if !cc.IsInvoke() {
			continue
		}
		here := c10At{c.fr, c.Instr}
		switch {
		case c.MethodName() == "Delete" && bi.batchRole(c.fr, cc.Value) == "buf":
			nDel++
			delSite = c.Pos()
			var it ssa.Value
			if kIt := c10IterAccessorE(c.fr, cc.Args[0], "Key"); kIt.v != nil {
				it = isBufIter(kIt.fr, kIt.v)
			}
			events[here] = moveEv{'d', it}
		case c.MethodName() == "Set" && bi.batchRole(c.fr, cc.Value) == "back":
			sk, sv := c10IterAccessorE(c.fr, cc.Args[0], "Key"), c10IterAccessorE(c.fr, cc.Args[1], "Value")
			if sk.v != nil && sv.v != nil {
				if a, b := isBufIter(sk.fr, sk.v), isBufIter(sv.fr, sv.v); a != nil && a == b {
					events[here] = moveEv{'s', a}
				}
			}
		case c.MethodName() == "Next" && IsNamed(cc.Value.Type(), c10SortedPath, "Iterator"):
			if it := isBufIter(c.fr, cc.Value); it != nil {
				events[here] = moveEv{'n', it}
			}
		}
	}
	orderBad, moveBad := "", ""
	w := &c10Walk[c10FlushSt]{
		Clone: func(s c10FlushSt) c10FlushSt { return s },
		Key:   func(s c10FlushSt) string { return fmt.Sprint(s) },
	}
	endIter := func(pa *c10Path[c10FlushSt]) {
		if pa.St.del && !pa.St.set && moveBad == "" {
			moveBad = "a key is deleted from buf without its key/value from the same buf iterator having been put into the back batch: the flush would drop the entry"
		}
		pa.St.set, pa.St.del = false, false
	}
	w.Visit = func(pa *c10Path[c10FlushSt], ev c10Ev) bool {
		if _, isDefer := ev.in.(*ssa.Defer); isDefer && !ev.run {
			return false
		}
		here := c10At{ev.fr, ev.in}
		if me, ok := events[here]; ok {
			switch me.kind {
			case 'n':
				endIter(pa)
			case 's':
				pa.St.set = true
			case 'd':
				if me.it == nil && moveBad == "" {
					moveBad = "the key deleted from buf is not the Key() of an iterator over buf"
				}
				pa.St.del = true
			}
		}
		if ev.fr == bufCommit.fr && ev.in == ssa.Instruction(bufCommit.Value()) && pa.St.back != 1 && orderBad == "" {
			if pa.St.back == 0 {
				orderBad = "call does not dominate the site"
			} else {
				orderBad = "site is not on the err==nil edge of the call"
			}
		}
		return false
	}
	w.Fork = func(pa *c10Path[c10FlushSt], ev c10Ev) ssa.Value {
		if backDef != nil && ev.fr == backCommit.fr && ev.in == backDef {
			return ev.in.(ssa.Value)
		}
		return nil
	}
	w.Forked = func(pa *c10Path[c10FlushSt], ev c10Ev, k c10K) {
		if k == c10Zero {
			pa.St.back = 1
		} else {
			pa.St.back = 2
		}
	}
	w.Exit = func(pa *c10Path[c10FlushSt], fr *c10Frame, in ssa.Instruction) { endIter(pa) }
	w.Run(root, c10FlushSt{})
	if backDef == nil {
		orderBad = "error result of the call is discarded"
	}
	if w.Overflow {
		r.Undecided("V-buffer-locks", FuncKey(flush)+"#flush-order", p.Pos(bufCommit.Pos()), "too many paths through Flush to interpret")
		return
	}
	r.Check(orderBad == "", "V-buffer-locks", FuncKey(flush)+"#flush-order", p.Pos(bufCommit.Pos()),
		"the delete batch is committed to buf only on the success edge of committing the copy to back",
		"the delete batch is committed to buf although the copy to back has not (successfully) been committed ("+orderBad+"): a failing backing store loses the buffered writes")
	// L5: every key deleted from buf was copied (key and value of the same iterator) to back
	if nDel == 0 {
		r.Violation("V-buffer-locks", FuncKey(flush)+"#move", p.Pos(flush.Pos()), "Flush deletes nothing from buf: flushed entries would be copied again and shadow later deletes")
		return
	}
	r.Check(moveBad == "", "V-buffer-locks", FuncKey(flush)+"#move", p.Pos(delSite),
		"each key deleted from buf is, between two advances of the buf iterator, also put into back's batch as back.Set(it.Key(), it.Value()) of the same buf iterator",
		moveBad)
}

// c10IterAccessorE: v (in activation fr) is `it.<name>()` invoked on a
// sorted.Iterator; returns the iterator value, or a zero c10EV.
func c10IterAccessorE(fr *c10Frame, v ssa.Value, name string) c10EV {
	e := c10Res(fr, v)
	call, ok := e.v.(*ssa.Call)
	if !ok || !call.Call.IsInvoke() || call.Call.Method.Name() != name || !IsNamed(call.Call.Value.Type(), c10SortedPath, "Iterator") {
		return c10EV{}
	}
	return c10EV{e.fr, call.Call.Value}
}

type c10DelSt struct {
	buf, back bool
	pending   string // key of a batched delete queued for buf but not yet for back
}

func c10BothDeletes(p *Program, r *Reporter, bi *c10BufInfo) {
	// direct Delete
	del := p.Func(c10BufRel, "KeyValue", "Delete")
	root := c10NewRoot(del)
	delAt := map[c10At]string{}
	sites := map[string]token.Pos{}
	for _, c := range c10EffCalls(root) {
		cc := c.Common()
		if !cc.IsInvoke() || cc.Method.Name() != "Delete" || len(cc.Args) != 1 || c.IsGo() {
			continue
		}
		role := bi.role(c.fr, cc.Value)
		if role == "" || c10Res(c.fr, cc.Args[0]).v != ssa.Value(del.Params[1]) {
			continue
		}
		delAt[c10At{c.fr, c.Instr}] = role
		sites[role] = c.Pos()
	}
	missing := map[string]bool{}
	w := &c10Walk[c10DelSt]{
		Clone: func(s c10DelSt) c10DelSt { return s },
		Key:   func(s c10DelSt) string { return fmt.Sprint(s) },
	}
	w.Visit = func(pa *c10Path[c10DelSt], ev c10Ev) bool {
		if _, isDefer := ev.in.(*ssa.Defer); isDefer && !ev.run {
			return false
		}
		switch delAt[c10At{ev.fr, ev.in}] {
		case "buf":
			pa.St.buf = true
		case "back":
			pa.St.back = true
		}
		return false
	}
	w.Exit = func(pa *c10Path[c10DelSt], fr *c10Frame, in ssa.Instruction) {
		if !pa.St.buf {
			missing["buf"] = true
		}
		if !pa.St.back {
			missing["back"] = true
		}
	}
	w.Run(root, c10DelSt{})
	for _, role := range []string{"buf", "back"} {
		pos, found := sites[role]
		if !found {
			pos = del.Pos()
		}
		r.Check(found && !missing[role] && !w.Overflow, "V-buffer-locks", FuncKey(del)+"#deletes-"+role, p.Pos(pos),
			"every path through Delete deletes the key from "+role,
			"some path through Delete does not delete the key from "+role+": a key deleted only from one layer reappears from the other (back) or after the next flush")
	}
	// batch deletes
	cb := p.Func(c10BufRel, "KeyValue", "CommitBatch")
	croot := c10NewRoot(cb)
	calls := c10EffCalls(croot)
	keyOf := func(fr *c10Frame, v ssa.Value) string {
		if b, i, ok := c10FieldLoad(v); ok {
			e := c10Ident(fr, b)
			return fmt.Sprintf("fld:%p/%p.%d", e.fr, e.v, i)
		}
		e := c10Res(fr, v)
		if b, i, ok := c10FieldLoad(e.v); ok {
			e2 := c10Ident(e.fr, b)
			return fmt.Sprintf("fld:%p/%p.%d", e2.fr, e2.v, i)
		}
		return fmt.Sprintf("val:%p/%p", e.fr, e.v)
	}
	type bd struct {
		role, key string
	}
	bdAt := map[c10At]bd{}
	boundary := map[c10At]bool{}
	n := 0
	var bdPos token.Pos
	for _, c := range calls {
		cc := c.Common()
		if !cc.IsInvoke() || cc.Method.Name() != "Delete" || len(cc.Args) != 1 {
			continue
		}
		role := bi.batchRole(c.fr, cc.Value)
		if role == "" {
			continue
		}
		bdAt[c10At{c.fr, c.Instr}] = bd{role, keyOf(c.fr, cc.Args[0])}
		if role == "buf" {
			n++
			bdPos = c.Pos()
			if lf, h := c10EffLoop(c.fr, c.Block()); h != nil {
				for b := range c10ContinuePoints(h) {
					if in := c10FirstInstr(b); in != nil {
						boundary[c10At{lf, in}] = true
					}
				}
			}
		}
	}
	if n == 0 {
		r.Violation("V-buffer-locks", FuncKey(cb)+"#batch-delete-both", p.Pos(cb.Pos()), "CommitBatch no longer forwards deletes to buf's batch")
	} else {
		bad := false
		w2 := &c10Walk[c10DelSt]{
			Clone: func(s c10DelSt) c10DelSt { return s },
			Key:   func(s c10DelSt) string { return s.pending },
		}
		w2.Visit = func(pa *c10Path[c10DelSt], ev c10Ev) bool {
			here := c10At{ev.fr, ev.in}
			if boundary[here] && pa.St.pending != "" {
				bad = true
				pa.St.pending = ""
			}
			if d, ok := bdAt[here]; ok {
				switch d.role {
				case "buf":
					if pa.St.pending != "" && pa.St.pending != d.key {
						bad = true
					}
					pa.St.pending = d.key
				case "back":
					if pa.St.pending == d.key {
						pa.St.pending = ""
					}
				}
			}
			return false
		}
		w2.Exit = func(pa *c10Path[c10DelSt], fr *c10Frame, in ssa.Instruction) {
			if pa.St.pending != "" {
				bad = true
			}
		}
		w2.Run(croot, c10DelSt{})
		r.Check(!bad && !w2.Overflow, "V-buffer-locks", FuncKey(cb)+"#batch-delete-both", p.Pos(bdPos),
			"a batched delete put into buf's batch is, on every path of that iteration, also put into back's batch",
			"a batched delete is applied to buf only: the key would reappear from the backing store")
	}
	// both batches are committed to their own store
	seen := map[string]bool{}
	for _, c := range calls {
		if c.Common().IsInvoke() && c.MethodName() == "CommitBatch" {
			role := bi.role(c.fr, c.Common().Value)
			brole := bi.batchRole(c.fr, c.Common().Args[0])
			if role != "" && role == brole {
				seen[role] = true
			} else {
				r.Violation("V-buffer-locks", FuncKey(cb)+"#commit-"+role, p.Pos(c.Pos()), fmt.Sprintf("a batch begun on %q is committed to %q", brole, role))
			}
		}
	}
	r.Check(seen["buf"] && seen["back"], "V-buffer-locks", FuncKey(cb)+"#commits", p.Pos(cb.Pos()),
		"CommitBatch commits buf's batch to buf and back's (delete) batch to back", "CommitBatch no longer commits a batch to each of buf and back")
}

// c10EFact is a branch condition known at a site of the effective body: the
// dominating tests in the site's own function and in every caller up to the root.
type c10EFact struct {
	fr *c10Frame
	CondFact
}

func c10FactsAt(fr *c10Frame, b *ssa.BasicBlock) []c10EFact {
	var out []c10EFact
	for fr != nil && b != nil {
		for _, f := range FactsAt(b) {
			out = append(out, c10EFact{fr, f})
		}
		if fr.site == nil || fr.parent == nil {
			break
		}
		b, fr = fr.site.Block(), fr.parent
	}
	return out
}

func c10GetShadow(p *Program, r *Reporter, bi *c10BufInfo) {
	get := p.Func(c10BufRel, "KeyValue", "Get")
	root := c10NewRoot(get)
	var bufGet *c10ECall
	var backGets []c10ECall
	calls := c10EffCalls(root)
	for i, c := range calls {
		if c.Common().IsInvoke() && c.MethodName() == "Get" && c.Value() != nil {
			switch bi.role(c.fr, c.Common().Value) {
			case "buf":
				bufGet = &calls[i]
			case "back":
				backGets = append(backGets, c)
			}
		}
	}
	if bufGet == nil || len(backGets) == 0 {
		r.Violation("V-buffer-locks", FuncKey(get)+"#shadow", p.Pos(get.Pos()), "Get no longer consults both buf and back")
		return
	}
	ev, _, _ := ErrValue(bufGet.Value())
	isBufErr := func(fr *c10Frame, v ssa.Value) bool {
		if ev == nil {
			return false
		}
		for _, o := range c10Origins(fr, v) {
			if c10Same(o, c10EV{bufGet.fr, ev}) {
				return true
			}
		}
		return false
	}
	// saysNotFound: condition cond (of activation fr) having truth value val means "buf.Get's error is sorted.ErrNotFound"
	var saysNotFound func(fr *c10Frame, cond ssa.Value, val bool, d int) bool
	saysNotFound = func(fr *c10Frame, cond ssa.Value, val bool, d int) bool {
		if d > 4 {
			return false
		}
		switch x := cond.(type) {
		case *ssa.UnOp:
			if x.Op == token.NOT {
				return saysNotFound(fr, x.X, !val, d+1)
			}
		case *ssa.BinOp:
			if x.Op == token.EQL && val || x.Op == token.NEQ && !val {
				return isBufErr(fr, x.X) && c10IsErrNotFound(x.Y) || isBufErr(fr, x.Y) && c10IsErrNotFound(x.X)
			}
		case *ssa.Call:
			cs := CallSite{fr.fn, x}
			if cs.IsStatic("errors", "", "Is") && len(x.Call.Args) == 2 {
				return val && isBufErr(fr, x.Call.Args[0]) && c10IsErrNotFound(x.Call.Args[1])
			}
			// a predicate helper of the effective body: every return is the same kind of test on its parameter
			if kid := fr.child(x); kid != nil {
				rets := Returns(kid.fn)
				for _, ri := range rets {
					if len(ri.Results) != 1 || !saysNotFound(kid, ri.Results[0], val, d+1) {
						return false
					}
				}
				return len(rets) > 0
			}
		}
		return false
	}
	for _, bg := range backGets {
		ok := false
		for _, f := range c10FactsAt(bg.fr, bg.Block()) {
			if saysNotFound(f.fr, f.Cond, f.Val, 0) {
				ok = true
			}
		}
		r.Check(ok, "V-buffer-locks", FuncKey(get)+"#shadow", p.Pos(bg.Pos()),
			"back.Get is reached only where buf.Get returned sorted.ErrNotFound: a value present in the buffer always shadows the backing store",
			"back.Get is reached although buf.Get did not say ErrNotFound: a buffered value (or a buffer error) would be replaced by the stale value of the backing store")
	}
}

func c10IsErrNotFound(v ssa.Value) bool {
	u, ok := v.(*ssa.UnOp)
	if !ok || u.Op != token.MUL {
		return false
	}
	g, ok := u.X.(*ssa.Global)
	return ok && g.Name() == "ErrNotFound" && g.Pkg.Pkg.Path() == c10SortedPath
}

// ===========================================================================
// V-iter

func c10RuleIter(p *Program, r *Reporter) {
	mi := c10MergeIter(p)
	c10IterEOF(p, r, mi)
	c10IterCloseBoth(p, r, mi)
	c10IterCloseErr(p, r)
	c10FindClosed(p, r)
	c10EndBound(p, r)
	r.Floor("V-iter", 20)
}

// c10ChainE follows loads and field selections from v back to the value the
// chain starts at, through helper parameters: for `*(&it.Iterator)` in a
// method called on &iter.buf it returns (iter, [idx(buf), idx(Iterator)]).
func c10ChainE(fr *c10Frame, v ssa.Value) (c10EV, []int) {
	var idx []int
	for i := 0; i < 24 && v != nil; i++ {
		switch x := v.(type) {
		case *ssa.UnOp:
			if x.Op != token.MUL {
				return c10EV{fr, v}, idx
			}
			if _, ok := x.X.(*ssa.FieldAddr); ok {
				v = x.X
				continue
			}
			if o := originValue(x); o != ssa.Value(x) {
				fr, v = fr.frameFor(o), o
				continue
			}
			return c10EV{fr, v}, idx
		case *ssa.FieldAddr:
			idx = append([]int{x.Field}, idx...)
			v = x.X
		case *ssa.Field:
			idx = append([]int{x.Field}, idx...)
			v = x.X
		case *ssa.ChangeType:
			v = x.X
		case *ssa.Parameter:
			pf, a, ok := fr.argFor(x)
			if !ok {
				return c10EV{fr, v}, idx
			}
			fr, v = pf, a
		default:
			return c10EV{fr, v}, idx
		}
	}
	return c10EV{fr, v}, idx
}

// c10MergeInfo: the two-way merge iterator of the write buffer, found by
// role: the concrete type buffer.(*KeyValue).Find returns; its sub-iterators
// are its fields of a struct type that embeds sorted.Iterator; the eof flag is
// the bool field of that struct.
type c10MergeInfo struct {
	typ         *types.Named
	next, close *ssa.Function
	sub         *types.Named
	roles       []int // field indices of the sub-iterators in typ
	embIdx      int   // the embedded sorted.Iterator in sub
	eofIdx      int   // the bool flag in sub
}

func c10MergeIter(p *Program) *c10MergeInfo {
	find := p.Func(c10BufRel, "KeyValue", "Find")
	t := NamedOf(c10BatchConcrete(find, 0))
	if t == nil {
		brokenf("anchor unresolved: concrete iterator type returned by buffer.(*KeyValue).Find")
	}
	mi := &c10MergeInfo{typ: t, embIdx: -1, eofIdx: -1}
	var d1, d2 bool
	mi.next, d1 = c10Method(p, t, "Next")
	mi.close, d2 = c10Method(p, t, "Close")
	if mi.next == nil || mi.close == nil || !d1 || !d2 {
		brokenf("anchor unresolved: declared Next/Close of %s", typeKey(t))
	}
	st, _ := t.Underlying().(*types.Struct)
	itIface := p.Iface("pkg/sorted", "Iterator")
	for i := 0; st != nil && i < st.NumFields(); i++ {
		n := NamedOf(st.Field(i).Type())
		if n == nil {
			continue
		}
		if _, isPtr := st.Field(i).Type().(*types.Pointer); isPtr {
			continue
		}
		ss, ok := n.Underlying().(*types.Struct)
		if !ok {
			continue
		}
		emb := -1
		for j := 0; j < ss.NumFields(); j++ {
			if ss.Field(j).Embedded() && types.Identical(ss.Field(j).Type().Underlying(), itIface) {
				emb = j
			}
		}
		if emb < 0 {
			continue
		}
		if mi.sub != nil && mi.sub != n {
			brokenf("anchor unresolved: %s has sub-iterators of two different types", typeKey(t))
		}
		mi.sub, mi.embIdx = n, emb
		mi.roles = append(mi.roles, i)
	}
	if mi.sub == nil || len(mi.roles) > 4 {
		brokenf("anchor unresolved: %s has no (or more than four) fields of a struct type embedding sorted.Iterator", typeKey(t))
	}
	ss := mi.sub.Underlying().(*types.Struct)
	var bools []int
	for j := 0; j < ss.NumFields(); j++ {
		if c10IsBool(ss.Field(j).Type()) {
			bools = append(bools, j)
		}
	}
	if len(bools) > 1 {
		// the one that is set to true somewhere in the package
		var set []int
		for _, j := range bools {
			for _, fn := range p.FuncsIn(c10BufRel) {
				for _, b := range fn.Blocks {
					for _, in := range b.Instrs {
						if s, ok := in.(*ssa.Store); ok {
							if fa, ok := s.Addr.(*ssa.FieldAddr); ok && NamedOf(fa.X.Type()) == mi.sub && fa.Field == j {
								if c, ok := s.Val.(*ssa.Const); ok && c.Value != nil && c.Value.String() == "true" && (len(set) == 0 || set[len(set)-1] != j) {
									set = append(set, j)
								}
							}
						}
					}
				}
			}
		}
		bools = set
	}
	if len(bools) != 1 {
		brokenf("anchor unresolved: %s has no single bool (eof) field", typeKey(mi.sub))
	}
	mi.eofIdx = bools[0]
	return mi
}

type c10EOFSt struct {
	exh [4]int8 // per sub-iterator: 0 unknown, 1 its Next returned false on this path, 2 returned true
}

// c10IterEOF interprets the paths of the merge iterator's Next (helpers such
// as subIter.next in place): a sub-iterator's underlying Next is called only
// where that sub-iterator's eof flag is known false, and whenever an
// underlying Next has returned false the flag is true when Next returns
// (sorted.Iterator does not promise that Next may be called again after it
// returned false; kvfile's panics).
func c10IterEOF(p *Program, r *Reporter, mi *c10MergeInfo) {
	fn := mi.next
	root := c10NewRoot(fn)
	recv := ssa.Value(fn.Params[0])
	st := mi.typ.Underlying().(*types.Struct)
	eofName := fieldName(mi.sub, mi.eofIdx)
	line := func(pos token.Pos) int { return p.Fset.Position(pos).Line }
	advAt := map[c10At]int{}
	sites := map[int]int{}
	firstPos := map[int]token.Pos{}
	var unresolved []string
	for _, c := range c10EffCalls(root) {
		cc := c.Common()
		if !cc.IsInvoke() || cc.Method.Name() != "Next" || !IsNamed(cc.Value.Type(), c10SortedPath, "Iterator") || c.Value() == nil {
			continue
		}
		base, idx := c10ChainE(c.fr, cc.Value)
		ri := -1
		if base.v == recv && len(idx) == 2 && idx[1] == mi.embIdx {
			for k, role := range mi.roles {
				if role == idx[0] {
					ri = k
				}
			}
		}
		if ri < 0 {
			unresolved = append(unresolved, fmt.Sprintf("line %d: cannot tell which sub-iterator is advanced", line(c.Pos())))
			continue
		}
		advAt[c10At{c.fr, c.Instr}] = ri
		sites[ri]++
		if _, ok := firstPos[ri]; !ok {
			firstPos[ri] = c.Pos()
		}
	}
	bad := map[int][]string{}
	var flagBad []string
	w := &c10Walk[c10EOFSt]{
		Clone: func(s c10EOFSt) c10EOFSt { return s },
		Key:   func(s c10EOFSt) string { return fmt.Sprint(s.exh) },
	}
	w.Visit = func(pa *c10Path[c10EOFSt], ev c10Ev) bool {
		ri, ok := advAt[c10At{ev.fr, ev.in}]
		if !ok || ev.run {
			return false
		}
		flag := pa.mem[c10FieldCell(recv, mi.roles[ri], mi.eofIdx)]
		if flag != c10Zero || pa.St.exh[ri] == 1 {
			if len(bad[ri]) == 0 {
				firstPos[ri] = ev.in.Pos()
			}
			bad[ri] = append(bad[ri], fmt.Sprintf("line %d", line(ev.in.Pos())))
		}
		return false
	}
	w.Fork = func(pa *c10Path[c10EOFSt], ev c10Ev) ssa.Value {
		if _, ok := advAt[c10At{ev.fr, ev.in}]; ok {
			return ev.in.(ssa.Value)
		}
		return nil
	}
	w.Forked = func(pa *c10Path[c10EOFSt], ev c10Ev, k c10K) {
		ri := advAt[c10At{ev.fr, ev.in}]
		if k == c10Zero {
			pa.St.exh[ri] = 1
		} else {
			pa.St.exh[ri] = 2
		}
	}
	w.Exit = func(pa *c10Path[c10EOFSt], fr *c10Frame, in ssa.Instruction) {
		for ri, role := range mi.roles {
			if pa.St.exh[ri] == 1 && pa.mem[c10FieldCell(recv, role, mi.eofIdx)] != c10NonZero {
				flagBad = append(flagBad, fmt.Sprintf("the return at line %d is reached after %s's Next returned false without %s.%s having been set", line(in.Pos()), st.Field(role).Name(), st.Field(role).Name(), eofName))
			}
		}
	}
	w.Run(root, c10EOFSt{})
	// the flag is never reset
	for _, f := range p.FuncsIn(c10BufRel) {
		for _, b := range f.Blocks {
			for _, in := range b.Instrs {
				if s, ok := in.(*ssa.Store); ok {
					if fa, ok := s.Addr.(*ssa.FieldAddr); ok && NamedOf(fa.X.Type()) == mi.sub && fa.Field == mi.eofIdx {
						if c, ok := s.Val.(*ssa.Const); !ok || c.Value == nil || c.Value.String() != "true" {
							flagBad = append(flagBad, fmt.Sprintf("%s.%s is assigned something other than true at line %d", mi.sub.Obj().Name(), eofName, line(s.Pos())))
						}
					}
				}
			}
		}
	}
	construct := FuncKey(fn) + "#eof-recorded"
	switch {
	case w.Overflow:
		r.Undecided("V-iter", construct, p.Pos(fn.Pos()), "too many paths through Next to interpret")
		return
	case len(flagBad) > 0:
		r.Violation("V-iter", construct, p.Pos(fn.Pos()), strings.Join(dedupe(flagBad), "; ")+": a later Next would advance an exhausted iterator")
	default:
		r.OK("V-iter", construct, p.Pos(fn.Pos()), "on every path of Next on which a sub-iterator's Next returned false, its "+eofName+" flag is true at the return; the flag is never reset")
	}
	for _, m := range unresolved {
		r.Undecided("V-iter", FuncKey(fn)+"#advance", p.Pos(fn.Pos()), m)
	}
	for ri, role := range mi.roles {
		name := st.Field(role).Name()
		if sites[ri] == 0 {
			r.Violation("V-iter", FuncKey(fn)+"#advance:"+name, p.Pos(fn.Pos()), "sub-iterator "+name+" is never advanced")
			continue
		}
		r.Check(len(bad[ri]) == 0, "V-iter", FuncKey(fn)+"#advance:"+name, p.Pos(firstPos[ri]),
			fmt.Sprintf("all %d call site(s) advance %s only on paths where %s.%s is known false", sites[ri], name, name, eofName),
			fmt.Sprintf("%s's Next is called at %s on a path where %s's eof flag is not known false: the underlying iterator's Next is called again after it returned false (kvfile's iterator panics: 'Next called after Next returned value')", name, strings.Join(dedupe(bad[ri]), ", "), name))
	}
	if len(mi.roles) < 2 {
		r.Violation("V-iter", FuncKey(fn)+"#advance", p.Pos(fn.Pos()), "the merge iterator no longer has two sub-iterators")
	}
}

// c10IterCloseBoth: the merge iterator's Close closes every sub-iterator on every path.
func c10IterCloseBoth(p *Program, r *Reporter, mi *c10MergeInfo) {
	fn := mi.close
	root := c10NewRoot(fn)
	recv := ssa.Value(fn.Params[0])
	st := mi.typ.Underlying().(*types.Struct)
	closeAt := map[c10At]int{}
	for _, c := range c10EffCalls(root) {
		cc := c.Common()
		if !cc.IsInvoke() || cc.Method.Name() != "Close" || c.IsGo() {
			continue
		}
		base, idx := c10ChainE(c.fr, cc.Value)
		if base.v != recv || len(idx) == 0 {
			continue
		}
		for k, role := range mi.roles {
			if role == idx[0] {
				closeAt[c10At{c.fr, c.Instr}] = k
			}
		}
	}
	missing := map[int]bool{}
	w := &c10Walk[[4]bool]{
		Clone: func(s [4]bool) [4]bool { return s },
		Key:   func(s [4]bool) string { return fmt.Sprint(s) },
	}
	w.Visit = func(pa *c10Path[[4]bool], ev c10Ev) bool {
		if _, isDefer := ev.in.(*ssa.Defer); isDefer && !ev.run {
			return false
		}
		if k, ok := closeAt[c10At{ev.fr, ev.in}]; ok {
			pa.St[k] = true
		}
		return false
	}
	w.Exit = func(pa *c10Path[[4]bool], fr *c10Frame, in ssa.Instruction) {
		for k := range mi.roles {
			if !pa.St[k] {
				missing[k] = true
			}
		}
	}
	w.Run(root, [4]bool{})
	for k, role := range mi.roles {
		name := st.Field(role).Name()
		r.Check(!missing[k] && !w.Overflow, "V-iter", FuncKey(fn)+"#closes:"+name, p.Pos(fn.Pos()),
			"every path through Close closes sub-iterator "+name,
			"some path through Close returns without closing sub-iterator "+name+": its cursor (for sqlkv: the gate slot, which serialises all access to an sqlite store) is never released")
	}
}

// c10IterCloseErr: Close of every sorted.Iterator implementer in pkg/sorted
// yields the error accumulated by the underlying cursor, never a constant nil.
func c10IterCloseErr(p *Program, r *Reporter) {
	itIface := p.Iface("pkg/sorted", "Iterator")
	n := 0
	for _, t := range p.Implementers(itIface, false) {
		if !strings.HasPrefix(RelPkg(t.Obj().Pkg()), "pkg/sorted") {
			continue
		}
		fn, declared := c10Method(p, t, "Close")
		if fn == nil {
			continue
		}
		if !declared {
			r.OKTable("V-iter", typeKey(t)+"#Close", p.Pos(t.Obj().Pos()), "Close promoted from an embedded iterator")
			continue
		}
		n++
		bad := ""
		for _, ri := range Returns(fn) {
			if c10AlwaysNil(fn, ri.Results[0], 0) {
				bad = fmt.Sprintf("the return at line %d yields a constant nil", p.Fset.Position(ri.Ret.Pos()).Line)
			}
		}
		r.Check(bad == "", "V-iter", FuncKey(fn)+"#error", p.Pos(fn.Pos()),
			"every return of Close yields a value read from the underlying cursor or the iterator's error field",
			bad+": an iteration cut short by a read error would look like an exhausted range (sorted.Find reports errors only through Close)")
	}
	r.Analysed("iterator_implementers", n)
	if n < 6 {
		r.Violation("V-iter", "pkg/sorted#iterators", "pkg/sorted", fmt.Sprintf("only %d sorted.Iterator implementers with a declared Close found under pkg/sorted (7 on the pinned tree)", n))
	}
}

// c10AlwaysNil: v (in function from) is a constant nil on every path, also
// when it is what a helper of the effective body returns.
func c10AlwaysNil(from *ssa.Function, v ssa.Value, depth int) bool {
	if IsNilConst(v) {
		return true
	}
	if depth > 4 {
		return false
	}
	switch x := v.(type) {
	case *ssa.Phi:
		for _, e := range x.Edges {
			if !c10AlwaysNil(from, e, depth+1) {
				return false
			}
		}
		return true
	case *ssa.Call:
		f := x.Call.StaticCallee()
		if !c10IsHelper(from, f) || ErrResultIndex(f) < 0 {
			return false
		}
		rets := Returns(f)
		for _, ri := range rets {
			if !c10AlwaysNil(f, ri.Results[ErrResultIndex(f)], depth+1) {
				return false
			}
		}
		return len(rets) > 0
	}
	return false
}

// c10FindClosed: an iterator obtained from Find inside pkg/sorted is closed on
// every path of the entry function in whose effective body it is obtained, or
// handed over (stored in an object / returned by the entry function).
func c10FindClosed(p *Program, r *Reporter) {
	n := 0
	line := func(pos token.Pos) int { return p.Fset.Position(pos).Line }
	type verdict struct {
		site, ok, bad string
		und           bool
	}
	var order []string
	verdicts := map[string]*verdict{}
	var fns []*ssa.Function
	for _, fn := range p.FuncsUnder("pkg/sorted") {
		if top := TopFunc(fn); top.Pkg != nil && !IsTestSupportPkg(RelPkg(top.Pkg.Pkg)) {
			fns = append(fns, fn)
		}
	}
	for _, root := range c10Roots(p, fns) {
		fn := root.fn
		calls := c10EffCalls(root)
		for _, c := range calls {
			call := c.Value()
			if call == nil || !c.Common().IsInvoke() || c.MethodName() != "Find" || !IsNamed(call.Type(), c10SortedPath, "Iterator") {
				continue
			}
			find := c10EV{c.fr, call}
			from := func(fr *c10Frame, v ssa.Value) bool {
				for _, o := range c10Origins(fr, v) {
					if o.v == find.v && (o.fr == find.fr || o.fr == nil) {
						return true
					}
				}
				return false
			}
			key := fmt.Sprintf("%s#Find@%d", FuncKey(c.fr.fn), c.Pos())
			v := verdicts[key]
			if v == nil {
				v = &verdict{site: p.Pos(c.Pos())}
				verdicts[key] = v
				order = append(order, key)
				n++
			}
			handed := false
			c10EachInstr(root, func(fr *c10Frame, in ssa.Instruction) {
				switch x := in.(type) {
				case *ssa.Store:
					if _, isVar := x.Addr.(*ssa.Alloc); !isVar && from(fr, x.Val) {
						if _, isFV := x.Addr.(*ssa.FreeVar); !isFV {
							handed = true
						}
					}
				case *ssa.Return:
					if fr == root {
						for _, res := range x.Results {
							if from(fr, res) {
								handed = true
							}
						}
					}
				}
			})
			if handed {
				if v.ok == "" {
					v.ok = "iterator is handed over (stored in the returned object / returned): the receiver's Close closes it (see #closes)"
				}
				continue
			}
			closeAt := map[c10At]bool{}
			for _, cc := range calls {
				if cc.Common().IsInvoke() && cc.MethodName() == "Close" && !cc.IsGo() && from(cc.fr, cc.Common().Value) {
					closeAt[c10At{cc.fr, cc.Instr}] = true
				}
			}
			var leaks []string
			w := &c10Walk[bool]{
				Clone: func(b bool) bool { return b },
				Key:   func(b bool) string { return fmt.Sprint(b) },
			}
			w.Visit = func(pa *c10Path[bool], ev c10Ev) bool {
				if _, isDefer := ev.in.(*ssa.Defer); isDefer && !ev.run {
					return false
				}
				if ev.fr == c.fr && ev.in == ssa.Instruction(call) {
					pa.St = true
				} else if closeAt[c10At{ev.fr, ev.in}] {
					pa.St = false
				}
				return false
			}
			w.Exit = func(pa *c10Path[bool], fr *c10Frame, in ssa.Instruction) {
				if pa.St {
					leaks = append(leaks, fmt.Sprintf("line %d", line(in.Pos())))
				}
			}
			w.Run(root, false)
			switch {
			case w.Overflow:
				v.und = true
			case len(leaks) > 0:
				v.bad = "iterator from Find is not closed on the exit(s) of " + FuncKey(fn) + " at " + strings.Join(dedupe(leaks), ", ") + ": the cursor and, for sql stores, the gate slot leak; Close is also the only place a scan error is reported"
			case v.ok == "":
				v.ok = "iterator closed on every path to every exit"
			}
		}
	}
	for _, k := range order {
		v := verdicts[k]
		construct := k[:strings.LastIndex(k, "@")]
		switch {
		case v.bad != "":
			r.Violation("V-iter", construct, v.site, v.bad)
		case v.und:
			r.Undecided("V-iter", construct, v.site, "too many paths to interpret")
		default:
			r.OK("V-iter", construct, v.site, v.ok)
		}
	}
	r.Analysed("find_sites_in_pkg_sorted", n)
	if n < 3 {
		r.Violation("V-iter", "pkg/sorted#Find-sites", "pkg/sorted", fmt.Sprintf("only %d Find call sites found inside pkg/sorted (4 on the pinned tree)", n))
	}
}

// ---------------------------------------------------------------------------
// end bound: "" means unbounded, anything else is an exclusive upper bound

func c10EndBound(p *Program, r *Reporter) {
	kvIface := p.Iface("pkg/sorted", "KeyValue")
	n := 0
	for _, t := range p.Implementers(kvIface, false) {
		fn, declared := c10Method(p, t, "Find")
		if fn == nil || !declared {
			continue
		}
		if len(fn.Params) != 3 {
			brokenf("anchor unresolved: %s is not Find(start, end)", FuncKey(fn))
		}
		if len(Returns(fn)) == 0 {
			r.OKTable("V-iter", FuncKey(fn)+"#end-bound", p.Pos(fn.Pos()), "never returns (panics unconditionally): yields no iterator")
			continue
		}
		n++
		var notes, bad, und []string
		c10EndUses(p, c10NewRoot(fn), fn.Params[2], 0, &notes, &bad, &und)
		construct := FuncKey(fn) + "#end-bound"
		switch {
		case len(bad) > 0:
			r.Violation("V-iter", construct, p.Pos(fn.Pos()), strings.Join(dedupe(bad), "; "))
		case len(und) > 0:
			r.Undecided("V-iter", construct, p.Pos(fn.Pos()), strings.Join(dedupe(und), "; "))
		case len(notes) == 0:
			r.Violation("V-iter", construct, p.Pos(fn.Pos()), "the end parameter of Find is not used at all: every range scan would run to the end of the table")
		default:
			r.OK("V-iter", construct, p.Pos(fn.Pos()), strings.Join(dedupe(notes), "; "))
		}
	}
	r.Analysed("find_implementations", n)
	if n < 6 {
		r.Violation("V-iter", "pkg/sorted#Find-impls", "pkg/sorted", fmt.Sprintf("only %d declared Find implementations (6 on the pinned tree)", n))
	}
}

// c10NonEmptyFact: do the tests that dominate block b of activation fr — in
// its own function or in a caller, at the call that leads here — exclude s == "" ?
func c10NonEmptyFact(fr *c10Frame, b *ssa.BasicBlock, s ssa.Value) bool {
	se := c10EV{fr, s}
	for _, f := range c10FactsAt(fr, b) {
		bo, ok := f.Cond.(*ssa.BinOp)
		if !ok {
			continue
		}
		isS := func(v ssa.Value) bool { return c10Same(c10EV{f.fr, v}, se) }
		// s == "" / s != ""
		if cs, isC := ConstString(bo.Y); isC && cs == "" && isS(bo.X) || func() bool { cs, isC := ConstString(bo.X); return isC && cs == "" && isS(bo.Y) }() {
			if bo.Op == token.NEQ && f.Val || bo.Op == token.EQL && !f.Val {
				return true
			}
			continue
		}
		// len(s) OP c
		if c10LenExcludesZero(bo, f.Val, isS) {
			return true
		}
	}
	return false
}

// c10LenExcludesZero: the comparison bo (with truth value val) is over
// len(x) for an x accepted by isX and cannot hold when len(x)==0.
func c10LenExcludesZero(bo *ssa.BinOp, val bool, isX func(ssa.Value) bool) bool {
	isLen := func(v ssa.Value) bool {
		call, ok := v.(*ssa.Call)
		if !ok {
			return false
		}
		b, ok := call.Call.Value.(*ssa.Builtin)
		return ok && b.Name() == "len" && isX(call.Call.Args[0])
	}
	if isLen(bo.X) {
		if c, ok := ConstInt(bo.Y); ok {
			if res, ok := c10EvalCmp(bo.Op, 0, c); ok {
				return res != val
			}
		}
	}
	if isLen(bo.Y) {
		if c, ok := ConstInt(bo.X); ok {
			if res, ok := c10EvalCmp(bo.Op, c, 0); ok {
				return res != val
			}
		}
	}
	return false
}

func c10EvalCmp(op token.Token, x, y int64) (res, ok bool) {
	switch op {
	case token.EQL:
		return x == y, true
	case token.NEQ:
		return x != y, true
	case token.LSS:
		return x < y, true
	case token.LEQ:
		return x <= y, true
	case token.GTR:
		return x > y, true
	case token.GEQ:
		return x >= y, true
	}
	return false, false
}

// c10EnterCallee: the activation of module function f entered at call ci of
// fr — a helper of the effective body, or (for the end-bound rule, which
// follows the parameter wherever it is passed inside the module) any callee.
func c10EnterCallee(fr *c10Frame, ci ssa.CallInstruction, f *ssa.Function) *c10Frame {
	if k := fr.child(ci); k != nil {
		return k
	}
	for a := fr; a != nil; a = a.parent {
		if a.fn == f {
			return nil
		}
	}
	return &c10Frame{fn: f, parent: fr, site: ci, depth: fr.depth + 1, kids: map[ssa.CallInstruction]*c10Frame{}}
}

func c10EndUses(p *Program, fr *c10Frame, end ssa.Value, depth int, notes, bad, und *[]string) {
	if depth > 3 {
		*und = append(*und, "end is passed through more than 3 functions")
		return
	}
	refs := end.Referrers()
	if refs == nil {
		return
	}
	fn := fr.fn
	where := FuncKey(fn)
	for _, u := range nonDebug(*refs) {
		switch x := u.(type) {
		case *ssa.BinOp:
			// comparison with "" is the guard itself
		case *ssa.Convert, *ssa.MakeInterface:
			v := x.(ssa.Value)
			if c10NonEmptyFact(fr, x.Block(), end) {
				*notes = append(*notes, where+": end is used as a bound only on the end != \"\" edge")
				continue
			}
			// unconditional: acceptable only when stored into an iterator field whose reader applies the rule
			stored := false
			vr := v.Referrers()
			for _, vu := range nonDebug(*vr) {
				st, ok := vu.(*ssa.Store)
				if !ok {
					*bad = append(*bad, fmt.Sprintf("%s: end is converted without an end != \"\" test and used at line %d: an empty end would become an empty, not an absent, upper bound (no key is < \"\")", where, p.Fset.Position(vu.Pos()).Line))
					continue
				}
				fa, ok := st.Addr.(*ssa.FieldAddr)
				if !ok || NamedOf(fa.X.Type()) == nil || !c10IsIterator(p, NamedOf(fa.X.Type())) {
					*bad = append(*bad, fmt.Sprintf("%s: end is converted without an end != \"\" test and stored at line %d into something that is not one of this repository's iterators: an empty end would become an empty, not an absent, upper bound (no key is < \"\")", where, p.Fset.Position(st.Pos()).Line))
					stored = true
					continue
				}
				stored = true
				c10ClientBound(p, NamedOf(fa.X.Type()), fa.Field, notes, bad, und)
			}
			if !stored && len(nonDebug(*vr)) == 0 {
				*bad = append(*bad, where+": end is converted and dropped")
			}
		case *ssa.Store:
			if fa, ok := x.Addr.(*ssa.FieldAddr); ok && x.Val == end && NamedOf(fa.X.Type()) != nil && c10IsIterator(p, NamedOf(fa.X.Type())) {
				c10ClientBound(p, NamedOf(fa.X.Type()), fa.Field, notes, bad, und)
			} else if al, ok := x.Addr.(*ssa.Alloc); ok && x.Val == end {
				// parameter spilled (captured by a literal) or a local copy: follow the loads, in this function and in its literals
				followVar(al, func(ld *ssa.UnOp) {
					if ld.Parent() == fn {
						c10EndUses(p, fr, ld, depth, notes, bad, und)
						return
					}
					// a literal of this function: only when it is part of the effective body (called here)
					var kid *c10Frame
					for ci, k := range fr.kids {
						if k != nil && k.fn == ld.Parent() && ci.Parent() == fn {
							kid = k
						}
					}
					if kid == nil {
						for _, c := range CallsIn(fn, false) {
							if k := fr.child(c.Instr); k != nil && k.fn == ld.Parent() {
								kid = k
							}
						}
					}
					if kid == nil {
						*und = append(*und, where+": end is captured by a function literal that is not called in "+where)
						return
					}
					c10EndUses(p, kid, ld, depth, notes, bad, und)
				})
			} else {
				*und = append(*und, where+": end is stored into an unrecognised place")
			}
		case ssa.CallInstruction:
			c := CallSite{fn, x}
			cc := c.Common()
			if b, ok := cc.Value.(*ssa.Builtin); ok && b.Name() == "len" {
				continue
			}
			if cc.IsInvoke() && cc.Method.Name() == "Find" && len(cc.Args) == 2 && cc.Args[1] == end {
				*notes = append(*notes, where+": end is passed unchanged as the end of another Find")
				continue
			}
			if f := c.Callee(); f != nil && (InModule(f) || f.Parent() != nil && InModule(TopFunc(f))) && len(f.Blocks) > 0 {
				kid := c10EnterCallee(fr, x, f)
				if kid == nil {
					*und = append(*und, where+": end is passed into a recursive call")
					continue
				}
				for i, a := range c.Args() {
					if a == end && i < len(f.Params) {
						c10EndUses(p, kid, f.Params[i], depth+1, notes, bad, und)
					}
				}
				continue
			}
			if c10Harmless(c) {
				continue
			}
			if c10NonEmptyFact(fr, x.Block(), end) {
				*notes = append(*notes, where+": end is handed to "+c.CalleeKey()+" only on the end != \"\" edge")
				continue
			}
			*bad = append(*bad, fmt.Sprintf("%s: end is handed to %s without an end != \"\" test", where, c.CalleeKey()))
		case *ssa.MakeClosure:
			// captured by value? parameters are captured through their spill slot (handled at the Store); anything else cannot be followed
			*und = append(*und, fmt.Sprintf("%s: end is captured by a function literal at line %d", where, p.Fset.Position(u.Pos()).Line))
		default:
			*und = append(*und, fmt.Sprintf("%s: unrecognised use of end at line %d", where, p.Fset.Position(u.Pos()).Line))
		}
	}
}

func c10IsIterator(p *Program, n *types.Named) bool {
	it := p.Iface("pkg/sorted", "Iterator")
	return types.Implements(n, it) || types.Implements(types.NewPointer(n), it)
}

type c10BoundSt struct {
	after bool // the comparison with the end bound has happened on this path
}

// c10ClientBound checks the reader of an end bound stored in field fld of
// iterator type t: its Next (with the helpers it calls) compares the current
// key with bytes.Compare(key, end) only where len(end) > 0 is known, and —
// interpreting the paths after the comparison for each of its possible
// results -1, 0, +1 — every path returns false for results >= 0 (the bound is
// exclusive) while some path returns true for -1.
func c10ClientBound(p *Program, t *types.Named, fld int, notes, bad, und *[]string) {
	next, declared := c10Method(p, t, "Next")
	if next == nil || !declared {
		*und = append(*und, typeKey(t)+" has no declared Next")
		return
	}
	where := FuncKey(next)
	root := c10NewRoot(next)
	recv := ssa.Value(next.Params[0])
	isEnd := func(fr *c10Frame, v ssa.Value) bool {
		base, idx := c10ChainE(fr, v)
		return base.v == recv && len(idx) == 1 && idx[0] == fld
	}
	found := 0
	for _, c := range c10EffCalls(root) {
		if !c.IsStatic("bytes", "", "Compare") || c.Value() == nil {
			continue
		}
		a := c.Args()
		flip := false
		switch {
		case isEnd(c.fr, a[1]):
		case isEnd(c.fr, a[0]):
			flip = true
		default:
			continue
		}
		found++
		// guard: len(end) == 0 excluded
		guarded := false
		for _, f := range c10FactsAt(c.fr, c.Block()) {
			ffr := f.fr
			if bo, ok := f.Cond.(*ssa.BinOp); ok && c10LenExcludesZero(bo, f.Val, func(v ssa.Value) bool { return isEnd(ffr, v) }) {
				guarded = true
			}
		}
		if !guarded {
			*bad = append(*bad, where+": the key is compared with the end bound also when the bound is empty: a Find with end \"\" would return nothing")
		}
		// exclusivity: interpret what follows the comparison for each of its results
		okExcl := true
		for _, cmp := range []int64{-1, 0, 1} {
			val := cmp
			if flip {
				val = -cmp
			}
			sawTrue, sawFalse, sawUnk := false, false, false
			w := &c10Walk[c10BoundSt]{
				Clone: func(s c10BoundSt) c10BoundSt { return s },
				Key:   func(s c10BoundSt) string { return fmt.Sprint(s.after) },
			}
			w.Post = func(pa *c10Path[c10BoundSt], ev c10Ev) {
				if ev.fr == c.fr && ev.in == ssa.Instruction(c.Value()) {
					pa.ints[c.Value()] = val
					pa.St.after = true
				}
			}
			w.Exit = func(pa *c10Path[c10BoundSt], fr *c10Frame, in ssa.Instruction) {
				ret, ok := in.(*ssa.Return)
				if !ok || !pa.St.after || len(ret.Results) != 1 {
					return
				}
				switch pa.Eval(fr, ret.Results[0]) {
				case c10NonZero:
					sawTrue = true
				case c10Zero:
					sawFalse = true
				default:
					sawUnk = true
				}
			}
			w.Run(root, c10BoundSt{})
			switch {
			case w.Overflow:
				*und = append(*und, where+": too many paths to interpret")
				okExcl = false
			case cmp >= 0 && sawTrue:
				okExcl = false
				if cmp == 0 {
					*bad = append(*bad, where+": a key equal to end is returned: the end bound must be exclusive, as in every sibling implementation")
				} else {
					*bad = append(*bad, where+": the end comparison is wrong for key > end")
				}
			case cmp >= 0 && sawUnk:
				*und = append(*und, where+": cannot tell whether Next stops when the key has reached the end bound")
				okExcl = false
			case cmp < 0 && !sawTrue && !sawUnk:
				okExcl = false
				*bad = append(*bad, where+": the end comparison is wrong for key < end")
			}
			_ = sawFalse
		}
		if okExcl && guarded {
			*notes = append(*notes, where+": stops exactly when len(end) > 0 and bytes.Compare(key, end) >= 0")
		}
	}
	if found == 0 {
		*bad = append(*bad, where+": the stored end bound is never compared with the current key: the scan would run past end")
	}
}

// ===========================================================================
// V-notfound: absent keys look the same in every implementation

// c10SentinelCmp lists the package-level error variables that error value ev
// (of activation fr) is compared with (==, != or errors.Is) in the effective
// body: in its own function, in a helper it is passed to, or — when a helper
// returns it — in the caller, on the helper's result.
func c10SentinelCmp(fr *c10Frame, ev ssa.Value) []*ssa.Global {
	var out []*ssa.Global
	glob := func(v ssa.Value) *ssa.Global {
		if u, ok := v.(*ssa.UnOp); ok && u.Op == token.MUL {
			if g, ok := u.X.(*ssa.Global); ok {
				return g
			}
		}
		return nil
	}
	type key struct {
		fr *c10Frame
		v  ssa.Value
	}
	seen := map[key]bool{}
	var visit func(fr *c10Frame, v ssa.Value)
	visit = func(fr *c10Frame, v ssa.Value) {
		if v == nil || seen[key{fr, v}] || v.Referrers() == nil {
			return
		}
		seen[key{fr, v}] = true
		for _, u := range *v.Referrers() {
			switch x := u.(type) {
			case *ssa.BinOp:
				if x.Op == token.EQL || x.Op == token.NEQ {
					if g := glob(x.X); g != nil {
						out = append(out, g)
					}
					if g := glob(x.Y); g != nil {
						out = append(out, g)
					}
				}
			case *ssa.Call:
				if (CallSite{x.Parent(), x}).IsStatic("errors", "", "Is") && len(x.Call.Args) == 2 {
					if g := glob(x.Call.Args[1]); g != nil {
						out = append(out, g)
					}
					continue
				}
				if fr != nil {
					if kid := fr.child(x); kid != nil {
						for i, a := range (CallSite{x.Parent(), x}).Args() {
							if a == v && i < len(kid.fn.Params) {
								visit(kid, kid.fn.Params[i])
							}
						}
					}
				}
			case *ssa.Phi:
				visit(fr, x)
			case *ssa.Store:
				// a local variable (named result, spilled value): its loads
				if al, ok := x.Addr.(*ssa.Alloc); ok && x.Val == v {
					followVar(al, func(ld *ssa.UnOp) {
						if ld.Parent() == x.Parent() {
							visit(fr, ld)
						}
					})
				}
			case *ssa.Return:
				if fr == nil || fr.parent == nil {
					continue
				}
				call, ok := fr.site.(*ssa.Call)
				if !ok {
					continue
				}
				for i, res := range x.Results {
					if res != v {
						continue
					}
					if len(x.Results) == 1 {
						visit(fr.parent, call)
					} else if ex := ResultValue(call, i); ex != nil {
						visit(fr.parent, ex)
					}
				}
			}
		}
	}
	visit(fr, ev)
	return out
}

func c10RuleNotFound(p *Program, r *Reporter) {
	kvIface := p.Iface("pkg/sorted", "KeyValue")
	nGet := 0
	for _, t := range p.Implementers(kvIface, false) {
		// N1: Get reports an absent key as sorted.ErrNotFound (or delegates to a Get that does)
		if get, declared := c10Method(p, t, "Get"); get != nil && declared && len(Returns(get)) > 0 {
			nGet++
			ok, how := c10YieldsNotFound(get, 0)
			r.Check(ok, "V-notfound", FuncKey(get)+"#ErrNotFound", p.Pos(get.Pos()), how,
				"no return of Get yields sorted.ErrNotFound and Get does not delegate to another Get: callers (index, blob stores, buffer.Get) compare the error with sorted.ErrNotFound, an absent key would surface as a backend-specific error")
		}
		// N2: a backend 'not found' tolerated by Delete is tolerated by the delete branch of CommitBatch too
		del, d1 := c10Method(p, t, "Delete")
		cb, d2 := c10Method(p, t, "CommitBatch")
		if del == nil || cb == nil || !d1 || !d2 {
			continue
		}
		cbCalls := c10EffCalls(c10NewRoot(cb))
		for _, c := range c10EffCalls(c10NewRoot(del)) {
			f := c.Callee()
			if f == nil || InModule(f) || c.Value() == nil {
				continue
			}
			ev, hasErr, _ := ErrValue(c.Value())
			if !hasErr || ev == nil {
				continue
			}
			for _, g := range c10SentinelCmp(c.fr, ev) {
				// the same backend call in the effective body of CommitBatch
				for _, c2 := range cbCalls {
					if c2.Callee() != f || c2.Value() == nil {
						continue
					}
					ev2, _, _ := ErrValue(c2.Value())
					same := false
					if ev2 != nil {
						for _, g2 := range c10SentinelCmp(c2.fr, ev2) {
							if g2 == g {
								same = true
							}
						}
					}
					r.Check(same, "V-notfound", FuncKey(cb)+"#"+FuncKeyAny(f)+"#"+g.Name(), p.Pos(c2.Pos()),
						"the batch path tolerates "+g.Pkg.Pkg.Name()+"."+g.Name()+" from "+f.Name()+" exactly like Delete does",
						"Delete treats "+g.Pkg.Pkg.Name()+"."+g.Name()+" from "+f.Name()+" as success but the batch path does not compare with it: a batch deleting an absent key fails (and stops half-way) in this implementation only")
				}
			}
		}
	}
	r.Analysed("get_implementations", nGet)
	r.Floor("V-notfound", 7)
}

// c10YieldsNotFound: some return of fn yields sorted.ErrNotFound, or fn returns
// the error of another Get/get (interface Get, or a module function that does).
func c10YieldsNotFound(fn *ssa.Function, depth int) (bool, string) {
	idx := ErrResultIndex(fn)
	if idx < 0 || depth > 2 {
		return false, ""
	}
	var check func(v ssa.Value, d int) (bool, string)
	check = func(v ssa.Value, d int) (bool, string) {
		if v == nil || d > 6 {
			return false, ""
		}
		if c10IsErrNotFound(v) {
			return true, "a return yields sorted.ErrNotFound"
		}
		switch x := v.(type) {
		case *ssa.Phi:
			for _, e := range x.Edges {
				if e == ssa.Value(x) {
					continue
				}
				if ok, how := check(e, d+1); ok {
					return ok, how
				}
			}
		case *ssa.Extract:
			return check(x.Tuple, d+1)
		case *ssa.Call:
			cc := x.Call
			if cc.IsInvoke() && cc.Method.Name() == "Get" {
				return true, "delegates to Get of another store/transaction"
			}
			if f := cc.StaticCallee(); f != nil && InModule(f) {
				if ok, _ := c10YieldsNotFound(f, depth+1); ok {
					return true, "delegates to " + FuncKey(f) + ", which yields sorted.ErrNotFound"
				}
			}
		case *ssa.UnOp:
			if x.Op == token.MUL {
				// named result / local: any store of ErrNotFound into it
				if cell, ok := varOf(x.X); ok {
					for _, st := range storesTo(cell) {
						if ok, how := check(st.Val, d+1); ok {
							return ok, how
						}
					}
				}
			}
		}
		return false, ""
	}
	for _, ri := range Returns(fn) {
		if ok, how := check(ri.Results[idx], 0); ok {
			return true, how
		}
		// raw (unresolved) operand too: named results assigned in several places
		if ok, how := check(ri.Ret.Results[idx], 0); ok {
			return true, how
		}
	}
	return false, ""
}

// ===========================================================================
// V-batch-order
//
// "A committed batch applies its sets and deletes in order": the order in
// which BatchMutation.Set/Delete were called is the order in which the store
// sees them, at least between mutations of one key (mutations of different
// keys commute in a map). Structurally there are two kinds of batch types:
// recording ones (Set/Delete append to a slice that CommitBatch replays) and
// direct ones (Set/Delete call an ordered engine batch / transaction right
// away). The rule follows the recorded slice through every CommitBatch.

type c10OBits uint16

const (
	c10oSeq     c10OBits = 1 << iota // the recorded slice or an exact order-preserving copy of it
	c10oPart                         // order-preserving, but a sub-slice or extended copy
	c10oElem                         // element read at the ascending counter of the loops in c10OFlow.loops
	c10oRev                          // element read at a descending counter
	c10oUnk                          // element read at an index the analysis does not recognise
	c10oUnord                        // obtained by ranging over a map filled from elements
	c10oRegroup                      // read from / being a slice rebuilt element by element
	c10oCarried                      // element carried round a loop back edge
	c10oMapOf                        // function-local map filled from elements

	c10oSeqMask  = c10oSeq | c10oPart
	c10oElemMask = c10oElem | c10oRev | c10oUnk | c10oUnord | c10oRegroup | c10oCarried
)

// c10BatchInfo: what Set/Delete of one sorted.BatchMutation implementer do.
type c10BatchInfo struct {
	typ        *types.Named
	kind       string // "recording", "direct", "" (undetermined)
	seqField   int    // recording: the slice field
	elem       types.Type
	elemStruct *types.Named // element type when it is a named struct
	keyField   int          // field of elemStruct the key is recorded into (-1 unknown)
	accessors  map[*ssa.Function]c10OBits
}

type c10OrderCtx struct {
	p         *Program
	recording map[*types.Named]*c10BatchInfo
	helpers   map[string]*c10OrderSum
}

type c10OSite struct {
	instr  ssa.Instruction
	call   *CallSite
	bits   c10OBits
	loops  map[*ssa.BasicBlock]bool
	helper *c10OrderSum // the callee replays the whole slice itself
	elemTo *c10OrderSum // the callee is a helper of the effective body that receives the mutation: what it does with it
}

// c10OrderSum: result of following the recorded slice through one function.
// Problems are keyed by clause: "intact" (1), "pass" (2), "channels" (4).
type c10OrderSum struct {
	fn     *ssa.Function
	viol   map[string][]string
	und    map[string][]string
	notes  map[string][]string
	sites  []*c10OSite
	ret    c10OBits
	nSeeds int
	passes int
	chans  map[string]map[string]bool // underlying store (root terms) -> channels its mutations travel through
}

func (s *c10OrderSum) addTo(m map[string][]string, clause, msg string) {
	for _, x := range m[clause] {
		if x == msg {
			return
		}
	}
	m[clause] = append(m[clause], msg)
}

type c10OFlow struct {
	ctx      *c10OrderCtx
	fr       *c10Frame // the activation analysed (a root for a CommitBatch, a child for helpers)
	fn       *ssa.Function
	depth    int
	elemLoop *ssa.BasicBlock // pseudo loop header for mutations received as parameters (the caller's loop)
	subs     []*c10OrderSum  // helpers/literals of the effective body that read the recorded slice themselves
	lab      map[ssa.Value]c10OBits
	loops    map[ssa.Value]map[*ssa.BasicBlock]bool
	work     []ssa.Value
	sum      *c10OrderSum
	siteOf   map[ssa.Instruction]*c10OSite
	idxWhy   map[ssa.Value]string
	idxWrite []*ssa.Store
	copies   []*ssa.Call // copy(dst, src) with dst carrying the recorded slice
}

func (f *c10OFlow) line(pos token.Pos) int { return f.ctx.p.Fset.Position(pos).Line }

func (f *c10OFlow) viol(clause, format string, a ...any) {
	f.sum.addTo(f.sum.viol, clause, fmt.Sprintf(format, a...))
}
func (f *c10OFlow) undec(clause, format string, a ...any) {
	f.sum.addTo(f.sum.und, clause, fmt.Sprintf(format, a...))
}
func (f *c10OFlow) note(clause, format string, a ...any) {
	f.sum.addTo(f.sum.notes, clause, fmt.Sprintf(format, a...))
}

func (f *c10OFlow) add(v ssa.Value, bits c10OBits, loops map[*ssa.BasicBlock]bool) {
	if v == nil || bits == 0 {
		return
	}
	grew := false
	if f.lab[v]|bits != f.lab[v] {
		f.lab[v] |= bits
		grew = true
	}
	if bits&c10oElem != 0 {
		m := f.loops[v]
		for h := range loops {
			if m == nil {
				m = map[*ssa.BasicBlock]bool{}
				f.loops[v] = m
			}
			if !m[h] {
				m[h] = true
				grew = true
			}
		}
	}
	if grew {
		f.work = append(f.work, v)
	}
}

// addSliceVar labels a slice value and, when it is the load of a local
// variable, the variable (so that every other load sees the label).
func (f *c10OFlow) addSliceVar(x ssa.Value, bits c10OBits, loops map[*ssa.BasicBlock]bool) {
	f.add(x, bits, loops)
	if ld, ok := x.(*ssa.UnOp); ok && ld.Op == token.MUL {
		if al, ok := ld.X.(*ssa.Alloc); ok && al.Parent() == f.fn {
			f.add(al, bits, loops)
		}
	}
}

func (f *c10OFlow) site(in ssa.Instruction, c *CallSite, bits c10OBits, loops map[*ssa.BasicBlock]bool) *c10OSite {
	s := f.siteOf[in]
	if s == nil {
		s = &c10OSite{instr: in, call: c, loops: map[*ssa.BasicBlock]bool{}}
		f.siteOf[in] = s
		f.sum.sites = append(f.sum.sites, s)
	}
	s.bits |= bits & c10oElemMask
	if bits&c10oElem != 0 {
		for h := range loops {
			s.loops[h] = true
		}
	}
	return s
}

func c10IsSlice(t types.Type) bool {
	_, ok := t.Underlying().(*types.Slice)
	return ok
}

// c10SameSlice: two mentions of one slice (same value, or loads of one variable).
func c10SameSlice(a, b ssa.Value) bool {
	if a == b || originValue(a) == originValue(b) {
		return true
	}
	la, ok1 := a.(*ssa.UnOp)
	lb, ok2 := b.(*ssa.UnOp)
	if ok1 && ok2 && la.Op == token.MUL && lb.Op == token.MUL {
		ca, oka := varOf(la.X)
		cb, okb := varOf(lb.X)
		return oka && okb && ca == cb
	}
	return false
}

// c10EmptySlice: nil, make([]T, 0, ...) or []T{}.
func c10EmptySlice(v ssa.Value) bool {
	for i := 0; i < 4; i++ {
		switch x := v.(type) {
		case *ssa.ChangeType:
			v = x.X
			continue
		case *ssa.Convert:
			v = x.X
			continue
		case *ssa.Const:
			return x.IsNil()
		case *ssa.MakeSlice:
			n, ok := ConstInt(x.Len)
			return ok && n == 0
		case *ssa.Slice:
			if al, ok := x.X.(*ssa.Alloc); ok {
				if pt, ok := al.Type().Underlying().(*types.Pointer); ok {
					if at, ok := pt.Elem().Underlying().(*types.Array); ok {
						return at.Len() == 0
					}
				}
			}
		}
		return false
	}
	return false
}

func c10LenOf(v ssa.Value) ssa.Value {
	call, ok := v.(*ssa.Call)
	if !ok {
		return nil
	}
	if b, ok := call.Call.Value.(*ssa.Builtin); ok && b.Name() == "len" && len(call.Call.Args) == 1 {
		return call.Call.Args[0]
	}
	return nil
}

// c10AddConst splits v into base + k for v = base ± const.
func c10AddConst(v ssa.Value) (ssa.Value, int64) {
	if bo, ok := v.(*ssa.BinOp); ok {
		switch bo.Op {
		case token.ADD:
			if k, ok := ConstInt(bo.Y); ok {
				return bo.X, k
			}
			if k, ok := ConstInt(bo.X); ok {
				return bo.Y, k
			}
		case token.SUB:
			if k, ok := ConstInt(bo.Y); ok {
				return bo.X, -k
			}
		}
	}
	return v, 0
}

// c10InLoopOf: b belongs to the natural loop(s) with header h.
func c10InLoopOf(h, b *ssa.BasicBlock) bool {
	if h == nil || !h.Dominates(b) {
		return false
	}
	for _, p := range h.Preds {
		if h.Dominates(p) && c10Reaches(b, p, h) {
			return true
		}
	}
	return false
}

// c10ClassifyIndex decides how the element address ia = &s[idx] walks over s:
// c10oElem (with the loop header) when idx is a loop counter that starts at
// element 0, advances by exactly one per iteration and is tested against
// len(s); c10oRev when the counter goes down; c10oUnk otherwise.
func c10ClassifyIndex(ia *ssa.IndexAddr) (c10OBits, *ssa.BasicBlock, string) {
	base, off := c10AddConst(ia.Index)
	ph, ok := base.(*ssa.Phi)
	if !ok {
		return c10oUnk, nil, "the index is not a loop counter"
	}
	h := ph.Block()
	steps := map[int64]bool{}
	nBack, badInit := 0, false
	for i, e := range ph.Edges {
		if h.Dominates(h.Preds[i]) {
			nBack++
			b2, k := c10AddConst(e)
			if b2 != ssa.Value(ph) || k == 0 {
				return c10oUnk, nil, "the loop counter is not advanced by a constant step"
			}
			steps[k] = true
			continue
		}
		if c, ok := ConstInt(e); !ok || c+off != 0 {
			badInit = true
		}
	}
	switch {
	case nBack == 0:
		return c10oUnk, nil, "the index is not a loop counter"
	case len(steps) == 1 && steps[-1]:
		return c10oRev, nil, "the loop counter goes down"
	case len(steps) != 1 || !steps[1]:
		return c10oUnk, nil, "the loop counter does not advance by exactly one"
	case badInit:
		return c10oUnk, nil, "the first element read is not element 0"
	}
	// the loop test: idx < len(s) before the access, or idx+1 < len(s) after it (rotated loop)
	for _, b := range h.Parent().Blocks {
		if len(b.Instrs) == 0 || !c10InLoopOf(h, b) {
			continue
		}
		ifi, ok := b.Instrs[len(b.Instrs)-1].(*ssa.If)
		if !ok || !c10InLoopOf(h, b.Succs[0]) || c10InLoopOf(h, b.Succs[1]) {
			continue
		}
		bo, ok := ifi.Cond.(*ssa.BinOp)
		if !ok {
			continue
		}
		var pairs [][2]ssa.Value
		switch bo.Op {
		case token.LSS:
			pairs = [][2]ssa.Value{{bo.X, bo.Y}}
		case token.GTR:
			pairs = [][2]ssa.Value{{bo.Y, bo.X}}
		case token.NEQ:
			pairs = [][2]ssa.Value{{bo.X, bo.Y}, {bo.Y, bo.X}}
		}
		for _, pr := range pairs {
			arg := c10LenOf(pr[1])
			if arg == nil || !c10SameSlice(arg, ia.X) {
				continue
			}
			if b != ia.Block() && b.Dominates(ia.Block()) {
				if pr[0] == ia.Index {
					return c10oElem, h, ""
				}
			} else if ia.Block().Dominates(b) {
				if b2, k := c10AddConst(pr[0]); k == 1 && b2 == ia.Index {
					return c10oElem, h, ""
				}
			}
		}
	}
	return c10oUnk, nil, "no loop test of the form index < len(that slice) guards the access"
}

// c10StdFunc names the (generic origin of the) static callee: package path, receiver type name, name.
func c10StdFunc(c CallSite) (pkg, recv, name string) {
	fn := c.Callee()
	if fn == nil {
		return "", "", ""
	}
	if o := fn.Origin(); o != nil {
		fn = o
	}
	if fn.Pkg != nil {
		pkg = fn.Pkg.Pkg.Path()
	} else if fn.Object() != nil && fn.Object().Pkg() != nil {
		pkg = fn.Object().Pkg().Path()
	}
	if rv := fn.Signature.Recv(); rv != nil {
		if n := NamedOf(rv.Type()); n != nil {
			recv = n.Obj().Name()
		}
	}
	return pkg, recv, fn.Name()
}

// c10ReorderKind classifies a library function that receives a slice:
// "clone" (returns an exact copy), "readonly", "stable" (stable sort: keeps
// the relative order of elements its comparator calls equal), "reorder"
// (may change the relative order of any two elements), "" (not in the table).
// One line of reason per group: these are the documented contracts of the
// standard library functions.
func c10ReorderKind(c CallSite) string {
	pkg, recv, name := c10StdFunc(c)
	switch pkg {
	case "slices":
		switch name {
		case "Clone":
			return "clone"
		case "Contains", "ContainsFunc", "Index", "IndexFunc", "Equal", "EqualFunc", "IsSorted", "IsSortedFunc",
			"BinarySearch", "BinarySearchFunc", "Max", "MaxFunc", "Min", "MinFunc", "Compare", "CompareFunc":
			return "readonly"
		case "SortStableFunc":
			return "stable"
		case "Sort", "SortFunc", "Reverse", "Backward":
			return "reorder" // pdqsort is not stable; Reverse/Backward invert the order
		}
	case "sort":
		switch name {
		case "Stable", "SliceStable":
			return "stable"
		case "IsSorted", "SliceIsSorted", "Search", "Find":
			return "readonly"
		}
		if recv == "" {
			return "reorder" // sort.Sort, sort.Slice, ...: not stable
		}
	case "container/heap":
		return "reorder" // heap order, not insertion order
	case "math/rand", "math/rand/v2":
		if name == "Shuffle" || name == "Perm" {
			return "reorder"
		}
	}
	return ""
}

func c10FuncValue(v ssa.Value) *ssa.Function {
	switch x := originValue(v).(type) {
	case *ssa.MakeClosure:
		fn, _ := x.Fn.(*ssa.Function)
		return fn
	case *ssa.Function:
		return x
	}
	return nil
}

// c10KeyOnlyCmp decides whether a comparator looks at nothing but the keys
// of the mutations it compares: 0 yes, 1 cannot tell, 2 it reads something
// else of a mutation (value, delete flag).
func c10KeyOnlyCmp(fn *ssa.Function, bi *c10BatchInfo) (int, string) {
	if fn == nil || fn.Blocks == nil {
		return 1, "the comparator is not a function literal or declared function"
	}
	verdict, why := 0, ""
	set := func(v int, w string) {
		if v > verdict {
			verdict, why = v, w
		}
	}
	_, elemIsIface := bi.elem.Underlying().(*types.Interface)
	field := func(t types.Type, idx int) {
		n := NamedOf(t)
		switch {
		case n != nil && n == bi.elemStruct && bi.keyField >= 0 && idx == bi.keyField:
		case n != nil && n == bi.elemStruct:
			set(2, "reads field "+fieldName(n, idx)+" of a mutation")
		default:
			set(1, "reads a field of "+typeKey(t))
		}
	}
	for _, b := range fn.Blocks {
		for _, in := range b.Instrs {
			switch x := in.(type) {
			case *ssa.IndexAddr, *ssa.Phi, *ssa.If, *ssa.Jump, *ssa.Return, *ssa.DebugRef, *ssa.Convert, *ssa.ChangeType, *ssa.Extract, *ssa.BinOp:
			case *ssa.UnOp:
				if x.Op == token.MUL {
					switch a := x.X.(type) {
					case *ssa.FreeVar:
						pt, _ := a.Type().Underlying().(*types.Pointer)
						if pt == nil || !c10IsSlice(pt.Elem()) || !types.Identical(pt.Elem().Underlying().(*types.Slice).Elem(), bi.elem) {
							set(1, "reads the captured variable "+a.Name())
						}
					case *ssa.Global:
						set(1, "reads the package variable "+a.Name())
					}
				}
			case *ssa.FieldAddr:
				field(x.X.Type(), x.Field)
			case *ssa.Field:
				field(x.X.Type(), x.Field)
			case *ssa.Call:
				cc := x.Common()
				switch {
				case cc.IsInvoke():
					if elemIsIface && types.Identical(cc.Value.Type(), bi.elem) && IsNamed(bi.elem, c10SortedPath, "Mutation") {
						if cc.Method.Name() != "Key" {
							set(2, "calls "+cc.Method.Name()+"() of a mutation")
						}
					} else {
						set(1, "calls "+CallSite{fn, x}.CalleeKey())
					}
				default:
					if bl, ok := cc.Value.(*ssa.Builtin); ok {
						if bl.Name() != "len" && bl.Name() != "min" && bl.Name() != "max" {
							set(1, "calls builtin "+bl.Name())
						}
						continue
					}
					pkg, recv, name := c10StdFunc(CallSite{fn, x})
					pure := recv == "" && (pkg == "strings" && name == "Compare" || pkg == "bytes" && name == "Compare" || pkg == "cmp" && (name == "Compare" || name == "Less"))
					if !pure {
						set(1, "calls "+CallSite{fn, x}.CalleeKey())
					}
				}
			default:
				set(1, fmt.Sprintf("contains a %T instruction", in))
			}
		}
	}
	return verdict, why
}

// c10CmpInfo picks the recording batch type whose element type the comparator works on.
func (f *c10OFlow) cmpInfo(elem types.Type) *c10BatchInfo {
	for _, bi := range f.ctx.recording {
		if elem != nil && types.Identical(bi.elem, elem) {
			return bi
		}
	}
	return nil
}

func c10SliceElem(t types.Type) types.Type {
	if pt, ok := t.Underlying().(*types.Pointer); ok {
		t = pt.Elem()
	}
	if s, ok := t.Underlying().(*types.Slice); ok {
		return s.Elem()
	}
	return nil
}

// stableSort judges a stable sort applied to the recorded slice.
func (f *c10OFlow) stableSort(c CallSite) {
	cc := c.Common()
	_, _, name := c10StdFunc(c)
	what := c.CalleeKey()
	var cmp *ssa.Function
	var elem types.Type
	switch name {
	case "SortStableFunc", "SliceStable":
		if len(cc.Args) == 2 {
			cmp = c10FuncValue(cc.Args[1])
			elem = c10SliceElem(originValue(cc.Args[0]).Type())
		}
	case "Stable":
		if len(cc.Args) == 1 {
			t := originValue(cc.Args[0]).Type()
			if mi, ok := cc.Args[0].(*ssa.MakeInterface); ok {
				t = mi.X.Type()
			}
			elem = c10SliceElem(t)
			if sel := f.ctx.p.SSA.MethodSets.MethodSet(t).Lookup(nil, "Less"); sel != nil {
				cmp = f.ctx.p.SSA.MethodValue(sel)
			}
		}
	}
	bi := f.cmpInfo(elem)
	if bi == nil {
		f.undec("intact", "%s at line %d sorts the mutations; cannot relate its element type to a recording batch type", what, f.line(c.Pos()))
		return
	}
	v, why := c10KeyOnlyCmp(cmp, bi)
	switch v {
	case 0:
		f.note("intact", "%s with a comparator that reads only the mutation key (%s): same-key mutations keep their relative order", what, FuncKey(cmp))
	case 2:
		f.viol("intact", "%s at line %d: the comparator %s: mutations of one key that differ in it are moved past each other, so a set and a later delete of the same key can swap", what, f.line(c.Pos()), why)
	default:
		f.undec("intact", "%s at line %d: cannot decide that the comparator reads only the mutation key (%s)", what, f.line(c.Pos()), why)
	}
}

func (f *c10OFlow) call(x ssa.CallInstruction, v ssa.Value, bits c10OBits, loops map[*ssa.BasicBlock]bool) {
	c := CallSite{f.fn, x}
	cc := c.Common()
	call, _ := x.(*ssa.Call)
	if b, ok := cc.Value.(*ssa.Builtin); ok {
		switch b.Name() {
		case "append":
			if call == nil || len(cc.Args) == 0 {
				return
			}
			if sb := bits & c10oSeqMask; sb != 0 {
				if len(cc.Args) > 1 && cc.Args[1] == v && cc.Args[0] != v && c10EmptySlice(cc.Args[0]) {
					f.add(call, sb, nil)
				} else {
					f.add(call, c10oPart, nil)
				}
			}
			if eb := bits & c10oElemMask; eb != 0 {
				if c10IsBytesCarrier(call.Type()) {
					f.add(call, eb, loops)
				} else {
					f.add(call, c10oRegroup, nil)
				}
			}
		case "copy":
			if len(cc.Args) != 2 {
				return
			}
			dst, src := cc.Args[0], cc.Args[1]
			if src == v {
				if bits&c10oSeqMask != 0 {
					nb := c10OBits(c10oPart)
					if mk, ok := originValue(dst).(*ssa.MakeSlice); ok && bits&c10oSeq != 0 {
						if a := c10LenOf(mk.Len); a != nil && c10SameSlice(a, v) {
							nb = c10oSeq
						}
					}
					f.addSliceVar(dst, nb, nil)
					if o := originValue(dst); o != dst {
						f.add(o, nb, nil)
					}
				}
				if eb := bits & c10oElemMask; eb != 0 {
					if c10IsBytesCarrier(dst.Type()) {
						f.addSliceVar(dst, eb, loops)
					} else {
						f.addSliceVar(dst, c10oRegroup, nil)
					}
				}
			}
			if dst == v && src != v && bits&c10oSeqMask != 0 && call != nil {
				f.copies = append(f.copies, call)
			}
		}
		return
	}
	if bits&c10oSeqMask != 0 {
		f.seqCall(x, c, v, bits)
	}
	if eb := bits & c10oElemMask; eb != 0 {
		// reading the element itself: sorted.Mutation accessors, parameterless methods of the element
		accessor := false
		if cc.IsInvoke() && IsNamed(cc.Value.Type(), c10SortedPath, "Mutation") && cc.Value == v {
			accessor = true
		} else if callee := cc.StaticCallee(); callee != nil && callee.Signature.Recv() != nil && len(cc.Args) == 1 && cc.Args[0] == v {
			accessor = true
		}
		carries := call != nil && c10IsBytesCarrier(call.Type())
		switch {
		case accessor:
			if call != nil {
				f.add(call, eb, loops)
			}
		case c10IsCheckSizes(c) || c10Harmless(c):
			if carries {
				f.add(call, eb, loops)
			}
		case !cc.IsInvoke() && cc.Value == v:
			f.undec("pass", "a function literal that captured a mutation is called at line %d", f.line(x.Pos()))
		default:
			s := f.site(x, &c, bits, loops)
			if carries {
				f.add(call, eb, loops)
			}
			// a helper of the effective body: what it does with the mutation counts as done here
			if _, isGo := x.(*ssa.Go); !isGo && s.elemTo == nil && f.depth < c10MaxDepth {
				if kid := f.fr.child(x); kid != nil {
					elems := map[int]bool{}
					for i, a := range c.Args() {
						if (a == v || f.lab[a]&c10oElemMask != 0) && i < len(kid.fn.Params) {
							elems[i] = true
						}
					}
					s.elemTo = f.ctx.analyseFr(kid, nil, elems, f.depth+1)
				}
			}
		}
	}
}

// seqCall: the recorded slice (or a closure that captured it) is handed to a call.
func (f *c10OFlow) seqCall(x ssa.CallInstruction, c CallSite, v ssa.Value, bits c10OBits) {
	cc := c.Common()
	call, _ := x.(*ssa.Call)
	if !cc.IsInvoke() && cc.Value == v {
		f.undec("intact", "a function literal that captured the recorded mutation slice is called at line %d; cannot follow the slice into it", f.line(x.Pos()))
		return
	}
	switch c10ReorderKind(c) {
	case "clone":
		if call != nil {
			f.add(call, bits&c10oSeqMask, nil)
		}
		f.note("intact", "%s (exact copy)", c.CalleeKey())
		return
	case "readonly":
		return
	case "reorder":
		f.viol("intact", "the recorded mutation slice (or a copy of it) is handed to %s at line %d, which does not keep the relative order of equal-keyed elements: a set and a later delete of one key inside a batch can be applied in the opposite order", c.CalleeKey(), f.line(x.Pos()))
		return
	case "stable":
		f.stableSort(c)
		return
	}
	if c10Harmless(c) {
		return
	}
	callee := c.Callee()
	if callee != nil && callee.Blocks != nil && InModule(callee) && callee.Parent() == nil && f.depth < c10MaxDepth && !cc.IsInvoke() {
		seeds := map[int]c10OBits{}
		key := FuncKey(callee)
		for i, a := range cc.Args {
			if b := f.lab[a] & c10oSeqMask; b != 0 && i < len(callee.Params) {
				seeds[i] = b
				key += fmt.Sprintf("|%d:%d", i, b)
			}
		}
		key += fmt.Sprintf("@%p", x)
		sub := f.ctx.helpers[key]
		if sub == nil {
			if kid := c10EnterCallee(f.fr, x, callee); kid != nil {
				sub = f.ctx.analyseFr(kid, seeds, nil, f.depth+1)
			} else {
				sub = f.ctx.analyse(callee, seeds, f.depth+1)
			}
			f.ctx.helpers[key] = sub
		}
		for cl, ms := range sub.viol {
			for _, m := range ms {
				f.viol(cl, "in %s: %s", FuncKey(callee), m)
			}
		}
		for cl, ms := range sub.und {
			for _, m := range ms {
				f.undec(cl, "in %s: %s", FuncKey(callee), m)
			}
		}
		for cl, ms := range sub.notes {
			for _, m := range ms {
				f.note(cl, "in %s: %s", FuncKey(callee), m)
			}
		}
		if call != nil && sub.ret != 0 {
			f.add(call, sub.ret, nil)
		}
		if len(sub.sites) > 0 {
			s := f.site(x, &c, 0, nil)
			s.helper = sub
		}
		return
	}
	f.undec("intact", "the recorded mutation slice is handed to %s at line %d; cannot follow it there", c.CalleeKey(), f.line(x.Pos()))
}

func (f *c10OFlow) step(v ssa.Value, bits c10OBits, loops map[*ssa.BasicBlock]bool, r ssa.Instruction) {
	eb := bits & c10oElemMask
	switch x := r.(type) {
	case *ssa.Store:
		if x.Val != v {
			return
		}
		if ia, ok := x.Addr.(*ssa.IndexAddr); ok && c10IsSlice(ia.X.Type()) && !c10IsBytesCarrier(ia.X.Type()) {
			if eb != 0 {
				f.addSliceVar(ia.X, c10oRegroup, nil)
			}
			if bits&c10oSeqMask != 0 {
				f.undec("intact", "the recorded mutation slice is stored into another slice at line %d", f.line(x.Pos()))
			}
			return
		}
		if al, ok := c10RootCell(x.Addr).(*ssa.Alloc); ok && al.Parent() == f.fn {
			f.add(al, bits, loops)
			return
		}
		if bits&c10oSeqMask != 0 {
			f.undec("intact", "the recorded mutation slice is stored to %s at line %d; cannot follow it", AccessPath(x.Addr), f.line(x.Pos()))
		}
		if eb != 0 {
			f.site(x, nil, bits, loops)
		}
	case *ssa.MapUpdate:
		if x.Key != v && x.Value != v {
			return
		}
		if bits&c10oSeqMask != 0 {
			f.undec("intact", "the recorded mutation slice is put into a map at line %d", f.line(x.Pos()))
		}
		if eb == 0 {
			return
		}
		if mk, ok := originValue(x.Map).(*ssa.MakeMap); ok && mk.Parent() == f.fn {
			f.add(mk, eb|c10oMapOf, loops)
			f.addSliceVar(x.Map, eb|c10oMapOf, loops)
		} else {
			f.site(x, nil, bits, loops)
		}
	case *ssa.MakeClosure:
		f.add(x, bits, loops)
	case ssa.CallInstruction:
		f.call(x, v, bits, loops)
	case *ssa.Return:
		f.sum.ret |= bits & c10oSeqMask
	case *ssa.If, *ssa.DebugRef, *ssa.Panic, *ssa.RunDefers, *ssa.Jump:
	case *ssa.Send:
		if bits&c10oSeqMask != 0 {
			f.undec("intact", "the recorded mutation slice is sent on a channel at line %d", f.line(x.Pos()))
		}
		if eb != 0 && x.X == v {
			f.site(x, nil, bits, loops)
		}
	case *ssa.Phi:
		hb := x.Block()
		carried := false
		if eb != 0 {
			for i, e := range x.Edges {
				if e == v && hb.Dominates(hb.Preds[i]) {
					carried = true
				}
			}
		}
		if carried {
			f.add(x, bits&^c10oElem|c10oCarried, nil)
		} else {
			f.add(x, bits, loops)
		}
	case *ssa.IndexAddr:
		if x.X != v {
			return
		}
		if bits&c10oSeqMask != 0 && c10IsSlice(v.Type()) {
			var nb c10OBits
			var h *ssa.BasicBlock
			why := ""
			if bits&c10oSeq == 0 {
				nb, why = c10oUnk, "the slice indexed is a sub-slice or an extended copy of the recorded one"
			} else {
				nb, h, why = c10ClassifyIndex(x)
			}
			if why != "" {
				f.idxWhy[x] = why
			}
			f.add(x, nb, map[*ssa.BasicBlock]bool{h: true})
			if refs := x.Referrers(); refs != nil {
				for _, u := range *refs {
					if st, ok := u.(*ssa.Store); ok && st.Addr == ssa.Value(x) {
						f.idxWrite = append(f.idxWrite, st)
					}
				}
			}
		}
		if eb != 0 {
			f.add(x, eb, loops)
		}
	case *ssa.Slice:
		if x.X != v {
			return
		}
		nb := eb
		if sb := bits & c10oSeqMask; sb != 0 && c10IsSlice(v.Type()) {
			if x.Low == nil && x.High == nil && x.Max == nil {
				nb |= sb
			} else {
				nb |= c10oPart
			}
		}
		f.add(x, nb, loops)
	case *ssa.Range:
		if bits&c10oMapOf != 0 {
			f.add(x, c10oUnord, nil)
		} else {
			f.add(x, eb, loops)
		}
	case *ssa.Lookup:
		if x.X != v {
			return
		}
		if bits&c10oMapOf != 0 {
			f.add(x, c10oUnk, nil)
			f.idxWhy[x] = "the mutation is looked up in a map filled from the mutations"
		} else {
			f.add(x, eb, loops)
		}
	case *ssa.BinOp:
		switch x.Op {
		case token.EQL, token.NEQ, token.LSS, token.LEQ, token.GTR, token.GEQ:
			return
		}
		f.add(x, eb, loops)
	case *ssa.UnOp, *ssa.FieldAddr, *ssa.Field, *ssa.ChangeType, *ssa.MakeInterface, *ssa.ChangeInterface,
		*ssa.TypeAssert, *ssa.Extract, *ssa.Convert, *ssa.SliceToArrayPointer, *ssa.MultiConvert:
		f.add(x.(ssa.Value), bits, loops)
	case ssa.Value:
		f.add(x, eb, loops)
	}
}

// seed marks where the recorded slice of a recording batch type enters fn:
// loads of the slice field and calls of a method that returns it.
func (f *c10OFlow) seed() {
	for _, b := range f.fn.Blocks {
		for _, in := range b.Instrs {
			switch x := in.(type) {
			case *ssa.UnOp:
				if x.Op != token.MUL {
					continue
				}
				if fa, ok := x.X.(*ssa.FieldAddr); ok {
					if bi := f.ctx.recording[NamedOf(fa.X.Type())]; bi != nil && fa.Field == bi.seqField {
						f.add(x, c10oSeq, nil)
						f.sum.nSeeds++
					}
				}
			case *ssa.Field:
				if bi := f.ctx.recording[NamedOf(x.X.Type())]; bi != nil && x.Field == bi.seqField {
					f.add(x, c10oSeq, nil)
					f.sum.nSeeds++
				}
			case *ssa.Call:
				cc := x.Common()
				for _, bi := range f.ctx.recording {
					for acc, bits := range bi.accessors {
						hit := false
						if cc.IsInvoke() {
							if it, ok := cc.Value.Type().Underlying().(*types.Interface); ok && cc.Method.Name() == acc.Name() &&
								types.Identical(cc.Method.Type().(*types.Signature).Results(), acc.Signature.Results()) &&
								(types.Implements(types.NewPointer(bi.typ), it) || types.Implements(bi.typ, it)) {
								hit = true
							}
						} else if cc.StaticCallee() == acc {
							hit = true
						}
						if hit {
							f.add(x, bits, nil)
							f.sum.nSeeds++
						}
					}
				}
			}
		}
	}
}

func (ctx *c10OrderCtx) analyse(fn *ssa.Function, paramSeeds map[int]c10OBits, depth int) *c10OrderSum {
	return ctx.analyseFr(c10NewRoot(fn), paramSeeds, nil, depth)
}

// analyseFr follows the recorded slice (paramSeeds: parameters that carry it)
// and single mutations handed in by the caller's replay loop (elemSeeds)
// through activation fr.
func (ctx *c10OrderCtx) analyseFr(fr *c10Frame, paramSeeds map[int]c10OBits, elemSeeds map[int]bool, depth int) *c10OrderSum {
	fn := fr.fn
	sum := &c10OrderSum{fn: fn, viol: map[string][]string{}, und: map[string][]string{}, notes: map[string][]string{}, chans: map[string]map[string]bool{}}
	f := &c10OFlow{ctx: ctx, fr: fr, fn: fn, depth: depth, lab: map[ssa.Value]c10OBits{}, loops: map[ssa.Value]map[*ssa.BasicBlock]bool{},
		sum: sum, siteOf: map[ssa.Instruction]*c10OSite{}, idxWhy: map[ssa.Value]string{}}
	for i, b := range paramSeeds {
		f.add(fn.Params[i], b, nil)
		sum.nSeeds++
	}
	if len(elemSeeds) > 0 && len(fn.Blocks) > 0 {
		f.elemLoop = fn.Blocks[0]
		for i := range elemSeeds {
			f.add(fn.Params[i], c10oElem, map[*ssa.BasicBlock]bool{f.elemLoop: true})
			sum.nSeeds++
		}
	}
	f.seed()
	for len(f.work) > 0 {
		v := f.work[len(f.work)-1]
		f.work = f.work[:len(f.work)-1]
		refs := v.Referrers()
		if refs == nil {
			continue
		}
		for _, r := range *refs {
			if r.Parent() == fn {
				f.step(v, f.lab[v], f.loops[v], r)
			}
		}
	}
	// helpers and literals of the effective body that were not handed the slice
	// or a mutation may read the recorded slice themselves
	if depth < c10MaxDepth {
		handled := map[ssa.Instruction]bool{}
		for _, s := range sum.sites {
			if s.helper != nil || s.elemTo != nil {
				handled[s.instr] = true
			}
		}
		for _, c := range CallsIn(fn, false) {
			if handled[c.Instr] || c.IsGo() {
				continue
			}
			if kid := fr.child(c.Instr); kid != nil {
				if sub := ctx.analyseFr(kid, nil, nil, depth+1); sub.nSeeds > 0 {
					f.subs = append(f.subs, sub)
					sum.nSeeds += sub.nSeeds
				}
			}
		}
	}
	f.finish()
	for _, sub := range f.subs {
		sum.sites = append(sum.sites, sub.sites...)
	}
	return sum
}

// finish judges index writes and the places where mutations are handed on.
func (f *c10OFlow) finish() {
	for _, st := range f.idxWrite {
		if f.lab[st.Val]&(c10oElemMask|c10oSeqMask) != 0 {
			f.viol("intact", "an element of the recorded mutation slice is overwritten with another mutation at line %d (swap/move in place): the recording order is changed before the batch is applied", f.line(st.Pos()))
		} else {
			f.undec("intact", "an element of the recorded mutation slice is overwritten at line %d", f.line(st.Pos()))
		}
	}
	for _, cp := range f.copies {
		dst, src := cp.Call.Args[0], cp.Call.Args[1]
		if _, fresh := originValue(dst).(*ssa.MakeSlice); !fresh || f.lab[src]&c10oSeqMask == 0 {
			f.undec("intact", "copy() at line %d writes into the recorded mutation slice", f.line(cp.Pos()))
		}
	}
	whyUnk := func() string {
		var ws []string
		for _, w := range f.idxWhy {
			ws = append(ws, w)
		}
		sort.Strings(ws)
		return strings.Join(dedupe(ws), "; ")
	}
	passes := map[any]bool{}
	for _, s := range f.sum.sites {
		ln := f.line(s.instr.Pos())
		what := "a store"
		if s.call != nil {
			what = s.call.CalleeKey()
			ln = f.line(s.call.Pos())
		}
		if s.elemTo != nil {
			sub := s.elemTo
			for cl, ms := range sub.viol {
				for _, m := range ms {
					f.viol(cl, "in %s: %s", FuncKey(sub.fn), m)
				}
			}
			for cl, ms := range sub.und {
				for _, m := range ms {
					f.undec(cl, "in %s: %s", FuncKey(sub.fn), m)
				}
			}
		}
		if s.helper != nil {
			passes[s.instr] = true
			if c10LoopHeader(s.instr.Block()) != nil {
				f.undec("pass", "%s, which replays the whole mutation slice, is called inside a loop at line %d", what, ln)
			}
			if s.bits == 0 {
				continue
			}
		}
		if s.call != nil && s.call.IsGo() {
			f.viol("pass", "the mutation is handed to %s in a new goroutine at line %d: nothing orders it with the mutations before and after it", what, ln)
			continue
		}
		if s.call != nil && s.call.IsDefer() {
			f.undec("pass", "the mutation is handed to the deferred call %s at line %d: deferred calls run in reverse order", what, ln)
			continue
		}
		switch b := s.bits; {
		case b&c10oRev != 0:
			f.viol("pass", "%s at line %d receives mutations read at a descending index: the batch is replayed backwards, so the FIRST set/delete of a key wins instead of the last", what, ln)
		case b&c10oUnord != 0:
			f.viol("pass", "%s at line %d receives mutations obtained by ranging over a map filled from the batch: map iteration order is random and a map keyed by mutation key keeps one mutation per key, so the recording order is lost", what, ln)
		case b&c10oRegroup != 0:
			f.undec("pass", "%s at line %d receives mutations from a slice rebuilt element by element; cannot decide that the rebuilt slice keeps sets and deletes of one key in recording order", what, ln)
		case b&c10oCarried != 0:
			f.undec("pass", "%s at line %d receives a mutation carried over from an earlier loop iteration", what, ln)
		case b&c10oUnk != 0:
			f.undec("pass", "%s at line %d receives mutations read at an index the analysis cannot prove ascending from element 0 to len-1 (%s)", what, ln, whyUnk())
		case b&c10oElem != 0:
			if len(s.loops) != 1 {
				f.undec("pass", "%s at line %d mixes mutations of %d different loops", what, ln, len(s.loops))
				continue
			}
			for h := range s.loops {
				switch {
				case h == f.elemLoop && h != nil:
					// the mutation is a parameter: this activation runs once per iteration of the caller's loop
					if c10LoopHeader(s.instr.Block()) != nil {
						f.undec("pass", "%s at line %d hands on, inside a loop of its own, a mutation received as a parameter", what, ln)
					}
				case !c10InLoopOf(h, s.instr.Block()):
					f.undec("pass", "%s at line %d uses a mutation outside the loop that read it", what, ln)
				default:
					passes[h] = true
				}
			}
		}
	}
	for _, sub := range f.subs {
		for cl, ms := range sub.viol {
			for _, m := range ms {
				f.viol(cl, "in %s: %s", FuncKey(sub.fn), m)
			}
		}
		for cl, ms := range sub.und {
			for _, m := range ms {
				f.undec(cl, "in %s: %s", FuncKey(sub.fn), m)
			}
		}
		for cl, ms := range sub.notes {
			if cl == "channels" {
				continue
			}
			for _, m := range ms {
				f.note(cl, "in %s: %s", FuncKey(sub.fn), m)
			}
		}
		for i := 0; i < sub.passes; i++ {
			passes[fmt.Sprintf("%p#%d", sub, i)] = true
		}
		for store, chs := range sub.chans {
			if f.sum.chans[store] == nil {
				f.sum.chans[store] = map[string]bool{}
			}
			for ch := range chs {
				f.sum.chans[store][ch] = true
			}
		}
	}
	f.sum.passes = len(passes)
	if len(passes) > 1 {
		f.viol("pass", "the mutations are handed on in %d separate passes over the recorded slice: a pass that applies some mutations (e.g. all deletes) before another pass applies the rest changes the relative order of a set and a delete of one key", len(passes))
	}
	// clause 4: one channel per underlying store
	chans := f.sum.chans
	for _, s := range f.sum.sites {
		if s.call == nil || s.bits&c10oElem == 0 {
			continue
		}
		if s.elemTo != nil {
			// the helper's own hand-overs are the channels (already in the root's terms)
			for store, chs := range s.elemTo.chans {
				if chans[store] == nil {
					chans[store] = map[string]bool{}
				}
				for ch := range chs {
					chans[store][ch] = true
				}
			}
			continue
		}
		store, ch, ok := c10Channel(f.fr, *s.call, f.line)
		if !ok {
			continue
		}
		if chans[store] == nil {
			chans[store] = map[string]bool{}
		}
		chans[store][ch] = true
	}
	if f.fr.parent != nil && f.elemLoop != nil {
		return // a helper: its caller judges the channels of the whole effective body
	}
	var stores []string
	for st := range chans {
		stores = append(stores, st)
	}
	sort.Strings(stores)
	for _, st := range stores {
		var cs []string
		for ch := range chans[st] {
			cs = append(cs, ch)
		}
		sort.Strings(cs)
		if len(cs) > 1 {
			f.viol("channels", "mutations for %s travel through %d different channels (%s): whatever goes through one channel is applied before or after everything in the other, so a set and a delete of one key lose their relative order", st, len(cs), strings.Join(cs, ", "))
		} else {
			f.note("channels", "%s <- %s", st, cs[0])
		}
	}
}

// c10Channel names the way one mutation reaches an underlying store: store =
// access path of the store (for a batch: of the store BeginBatch was called
// on), ch = "direct" or the batch it is queued in.
func c10Channel(fr *c10Frame, c CallSite, line func(token.Pos) int) (store, ch string, ok bool) {
	cc := c.Common()
	var recv ssa.Value
	switch {
	case cc.IsInvoke():
		recv = cc.Value
	case cc.StaticCallee() != nil && cc.StaticCallee().Signature.Recv() != nil && len(cc.Args) > 0:
		recv = cc.Args[0]
	default:
		return "", "", false
	}
	// a batch obtained from BeginBatch of some store?
	var begins []c10EV
	clean := true
	for _, o := range c10Origins(fr, recv) {
		if x, isCall := o.v.(*ssa.Call); isCall && (x.Call.IsInvoke() && x.Call.Method.Name() == "BeginBatch" || x.Call.StaticCallee() != nil && x.Call.StaticCallee().Name() == "BeginBatch") {
			begins = append(begins, o)
			continue
		}
		clean = false
	}
	if len(begins) > 0 && clean {
		var paths, ids []string
		for _, o := range begins {
			b := o.v.(*ssa.Call)
			fn := c.Fn
			if o.fr != nil {
				fn = o.fr.fn
			}
			a := CallSite{fn, b}.Args()
			if len(a) == 0 {
				return "", "", false
			}
			paths = append(paths, c10PathOf(o.fr, a[0]))
			ids = append(ids, fmt.Sprintf("the batch %s begun at line %d", b.Name(), line(b.Pos())))
		}
		paths = dedupe(paths)
		if len(paths) != 1 {
			return "", "", false
		}
		sort.Strings(ids)
		return paths[0], strings.Join(ids, "+"), true
	}
	return c10PathOf(fr, recv), "direct calls", true
}

// c10RecordRes: what one Set/Delete method of a batch type does with its key.
type c10RecordRes struct {
	nRecord  int
	field    int            // recording: the slice field appended to
	forwards []map[int]bool // direct: per hand-over, the receiver fields among the call's operands
	viol     []string
	und      []string
	keyFlds  map[c10FieldKey]map[byte]bool
}

// c10RecordAnalysis follows the key parameter of a batch type's Set/Delete
// (also through one helper that receives the batch) to where it is recorded
// or forwarded.
func c10RecordAnalysis(p *Program, fn *ssa.Function, recvIdx int, seeds map[int]string, depth int, res *c10RecordRes) {
	rootFr := c10NewRoot(fn)
	recv := c10EV{rootFr, fn.Params[recvIdx]}
	fs := c10NewFlowSet(rootFr)
	for i, l := range seeds {
		fs.root.source(fn.Params[i], l)
	}
	fs.run()
	for k, v := range fs.fieldStores {
		if res.keyFlds[k] == nil {
			res.keyFlds[k] = map[byte]bool{}
		}
		for b := range v {
			res.keyFlds[k][b] = true
		}
	}
	for _, f := range fs.flows {
		for _, e := range f.escapes {
			res.und = append(res.und, "cannot follow the key in "+FuncKey(f.fn)+": "+e)
		}
	}
	line := func(pos token.Pos) int { return p.Fset.Position(pos).Line }
	for _, s := range fs.allSinks() {
		if len(c10Kinds(s.labels, 'K')) == 0 {
			continue
		}
		f := s.fl
		isRecv := func(v ssa.Value) bool { return c10Same(c10EV{f.fr, v}, recv) }
		if s.call != nil {
			c := *s.call
			if c10IsCheckSizes(c) || c10Harmless(c) {
				continue
			}
			if c.IsGo() {
				res.viol = append(res.viol, fmt.Sprintf("hands the key to %s in a new goroutine (line %d): the order of recording is lost", s.what, line(c.Pos())))
				continue
			}
			cc := c.Common()
			// a module function outside the effective body (exported, other package) that receives the batch itself
			if callee := cc.StaticCallee(); callee != nil && InModule(callee) && callee.Blocks != nil && depth < 1 {
				ri, sub := -1, map[int]string{}
				for i, a := range cc.Args {
					if i >= len(callee.Params) {
						break
					}
					if isRecv(a) {
						ri = i
					}
					for l := range f.lab[a] {
						sub[i] = l
					}
				}
				if ri >= 0 {
					c10RecordAnalysis(p, callee, ri, sub, depth+1, res)
					continue
				}
			}
			ops := append([]ssa.Value{}, c.Args()...)
			if !cc.IsInvoke() && cc.StaticCallee() == nil {
				ops = append(ops, cc.Value)
			}
			flds := map[int]bool{}
			for _, o := range ops {
				if root, idx := c10FieldChain(o); len(idx) > 0 && isRecv(root) {
					flds[idx[0]] = true
				}
			}
			res.forwards = append(res.forwards, flds)
			continue
		}
		st, ok := s.instr.(*ssa.Store)
		if !ok {
			res.und = append(res.und, fmt.Sprintf("puts the key into %s (line %d); cannot tell the order in which it comes back out", s.what, line(s.instr.Pos())))
			continue
		}
		switch st.Val.Type().Underlying().(type) {
		case *types.Slice, *types.Map, *types.Struct, *types.Pointer:
		case *types.Basic:
			if !c10IsBytesCarrier(st.Val.Type()) {
				continue
			}
		case *types.Interface:
			if isErrorType(st.Val.Type()) {
				continue
			}
		default:
			continue
		}
		fa, ok := st.Addr.(*ssa.FieldAddr)
		if !ok || !isRecv(fa.X) || !c10IsSlice(st.Val.Type()) || c10IsBytesCarrier(st.Val.Type()) {
			res.und = append(res.und, fmt.Sprintf("stores the key at %s (line %d), not in a slice field of the batch; cannot tell the order in which it comes back out", s.what, line(st.Pos())))
			continue
		}
		if res.nRecord > 0 && res.field != fa.Field {
			res.viol = append(res.viol, fmt.Sprintf("records into two different slice fields (%s and %s): the relative order of the mutations in one and the other is lost", fieldName(fa.X.Type(), res.field), fieldName(fa.X.Type(), fa.Field)))
			continue
		}
		res.nRecord++
		res.field = fa.Field
		call, isCall := st.Val.(*ssa.Call)
		isAppend := false
		if isCall {
			if b, ok := call.Call.Value.(*ssa.Builtin); ok && b.Name() == "append" {
				isAppend = true
			}
		}
		if !isAppend {
			res.und = append(res.und, fmt.Sprintf("assigns the slice field %s a value that is not append(%s, …) (line %d); cannot decide that the new mutation is placed after all earlier ones", fieldName(fa.X.Type(), fa.Field), fieldName(fa.X.Type(), fa.Field), line(st.Pos())))
			continue
		}
		ok = false
		if ld, isLd := call.Call.Args[0].(*ssa.UnOp); isLd && ld.Op == token.MUL {
			if fa0, isFA := ld.X.(*ssa.FieldAddr); isFA && fa0.Field == fa.Field && isRecv(fa0.X) {
				ok = true
			}
		}
		if !ok {
			res.viol = append(res.viol, fmt.Sprintf("the slice field %s is assigned append(<something else>, …) at line %d: the new mutation is not placed after all earlier ones (prepending or rebuilding reverses/loses the recording order)", fieldName(fa.X.Type(), fa.Field), line(st.Pos())))
		}
	}
}

func c10RuleBatchOrder(p *Program, r *Reporter) {
	const rule = "V-batch-order"
	bmIface := p.Iface("pkg/sorted", "BatchMutation")
	kvIface := p.Iface("pkg/sorted", "KeyValue")
	ctx := &c10OrderCtx{p: p, recording: map[*types.Named]*c10BatchInfo{}, helpers: map[string]*c10OrderSum{}}
	infos := map[*types.Named]*c10BatchInfo{}
	// ---- (3): every batch type records at the end of one slice, or forwards to one ordered engine batch
	for _, n := range p.Implementers(bmIface, false) {
		bi := &c10BatchInfo{typ: n, seqField: -1, keyField: -1, accessors: map[*ssa.Function]c10OBits{}}
		infos[n] = bi
		tkey := typeKey(n)
		site := p.Pos(n.Obj().Pos())
		var results []*c10RecordRes
		allKeyFlds := map[c10FieldKey]map[byte]bool{}
		for _, m := range []string{"Set", "Delete"} {
			fn, decl := c10Method(p, n, m)
			if fn == nil || !decl || fn.Blocks == nil || len(fn.Params) < 2 {
				r.Undecided(rule, tkey+"."+m+"#records-in-order", site, "method is promoted or has no body: cannot see how the mutation is recorded")
				results = append(results, nil)
				continue
			}
			res := &c10RecordRes{keyFlds: allKeyFlds}
			seeds := map[int]string{1: "K:param"}
			if len(fn.Params) > 2 {
				seeds[2] = "V:param"
			}
			c10RecordAnalysis(p, fn, 0, seeds, 0, res)
			results = append(results, res)
			construct, fsite := FuncKey(fn)+"#records-in-order", p.Pos(fn.Pos())
			switch {
			case len(res.viol) > 0:
				r.Violation(rule, construct, fsite, strings.Join(res.viol, "; "))
			case len(res.und) > 0:
				r.Undecided(rule, construct, fsite, strings.Join(res.und, "; "))
			case res.nRecord > 0 && len(res.forwards) > 0:
				r.Undecided(rule, construct, fsite, "both records the key in a slice of the batch and hands it to a call; cannot tell which of the two is replayed")
			case res.nRecord > 0:
				r.OK(rule, construct, fsite, "records the mutation as "+fieldName(types.NewPointer(n), res.field)+" = append("+fieldName(types.NewPointer(n), res.field)+", …): placed after every earlier mutation of the batch")
			case len(res.forwards) > 0:
				r.OK(rule, construct, fsite, fmt.Sprintf("hands the key synchronously to an object held in a field of the batch at recording time (%d hand-over(s)); nothing is replayed later", len(res.forwards)))
			default:
				r.Violation(rule, construct, fsite, "the key reaches neither a slice field of the batch nor a call: the mutation is dropped (or the value flow could not be followed)")
			}
		}
		// Set and Delete go into ONE sequence
		construct := tkey + "#one-sequence"
		s, d := results[0], results[1]
		switch {
		case s == nil || d == nil || len(s.viol)+len(s.und)+len(d.viol)+len(d.und) > 0:
			r.Undecided(rule, construct, site, "Set/Delete could not be classified (see #records-in-order)")
		case s.nRecord > 0 && d.nRecord > 0 && len(s.forwards)+len(d.forwards) == 0:
			if s.field != d.field {
				r.Violation(rule, construct, site, "Set records into "+fieldName(types.NewPointer(n), s.field)+" but Delete into "+fieldName(types.NewPointer(n), d.field)+": the relative order of a set and a delete of one key is not recorded at all")
				break
			}
			bi.kind, bi.seqField = "recording", s.field
			if st, ok := n.Underlying().(*types.Struct); ok {
				bi.elem = c10SliceElem(st.Field(s.field).Type())
			}
			if bi.elem == nil {
				r.Undecided(rule, construct, site, "the recording field is not a slice")
				bi.kind = ""
				break
			}
			if es := NamedOf(bi.elem); es != nil {
				if _, ok := es.Underlying().(*types.Struct); ok && !types.IsInterface(bi.elem) {
					if _, isPtr := bi.elem.(*types.Pointer); !isPtr {
						bi.elemStruct = es
					}
					for k, kinds := range allKeyFlds {
						if k.typ == es && len(kinds) == 1 && kinds['K'] {
							if bi.keyField >= 0 && bi.keyField != k.idx {
								bi.keyField = -2
							} else if bi.keyField == -1 {
								bi.keyField = k.idx
							}
						}
					}
				}
			}
			ctx.recording[n] = bi
			r.OK(rule, construct, site, "Set and Delete append to the same slice field "+fieldName(types.NewPointer(n), s.field)+": one sequence holds the batch in recording order")
		case s.nRecord == 0 && d.nRecord == 0 && len(s.forwards) > 0 && len(d.forwards) > 0:
			common := map[int]bool{}
			for k := range s.forwards[0] {
				common[k] = true
			}
			for _, fw := range append(append([]map[int]bool{}, s.forwards...), d.forwards...) {
				for k := range common {
					if !fw[k] {
						delete(common, k)
					}
				}
			}
			if len(common) == 0 {
				r.Violation(rule, construct, site, "Set and Delete do not hand their key to one common object held in a field of the batch: sets and deletes are queued in different engine batches/transactions, so their relative order is lost")
				break
			}
			bi.kind = "direct"
			var names []string
			for k := range common {
				names = append(names, fieldName(types.NewPointer(n), k))
			}
			sort.Strings(names)
			r.OK(rule, construct, site, "every hand-over of Set and of Delete goes to the object in field "+strings.Join(names, "/")+" of the batch: one ordered engine batch/transaction receives sets and deletes in call order")
		default:
			r.Undecided(rule, construct, site, "Set and Delete work differently (one records in the batch, the other calls out); cannot tell how their relative order is kept")
		}
	}
	// ---- methods of recording types that give the slice out (Mutations())
	for _, bi := range ctx.recording {
		n := bi.typ
		for i := 0; i < n.NumMethods(); i++ {
			fn := p.SSA.FuncValue(n.Method(i))
			if fn == nil || fn.Blocks == nil {
				continue
			}
			sig := fn.Signature
			if sig.Params().Len() != 0 || sig.Results().Len() != 1 {
				continue
			}
			if el := c10SliceElem(sig.Results().At(0).Type()); el == nil || !c10IsSlice(sig.Results().At(0).Type()) || !types.Identical(el, bi.elem) {
				continue
			}
			sum := ctx.analyse(fn, nil, 1)
			construct, site := FuncKey(fn)+"#returns-sequence", p.Pos(fn.Pos())
			switch {
			case len(sum.viol["intact"])+len(sum.viol["pass"]) > 0:
				r.Violation(rule, construct, site, strings.Join(append(sum.viol["intact"], sum.viol["pass"]...), "; "))
			case len(sum.und["intact"])+len(sum.und["pass"]) > 0:
				r.Undecided(rule, construct, site, strings.Join(append(sum.und["intact"], sum.und["pass"]...), "; "))
			case sum.ret&c10oSeqMask == 0:
				r.Undecided(rule, construct, site, "returns a slice of mutations that is not the recorded slice or an order-preserving copy of it; CommitBatch implementations that replay its result cannot be followed")
			default:
				bi.accessors[fn] = sum.ret & c10oSeqMask
				r.OK(rule, construct, site, "returns the recorded slice "+fieldName(types.NewPointer(n), bi.seqField)+" itself (or an order-preserving copy), untouched")
			}
		}
	}
	// ---- (1) (2) (4): every declared CommitBatch
	done := map[*ssa.Function]bool{}
	for _, n := range p.Implementers(kvIface, false) {
		cb, decl := c10Method(p, n, "CommitBatch")
		if cb == nil || !decl || done[cb] {
			continue // promoted: V-size checks that it comes from an enumerated implementer
		}
		done[cb] = true
		site := p.Pos(cb.Pos())
		key := FuncKey(cb)
		var bt *c10BatchInfo
		if bb, declb := c10Method(p, n, "BeginBatch"); bb != nil && declb {
			bt = infos[NamedOf(c10BatchConcrete(bb, 0))]
		}
		sum := ctx.analyse(cb, nil, 0)
		if bt != nil && bt.kind == "direct" && sum.nSeeds == 0 {
			r.OKTable(rule, key+"#applied-at-recording", site, "BeginBatch returns "+typeKey(bt.typ)+", whose Set/Delete hand each mutation to the engine batch/transaction when they are called (see "+typeKey(bt.typ)+"#one-sequence); CommitBatch replays nothing")
			continue
		}
		if sum.nSeeds == 0 {
			r.Undecided(rule, key+"#one-ascending-pass", site, "CommitBatch never reads the recorded mutation slice of a recording batch type (neither the slice field nor a method returning it): cannot find where the batch is applied")
			continue
		}
		emit := func(clause, construct, okText string) {
			switch {
			case len(sum.viol[clause]) > 0:
				r.Violation(rule, construct, site, strings.Join(sum.viol[clause], "; "))
			case len(sum.und[clause]) > 0:
				r.Undecided(rule, construct, site, strings.Join(sum.und[clause], "; "))
			default:
				if ns := sum.notes[clause]; len(ns) > 0 {
					okText += " [" + strings.Join(ns, "; ") + "]"
				}
				r.OK(rule, construct, site, okText)
			}
		}
		emit("intact", key+"#sequence-intact", "the recorded mutation slice and every copy of it reach no reordering function, no unstable sort, no in-place element write and no code the analysis cannot follow before it is replayed")
		if len(sum.sites) == 0 && len(sum.viol["pass"])+len(sum.und["pass"]) == 0 {
			r.Undecided(rule, key+"#one-ascending-pass", site, "CommitBatch reads the recorded mutation slice but hands no mutation to a call or store: cannot find where the batch is applied")
		} else {
			emit("pass", key+"#one-ascending-pass", fmt.Sprintf("all %d place(s) that hand a mutation on sit in one loop whose counter starts at element 0, advances by one and is tested against len(slice): the batch is replayed once, first to last", len(sum.sites)))
		}
		emit("channels", key+"#one-channel-per-store", "each underlying store receives all its mutations through a single channel (direct calls, or one batch begun on it), so the replay order is the order that store sees")
	}
	r.Floor(rule, 24)
}
