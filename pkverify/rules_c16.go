package main

import (
	"fmt"
	"go/constant"
	"go/token"
	"go/types"
	"sort"
	"strings"

	"golang.org/x/tools/go/ssa"
)

func init() {
	register(&PropSpec{
		ID:    "C16",
		Title: "Signed schema blobs verify, and only untampered ones do",
		Explanation: "Decided (structural necessary conditions, all on go/ssa of the current tree). Every rule is evaluated on the EFFECTIVE BODY of the property's entry points - jsonsign.(*VerifyRequest).Verify, jsonsign.NewVerificationRequest, jsonsign.(*SignRequest).Sign, and outside package jsonsign the function that consumes a request - i.e. the entry point plus, transitively (depth 5), the same-package functions, methods and function literals it calls statically, with parameters standing for the caller's arguments and call results for the callee's returned values; a fact 'P succeeded before site S' crosses a call when S is on the success edge of the call (nil error, true, or non-nil sole result; otherwise every return counts) and inside the callee every return that may report success is itself success-dominated by P. No internal helper is anchored by name: sites are found by what they do. " +
			"J-verify: (signature check) every return of Verify whose error may be nil is dominated by err==nil of a (*packet.PublicKey).VerifySignature call; the hash handed to it is created in the effective body and fed only by Write calls whose argument is one field of Verify's receiver (the payload field), at least one of which precedes the verification; the signature packet derives from exactly one request field (the signature field); the verifying key is a load of one request field (the key field); crypto.Hash.New on the packet's hash id is reachable only through an edge on which that id equals a constant (white list; New panics for an id that is not linked in); " +
			"(order) on every path to the verification a store of the key field on the same request precedes the load of the key, a store of the signature field precedes the read that feeds the signature packet, and a store of the signer-ref field precedes the Fetch of the key blob; " +
			"(writers, module-wide, by field identity, each at its sites inside the entry points' effective bodies or else in its own function) the key field is stored only with a value derived from a blob.Fetcher.Fetch of the signer-ref field of the same request, on the success edge of the fetch and of every fallible call in between; the signer-ref field and PayloadMap are stored only from a map json.Unmarshal'ed from one and the same field of the same request (the payload-JSON field), the signer under a constant key, and every possibly-nil-error return of Verify is preceded by such a PayloadMap store; the signature field is stored only from the single constant key of a map Unmarshal'ed from the signature-bytes field, and every possibly-nil-error return of Verify is under len(map)==1 on the Unmarshal success edge; SignerKeyId is stored only on the success edge of the cryptographic verification with a value derived from the key field; " +
			"(split) the payload, payload-JSON and signature-bytes fields are stored only in NewVerificationRequest's effective body on the request it returns, as doc[:i], doc[:i+1] (with '}' stored at index i) and a value derived from doc[i+1:], where doc is the document argument and i is the result of bytes/strings.LastIndex(doc, constant separator), each slice on the i != -1 edge; the signature JSON key occurs, quoted and followed by a colon, inside that separator. " +
			"J-index: every caller of a function (outside package jsonsign) taking a *VerifyRequest parameter passes its own such parameter or a request on which Verify is known to have returned nil at the call (dominance on the err==nil edge, across helpers and statically called literals; a helper that merely constructs or returns a request is followed, not trusted); every read of an exported, non-error VerifyRequest field outside package jsonsign is on a parameter (covered by the callers rule) or on a request whose Verify call is known to have succeeded at the read (or - only if Verify is found to mirror a non-nil result into the request's error field from a call deferred before any other failing return - that field found nil after the call); at every call of Verify outside package jsonsign the verdict decides a branch or is returned; in every function of pkg/index that dispatches on (*schema.Blob).Type(), every path on which the blob type is permanode or claim reaches a possibly-nil-error return only through a call that verifies (Verify itself or a function all of whose successful returns are dominated by a successful Verify), whose own error may be returned. " +
			"J-sign: in Sign's effective body the bytes handed to openpgp.ArmoredDetachSign are exactly the string placed before the separator in the returned document, the text between them is the separator NewVerificationRequest searches for, the signature text derives from the armor buffer and is followed by '\"}', the signed string is the input minus a last byte known to be '}', and the signing entity is looked up from the public key fetched under the same JSON key the verifier reads the signer from. " +
			"NOT decided: correctness of OpenPGP, armor and JSON decoding; the outcome of any particular byte substitution, insertion or deletion; that distinct documents cannot share payload bytes; key-ring contents; anything about signature times; that reArmor inverts the single-line armor for every signature; whether callers hold on to a request after a later failed Verify; calls through function values or interfaces inside the entry points (reported Undecided/violated, not followed); what happens to the indexer's error above the dispatching function.",
		RuleDocs: map[string]string{
			"J-verify": "dominance + value dependence over the effective body of jsonsign.Verify (statically called same-package functions and literals followed, arguments mapped to parameters): success return behind packet.PublicKey.VerifySignature==nil over a hash fed only with the payload field; hash-id white list; stores of key/signature/signer precede their reads; module-wide writers of the key/signer/signature/payload-map/key-id fields by value derivation on success edges; one-key guard; the LastIndex split in NewVerificationRequest",
			"J-index":  "who-may-read / who-may-pass: every *VerifyRequest passed to a function or having an exported field read outside package jsonsign is one on which Verify is known to have returned nil (across helpers); no caller of Verify ignores its verdict; signed blob types (permanode, claim) are dispatched through a verifying call in the indexer",
			"J-sign":   "agreement between Sign (effective body) and the verifier: signed bytes == bytes before the separator, same separator constant, same signer JSON key, closing brace cut",
		},
		Run:       runC16,
		DesignRef: "DESIGN.md §4 C16",
		Technique: "static analysis: interprocedural (context-sensitive, bounded call strings over statically resolved same-package callees) dominance on success edges, backward value dependence and forward use tracking across calls, module-wide field-writer enumeration over go/ssa, guarded-edge reachability; constant agreement between signer and verifier",
		LevelText: "Decides structural necessary conditions only: acceptance by Verify is dominated by the cryptographic check over the payload bytes split at the last separator, with the key fetched under the signer named in those bytes; the indexer and the sign handler read verification results only from requests known verified; Sign signs exactly what it places before the separator. The conditions are stated about the entry points' effective bodies, so they do not depend on how the code is divided into helpers. Does not decide OpenPGP/JSON correctness nor the result of any concrete tampering.",
	})
}

const (
	c16Pkg     = "pkg/jsonsign"
	c16PktPath = "golang.org/x/crypto/openpgp/packet"
)

type c16State struct {
	p   *Program
	r   *Reporter
	vrT *types.Named
	ix  *c16FieldIndex

	effs    map[*ssa.Function]*c16Eff
	vrFuncs map[*ssa.Function]bool // functions (and literals) that mention a VerifyRequest at all

	V      *c16Eff   // effective body of Verify
	recv   c16CV     // Verify's receiver
	crypto []c16Site // the cryptographic verification calls in V

	// roles discovered while checking (field names of VerifyRequest)
	payloadField string // bytes that are hashed (bp)
	sigField     string // single-line armor (CamliSig)
	keyField     string // public key packet
	signerField  string // ref of the public key blob (CamliSigner)
	bpjField     string // payload JSON bytes (bpj)
	bsField      string // signature JSON bytes (bs)
	signerKey    string // JSON key the signer ref is read from
	sigKey       string // JSON key the signature is read from
	sep          string // separator constant searched by NewVerificationRequest
	sepKnown     bool
	fetchCalls   []*ssa.Call // Fetch calls the key field derives from
	verifyingM   map[*ssa.Function]int
	demanded     map[*ssa.Parameter]bool // *VerifyRequest parameters through which a verified request is demanded
	demandQ      []*ssa.Parameter
	errField     string // error-typed field that Verify is known to leave non-nil whenever it returns an error ("" if not established)
}

func runC16(p *Program, r *Reporter) {
	// helpers.go memoises per-Alloc facts in a process-global map; across selftest
	// mutants that map keeps every earlier Program alive (~3 GB each). It is only
	// a memo, so dropping it is harmless.
	plainVarCache = map[*ssa.Alloc]bool{}
	s := &c16State{p: p, r: r, vrT: p.NamedType(c16Pkg, "VerifyRequest"),
		effs: map[*ssa.Function]*c16Eff{}, vrFuncs: map[*ssa.Function]bool{}, verifyingM: map[*ssa.Function]int{}}
	s.ix = c16BuildIndex(p, s.vrT, s.vrFuncs)
	r.Analysed("functions", len(p.AllFuncs))
	s.ruleVerify()
	s.findErrChannel()
	s.ruleHashGuard()
	s.ruleKeyWriters()
	s.ruleSignerAndPayloadWriters()
	s.ruleSigWriters()
	s.ruleSignerKeyID()
	s.ruleOrder()
	s.ruleSplit()
	r.Floor("J-verify", 17)
	s.ruleReads()
	s.ruleCallers()
	s.ruleSignedTypes()
	s.ruleVerifyCallers()
	r.Floor("J-index", 12)
	s.ruleSign()
	r.Floor("J-sign", 4)
}

// ---------------------------------------------------------------------------
// module-wide index of accesses to VerifyRequest fields

type c16FieldIndex struct {
	stores  map[string][]*ssa.Store
	loads   map[string][]*ssa.UnOp
	escapes map[string][]ssa.Instruction // address taken / value-struct field access
	whole   []ssa.Instruction            // whole-struct stores or copies
}

func c16BuildIndex(p *Program, n *types.Named, vrFuncs map[*ssa.Function]bool) *c16FieldIndex {
	ix := &c16FieldIndex{stores: map[string][]*ssa.Store{}, loads: map[string][]*ssa.UnOp{}, escapes: map[string][]ssa.Instruction{}}
	mentions := func(t types.Type) bool {
		if tu, ok := t.(*types.Tuple); ok {
			for i := 0; i < tu.Len(); i++ {
				if NamedOf(tu.At(i).Type()) == n {
					return true
				}
			}
			return false
		}
		return NamedOf(t) == n
	}
	for _, fn := range p.AllFuncs {
		for _, prm := range fn.Params {
			if mentions(prm.Type()) {
				vrFuncs[fn] = true
			}
		}
		if mentions(fn.Signature.Results()) {
			vrFuncs[fn] = true
		}
		for _, b := range fn.Blocks {
			for _, in := range b.Instrs {
				if v, ok := in.(ssa.Value); ok && v.Type() != nil && mentions(v.Type()) {
					vrFuncs[fn] = true
				}
				switch x := in.(type) {
				case *ssa.FieldAddr:
					if NamedOf(x.X.Type()) != n {
						continue
					}
					name := fieldName(x.X.Type(), x.Field)
					refs := x.Referrers()
					if refs == nil {
						continue
					}
					for _, u := range *refs {
						switch y := u.(type) {
						case *ssa.Store:
							if y.Addr == ssa.Value(x) {
								ix.stores[name] = append(ix.stores[name], y)
							} else {
								ix.escapes[name] = append(ix.escapes[name], y)
							}
						case *ssa.UnOp:
							if y.Op == token.MUL {
								ix.loads[name] = append(ix.loads[name], y)
							} else {
								ix.escapes[name] = append(ix.escapes[name], y)
							}
						case *ssa.DebugRef:
						default:
							ix.escapes[name] = append(ix.escapes[name], u)
						}
					}
				case *ssa.Field:
					if t, ok := x.X.Type().(*types.Named); ok && t == n {
						ix.escapes[fieldName(types.NewPointer(t), x.Field)] = append(ix.escapes[fieldName(types.NewPointer(t), x.Field)], x)
					}
				case *ssa.Store:
					if t, ok := x.Val.Type().(*types.Named); ok && t == n {
						ix.whole = append(ix.whole, x)
					}
				case *ssa.UnOp:
					if t, ok := x.Type().(*types.Named); ok && t == n && x.Op == token.MUL {
						ix.whole = append(ix.whole, x)
					}
				}
			}
		}
	}
	// a literal inside a function that mentions requests may capture one
	for _, fn := range p.AllFuncs {
		if fn.Parent() != nil && vrFuncs[TopFunc(fn)] {
			vrFuncs[fn] = true
		}
	}
	return ix
}

// writers returns the module-wide stores to field f; why != "" when the set
// cannot be trusted to be complete (address escapes, whole-struct copies).
func (s *c16State) writers(f string) (sts []*ssa.Store, why string) {
	if len(s.ix.whole) > 0 {
		return s.ix.stores[f], fmt.Sprintf("a VerifyRequest is copied or assigned as a whole at %s; field writers cannot be enumerated", s.p.Pos(s.ix.whole[0].Pos()))
	}
	if e := s.ix.escapes[f]; len(e) > 0 {
		return s.ix.stores[f], fmt.Sprintf("the address of field %s escapes at %s; its writers cannot be enumerated", f, s.p.Pos(e[0].Pos()))
	}
	return s.ix.stores[f], ""
}

func (s *c16State) hasField(f string) bool {
	st := s.vrT.Underlying().(*types.Struct)
	for i := 0; i < st.NumFields(); i++ {
		if st.Field(i).Name() == f {
			return true
		}
	}
	return false
}

func (s *c16State) fieldKey(f string) string { return c16Pkg + ".VerifyRequest." + f }

func (s *c16State) line(pos token.Pos) int { return s.p.Fset.Position(pos).Line }

func (s *c16State) verifyFn() *ssa.Function { return s.p.Func(c16Pkg, "VerifyRequest", "Verify") }

func c16InPkg(fn *ssa.Function, rel string) bool {
	t := TopFunc(fn)
	return t.Pkg != nil && RelPkg(t.Pkg.Pkg) == rel
}

func c16Last(b *ssa.BasicBlock) ssa.Instruction { return b.Instrs[len(b.Instrs)-1] }

// ---------------------------------------------------------------------------
// branch facts (intraprocedural)

func c16StripNot(cond ssa.Value, val bool) (ssa.Value, bool) {
	for {
		if u, ok := cond.(*ssa.UnOp); ok && u.Op == token.NOT {
			cond, val = u.X, !val
			continue
		}
		return cond, val
	}
}

func c16BoolConst(v ssa.Value) (val, ok bool) {
	c, isC := v.(*ssa.Const)
	if !isC || c.Value == nil || c.Value.Kind() != constant.Bool {
		return false, false
	}
	return constant.BoolVal(c.Value), true
}

// c16Facts is FactsAt plus what a boolean phi built by && / || implies: when
// `a && b` is known true (or `a || b` known false) only one incoming edge of
// the phi is not the excluded constant, so that edge's value has the known
// truth value and the facts of its predecessor block hold too.
func c16Facts(b *ssa.BasicBlock) []CondFact {
	f, _ := c16FactsV(b)
	return f
}

// c16FactsV also returns the blocks that such a phi fact shows to have been
// executed although they do not dominate b (the right operand of the && / ||).
func c16FactsV(b *ssa.BasicBlock) ([]CondFact, []*ssa.BasicBlock) {
	out := append([]CondFact(nil), FactsAt(b)...)
	var visited []*ssa.BasicBlock
	for i := 0; i < len(out) && len(out) < 96; i++ {
		cond, val := c16StripNot(out[i].Cond, out[i].Val)
		ph, ok := cond.(*ssa.Phi)
		if !ok {
			continue
		}
		live := -1
		n := 0
		for j, e := range ph.Edges {
			if cv, isC := c16BoolConst(e); isC && cv != val {
				continue
			}
			live = j
			n++
		}
		if n != 1 || live >= len(ph.Block().Preds) {
			continue
		}
		pred := ph.Block().Preds[live]
		visited = append(visited, pred)
		out = append(out, CondFact{ph.Edges[live], val, pred})
		out = append(out, FactsAt(pred)...)
	}
	return out, visited
}

// c16Precedes: a executes before at on every path to at - by dominance, or
// because a branch fact at `at` shows a's block to have been executed.
func c16Precedes(a, at ssa.Instruction) bool {
	if Precedes(a, at) {
		return true
	}
	if a.Parent() != at.Parent() {
		return false
	}
	_, visited := c16FactsV(at.Block())
	for _, vb := range visited {
		if a.Block() == vb || a.Block().Dominates(vb) {
			return true
		}
	}
	return false
}

// c16Returns is Returns, except that the load of a local variable is only
// replaced by the value last stored when it is go/ssa's spill of a named
// result around rundefers - `return m` of an ordinary address-taken local
// stays a load of that variable.
func c16Returns(fn *ssa.Function) []ReturnInfo {
	var out []ReturnInfo
	for _, b := range fn.Blocks {
		if b == fn.Recover || len(b.Instrs) == 0 {
			continue
		}
		ret, ok := c16Last(b).(*ssa.Return)
		if !ok {
			continue
		}
		ri := ReturnInfo{Ret: ret}
		for _, rv := range ret.Results {
			v := rv
			if ld, ok := rv.(*ssa.UnOp); ok && ld.Op == token.MUL && ld.Block() == b {
				spilled := false
				for _, in := range b.Instrs {
					if in == ssa.Instruction(ld) {
						break
					}
					if _, isRD := in.(*ssa.RunDefers); isRD {
						spilled = true
					}
				}
				if spilled {
					v = resolveReturnValue(rv, ret)
				}
			}
			ri.Results = append(ri.Results, v)
		}
		out = append(out, ri)
	}
	return out
}

func c16NilFact(b *ssa.BasicBlock, v ssa.Value) (known, isNil bool) {
	for _, f := range c16Facts(b) {
		if k, n := condSaysNil(f.Cond, f.Val, v); k {
			return true, n
		}
	}
	return false, false
}

// c16BoolFact: what the dominating branches at b say about the boolean v.
func c16BoolFact(b *ssa.BasicBlock, v ssa.Value) (known, val bool) {
	for _, f := range c16Facts(b) {
		cond, fv := c16StripNot(f.Cond, f.Val)
		if cond == v || originValue(cond) == originValue(v) {
			return true, fv
		}
	}
	return false, false
}

// c16IntCond interprets (cond, val) as a statement about `x == k` for an x
// accepted by match.
func c16IntCond(cond ssa.Value, val bool, match func(ssa.Value) bool, k int64) (known, equal bool) {
	cond, val = c16StripNot(cond, val)
	bo, ok := cond.(*ssa.BinOp)
	if !ok {
		return false, false
	}
	x, y, op := bo.X, bo.Y, bo.Op
	if _, isConst := x.(*ssa.Const); isConst {
		x, y = y, x
		switch op {
		case token.LSS:
			op = token.GTR
		case token.GTR:
			op = token.LSS
		case token.LEQ:
			op = token.GEQ
		case token.GEQ:
			op = token.LEQ
		}
	}
	c, ok := ConstInt(y)
	if !ok || !match(x) {
		return false, false
	}
	switch {
	case op == token.EQL && c == k:
		return true, val
	case op == token.NEQ && c == k:
		return true, !val
	case op == token.LSS && c == k+1 && !val && k == -1: // !(v < 0) for k == -1: v >= 0
		return true, false
	case op == token.GEQ && c == k+1 && val && k == -1: // v >= 0
		return true, false
	case op == token.GTR && c == k && val && k == -1: // v > -1
		return true, false
	}
	return false, false
}

// c16KnownNonNilReload: v re-loads a field path (e.g. vr.Err) that a dominating
// branch has just tested non-nil, with no call or heap store in between.
func c16KnownNonNilReload(v ssa.Value, at *ssa.BasicBlock) bool {
	ld, ok := v.(*ssa.UnOp)
	if !ok || ld.Op != token.MUL {
		return false
	}
	path := AccessPath(ld)
	if strings.Contains(path, "?") {
		return false
	}
	quiet := func(ins []ssa.Instruction) bool {
		for _, in := range ins {
			switch x := in.(type) {
			case ssa.CallInstruction:
				return false
			case *ssa.Store:
				if _, isLocal := x.Addr.(*ssa.Alloc); !isLocal {
					return false
				}
			}
		}
		return true
	}
	for _, f := range FactsAt(at) {
		bo, ok := f.Cond.(*ssa.BinOp)
		if !ok || (bo.Op != token.NEQ && bo.Op != token.EQL) {
			continue
		}
		var other ssa.Value
		if IsNilConst(bo.Y) {
			other = bo.X
		} else if IsNilConst(bo.X) {
			other = bo.Y
		} else {
			continue
		}
		nonNil := (bo.Op == token.NEQ) == f.Val
		o, ok := other.(*ssa.UnOp)
		if !nonNil || !ok || o.Op != token.MUL || AccessPath(o) != path || o.Block() != f.At {
			continue
		}
		if ld.Block() != at || len(at.Preds) != 1 || at.Preds[0] != f.At {
			continue
		}
		if quiet(f.At.Instrs[instrIndex(o)+1:]) && quiet(at.Instrs[:instrIndex(ld)]) {
			return true
		}
	}
	return false
}

// ---------------------------------------------------------------------------
// success notions

const (
	c16KindNone    = iota // no indicator: every return counts
	c16KindErr            // trailing error result: success = nil
	c16KindBool           // trailing bool result: success = true
	c16KindNilable        // sole pointer-like result: success = non-nil
)

func c16Nilable(t types.Type) bool {
	switch t.Underlying().(type) {
	case *types.Pointer, *types.Map, *types.Slice, *types.Interface, *types.Chan, *types.Signature:
		return true
	}
	return false
}

func c16SuccessKind(sig *types.Signature) (kind, idx int) {
	res := sig.Results()
	n := res.Len()
	if n == 0 {
		return c16KindNone, -1
	}
	last := res.At(n - 1).Type()
	if isErrorType(last) {
		return c16KindErr, n - 1
	}
	if b, ok := last.Underlying().(*types.Basic); ok && b.Kind() == types.Bool {
		return c16KindBool, n - 1
	}
	if n == 1 && c16Nilable(last) {
		return c16KindNilable, 0
	}
	return c16KindNone, -1
}

func c16IsZeroConst(v ssa.Value) bool {
	c, ok := v.(*ssa.Const)
	if !ok {
		return false
	}
	if c.Value == nil {
		return true
	}
	switch c.Value.Kind() {
	case constant.Bool:
		return !constant.BoolVal(c.Value)
	case constant.String:
		return constant.StringVal(c.Value) == ""
	case constant.Int, constant.Float:
		return constant.Sign(c.Value) == 0
	}
	return false
}

// c16FailureValue: v, as the success indicator of the given kind, always
// reports failure.
func c16FailureValue(v ssa.Value, kind int) bool {
	switch kind {
	case c16KindErr:
		return !IsNilConst(v) && isNonNilErrorExpr(v)
	case c16KindBool:
		b, ok := c16BoolConst(v)
		return ok && !b
	case c16KindNilable:
		return IsNilConst(v)
	}
	return false
}

// c16AlwaysFails: result i of f reports failure on every return (such as
// (*VerifyRequest).fail, or a closure that only builds an error).
func c16AlwaysFails(f *ssa.Function, i, kind int, depth int) bool {
	if f == nil || f.Blocks == nil || depth > 3 {
		return false
	}
	rets := c16Returns(f)
	if len(rets) == 0 {
		return false
	}
	for _, ri := range rets {
		if i >= len(ri.Results) {
			return false
		}
		v := ri.Results[i]
		if c16FailureValue(v, kind) {
			continue
		}
		if call, idx := c16CallResult(originValue(v)); call != nil {
			if g := (CallSite{call.Parent(), call}).Callee(); g != nil && g != f && c16AlwaysFails(g, idx, kind, depth+1) {
				continue
			}
		}
		return false
	}
	return true
}

// c16CallResult: v is result idx of call (the call itself for single results).
func c16CallResult(v ssa.Value) (*ssa.Call, int) {
	switch x := v.(type) {
	case *ssa.Call:
		if x.Call.Signature().Results().Len() == 1 {
			return x, 0
		}
	case *ssa.Extract:
		if c, ok := x.Tuple.(*ssa.Call); ok {
			return c, x.Index
		}
	}
	return nil, 0
}

// c16CallOK: every path to instruction at (of the same function) has passed
// through call c and c reported success there. exitVal, when given, is the
// indicator value being returned at `at`: returning c's own verdict is being on
// its success edge whenever the return reports success.
func c16CallOK(c *ssa.Call, at ssa.Instruction, exitVal ssa.Value) (bool, string) {
	if !c16Precedes(c, at) {
		return false, "the call does not dominate the site"
	}
	sig := c.Call.Signature()
	kind, idx := c16SuccessKind(sig)
	if kind == c16KindNone {
		return true, ""
	}
	ind := ResultValue(c, idx)
	if exitVal != nil && ind != nil && sameOrigin(exitVal, ind) {
		return true, ""
	}
	b := at.Block()
	switch kind {
	case c16KindErr:
		discarded := ind == nil
		if ind != nil {
			if refs := ind.Referrers(); refs == nil || len(nonDebug(*refs)) == 0 {
				discarded = true
			}
			if k, isNil := c16NilFact(b, ind); k && isNil {
				return true, ""
			}
		}
		// failure excluded through the primary result instead (`x, _ := f(); if x == nil {return}`)
		if sig.Results().Len() >= 2 && c16Nilable(sig.Results().At(0).Type()) {
			if r0 := ResultValue(c, 0); r0 != nil {
				if k, isNil := c16NilFact(b, r0); k && !isNil {
					return true, ""
				}
			}
		}
		if discarded {
			return false, "the error result of the call is discarded"
		}
		return false, "the site is not on the err==nil edge of the call"
	case c16KindBool:
		if ind == nil {
			return false, "the boolean result of the call is ignored"
		}
		if k, val := c16BoolFact(b, ind); k {
			if val {
				return true, ""
			}
			return false, "the site is on the false edge of the call"
		}
		return false, "the site is not on the true edge of the call"
	default:
		if k, isNil := c16NilFact(b, c); k && !isNil {
			return true, ""
		}
		return false, "the result of the call is not known non-nil at the site"
	}
}

// ---------------------------------------------------------------------------
// Effective bodies: a root function plus, transitively, the statically called
// functions it admits, each call site giving a context in which the callee's
// parameters stand for the call's arguments and the call's results for the
// callee's returned values.

const c16MaxDepth = 5

type c16Ctx struct {
	parent *c16Ctx
	call   ssa.CallInstruction // the call (or defer) in parent.fn that enters fn; nil for a root or detached context
	fn     *ssa.Function
	depth  int
	kids   map[ssa.CallInstruction]*c16Ctx
}

type c16CV struct {
	ctx *c16Ctx
	v   ssa.Value
}

type c16Site struct {
	ctx *c16Ctx
	in  ssa.Instruction
}

type c16Eff struct {
	s     *c16State
	root  *c16Ctx
	admit func(*ssa.Function) bool
	det   map[*ssa.Function]*c16Ctx
	ctxs  []*c16Ctx
	exits map[*c16Ctx][]c16Exit
	memo  map[c16MemoKey]c16MemoVal
}

type c16MemoKey struct {
	ev          c16Event
	h           *c16Ctx
	successOnly bool
}

type c16MemoVal struct {
	ok  bool
	why string
}

// eff returns the effective body rooted at fn. Callees are admitted when they
// live in fn's package and, outside package jsonsign, mention a VerifyRequest.
func (s *c16State) eff(fn *ssa.Function) *c16Eff {
	if e := s.effs[fn]; e != nil {
		return e
	}
	pkg := TopFunc(fn).Pkg
	all := c16InPkg(fn, c16Pkg)
	e := &c16Eff{s: s, det: map[*ssa.Function]*c16Ctx{}, exits: map[*c16Ctx][]c16Exit{}, memo: map[c16MemoKey]c16MemoVal{}}
	e.admit = func(f *ssa.Function) bool {
		return TopFunc(f).Pkg == pkg && pkg != nil && (all || s.vrFuncs[f])
	}
	e.root = &c16Ctx{fn: fn, kids: map[ssa.CallInstruction]*c16Ctx{}}
	s.effs[fn] = e
	return e
}

func (e *c16Eff) detached(fn *ssa.Function) *c16Ctx {
	if fn == e.root.fn {
		return e.root
	}
	if c := e.det[fn]; c != nil {
		return c
	}
	c := &c16Ctx{fn: fn, kids: map[ssa.CallInstruction]*c16Ctx{}}
	e.det[fn] = c
	return c
}

// child returns the context entered by call (a *ssa.Call or *ssa.Defer of
// ctx.fn), or nil when the callee is not followed.
func (e *c16Eff) child(ctx *c16Ctx, call ssa.CallInstruction) *c16Ctx {
	if k, ok := ctx.kids[call]; ok {
		return k
	}
	var k *c16Ctx
	cc := call.Common()
	if !cc.IsInvoke() && call.Parent() == ctx.fn && ctx.depth < c16MaxDepth {
		f := (CallSite{ctx.fn, call}).Callee()
		if f != nil && f.Blocks != nil && e.admit(f) && len(f.Params) == len(cc.Args) {
			rec := false
			for c := ctx; c != nil; c = c.parent {
				if c.fn == f {
					rec = true
				}
			}
			if !rec {
				k = &c16Ctx{parent: ctx, call: call, fn: f, depth: ctx.depth + 1, kids: map[ssa.CallInstruction]*c16Ctx{}}
			}
		}
	}
	ctx.kids[call] = k
	return k
}

// contexts enumerates the root and every context reached through plain calls.
func (e *c16Eff) contexts() []*c16Ctx {
	if e.ctxs != nil {
		return e.ctxs
	}
	e.ctxs = []*c16Ctx{e.root}
	for i := 0; i < len(e.ctxs) && len(e.ctxs) < 500; i++ {
		c := e.ctxs[i]
		for _, b := range c.fn.Blocks {
			for _, in := range b.Instrs {
				if call, ok := in.(*ssa.Call); ok {
					if k := e.child(c, call); k != nil {
						e.ctxs = append(e.ctxs, k)
					}
				}
			}
		}
	}
	return e.ctxs
}

// calls lists the call sites of the effective body satisfying pred.
func (e *c16Eff) calls(pred func(CallSite) bool) []c16Site {
	var out []c16Site
	for _, c := range e.contexts() {
		for _, b := range c.fn.Blocks {
			for _, in := range b.Instrs {
				if ci, ok := in.(ssa.CallInstruction); ok && pred(CallSite{c.fn, ci}) {
					out = append(out, c16Site{c, in})
				}
			}
		}
	}
	return out
}

// sitesOf lists the contexts in which instruction in occurs.
func (e *c16Eff) sitesOf(in ssa.Instruction) []c16Site {
	var out []c16Site
	for _, c := range e.contexts() {
		if c.fn == in.Parent() {
			out = append(out, c16Site{c, in})
		}
	}
	return out
}

func c16Chain(c *c16Ctx) []*c16Ctx {
	var out []*c16Ctx
	for ; c != nil; c = c.parent {
		out = append(out, c)
	}
	for i, j := 0, len(out)-1; i < j; i, j = i+1, j-1 {
		out[i], out[j] = out[j], out[i]
	}
	return out
}

func c16Owner(v ssa.Value) *ssa.Function {
	switch x := v.(type) {
	case *ssa.Parameter:
		return x.Parent()
	case *ssa.FreeVar:
		return x.Parent()
	case ssa.Instruction:
		return x.Parent()
	}
	return nil
}

// ctxFor: the context, seen from ctx, of a value owned by fn (an enclosing
// function when ctx is a literal that captured it).
func (e *c16Eff) ctxFor(ctx *c16Ctx, fn *ssa.Function) *c16Ctx {
	if fn == nil || ctx.fn == fn {
		return ctx
	}
	for c := ctx; c != nil; c = c.parent {
		if c.fn == fn {
			return c
		}
	}
	return e.detached(fn)
}

func (e *c16Eff) argOf(ctx *c16Ctx, prm *ssa.Parameter) (c16CV, bool) {
	if ctx.call == nil || prm.Parent() != ctx.fn {
		return c16CV{}, false
	}
	args := ctx.call.Common().Args
	for i, q := range ctx.fn.Params {
		if q == prm && i < len(args) {
			return c16CV{ctx.parent, args[i]}, true
		}
	}
	return c16CV{}, false
}

// origin resolves a value to where it comes from: through value-preserving
// wrappers and single-assignment variables (originValue), from a callee's
// parameter to the caller's argument, and from the result of a followed call
// to the one non-zero value the callee returns there.
func (e *c16Eff) origin(cv c16CV) c16CV { return e.originN(cv, 0) }

func (e *c16Eff) originN(cv c16CV, depth int) c16CV {
	for i := 0; i < 40 && cv.v != nil; i++ {
		v := originValue(cv.v)
		cv = c16CV{e.ctxFor(cv.ctx, c16Owner(v)), v}
		switch x := v.(type) {
		case *ssa.Parameter:
			if a, ok := e.argOf(cv.ctx, x); ok {
				cv = a
				continue
			}
		case *ssa.Call, *ssa.Extract:
			if call, idx := c16CallResult(x); call != nil && depth < 12 {
				if r, ok := e.uniqueResult(cv.ctx, call, idx, depth+1); ok {
					cv = r
					continue
				}
			}
		}
		return cv
	}
	return cv
}

func (e *c16Eff) uniqueResult(ctx *c16Ctx, call *ssa.Call, idx, depth int) (c16CV, bool) {
	child := e.child(ctx, call)
	if child == nil {
		return c16CV{}, false
	}
	var uniq *c16CV
	for _, ri := range c16Returns(child.fn) {
		if idx >= len(ri.Results) {
			return c16CV{}, false
		}
		r := e.originN(c16CV{child, ri.Results[idx]}, depth)
		if c16IsZeroConst(r.v) || e.zeroResult(r, 0) {
			continue
		}
		if uniq == nil {
			rr := r
			uniq = &rr
		} else if *uniq != r {
			return c16CV{}, false
		}
	}
	if uniq == nil {
		return c16CV{}, false
	}
	return *uniq, true
}

// zeroResult: cv is the result of a followed call that yields the zero value
// on every return (such as the string result of a closure that only builds an
// error).
func (e *c16Eff) zeroResult(cv c16CV, depth int) bool {
	call, idx := c16CallResult(cv.v)
	if call == nil || depth > 3 {
		return false
	}
	child := e.child(cv.ctx, call)
	if child == nil {
		return false
	}
	rets := c16Returns(child.fn)
	for _, ri := range rets {
		if idx >= len(ri.Results) {
			return false
		}
		r := e.origin(c16CV{child, ri.Results[idx]})
		if !c16IsZeroConst(r.v) && !e.zeroResult(r, depth+1) {
			return false
		}
	}
	return len(rets) > 0
}

// slice returns the backward dependence slice of a value across contexts:
// operands, all stores to loaded variables, arguments behind parameters and
// returned values behind the results of followed calls.
func (e *c16Eff) slice(start c16CV) []c16CV {
	seen := map[c16CV]bool{}
	var out []c16CV
	add := func(cv c16CV) bool {
		if seen[cv] {
			return false
		}
		seen[cv] = true
		out = append(out, cv)
		return true
	}
	var walk func(cv c16CV, d int)
	walk = func(cv c16CV, d int) {
		if cv.v == nil || d > 120 {
			return
		}
		cv.ctx = e.ctxFor(cv.ctx, c16Owner(cv.v))
		if !add(cv) {
			return
		}
		switch x := cv.v.(type) {
		case *ssa.Parameter:
			if a, ok := e.argOf(cv.ctx, x); ok {
				walk(a, d+1)
			}
			return
		case *ssa.FreeVar:
			if b := bindingOf(x); b != nil {
				walk(c16CV{cv.ctx, b}, d+1)
			}
			return
		case *ssa.UnOp:
			if x.Op == token.MUL {
				if cell, ok := varOf(x.X); ok {
					if cell != x.X {
						add(c16CV{e.ctxFor(cv.ctx, c16Owner(cell)), cell})
					}
					for _, st := range storesTo(cell) {
						walk(c16CV{e.ctxFor(cv.ctx, st.Parent()), st.Val}, d+1)
					}
				}
			}
		case *ssa.Call, *ssa.Extract:
			if call, idx := c16CallResult(x); call != nil {
				if child := e.child(cv.ctx, call); child != nil {
					// the returned values, and (what a callee does to its arguments
					// through calls is not followed) the arguments as well
					add(c16CV{cv.ctx, call})
					for _, ri := range c16Returns(child.fn) {
						if idx < len(ri.Results) {
							walk(c16CV{child, ri.Results[idx]}, d+1)
						}
					}
					for _, a := range call.Call.Args {
						walk(c16CV{cv.ctx, a}, d+1)
					}
					return
				}
			}
		}
		if in, ok := cv.v.(ssa.Instruction); ok {
			for _, op := range in.Operands(nil) {
				if *op != nil {
					walk(c16CV{cv.ctx, *op}, d+1)
				}
			}
		}
	}
	walk(start, 0)
	return out
}

// c16Use is a terminal use of a tracked value: an instruction that consumes
// it other than by passing it on.
type c16Use struct {
	site c16Site
	val  ssa.Value // the tracked value as the instruction sees it
}

// uses tracks a value forward: through conversions, phis, local variables,
// into followed callees (argument -> parameter) and back out (return ->
// call result).
func (e *c16Eff) uses(start c16CV) []c16Use {
	seen := map[c16CV]bool{}
	var out []c16Use
	var walk func(cv c16CV)
	walk = func(cv c16CV) {
		if seen[cv] {
			return
		}
		seen[cv] = true
		refs := cv.v.Referrers()
		if refs == nil {
			return
		}
		for _, u := range nonDebug(*refs) {
			switch x := u.(type) {
			case *ssa.MakeInterface:
				walk(c16CV{cv.ctx, x})
			case *ssa.ChangeType:
				walk(c16CV{cv.ctx, x})
			case *ssa.ChangeInterface:
				walk(c16CV{cv.ctx, x})
			case *ssa.Phi:
				walk(c16CV{cv.ctx, x})
			case *ssa.Store:
				al, isAl := x.Addr.(*ssa.Alloc)
				if x.Val == cv.v && isAl && plainVariable(al) && al.Referrers() != nil {
					for _, r := range nonDebug(*al.Referrers()) {
						if ld, ok := r.(*ssa.UnOp); ok && ld.Op == token.MUL {
							walk(c16CV{cv.ctx, ld})
						} else if _, isMC := r.(*ssa.MakeClosure); isMC {
							out = append(out, c16Use{c16Site{cv.ctx, r}, cv.v})
						}
					}
					continue
				}
				out = append(out, c16Use{c16Site{cv.ctx, u}, cv.v})
			case *ssa.Return:
				call, isCall := cv.ctx.call.(*ssa.Call)
				if cv.ctx.call == nil || !isCall {
					out = append(out, c16Use{c16Site{cv.ctx, u}, cv.v})
					continue
				}
				for i, rv := range x.Results {
					if rv != cv.v {
						continue
					}
					if len(x.Results) == 1 {
						walk(c16CV{cv.ctx.parent, call})
					} else if cr := call.Referrers(); cr != nil {
						for _, r := range *cr {
							if ex, ok := r.(*ssa.Extract); ok && ex.Index == i {
								walk(c16CV{cv.ctx.parent, ex})
							}
						}
					}
				}
			case *ssa.Call:
				if child := e.child(cv.ctx, x); child != nil {
					for i, a := range x.Call.Args {
						if a == cv.v && i < len(child.fn.Params) {
							walk(c16CV{child, child.fn.Params[i]})
						}
					}
					continue
				}
				out = append(out, c16Use{c16Site{cv.ctx, u}, cv.v})
			default:
				out = append(out, c16Use{c16Site{cv.ctx, u}, cv.v})
			}
		}
	}
	walk(start)
	return out
}

// ---------------------------------------------------------------------------
// success exits

// c16Exit is a way for a context's function to return reporting success.
// When the function forwards a followed callee's verdict the exit lies inside
// the callee; sites then lists the return points from the innermost outwards,
// and anything that holds at one of them holds when the function returns.
type c16Exit struct {
	ret    *ssa.Return // the return of the function the exits were asked for
	inner  *ssa.Return // the innermost return (for messages)
	sites  []c16Site
	val    c16CV     // the indicator value at the innermost site (nil value when there is no indicator)
	assume []c16Fact // the indicator is this condition, known true on success
	via    []c16Site // followed calls whose verdict this exit forwards: the exit is their success
}

type c16Fact struct {
	ctx  *c16Ctx
	cond ssa.Value
	val  bool
}

func (e *c16Eff) allReturns(ctx *c16Ctx) []c16Exit {
	var out []c16Exit
	for _, ri := range c16Returns(ctx.fn) {
		out = append(out, c16Exit{ret: ri.Ret, inner: ri.Ret, sites: []c16Site{{ctx, ri.Ret}}})
	}
	return out
}

func (e *c16Eff) successExits(ctx *c16Ctx) []c16Exit {
	if x, ok := e.exits[ctx]; ok {
		return x
	}
	e.exits[ctx] = nil // recursion guard
	kind, idx := c16SuccessKind(ctx.fn.Signature)
	var out []c16Exit
	if kind == c16KindNone {
		out = e.allReturns(ctx)
	} else {
		for _, ri := range c16Returns(ctx.fn) {
			out = append(out, e.classify(ctx, ri.Ret, ri.Results[idx], ri.Ret.Block(), kind, 0)...)
		}
	}
	e.exits[ctx] = out
	return out
}

func (e *c16Eff) classify(ctx *c16Ctx, ret *ssa.Return, v ssa.Value, at *ssa.BasicBlock, kind, depth int) []c16Exit {
	mk := func() c16Exit {
		return c16Exit{ret: ret, inner: ret, val: c16CV{ctx, v}, sites: []c16Site{{ctx, c16Last(at)}}}
	}
	switch kind {
	case c16KindErr:
		if IsNilConst(v) {
			return []c16Exit{mk()}
		}
		if k, isNil := c16NilFact(at, v); k && !isNil {
			return nil
		}
		if isNonNilErrorExpr(v) || c16KnownNonNilReload(v, at) {
			return nil
		}
	case c16KindBool:
		if b, ok := c16BoolConst(v); ok {
			if b {
				return []c16Exit{mk()}
			}
			return nil
		}
		if k, val := c16BoolFact(at, v); k {
			if val {
				return []c16Exit{mk()}
			}
			return nil
		}
	case c16KindNilable:
		if IsNilConst(v) {
			return nil
		}
		if k, isNil := c16NilFact(at, v); k && isNil {
			return nil
		}
	}
	if ph, ok := v.(*ssa.Phi); ok && depth < 6 {
		var out []c16Exit
		for i, ev := range ph.Edges {
			if i < len(ph.Block().Preds) {
				out = append(out, e.classify(ctx, ret, ev, ph.Block().Preds[i], kind, depth+1)...)
			}
		}
		return out
	}
	ov := originValue(v)
	if call, ridx := c16CallResult(ov); call != nil && call.Parent() == ctx.fn && depth < 8 {
		f := (CallSite{ctx.fn, call}).Callee()
		if f != nil && f.Blocks != nil {
			child := e.child(ctx, call)
			if child == nil {
				if c16AlwaysFails(f, ridx, kind, 0) {
					return nil
				}
				return []c16Exit{mk()}
			}
			var sub []c16Exit
			forwards := false
			if k2, i2 := c16SuccessKind(f.Signature); k2 == kind && i2 == ridx {
				sub = e.successExits(child)
				forwards = true
			} else {
				for _, ri := range c16Returns(f) {
					if ridx < len(ri.Results) {
						sub = append(sub, e.classify(child, ri.Ret, ri.Results[ridx], ri.Ret.Block(), kind, depth+1)...)
					}
				}
			}
			var out []c16Exit
			for _, x := range sub {
				x2 := x
				x2.ret = ret
				x2.sites = append(append([]c16Site(nil), x.sites...), c16Site{ctx, c16Last(at)})
				if forwards {
					x2.via = append(append([]c16Site(nil), x.via...), c16Site{ctx, call})
				}
				out = append(out, x2)
			}
			return out
		}
	}
	if kind == c16KindBool {
		switch ov.(type) {
		case *ssa.BinOp, *ssa.UnOp:
			x := mk()
			x.assume = []c16Fact{{ctx, ov, true}}
			return []c16Exit{x}
		}
	}
	return []c16Exit{mk()}
}

// successRets: the returns of ctx.fn that may report success.
func (e *c16Eff) successRets(ctx *c16Ctx) map[*ssa.Return]bool {
	out := map[*ssa.Return]bool{}
	for _, x := range e.successExits(ctx) {
		out[x.ret] = true
	}
	return out
}

// ---------------------------------------------------------------------------
// events and success dominance across contexts

const (
	c16EvExec = iota // the instruction has been executed
	c16EvOK          // the call has been executed and reported success
)

type c16Event struct {
	site c16Site
	kind int
}

func c16LocalHolds(ev c16Event, at ssa.Instruction, exitVal ssa.Value) (bool, string) {
	if ev.kind == c16EvOK {
		if call, ok := ev.site.in.(*ssa.Call); ok {
			return c16CallOK(call, at, exitVal)
		}
		return false, "the call is started with go/defer"
	}
	if c16Precedes(ev.site.in, at) {
		return true, ""
	}
	return false, "it does not precede the site on every path"
}

// succAt: every path (of the effective body) to site `at` has passed through
// the event. exitVal: see c16CallOK; only meaningful when `at` is a return.
func (e *c16Eff) succAt(ev c16Event, at c16Site, exitVal ssa.Value) (bool, string) {
	ca, cb := c16Chain(ev.site.ctx), c16Chain(at.ctx)
	if ca[0] != cb[0] {
		return false, "the two sites do not lie in one effective body"
	}
	k := 0
	for k < len(ca) && k < len(cb) && ca[k] == cb[k] {
		k++
	}
	var repB ssa.Instruction = at.in
	if len(cb) > k {
		repB = cb[k].call
		exitVal = nil
	}
	if len(ca) == k {
		return c16LocalHolds(ev, repB, exitVal)
	}
	h := ca[k]
	call, isCall := h.call.(*ssa.Call)
	if !isCall {
		return false, "it happens in a deferred call"
	}
	name := FuncKey(h.fn)
	if ok, _ := c16CallOK(call, repB, exitVal); ok {
		if ok2, why := e.allExits(h, ev, true); ok2 {
			return true, ""
		} else {
			return false, why
		}
	}
	if !c16Precedes(call, repB) {
		return false, "the call of " + name + " does not precede the site on every path"
	}
	ok, why := e.allExits(h, ev, false)
	if !ok {
		why = "the site is not known to be on the success edge of the call of " + name + ", and " + why
	}
	return ok, why
}

func (e *c16Eff) allExits(h *c16Ctx, ev c16Event, successOnly bool) (bool, string) {
	key := c16MemoKey{ev, h, successOnly}
	if m, ok := e.memo[key]; ok {
		return m.ok, m.why
	}
	e.memo[key] = c16MemoVal{false, "recursive"}
	var exits []c16Exit
	if successOnly {
		exits = e.successExits(h)
	} else {
		exits = e.allReturns(h)
	}
	res := c16MemoVal{true, ""}
	for _, x := range exits {
		if ok, why := e.succAtExit(ev, x); !ok {
			what := "successful return"
			if !successOnly {
				what = "return"
			}
			res = c16MemoVal{false, fmt.Sprintf("in %s the %s at line %d is reached although %s", FuncKey(h.fn), what, e.s.line(x.inner.Pos()), why)}
			break
		}
	}
	e.memo[key] = res
	return res.ok, res.why
}

func (e *c16Eff) succAtExit(ev c16Event, x c16Exit) (bool, string) {
	why := ""
	if ev.kind == c16EvOK {
		for _, v := range x.via {
			if v == ev.site {
				return true, ""
			}
		}
	}
	for i, st := range x.sites {
		var ev0 ssa.Value
		if i == 0 && x.val.ctx == st.ctx {
			ev0 = x.val.v
		}
		if ok, w := e.succAt(ev, st, ev0); ok {
			return true, ""
		} else if why == "" {
			why = w
		}
	}
	return false, why
}

// factHolds: a branch condition accepted by pred is known at the site - from
// the site's own function, from a caller up the context chain, or from a
// followed call preceding the site all of whose (successful) returns are
// under such a condition. stop bounds the walk up the chain (nil: to the root).
func (e *c16Eff) factHolds(pred func(ctx *c16Ctx, cond ssa.Value, val bool) bool, at c16Site, stop *c16Ctx, budget int) bool {
	if budget <= 0 {
		return false
	}
	rep := at.in
	for ctx := at.ctx; ctx != nil; ctx = ctx.parent {
		for _, f := range c16Facts(rep.Block()) {
			if pred(ctx, f.Cond, f.Val) {
				return true
			}
		}
		for _, b := range ctx.fn.Blocks {
			for _, in := range b.Instrs {
				hc, ok := in.(*ssa.Call)
				if !ok || in == rep || !c16Precedes(hc, rep) {
					continue
				}
				child := e.child(ctx, hc)
				if child == nil {
					continue
				}
				var exits []c16Exit
				if ok, _ := c16CallOK(hc, rep, nil); ok {
					exits = e.successExits(child)
				} else {
					exits = e.allReturns(child)
				}
				all := len(exits) > 0
				for _, x := range exits {
					if !e.factHoldsExit(pred, x, child, budget-1) {
						all = false
						break
					}
				}
				if all {
					return true
				}
			}
		}
		if ctx == stop || ctx.call == nil {
			break
		}
		rep = ctx.call
	}
	return false
}

func (e *c16Eff) factHoldsExit(pred func(ctx *c16Ctx, cond ssa.Value, val bool) bool, x c16Exit, stop *c16Ctx, budget int) bool {
	for _, a := range x.assume {
		if pred(a.ctx, a.cond, a.val) {
			return true
		}
	}
	for _, st := range x.sites {
		if e.factHolds(pred, st, stop, budget) {
			return true
		}
	}
	return false
}

// unguarded reports whether the target site can be reached from the root's
// entry along a path that crosses no guard edge. Followed calls are entered;
// when every unguarded way out of a callee is a return that reports failure,
// only the failure edge of a later test of its verdict is explored.
func (e *c16Eff) unguarded(guard func(ctx *c16Ctx, b *ssa.BasicBlock, succ int) bool, target c16Site) bool {
	failed := map[ssa.Value]int{} // indicator value -> kind, for calls known failed on every unguarded path
	onlySucc := func(cond ssa.Value) int {
		cond, neg := c16StripNot(cond, false)
		o := originValue(cond)
		if k, ok := failed[o]; ok && k == c16KindBool {
			if neg { // cond is !ind, ind false -> cond true
				return 0
			}
			return 1
		}
		bo, ok := cond.(*ssa.BinOp)
		if !ok || (bo.Op != token.EQL && bo.Op != token.NEQ) {
			return -1
		}
		var other ssa.Value
		if IsNilConst(bo.Y) {
			other = bo.X
		} else if IsNilConst(bo.X) {
			other = bo.Y
		} else {
			return -1
		}
		k, ok := failed[originValue(other)]
		if !ok {
			return -1
		}
		var val bool
		switch k {
		case c16KindErr: // the error is non-nil
			val = bo.Op == token.NEQ
		case c16KindNilable: // the result is nil
			val = bo.Op == token.EQL
		default:
			return -1
		}
		if neg {
			val = !val
		}
		if val {
			return 0
		}
		return 1
	}
	var reach func(ctx *c16Ctx) (bool, map[*ssa.Return]bool)
	reach = func(ctx *c16Ctx) (bool, map[*ssa.Return]bool) {
		rets := map[*ssa.Return]bool{}
		seen := map[*ssa.BasicBlock]bool{}
		var walk func(b *ssa.BasicBlock) bool
		walk = func(b *ssa.BasicBlock) bool {
			if seen[b] {
				return false
			}
			seen[b] = true
			only := -1
			for _, in := range b.Instrs {
				if ctx == target.ctx && in == target.in {
					return true
				}
				switch x := in.(type) {
				case *ssa.Call:
					child := e.child(ctx, x)
					if child == nil {
						continue
					}
					hit, rr := reach(child)
					if hit {
						return true
					}
					if len(rr) == 0 {
						return false
					}
					if kind, idx := c16SuccessKind(child.fn.Signature); kind != c16KindNone {
						ok := e.successRets(child)
						allFail := true
						for r := range rr {
							if ok[r] {
								allFail = false
							}
						}
						if ind := ResultValue(x, idx); allFail && ind != nil {
							failed[ind] = kind
						}
					}
				case *ssa.Return:
					rets[x] = true
					return false
				case *ssa.Panic:
					return false
				case *ssa.If:
					only = onlySucc(x.Cond)
				}
			}
			for i, sc := range b.Succs {
				if (only >= 0 && i != only) || guard(ctx, b, i) {
					continue
				}
				if walk(sc) {
					return true
				}
			}
			return false
		}
		if len(ctx.fn.Blocks) == 0 {
			return false, rets
		}
		return walk(ctx.fn.Blocks[0]), rets
	}
	hit, _ := reach(e.root)
	return hit
}

// ---------------------------------------------------------------------------
// request-field helpers on effective bodies

// fieldLoad: cv is a load of a field of the VerifyRequest `base` (any request
// when base.v == nil).
func (s *c16State) fieldLoad(e *c16Eff, cv c16CV, base c16CV) (string, c16Site, bool) {
	o := e.origin(cv)
	ld, ok := o.v.(*ssa.UnOp)
	if !ok || ld.Op != token.MUL {
		return "", c16Site{}, false
	}
	fa, ok := ld.X.(*ssa.FieldAddr)
	if !ok || NamedOf(fa.X.Type()) != s.vrT {
		return "", c16Site{}, false
	}
	if base.v != nil && e.origin(c16CV{o.ctx, fa.X}) != base {
		return "", c16Site{}, false
	}
	return fieldName(fa.X.Type(), fa.Field), c16Site{o.ctx, ld}, true
}

// sliceFields lists the fields of the request `base` whose address occurs in
// the backward slice of cv, with the loads found.
func (s *c16State) sliceFields(e *c16Eff, cv c16CV, base c16CV) ([]string, map[string][]c16Site) {
	loads := map[string][]c16Site{}
	set := map[string]bool{}
	for _, x := range e.slice(cv) {
		switch y := x.v.(type) {
		case *ssa.FieldAddr:
			if NamedOf(y.X.Type()) == s.vrT && (base.v == nil || e.origin(c16CV{x.ctx, y.X}) == base) {
				set[fieldName(y.X.Type(), y.Field)] = true
			}
		case *ssa.UnOp:
			if fa, ok := y.X.(*ssa.FieldAddr); ok && y.Op == token.MUL && NamedOf(fa.X.Type()) == s.vrT && (base.v == nil || e.origin(c16CV{x.ctx, fa.X}) == base) {
				f := fieldName(fa.X.Type(), fa.Field)
				loads[f] = append(loads[f], c16Site{x.ctx, y})
			}
		}
	}
	var out []string
	for k := range set {
		out = append(out, k)
	}
	sort.Strings(out)
	return out, loads
}

// c16ES is an instruction seen in one context of one effective body.
type c16ES struct {
	e    *c16Eff
	site c16Site
}

// sitesFor: the contexts in which a module instruction is judged: its
// occurrences inside the effective bodies of the property's entry points, or
// else the effective body of its own (outermost) function.
func (s *c16State) sitesFor(in ssa.Instruction) []c16ES {
	var out []c16ES
	for _, e := range []*c16Eff{s.eff(s.verifyFn()), s.eff(s.p.Func(c16Pkg, "", "NewVerificationRequest"))} {
		for _, st := range e.sitesOf(in) {
			out = append(out, c16ES{e, st})
		}
	}
	if len(out) > 0 {
		return out
	}
	return s.localSites(in)
}

func (s *c16State) localSites(in ssa.Instruction) []c16ES {
	var out []c16ES
	e := s.eff(TopFunc(in.Parent()))
	for _, st := range e.sitesOf(in) {
		out = append(out, c16ES{e, st})
	}
	if len(out) == 0 {
		out = append(out, c16ES{e, c16Site{e.detached(in.Parent()), in}})
	}
	return out
}

func (s *c16State) storeBase(es c16ES, st *ssa.Store) c16CV {
	return es.e.origin(c16CV{es.site.ctx, st.Addr.(*ssa.FieldAddr).X})
}

// storesOn: the sites in e of the module-wide stores to field f whose request is base.
func (s *c16State) storesOn(e *c16Eff, f string, base c16CV) []c16Site {
	var out []c16Site
	for _, st := range s.ix.stores[f] {
		for _, site := range e.sitesOf(st) {
			if e.origin(c16CV{site.ctx, st.Addr.(*ssa.FieldAddr).X}) == base {
				out = append(out, site)
			}
		}
	}
	return out
}

// ---------------------------------------------------------------------------
// J-verify: the signature check in Verify's effective body

func c16IsCryptoVerify(c CallSite) bool {
	return c.Value() != nil && (c.IsStatic(c16PktPath, "PublicKey", "VerifySignature") || c.IsStatic(c16PktPath, "PublicKey", "VerifySignatureV3"))
}

func (s *c16State) ruleVerify() {
	p, r := s.p, s.r
	verify := s.verifyFn()
	V := s.eff(verify)
	s.V = V
	s.recv = c16CV{V.root, verify.Params[0]}
	key := FuncKey(verify)
	exits := V.successExits(V.root)
	if len(exits) == 0 {
		r.Violation("J-verify", key+"#success-return", p.Pos(verify.Pos()), "Verify has no return whose error may be nil: nothing ever verifies")
	}
	s.crypto = V.calls(c16IsCryptoVerify)
	construct := key + "#success-requires:signature-check"
	if len(s.crypto) == 0 {
		r.Violation("J-verify", construct, p.Pos(verify.Pos()), "no call of (*packet.PublicKey).VerifySignature is reachable from Verify through statically called functions of the package: nothing checks the signature")
		return
	}
	bad := ""
	for _, x := range exits {
		ok, why := false, ""
		for _, c := range s.crypto {
			if o, w := V.succAtExit(c16Event{c, c16EvOK}, x); o {
				ok = true
			} else {
				why = w
			}
		}
		if !ok {
			bad = fmt.Sprintf("the return at line %d may carry a nil error although (*packet.PublicKey).VerifySignature has not succeeded on every path to it (%s)", s.line(x.inner.Pos()), why)
		}
	}
	r.Check(bad == "", "J-verify", construct, p.Pos(s.crypto[0].in.Pos()),
		fmt.Sprintf("all %d possibly-nil-error return(s) of Verify are dominated by err==nil of (*packet.PublicKey).VerifySignature (called in %s)", len(exits), FuncKey(s.crypto[0].ctx.fn)), bad)
	for _, c := range s.crypto {
		s.checkCryptoArgs(c, key)
	}
}

func (s *c16State) checkCryptoArgs(c c16Site, key string) {
	p, r, V := s.p, s.r, s.V
	call := c.in.(*ssa.Call)
	args := call.Call.Args // key, hash, signature
	site := p.Pos(call.Pos())
	// hash
	construct := key + "#signature-check:hash-input"
	hv := V.origin(c16CV{c.ctx, args[1]})
	if _, isCall := hv.v.(*ssa.Call); !isCall {
		r.Undecided("J-verify", construct, site, "the hash handed to the verification is not created by a call in Verify's effective body; its earlier content is unknown")
	} else {
		fields := map[string]bool{}
		before := 0
		bad, und := "", ""
		for _, u := range V.uses(hv) {
			if u.site.in == c.in {
				continue
			}
			ci, ok := u.site.in.(ssa.CallInstruction)
			if !ok {
				und = fmt.Sprintf("the hash is used by %T at line %d, which the analysis does not follow", u.site.in, s.line(u.site.in.Pos()))
				continue
			}
			cc := ci.Common()
			if !(cc.IsInvoke() && cc.Value == u.val) {
				und = fmt.Sprintf("the hash is passed to %s, which the analysis does not follow", (CallSite{u.site.ctx.fn, ci}).CalleeKey())
				continue
			}
			switch cc.Method.Name() {
			case "Write":
				f, _, ok := s.fieldLoad(V, c16CV{u.site.ctx, cc.Args[0]}, s.recv)
				if !ok {
					bad = fmt.Sprintf("the hash is fed (line %d) with bytes that are not a field of the request being verified", s.line(u.site.in.Pos()))
					continue
				}
				fields[f] = true
				if _, isCall := u.site.in.(*ssa.Call); isCall {
					if ok, _ := V.succAt(c16Event{u.site, c16EvExec}, c, nil); ok {
						before++
					}
				}
			case "Size", "BlockSize":
			default:
				und = "the hash method " + cc.Method.Name() + " is called; its effect on the digest is not modelled"
			}
		}
		var fl []string
		for f := range fields {
			fl = append(fl, f)
		}
		sort.Strings(fl)
		switch {
		case bad != "":
			r.Violation("J-verify", construct, site, bad)
		case und != "":
			r.Undecided("J-verify", construct, site, und)
		case before == 0:
			r.Violation("J-verify", construct, site, "no Write of a request field into the hash precedes the verification: the signature is checked over nothing")
		case len(fl) != 1:
			r.Violation("J-verify", construct, site, fmt.Sprintf("the hash is fed from several request fields %v; exactly the payload bytes must be hashed", fl))
		default:
			s.payloadField = fl[0]
			r.OK("J-verify", construct, site, fmt.Sprintf("the hash is created in %s and fed only by Write(vr.%s), %d time(s) before the verification", FuncKey(hv.ctx.fn), fl[0], before))
		}
	}
	// signature packet
	construct = key + "#signature-check:sig-source"
	sf, _ := s.sliceFields(V, c16CV{c.ctx, args[2]}, s.recv)
	switch len(sf) {
	case 0:
		r.Violation("J-verify", construct, site, "the signature packet handed to the verification does not derive from any field of the request")
	case 1:
		s.sigField = sf[0]
		r.OK("J-verify", construct, site, "the signature packet derives from request field "+sf[0]+" only")
	default:
		r.Undecided("J-verify", construct, site, fmt.Sprintf("the signature packet derives from several request fields %v", sf))
	}
	// key
	construct = key + "#signature-check:key-source"
	if f, _, ok := s.fieldLoad(V, c16CV{c.ctx, args[0]}, s.recv); ok {
		s.keyField = f
		r.OK("J-verify", construct, site, "the verifying key is the request field "+f)
	} else {
		r.Violation("J-verify", construct, site, "the verifying key is not a field of the request being verified")
	}
}

// ---------------------------------------------------------------------------
// J-verify: hash algorithm guard

// ruleHashGuard: in Verify's effective body, crypto.Hash.New (which panics for
// an algorithm that is not linked in) is reached only through an edge on which
// the hash id was found equal to a constant.
func (s *c16State) ruleHashGuard() {
	p, r, V := s.p, s.r, s.V
	key := FuncKey(s.verifyFn()) + "#signature-check:hash-algorithm-guard"
	news := V.calls(func(c CallSite) bool { return c.Value() != nil && c.IsStatic("crypto", "Hash", "New") })
	if len(news) == 0 {
		r.OKTable("J-verify", key, p.Pos(s.verifyFn().Pos()), "Verify's effective body does not instantiate a hash from an attacker-chosen id")
		return
	}
	// two hash-id values are the same when they have one origin, or are loads of the same field of one object
	sameID := func(a, b c16CV) bool {
		oa, ob := V.origin(a), V.origin(b)
		if oa == ob {
			return true
		}
		la, ok1 := oa.v.(*ssa.UnOp)
		lb, ok2 := ob.v.(*ssa.UnOp)
		if !ok1 || !ok2 || la.Op != token.MUL || lb.Op != token.MUL {
			return false
		}
		fa, ok1 := la.X.(*ssa.FieldAddr)
		fb, ok2 := lb.X.(*ssa.FieldAddr)
		if !ok1 || !ok2 || fa.Field != fb.Field || !types.Identical(fa.X.Type(), fb.X.Type()) {
			return false
		}
		return V.origin(c16CV{oa.ctx, fa.X}) == V.origin(c16CV{ob.ctx, fb.X})
	}
	for _, c := range news {
		id := c16CV{c.ctx, c.in.(*ssa.Call).Call.Args[0]}
		// implies: the boolean v having truth value want implies that the hash id
		// equals some constant - a comparison, a && / || of such (phi), or the
		// verdict of a followed predicate all of whose returns imply it.
		var implies func(ctx *c16Ctx, v ssa.Value, want bool, depth int) bool
		edgeGuarded := func(ctx *c16Ctx, pred, blk *ssa.BasicBlock, depth int) bool {
			if ifi, ok := c16Last(pred).(*ssa.If); ok && len(pred.Succs) == 2 && pred.Succs[0] != pred.Succs[1] {
				for i, sc := range pred.Succs {
					if sc == blk && implies(ctx, ifi.Cond, i == 0, depth+1) {
						return true
					}
				}
			}
			for _, f := range FactsAt(pred) {
				if implies(ctx, f.Cond, f.Val, depth+1) {
					return true
				}
			}
			return false
		}
		implies = func(ctx *c16Ctx, v ssa.Value, want bool, depth int) bool {
			if depth > 8 {
				return false
			}
			v, want = c16StripNot(v, want)
			switch x := v.(type) {
			case *ssa.BinOp:
				if x.Op != token.EQL && x.Op != token.NEQ {
					return false
				}
				a, b := x.X, x.Y
				if _, isC := a.(*ssa.Const); isC {
					a, b = b, a
				}
				if _, ok := ConstInt(b); !ok || !sameID(c16CV{ctx, a}, id) {
					return false
				}
				return (x.Op == token.EQL) == want
			case *ssa.Phi:
				for i, ev := range x.Edges {
					if i >= len(x.Block().Preds) {
						return false
					}
					if cv, isC := c16BoolConst(ev); isC {
						if cv != want || edgeGuarded(ctx, x.Block().Preds[i], x.Block(), depth) {
							continue
						}
						return false
					}
					if !implies(ctx, ev, want, depth+1) {
						return false
					}
				}
				return len(x.Edges) > 0
			case *ssa.Call, *ssa.Extract:
				call, idx := c16CallResult(x)
				if call == nil || call.Parent() != ctx.fn {
					return false
				}
				child := V.child(ctx, call)
				if child == nil {
					return false
				}
				rets := c16Returns(child.fn)
				for _, ri := range rets {
					if idx >= len(ri.Results) {
						return false
					}
					if cv, isC := c16BoolConst(ri.Results[idx]); isC && cv != want {
						continue
					}
					if !implies(child, ri.Results[idx], want, depth+1) {
						return false
					}
				}
				return len(rets) > 0
			}
			return false
		}
		guard := func(ctx *c16Ctx, d *ssa.BasicBlock, succ int) bool {
			ifi, ok := c16Last(d).(*ssa.If)
			return ok && implies(ctx, ifi.Cond, succ == 0, 0)
		}
		r.Check(!V.unguarded(guard, c), "J-verify", key, p.Pos(c.in.Pos()),
			"every path of Verify's effective body to Hash.New passes an edge on which the signature packet's hash id equals a constant (white list)",
			"Hash.New is reachable without the signature packet's hash id having been found equal to an allowed constant: an id whose implementation is not linked in makes Hash.New panic, and weak digests are accepted")
	}
}

// ---------------------------------------------------------------------------
// the error mirror

// findErrChannel establishes (without emitting an obligation) whether Verify
// mirrors a non-nil error result into an error-typed field of the request: a
// call deferred before every failing return (other than one that returns that
// very field) stores the named error result into the field under the fact
// "result != nil". Callers may then test that field instead of the error result.
func (s *c16State) findErrChannel() {
	verify := s.verifyFn()
	V := s.eff(verify)
	recv := c16CV{V.root, verify.Params[0]}
	eidx := ErrResultIndex(verify)
	if eidx < 0 {
		return
	}
	for _, d := range DeferredCalls(verify) {
		df, ok := d.Instr.(*ssa.Defer)
		if !ok {
			continue
		}
		dc := V.child(V.root, df)
		if dc == nil {
			continue
		}
		cellOf := func(addr ssa.Value) ssa.Value {
			if prm, ok := addr.(*ssa.Parameter); ok {
				if a, ok := V.argOf(dc, prm); ok {
					addr = a.v
				}
			}
			cell, _ := varOf(addr)
			return cell
		}
		for _, b := range dc.fn.Blocks {
			for _, in := range b.Instrs {
				st, ok := in.(*ssa.Store)
				if !ok {
					continue
				}
				fa, ok := st.Addr.(*ssa.FieldAddr)
				if !ok || NamedOf(fa.X.Type()) != s.vrT || !isErrorType(st.Val.Type()) || V.origin(c16CV{dc, fa.X}) != recv {
					continue
				}
				ld, ok := st.Val.(*ssa.UnOp)
				if !ok || ld.Op != token.MUL {
					continue
				}
				al, isAl := cellOf(ld.X).(*ssa.Alloc)
				if !isAl || al.Parent() != verify {
					continue
				}
				field := fieldName(fa.X.Type(), fa.Field)
				// the cell is Verify's error result variable, and every return that may fail
				// without returning the field itself comes after the defer
				isResult, covered := false, true
				for _, rb := range verify.Blocks {
					ret, ok := c16Last(rb).(*ssa.Return)
					if !ok || rb == verify.Recover || eidx >= len(ret.Results) {
						continue
					}
					if rl, ok := ret.Results[eidx].(*ssa.UnOp); ok && rl.X == ssa.Value(al) {
						isResult = true
					}
					if Precedes(df, ret) {
						continue
					}
					rv := resolveReturnValue(ret.Results[eidx], ret)
					if IsNilConst(rv) {
						continue
					}
					if f, _, ok := s.fieldLoad(V, c16CV{V.root, rv}, recv); ok && f == field {
						continue
					}
					covered = false
				}
				// under "result != nil"
				nonNil := false
				for _, f := range c16Facts(b) {
					cond, val := c16StripNot(f.Cond, f.Val)
					bo, ok := cond.(*ssa.BinOp)
					if !ok || (bo.Op != token.NEQ && bo.Op != token.EQL) || (bo.Op == token.NEQ) != val {
						continue
					}
					var o ssa.Value
					if IsNilConst(bo.Y) {
						o = bo.X
					} else if IsNilConst(bo.X) {
						o = bo.Y
					}
					if ol, ok := o.(*ssa.UnOp); ok && ol.Op == token.MUL && cellOf(ol.X) == ssa.Value(al) {
						nonNil = true
					}
				}
				if isResult && covered && nonNil {
					s.errField = field
				}
			}
		}
	}
}

// errFieldNilAt: a dominating branch at instruction at found the request's
// mirrored error field nil, on a load made after call c (same function).
func (s *c16State) errFieldNilAt(v ssa.Value, c *ssa.Call, at ssa.Instruction) bool {
	if s.errField == "" || !Precedes(c, at) {
		return false
	}
	for _, f := range c16Facts(at.Block()) {
		cond, val := c16StripNot(f.Cond, f.Val)
		bo, ok := cond.(*ssa.BinOp)
		if !ok || (bo.Op != token.EQL && bo.Op != token.NEQ) {
			continue
		}
		var o ssa.Value
		if IsNilConst(bo.Y) {
			o = bo.X
		} else if IsNilConst(bo.X) {
			o = bo.Y
		} else {
			continue
		}
		if (bo.Op == token.EQL) != val {
			continue // says non-nil
		}
		ld, ok := o.(*ssa.UnOp)
		if !ok || ld.Op != token.MUL {
			continue
		}
		fa, ok := ld.X.(*ssa.FieldAddr)
		if !ok || NamedOf(fa.X.Type()) != s.vrT || fieldName(fa.X.Type(), fa.Field) != s.errField || !sameOrigin(fa.X, v) {
			continue
		}
		if Precedes(c, ld) {
			return true
		}
	}
	return false
}

// ---------------------------------------------------------------------------
// J-verify: writers

func (s *c16State) isFetch(c *ssa.Call) bool {
	cc := c.Common()
	if !cc.IsInvoke() || cc.Method.Name() != "Fetch" {
		return false
	}
	return types.Implements(cc.Value.Type(), s.p.Iface("pkg/blob", "Fetcher"))
}

func (s *c16State) ruleKeyWriters() {
	p, r := s.p, s.r
	if s.keyField == "" {
		r.Undecided("J-verify", s.fieldKey("?key")+"#writers", "?", "the key field could not be identified at the signature check")
		return
	}
	construct := s.fieldKey(s.keyField) + "#writers"
	sts, why := s.writers(s.keyField)
	if why != "" {
		r.Undecided("J-verify", construct, "?", why)
		return
	}
	if len(sts) == 0 {
		r.Violation("J-verify", construct, "?", "nothing ever stores the verifying key")
		return
	}
	for _, st := range sts {
		bad := ""
		for _, es := range s.sitesFor(st) {
			e := es.e
			base := s.storeBase(es, st)
			var fetches []c16Site
			for _, cv := range e.slice(c16CV{es.site.ctx, st.Val}) {
				call, ok := cv.v.(*ssa.Call)
				if !ok {
					continue
				}
				cs := c16Site{cv.ctx, call}
				if s.isFetch(call) {
					fetches = append(fetches, cs)
				}
				if kind, _ := c16SuccessKind(call.Call.Signature()); kind == c16KindErr {
					if ok, w := e.succAt(c16Event{cs, c16EvOK}, es.site, nil); !ok {
						bad = fmt.Sprintf("the key stored at line %d derives from %s whose failure is not excluded (%s)", s.line(st.Pos()), (CallSite{cv.ctx.fn, call}).CalleeKey(), w)
					}
				}
			}
			if len(fetches) == 0 && bad == "" {
				bad = "the stored key does not derive from a blob.Fetcher.Fetch"
			}
			for _, f := range fetches {
				fc := f.in.(*ssa.Call)
				sf, _, ok := s.fieldLoad(e, c16CV{f.ctx, fc.Call.Args[1]}, base)
				if !ok {
					bad = "the public key blob is fetched under a ref that is not a field of the request whose key is stored"
					continue
				}
				if s.signerField != "" && s.signerField != sf {
					bad = "public key blobs are fetched under different request fields: " + s.signerField + ", " + sf
				}
				s.signerField = sf
				s.fetchCalls = append(s.fetchCalls, fc)
			}
		}
		r.Check(bad == "", "J-verify", construct, p.Pos(st.Pos()),
			fmt.Sprintf("stored in %s from Fetch(vr.%s) of the same request, on the success edge of the fetch and of every fallible call in between", FuncKey(st.Parent()), s.signerField), bad)
	}
}

// c16Unmarshal describes a json.Unmarshal(vr.<src>, &cell) call site.
type c16Unmarshal struct {
	site c16Site
	src  string // request field holding the bytes
	cell c16CV  // variable receiving the map (an Alloc)
}

func (s *c16State) unmarshals(e *c16Eff, base c16CV) []c16Unmarshal {
	var out []c16Unmarshal
	for _, c := range e.calls(func(c CallSite) bool { return c.Value() != nil && c.IsStatic("encoding/json", "", "Unmarshal") }) {
		args := c.in.(*ssa.Call).Call.Args
		src, _, ok := s.fieldLoad(e, c16CV{c.ctx, args[0]}, base)
		cell := e.origin(c16CV{c.ctx, args[1]})
		if _, isAl := cell.v.(*ssa.Alloc); ok && isAl {
			out = append(out, c16Unmarshal{c, src, cell})
		}
	}
	return out
}

// loadOfCell: v is a load of the variable cell.
func (s *c16State) loadOfCell(e *c16Eff, v c16CV, cell c16CV) bool {
	o := e.origin(v)
	ld, ok := o.v.(*ssa.UnOp)
	return ok && ld.Op == token.MUL && ld.X == cell.v && o.ctx == cell.ctx
}

// parsedFrom: the value v derives from the map cell of exactly one Unmarshal
// of a field of request base, through a Lookup under a constant key.
func (s *c16State) parsedFrom(e *c16Eff, v c16CV, base c16CV) (um *c16Unmarshal, keys []string, why string) {
	ums := s.unmarshals(e, base)
	sl := e.slice(v)
	in := map[c16CV]bool{}
	for _, x := range sl {
		in[x] = true
	}
	for i := range ums {
		if in[ums[i].cell] {
			if um != nil && um.cell != ums[i].cell {
				return nil, nil, "the value derives from several Unmarshal targets"
			}
			um = &ums[i]
		}
	}
	if um == nil {
		return nil, nil, "the value does not derive from a map json.Unmarshal'ed from a field of the same request"
	}
	ks := map[string]bool{}
	for _, x := range sl {
		if lk, ok := x.v.(*ssa.Lookup); ok && s.loadOfCell(e, c16CV{x.ctx, lk.X}, um.cell) {
			if k, ok := ConstString(lk.Index); ok {
				ks[k] = true
			} else {
				return um, nil, "the map is indexed by a non-constant key"
			}
		}
	}
	for k := range ks {
		keys = append(keys, k)
	}
	sort.Strings(keys)
	return um, keys, ""
}

func (s *c16State) ruleSignerAndPayloadWriters() {
	p, r := s.p, s.r
	// signer ref
	if s.signerField == "" {
		r.Undecided("J-verify", s.fieldKey("?signer")+"#writers", "?", "the signer-ref field could not be identified (no Fetch feeding the key field)")
	} else {
		construct := s.fieldKey(s.signerField) + "#writers"
		sts, why := s.writers(s.signerField)
		switch {
		case why != "":
			r.Undecided("J-verify", construct, "?", why)
		case len(sts) == 0:
			r.Violation("J-verify", construct, "?", "nothing ever stores the signer ref")
		}
		if why == "" {
			for _, st := range sts {
				bad := ""
				for _, es := range s.sitesFor(st) {
					base := s.storeBase(es, st)
					um, keys, b := s.parsedFrom(es.e, c16CV{es.site.ctx, st.Val}, base)
					if b == "" && len(keys) != 1 {
						b = fmt.Sprintf("the signer ref is read under %d constant keys %v of the payload map; exactly one is expected", len(keys), keys)
					}
					if b == "" {
						if ok, w := es.e.succAt(c16Event{um.site, c16EvOK}, es.site, nil); !ok {
							b = "the signer ref is stored although json.Unmarshal of the payload may have failed: " + w
						}
					}
					if b == "" {
						if s.bpjField != "" && s.bpjField != um.src {
							b = "signer refs are parsed from different request fields: " + s.bpjField + ", " + um.src
						}
						s.bpjField, s.signerKey = um.src, keys[0]
					}
					if b != "" {
						bad = b + " (in " + FuncKey(st.Parent()) + ": the key would no longer be the one the payload names)"
					}
				}
				r.Check(bad == "", "J-verify", construct, p.Pos(st.Pos()),
					fmt.Sprintf("stored in %s from key %q of the map Unmarshal'ed from vr.%s of the same request, on the Unmarshal success edge", FuncKey(st.Parent()), s.signerKey, s.bpjField), bad)
			}
		}
	}
	// PayloadMap (exported API; anchored by name)
	const pm = "PayloadMap"
	if !s.hasField(pm) {
		brokenf("anchor unresolved: field %s.VerifyRequest.%s", c16Pkg, pm)
	}
	construct := s.fieldKey(pm) + "#writers"
	sts, why := s.writers(pm)
	if why != "" {
		r.Undecided("J-verify", construct, "?", why)
		return
	}
	type pmStore struct {
		site c16Site
		um   c16Unmarshal
	}
	var inVerify []pmStore
	nonNil := 0
	for _, st := range sts {
		if IsNilConst(st.Val) {
			continue
		}
		nonNil++
		bad := ""
		for _, es := range s.sitesFor(st) {
			e := es.e
			base := s.storeBase(es, st)
			b := "the stored map is not the target of a json.Unmarshal of a field of the same request (in " + FuncKey(st.Parent()) + ": the exposed fields would not be the signed ones)"
			val := e.origin(c16CV{es.site.ctx, st.Val})
			for _, um := range s.unmarshals(e, base) {
				linked := false
				// (a) the stored value is loaded from the Unmarshal target
				for _, x := range e.slice(c16CV{es.site.ctx, st.Val}) {
					if x == um.cell {
						linked = true
					}
				}
				// (b) the Unmarshal target was initialised with the stored map (same value or re-load of the field)
				for _, ist := range storesTo(um.cell.v) {
					is := c16Site{e.ctxFor(um.cell.ctx, ist.Parent()), ist}
					if ok, _ := e.succAt(c16Event{is, c16EvExec}, um.site, nil); !ok {
						continue
					}
					if e.origin(c16CV{is.ctx, ist.Val}) == val {
						linked = true
					}
					if f, _, ok := s.fieldLoad(e, c16CV{is.ctx, ist.Val}, base); ok && f == pm {
						if ok, _ := e.succAt(c16Event{es.site, c16EvExec}, is, nil); ok {
							linked = true
						}
					}
				}
				if !linked {
					continue
				}
				b = ""
				if s.bpjField != "" && um.src != s.bpjField {
					b = fmt.Sprintf("PayloadMap is parsed from vr.%s but the signer ref from vr.%s: the exposed fields and the verified signer would come from different bytes", um.src, s.bpjField)
				} else if e == s.V && base == s.recv {
					inVerify = append(inVerify, pmStore{es.site, um})
				}
				break
			}
			if b != "" {
				bad = b
			}
		}
		r.Check(bad == "", "J-verify", construct, p.Pos(st.Pos()),
			fmt.Sprintf("the non-nil PayloadMap stored in %s is the map Unmarshal'ed from vr.%s of the same request", FuncKey(st.Parent()), s.bpjField), bad)
	}
	if nonNil == 0 {
		r.Violation("J-verify", construct, "?", "PayloadMap is never populated: a verified document exposes no fields")
		return
	}
	// every successful return of Verify exposes the parsed payload
	key := FuncKey(s.verifyFn()) + "#success-requires:payload-map"
	bad := ""
	exits := s.V.successExits(s.V.root)
	for _, x := range exits {
		ok, why := false, "no store of the parsed payload map on Verify's receiver is found in its effective body"
		for _, ps := range inVerify {
			o1, w1 := s.V.succAtExit(c16Event{ps.site, c16EvExec}, x)
			o2, w2 := s.V.succAtExit(c16Event{ps.um.site, c16EvOK}, x)
			if o1 && o2 {
				ok = true
			} else if !o1 {
				why = "the store of PayloadMap: " + w1
			} else {
				why = "json.Unmarshal of the payload: " + w2
			}
		}
		if !ok {
			bad = fmt.Sprintf("the return at line %d may carry a nil error although the payload map has not been parsed and stored (%s): a verified document would not expose its fields", s.line(x.inner.Pos()), why)
		}
	}
	r.Check(bad == "", "J-verify", key, p.Pos(s.verifyFn().Pos()),
		fmt.Sprintf("all %d possibly-nil-error return(s) of Verify are preceded by the store of the map Unmarshal'ed from vr.%s, on the Unmarshal success edge", len(exits), s.bpjField), bad)
}

func (s *c16State) ruleSigWriters() {
	p, r := s.p, s.r
	if s.sigField == "" {
		r.Undecided("J-verify", s.fieldKey("?sig")+"#writers", "?", "the signature field could not be identified at the signature check")
		return
	}
	construct := s.fieldKey(s.sigField) + "#writers"
	sts, why := s.writers(s.sigField)
	if why != "" {
		r.Undecided("J-verify", construct, "?", why)
		return
	}
	if len(sts) == 0 {
		r.Violation("J-verify", construct, "?", "nothing ever stores the signature field")
		return
	}
	for _, st := range sts {
		bad, okDetail := "", ""
		type guardSite struct {
			es c16ES
			um *c16Unmarshal
		}
		var guards []guardSite
		for _, es := range s.sitesFor(st) {
			base := s.storeBase(es, st)
			um, keys, b := s.parsedFrom(es.e, c16CV{es.site.ctx, st.Val}, base)
			if b == "" && len(keys) != 1 {
				b = fmt.Sprintf("the signature is read under %d constant keys %v; exactly one is expected", len(keys), keys)
			}
			if b == "" {
				if ok, w := es.e.succAt(c16Event{um.site, c16EvOK}, es.site, nil); !ok {
					b = "the signature is stored although json.Unmarshal of the signature object may have failed: " + w
				}
			}
			if b != "" {
				bad = b + " (in " + FuncKey(st.Parent()) + ")"
				continue
			}
			s.bsField, s.sigKey = um.src, keys[0]
			okDetail = fmt.Sprintf("stored in %s from key %q of the map Unmarshal'ed from vr.%s of the same request, on the Unmarshal success edge", FuncKey(st.Parent()), keys[0], um.src)
			guards = append(guards, guardSite{es, um})
		}
		r.Check(bad == "", "J-verify", construct, p.Pos(st.Pos()), okDetail, bad)
		// exactly-one-key guard on every successful return of the entry point
		for _, g := range guards {
			e, um := g.es.e, g.um
			key := FuncKey(e.root.fn) + "#success-requires:one-signature-key"
			exits := e.successExits(e.root)
			if len(exits) == 0 {
				r.Undecided("J-verify", key, p.Pos(e.root.fn.Pos()), "the function from which the signature is stored has no successful return")
				continue
			}
			isLen := func(ctx *c16Ctx, v ssa.Value) bool {
				o := e.origin(c16CV{ctx, v})
				call, ok := o.v.(*ssa.Call)
				if !ok {
					return false
				}
				b, ok := call.Call.Value.(*ssa.Builtin)
				if !ok || b.Name() != "len" {
					return false
				}
				return s.loadOfCell(e, c16CV{o.ctx, call.Call.Args[0]}, um.cell)
			}
			oneKey := func(ctx *c16Ctx, cond ssa.Value, val bool) bool {
				known, eq := c16IntCond(cond, val, func(v ssa.Value) bool { return isLen(ctx, v) }, 1)
				return known && eq
			}
			bad = ""
			for _, x := range exits {
				if !e.factHoldsExit(oneKey, x, nil, 6) {
					bad = fmt.Sprintf("the return at line %d may report success although the signature object is not known to have exactly one key: unsigned members could ride along after camliSig", s.line(x.inner.Pos()))
				}
				if ok, w := e.succAtExit(c16Event{um.site, c16EvOK}, x); !ok {
					bad = fmt.Sprintf("the return at line %d may report success although json.Unmarshal of the signature object may have failed: %s", s.line(x.inner.Pos()), w)
				}
			}
			r.Check(bad == "", "J-verify", key, p.Pos(um.site.in.Pos()),
				fmt.Sprintf("all %d successful return(s) of %s are under len(map)==1 on the Unmarshal success edge", len(exits), FuncKey(e.root.fn)), bad)
		}
	}
}

func (s *c16State) ruleSignerKeyID() {
	p, r := s.p, s.r
	const f = "SignerKeyId"
	if !s.hasField(f) {
		brokenf("anchor unresolved: field %s.VerifyRequest.%s", c16Pkg, f)
	}
	construct := s.fieldKey(f) + "#writers"
	sts, why := s.writers(f)
	if why != "" {
		r.Undecided("J-verify", construct, "?", why)
		return
	}
	if len(sts) == 0 {
		r.Violation("J-verify", construct, "?", "SignerKeyId is never set: the indexer would attribute every claim to the empty key id")
		return
	}
	for _, st := range sts {
		bad := ""
		for _, es := range s.sitesFor(st) {
			e := es.e
			base := s.storeBase(es, st)
			b := fmt.Sprintf("the store in %s is not dominated by a successful (*packet.PublicKey).VerifySignature; only the verification may set the id", FuncKey(st.Parent()))
			for _, c := range e.calls(c16IsCryptoVerify) {
				if ok, _ := e.succAt(c16Event{c, c16EvOK}, es.site, nil); ok {
					b = ""
				}
			}
			if b == "" && s.keyField != "" {
				fromKey := false
				fs, _ := s.sliceFields(e, c16CV{es.site.ctx, st.Val}, base)
				for _, g := range fs {
					if g == s.keyField {
						fromKey = true
					}
				}
				if !fromKey {
					b = "the stored id does not derive from the key the signature was verified with (vr." + s.keyField + ")"
				}
			}
			if b != "" {
				bad = b
			}
		}
		r.Check(bad == "", "J-verify", construct, p.Pos(st.Pos()),
			"stored on the success edge of the cryptographic verification, derived from vr."+s.keyField, bad)
	}
}

// ---------------------------------------------------------------------------
// J-verify: stores precede the reads that feed the signature check

func (s *c16State) ruleOrder() {
	p, r, V := s.p, s.r, s.V
	if len(s.crypto) == 0 {
		return
	}
	key := FuncKey(s.verifyFn())
	ord := func(label, role, field string, loads []c16Site, reader string) {
		construct := key + "#order:" + label
		site := p.Pos(s.crypto[0].in.Pos())
		if field == "" {
			r.Undecided("J-verify", construct, site, "the "+role+" field could not be identified by the rules above")
			return
		}
		if len(loads) == 0 {
			r.Violation("J-verify", construct, site, fmt.Sprintf("no read of vr.%s on Verify's receiver feeds %s in Verify's effective body: %s does not use what this verification parsed", field, reader, reader))
			return
		}
		stores := s.storesOn(V, field, s.recv)
		bad := ""
		for _, l := range loads {
			ok, why := false, "no store of the field on Verify's receiver is found in its effective body"
			for _, st := range stores {
				if o, w := V.succAt(c16Event{st, c16EvExec}, l, nil); o {
					ok = true
				} else {
					why = w
				}
			}
			if !ok {
				bad = fmt.Sprintf("vr.%s is read at line %d for %s although no store of it by this verification precedes on every path (%s): a value preset by the caller, or left from an earlier run, would be used", field, s.line(l.in.Pos()), reader, why)
			}
		}
		r.Check(bad == "", "J-verify", construct, p.Pos(loads[0].in.Pos()),
			fmt.Sprintf("each of the %d read(s) of vr.%s feeding %s is preceded, on every path of Verify's effective body, by a store of it on the same request", len(loads), field, reader), bad)
	}
	var keyLoads, sigLoads, signerLoads []c16Site
	for _, c := range s.crypto {
		args := c.in.(*ssa.Call).Call.Args
		if _, l, ok := s.fieldLoad(V, c16CV{c.ctx, args[0]}, s.recv); ok {
			keyLoads = append(keyLoads, l)
		}
		if s.sigField != "" {
			_, loads := s.sliceFields(V, c16CV{c.ctx, args[2]}, s.recv)
			sigLoads = append(sigLoads, loads[s.sigField]...)
		}
	}
	seen := map[*ssa.Call]bool{}
	for _, fc := range s.fetchCalls {
		if seen[fc] {
			continue
		}
		seen[fc] = true
		for _, site := range V.sitesOf(fc) {
			if _, l, ok := s.fieldLoad(V, c16CV{site.ctx, fc.Call.Args[1]}, s.recv); ok {
				signerLoads = append(signerLoads, l)
			}
		}
	}
	ord("key-stored-before-signature-check", "key", s.keyField, keyLoads, "the signature check")
	ord("signature-stored-before-signature-check", "signature", s.sigField, sigLoads, "the signature check")
	ord("signer-stored-before-key-fetch", "signer-ref", s.signerField, signerLoads, "the fetch of the public key")
}

// ---------------------------------------------------------------------------
// J-verify: the split in NewVerificationRequest

func (s *c16State) ruleSplit() {
	p, r := s.p, s.r
	fn := p.Func(c16Pkg, "", "NewVerificationRequest")
	N := s.eff(fn)
	key := FuncKey(fn)
	// the request being built: what the constructor returns
	var base c16CV
	for _, ri := range c16Returns(fn) {
		for _, v := range ri.Results {
			if NamedOf(v.Type()) == s.vrT {
				o := N.origin(c16CV{N.root, v})
				if base.v == nil {
					base = o
				} else if base != o {
					r.Undecided("J-verify", key+"#split-payload", p.Pos(fn.Pos()), "NewVerificationRequest returns different request objects on different paths")
					return
				}
			}
		}
	}
	if base.v == nil {
		r.Undecided("J-verify", key+"#split-payload", p.Pos(fn.Pos()), "NewVerificationRequest does not return a *VerifyRequest")
		return
	}
	// onlyHere: every module-wide store of f happens in the constructor's effective body, on the request it builds
	onlyHere := func(f string) ([]c16Site, string) {
		sts, why := s.writers(f)
		if why != "" {
			return nil, why
		}
		if len(sts) == 0 {
			return nil, "field " + f + " is never stored"
		}
		var out []c16Site
		for _, st := range sts {
			sites := N.sitesOf(st)
			if len(sites) == 0 {
				return nil, fmt.Sprintf("field %s is also stored in %s (line %d); the split must be made once, by NewVerificationRequest", f, FuncKey(st.Parent()), s.line(st.Pos()))
			}
			for _, site := range sites {
				if N.origin(c16CV{site.ctx, st.Addr.(*ssa.FieldAddr).X}) != base {
					return nil, fmt.Sprintf("field %s is stored at line %d on a request other than the one NewVerificationRequest returns", f, s.line(st.Pos()))
				}
				out = append(out, site)
			}
		}
		return out, ""
	}
	var isDoc func(cv c16CV, depth int) bool
	isDoc = func(cv c16CV, depth int) bool {
		if depth > 4 {
			return false
		}
		o := N.origin(cv)
		switch x := o.v.(type) {
		case *ssa.Parameter:
			b, ok := x.Type().Underlying().(*types.Basic)
			return ok && b.Kind() == types.String && o.ctx == N.root
		case *ssa.Convert:
			return isDoc(c16CV{o.ctx, x.X}, depth+1)
		case *ssa.UnOp:
			f, _, ok := s.fieldLoad(N, o, base)
			if !ok {
				return false
			}
			sites, why := onlyHere(f)
			if why != "" {
				return false
			}
			for _, site := range sites {
				if !isDoc(c16CV{site.ctx, site.in.(*ssa.Store).Val}, depth+1) {
					return false
				}
			}
			return true
		}
		return false
	}
	// idx + k
	var lastIndex c16Site
	idxOff := func(cv c16CV) (int64, bool) {
		var off int64
		for i := 0; i < 6; i++ {
			o := N.origin(cv)
			switch x := o.v.(type) {
			case *ssa.BinOp:
				if x.Op != token.ADD {
					return 0, false
				}
				if k, ok := ConstInt(x.Y); ok {
					off += k
					cv = c16CV{o.ctx, x.X}
					continue
				}
				if k, ok := ConstInt(x.X); ok {
					off += k
					cv = c16CV{o.ctx, x.Y}
					continue
				}
				return 0, false
			case *ssa.Call:
				c := CallSite{x.Parent(), x}
				if !(c.IsStatic("bytes", "", "LastIndex") || c.IsStatic("strings", "", "LastIndex")) {
					return 0, false
				}
				site := c16Site{o.ctx, x}
				if lastIndex.in != nil && lastIndex != site {
					return 0, false
				}
				lastIndex = site
				return off, true
			default:
				return 0, false
			}
		}
		return 0, false
	}
	zeroOrNil := func(v ssa.Value) bool {
		if v == nil {
			return true
		}
		k, ok := ConstInt(v)
		return ok && k == 0
	}
	guarded := func(at c16Site) bool {
		found := func(ctx *c16Ctx, cond ssa.Value, val bool) bool {
			known, eq := c16IntCond(cond, val, func(v ssa.Value) bool {
				o := N.origin(c16CV{ctx, v})
				return lastIndex.in != nil && o.v == ssa.Value(lastIndex.in.(*ssa.Call)) && o.ctx == lastIndex.ctx
			}, -1)
			return known && !eq
		}
		return N.factHolds(found, at, nil, 6)
	}
	// prefix slice doc[:idx+k]
	prefix := func(cv c16CV, k int64) (string, c16CV) {
		o := N.origin(cv)
		sl, ok := o.v.(*ssa.Slice)
		if !ok {
			return "the stored value is not a slice expression of the document", c16CV{}
		}
		if !isDoc(c16CV{o.ctx, sl.X}, 0) {
			return "the sliced value is not the document passed to NewVerificationRequest", c16CV{}
		}
		if !zeroOrNil(sl.Low) || sl.Max != nil || sl.High == nil {
			return "the slice does not start at the beginning of the document", c16CV{}
		}
		off, ok := idxOff(c16CV{o.ctx, sl.High})
		if !ok {
			return "the slice does not end at an offset from LastIndex(document, separator)", c16CV{}
		}
		if off != k {
			return fmt.Sprintf("the slice ends at separator index %+d, expected %+d", off, k), c16CV{}
		}
		if !guarded(c16Site{o.ctx, sl}) {
			return "the slice is not on the `index != -1` edge: a document without separator would be sliced with -1", c16CV{}
		}
		return "", o
	}
	check := func(role, f string, body func(st c16Site) string, okDetail string) {
		construct := key + "#split-" + role
		if f == "" {
			r.Undecided("J-verify", construct, p.Pos(fn.Pos()), "the "+role+" field could not be identified by the rules above")
			return
		}
		sites, why := onlyHere(f)
		if why != "" {
			r.Violation("J-verify", construct, p.Pos(fn.Pos()), why)
			return
		}
		for _, st := range sites {
			bad := body(st)
			r.Check(bad == "", "J-verify", construct, p.Pos(st.in.Pos()), "vr."+f+" "+okDetail, bad)
		}
	}
	check("payload", s.payloadField, func(st c16Site) string {
		why, _ := prefix(c16CV{st.ctx, st.in.(*ssa.Store).Val}, 0)
		return why
	}, "= doc[:i], i = LastIndex(doc, separator), on the i != -1 edge; no other writer")
	check("payload-json", s.bpjField, func(st c16Site) string {
		why, sl := prefix(c16CV{st.ctx, st.in.(*ssa.Store).Val}, 1)
		if why != "" {
			return why
		}
		// '}' stored at index i of that slice (or of the document bytes)
		for _, c := range N.contexts() {
			for _, b := range c.fn.Blocks {
				for _, in := range b.Instrs {
					bs, ok := in.(*ssa.Store)
					if !ok {
						continue
					}
					ia, ok := bs.Addr.(*ssa.IndexAddr)
					if !ok {
						continue
					}
					if cst, ok := ConstInt(bs.Val); !ok || cst != '}' {
						continue
					}
					if off, ok := idxOff(c16CV{c, ia.Index}); !ok || off != 0 {
						continue
					}
					bsite := c16Site{c, bs}
					if N.origin(c16CV{c, ia.X}) == sl {
						return ""
					}
					f, _, isField := s.fieldLoad(N, c16CV{c, ia.X}, base)
					if isField && f == s.bpjField {
						if ok, _ := N.succAt(c16Event{st, c16EvExec}, bsite, nil); ok {
							return ""
						}
					}
					if isField && isDoc(c16CV{c, ia.X}, 0) {
						if ok, _ := N.succAt(c16Event{bsite, c16EvExec}, st, nil); ok {
							return ""
						}
					}
				}
			}
		}
		return "no '}' is stored at the separator index of the payload JSON: the payload would not parse as the object that was signed plus its closing brace"
	}, "= doc[:i+1] with '}' stored at index i; no other writer")
	check("signature-bytes", s.bsField, func(st c16Site) string {
		for _, x := range N.slice(c16CV{st.ctx, st.in.(*ssa.Store).Val}) {
			sl, ok := x.v.(*ssa.Slice)
			if !ok || !isDoc(c16CV{x.ctx, sl.X}, 0) || sl.High != nil || sl.Max != nil || sl.Low == nil {
				continue
			}
			if off, ok := idxOff(c16CV{x.ctx, sl.Low}); ok && off == 1 && guarded(c16Site{x.ctx, sl}) {
				return ""
			}
		}
		return "the signature bytes do not derive from doc[i+1:] (i = LastIndex(doc, separator)) on the i != -1 edge"
	}, "derives from doc[i+1:]; no other writer")
	// the separator
	construct := key + "#separator"
	if lastIndex.in == nil {
		r.Violation("J-verify", construct, p.Pos(fn.Pos()), "no bytes/strings.LastIndex over the document locates the separator: the payload must end at the LAST separator, since the payload itself may contain look-alikes")
		return
	}
	li := lastIndex.in.(*ssa.Call)
	bad := ""
	if !isDoc(c16CV{lastIndex.ctx, li.Call.Args[0]}, 0) {
		bad = "LastIndex does not search the document passed to NewVerificationRequest"
	}
	sepV := N.origin(c16CV{lastIndex.ctx, li.Call.Args[1]}).v
	if cv, ok := sepV.(*ssa.Convert); ok {
		sepV = cv.X
	}
	sep, ok := ConstString(sepV)
	if bad == "" && (!ok || sep == "") {
		bad = "the separator searched for is not a non-empty constant"
	}
	if bad == "" {
		s.sep, s.sepKnown = sep, true
		if s.sigKey != "" && !strings.Contains(sep, `"`+s.sigKey+`":`) {
			bad = fmt.Sprintf("the separator %q does not contain the quoted JSON key %q under which the signature is read", sep, s.sigKey)
		}
	}
	r.Check(bad == "", "J-verify", construct, p.Pos(li.Pos()),
		fmt.Sprintf("the split index is LastIndex(doc, %q); the separator contains the signature key %q", sep, s.sigKey), bad)
}

// ---------------------------------------------------------------------------
// J-index

func (s *c16State) isVRPtr(t types.Type) bool {
	pt, ok := t.(*types.Pointer)
	return ok && NamedOf(pt) == s.vrT && pt.Elem() == types.Type(s.vrT)
}

func (s *c16State) outside(fn *ssa.Function) bool {
	return !c16InPkg(fn, c16Pkg) && !IsTestSupportPkg(RelPkg(TopFunc(fn).Pkg.Pkg))
}

func (s *c16State) isVerifyCall(c CallSite) bool {
	return c.Value() != nil && c.Callee() == s.verifyFn()
}

// verifiedAt: at site `at` of effective body e, v is a request on which
// Verify returned nil on every path to the site.
func (s *c16State) verifiedAt(e *c16Eff, v c16CV, at c16Site) (bool, string) {
	base := e.origin(v)
	why := "no call of Verify on this request dominates the site"
	for _, vs := range e.calls(s.isVerifyCall) {
		call := vs.in.(*ssa.Call)
		if e.origin(c16CV{vs.ctx, call.Call.Args[0]}) != base {
			continue
		}
		ok, w := e.succAt(c16Event{vs, c16EvOK}, at, nil)
		if ok {
			return true, "Verify returned nil on it"
		}
		if vs.ctx == at.ctx && s.errFieldNilAt(call.Call.Args[0], call, at.in) {
			return true, "Verify ran on it and its " + s.errField + " field, which Verify sets whenever it fails, was found nil afterwards"
		}
		why = "Verify is called on it but " + w
	}
	return false, why
}

// declaredVRParam: v is a *VerifyRequest parameter of a declared function (its
// callers are checked by the callers rule).
func (s *c16State) declaredVRParam(o c16CV) (*ssa.Parameter, bool) {
	pr, ok := o.v.(*ssa.Parameter)
	if !ok || !s.isVRPtr(pr.Type()) || o.ctx.call != nil {
		return nil, false
	}
	return pr, true
}

// The read and pass rules are demand driven: a function that reads an exported
// field of a *VerifyRequest parameter without having verified it itself
// DEMANDS a verified request through that parameter; so does a function that
// passes its parameter on to a demanding one. Every caller of a demanding
// function must pass a verified request (or its own, then demanding, parameter).
// A function that takes a request in order to verify it demands nothing.

func (s *c16State) ruleReads() {
	p, r := s.p, s.r
	st := s.vrT.Underlying().(*types.Struct)
	n := 0
	for _, w := range s.ix.whole {
		if !c16InPkg(w.Parent(), c16Pkg) {
			r.Undecided("J-index", FuncKey(w.Parent())+"#copies-request", p.Pos(w.Pos()), "a VerifyRequest is copied as a whole outside package jsonsign; reads of the copy are not tracked")
		}
	}
	for i := 0; i < st.NumFields(); i++ {
		f := st.Field(i)
		if !f.Exported() || isErrorType(f.Type()) {
			continue // an error-typed field is the failure report: meaningful exactly when verification failed
		}
		for _, e := range s.ix.escapes[f.Name()] {
			if s.outside(e.Parent()) {
				r.Undecided("J-index", FuncKey(e.Parent())+"#reads:"+f.Name(), p.Pos(e.Pos()), "the address of the field is taken outside package jsonsign; reads through it are not tracked")
			}
		}
		for _, ld := range s.ix.loads[f.Name()] {
			fn := ld.Parent()
			if !s.outside(fn) {
				continue
			}
			n++
			construct := FuncKey(TopFunc(fn)) + "#reads:" + f.Name()
			baseV := ld.X.(*ssa.FieldAddr).X
			good, und, why := true, "", ""
			for _, es := range s.localSites(ld) {
				o := es.e.origin(c16CV{es.site.ctx, baseV})
				ok, w := s.verifiedAt(es.e, o, es.site)
				if ok {
					why = "read on a request known verified: " + w
					continue
				}
				if pr, isPrm := s.declaredVRParam(o); isPrm {
					if pr.Parent().Parent() != nil {
						und = "read on the *VerifyRequest parameter of a function literal that is not called directly; its callers are not enumerated"
						continue
					}
					s.demand(pr)
					why = "read on the *VerifyRequest parameter of " + FuncKey(pr.Parent()) + " (every caller passes a verified request, see #passes-request-to)"
					continue
				}
				good, why = false, w
				break
			}
			switch {
			case !good:
				r.Violation("J-index", construct, p.Pos(ld.Pos()), fmt.Sprintf("%s of a request is read where the request is not known verified: %s", f.Name(), why))
			case und != "":
				r.Undecided("J-index", construct, p.Pos(ld.Pos()), und)
			default:
				r.OK("J-index", construct, p.Pos(ld.Pos()), why)
			}
		}
	}
	r.Analysed("request_field_reads_outside_jsonsign", n)
}

func (s *c16State) demand(pr *ssa.Parameter) {
	if s.demanded == nil {
		s.demanded = map[*ssa.Parameter]bool{}
	}
	if !s.demanded[pr] {
		s.demanded[pr] = true
		s.demandQ = append(s.demandQ, pr)
	}
}

func (s *c16State) ruleCallers() {
	p, r := s.p, s.r
	n := 0
	for len(s.demandQ) > 0 {
		sort.Slice(s.demandQ, func(i, j int) bool {
			a, b := s.demandQ[i], s.demandQ[j]
			return FuncKey(a.Parent())+"/"+a.Name() < FuncKey(b.Parent())+"/"+b.Name()
		})
		prm := s.demandQ[0]
		s.demandQ = s.demandQ[1:]
		fn := prm.Parent()
		pi := -1
		for i, q := range fn.Params {
			if q == prm {
				pi = i
			}
		}
		if pi < 0 {
			continue
		}
		if uses := p.FuncValueUses(fn); len(uses) > 0 {
			r.Undecided("J-index", FuncKey(fn)+"#callers", p.Pos(uses[0].Pos()), "the function relies on receiving a verified request but is used as a value; its callers cannot be enumerated statically")
		}
		if fn.Signature.Recv() != nil {
			if inv := p.InvokeSites(fn); len(inv) > 0 {
				r.Undecided("J-index", FuncKey(fn)+"#callers", p.Pos(inv[0].Pos()), "the method relies on receiving a verified request but may be reached through an interface; those callers are not checked")
			}
		}
		callers := p.StaticCallers(fn)
		if len(callers) == 0 {
			r.OKTable("J-index", FuncKey(fn)+"#callers", p.Pos(fn.Pos()), "relies on receiving a verified request but has no caller")
		}
		for _, c := range callers {
			n++
			construct := FuncKey(TopFunc(c.Fn)) + "#passes-request-to:" + FuncKey(fn)
			args := c.Args()
			if pi >= len(args) {
				continue
			}
			good, why := true, ""
			for _, es := range s.localSites(c.Instr) {
				o := es.e.origin(c16CV{es.site.ctx, args[pi]})
				ok, w := s.verifiedAt(es.e, o, es.site)
				if ok {
					why = w
					continue
				}
				if pr, isPrm := s.declaredVRParam(o); isPrm && pr.Parent().Parent() == nil {
					s.demand(pr)
					why = "forwards the *VerifyRequest parameter of " + FuncKey(pr.Parent()) + " (its callers are checked in turn)"
					continue
				}
				good, why = false, w
				break
			}
			r.Check(good, "J-index", construct, p.Pos(c.Pos()), "the request passed: "+why,
				fmt.Sprintf("%s relies on a verified request but receives one that is not known verified: %s", FuncKey(fn), why))
		}
	}
	r.Analysed("request_passing_call_sites", n)
}

// verifying: every successful return of f is dominated by a successful Verify
// call (directly, through followed helpers, or through another verifying
// function).
func (s *c16State) verifying(f *ssa.Function) bool {
	if f == nil {
		return false
	}
	if f == s.verifyFn() {
		return true
	}
	if !s.vrFuncs[f] {
		return false // cannot even hold a request
	}
	switch s.verifyingM[f] {
	case 1, 3:
		return false
	case 2:
		return true
	}
	s.verifyingM[f] = 1
	res := false
	if f.Blocks != nil && !c16InPkg(f, c16Pkg) && InModule(f) {
		if kind, _ := c16SuccessKind(f.Signature); kind == c16KindErr || kind == c16KindBool {
			e := s.eff(f)
			exits := e.successExits(e.root)
			calls := e.calls(func(c CallSite) bool { return c.Value() != nil && s.verifying(c.Callee()) })
			res = len(exits) > 0
			for _, x := range exits {
				ok := false
				for _, c := range calls {
					if o, _ := e.succAtExit(c16Event{c, c16EvOK}, x); o {
						ok = true
					}
				}
				if !ok {
					res = false
				}
			}
		}
	}
	if res {
		s.verifyingM[f] = 2
	} else {
		s.verifyingM[f] = 3
	}
	return res
}

// c16SignedTypes: schema blob types that are signed documents (they carry
// camliSigner/camliSig) and that the indexer acts upon.
var c16SignedTypes = []struct{ constName, reason string }{
	{"TypePermanode", "permanodes are signed by their owner; an unverified one must not be indexed as a permanode"},
	{"TypeClaim", "claims (incl. shares and deletes) mutate permanodes on behalf of the signer"},
}

// ruleSignedTypes: the functions of pkg/index that dispatch on the schema
// blob's type (found by what they compare, not by name).
func (s *c16State) ruleSignedTypes() {
	p, r := s.p, s.r
	typeFn := p.Func("pkg/schema", "Blob", "Type")
	isTypeCmp := func(cond ssa.Value) (k string, eq, ok bool) {
		bo, isBO := cond.(*ssa.BinOp)
		if !isBO || (bo.Op != token.EQL && bo.Op != token.NEQ) {
			return "", false, false
		}
		x, y := bo.X, bo.Y
		if _, isC := x.(*ssa.Const); isC {
			x, y = y, x
		}
		k, isStr := ConstString(y)
		if !isStr {
			return "", false, false
		}
		call, isCall := originValue(x).(*ssa.Call)
		if !isCall || (CallSite{call.Parent(), call}).Callee() != typeFn {
			return "", false, false
		}
		return k, bo.Op == token.EQL, true
	}
	var wants []string
	for _, t := range c16SignedTypes {
		co, _ := p.Pkg("pkg/schema").Types.Scope().Lookup(t.constName).(*types.Const)
		if co == nil || co.Val().Kind() != constant.String {
			brokenf("anchor unresolved: constant pkg/schema.%s", t.constName)
		}
		wants = append(wants, constant.StringVal(co.Val()))
	}
	var dispatchers []*ssa.Function
	for _, fn := range p.FuncsIn("pkg/index") {
		found := false
		for _, b := range fn.Blocks {
			if ifi, ok := c16Last(b).(*ssa.If); ok {
				cond, _ := c16StripNot(ifi.Cond, true)
				if k, _, ok := isTypeCmp(cond); ok {
					for _, w := range wants {
						if k == w {
							found = true
						}
					}
				}
			}
		}
		if found && ErrResultIndex(fn) >= 0 {
			dispatchers = append(dispatchers, fn)
		}
	}
	if len(dispatchers) == 0 {
		r.Violation("J-index", "pkg/index#signed-type-dispatch", "?", "no function of pkg/index compares (*schema.Blob).Type() with the permanode/claim constants: signed blob types are not told apart before indexing")
		return
	}
	for _, fn := range dispatchers {
		s.checkDispatcher(fn, typeFn, wants, isTypeCmp)
	}
}

func (s *c16State) checkDispatcher(fn, typeFn *ssa.Function, wants []string, isTypeCmp func(ssa.Value) (string, bool, bool)) {
	p, r := s.p, s.r
	key := FuncKey(fn)
	e := s.eff(fn)
	isVerifierCall := func(in ssa.Instruction) *ssa.Call {
		call, ok := in.(*ssa.Call)
		if !ok {
			return nil
		}
		if f := (CallSite{fn, call}).Callee(); f != nil && s.verifying(f) {
			return call
		}
		return nil
	}
	exits := e.successExits(e.root)
	maybeNil := map[*ssa.Return]bool{}
	for _, x := range exits {
		maybeNil[x.ret] = true
	}
	for i, want := range wants {
		construct := key + "#signed-type:" + want
		assume := func(cond ssa.Value) (bool, bool) {
			cond, pos := c16StripNot(cond, true)
			k, eq, ok := isTypeCmp(cond)
			if !ok {
				return false, false
			}
			val := (k == want) == eq
			return true, val == pos
		}
		first := fn.Blocks[0].Instrs[0]
		leaks := LeakingExits(PathQuery{
			Start:        first,
			Stop:         func(in ssa.Instruction) bool { return isVerifierCall(in) != nil },
			Assume:       assume,
			ExitOK:       func(exit ssa.Instruction) bool { ret, ok := exit.(*ssa.Return); return ok && !maybeNil[ret] },
			IgnorePanics: true,
		})
		if isVerifierCall(first) != nil {
			leaks = nil
		}
		if len(leaks) > 0 {
			r.Violation("J-index", construct, p.Pos(leaks[0].Exit.Pos()),
				fmt.Sprintf("a blob of type %q reaches the return at line %d, whose error may be nil, without any signature verification (%s)", want, s.line(leaks[0].Exit.Pos()), c16SignedTypes[i].reason))
			continue
		}
		r.OK("J-index", construct, p.Pos(fn.Pos()), fmt.Sprintf("every path with Type()==%q passes a verifying call before any possibly-nil-error return (%s)", want, c16SignedTypes[i].reason))
	}
	// every verifier call: later possibly-nil returns return its error or are on its success edge
	n := 0
	bad, site := "", p.Pos(fn.Pos())
	for _, b := range fn.Blocks {
		for _, in := range b.Instrs {
			call := isVerifierCall(in)
			if call == nil {
				continue
			}
			if n == 0 {
				site = p.Pos(call.Pos())
			}
			n++
			reach := ReachableFrom(call, nil)
			for _, x := range exits {
				if !reach[x.ret] {
					continue
				}
				if ok, why := e.succAtExit(c16Event{c16Site{e.root, call}, c16EvOK}, x); !ok {
					bad = fmt.Sprintf("the return at line %d may carry a nil error after the verifying call at line %d although %s", s.line(x.ret.Pos()), s.line(call.Pos()), why)
				}
			}
		}
	}
	if n == 0 {
		r.Violation("J-index", key+"#verifier-result-honoured", p.Pos(fn.Pos()), "the schema dispatch contains no verifying call at all")
		return
	}
	r.Check(bad == "", "J-index", key+"#verifier-result-honoured", site,
		fmt.Sprintf("after each of the %d verifying call(s), every possibly-nil-error return returns that call's own error or is on its success edge", n), bad)
}

// ruleVerifyCallers: outside package jsonsign nobody calls Verify and then
// ignores its verdict.
func (s *c16State) ruleVerifyCallers() {
	p, r := s.p, s.r
	vf := s.verifyFn()
	if uses := p.FuncValueUses(vf); len(uses) > 0 {
		r.Undecided("J-index", FuncKey(vf)+"#callers", p.Pos(uses[0].Pos()), "Verify is used as a method value; its callers cannot be enumerated statically")
	}
	n := 0
	for _, c := range p.StaticCallers(vf) {
		if !s.outside(c.Fn) {
			continue
		}
		n++
		construct := FuncKey(TopFunc(c.Fn)) + "#verify-verdict-used"
		site := p.Pos(c.Pos())
		if c.Value() == nil {
			r.Violation("J-index", construct, site, "Verify is started with go/defer: its verdict is lost")
			continue
		}
		// a value decides when a nil-comparison of it feeds a branch or is returned as the verdict
		decides := func(v ssa.Value) bool {
			if v.Referrers() == nil {
				return false
			}
			for _, u := range nonDebug(*v.Referrers()) {
				if bo, ok := u.(*ssa.BinOp); ok && (bo.Op == token.EQL || bo.Op == token.NEQ) && (IsNilConst(bo.X) || IsNilConst(bo.Y)) && bo.Referrers() != nil {
					for _, w := range nonDebug(*bo.Referrers()) {
						switch w.(type) {
						case *ssa.If, *ssa.Return, *ssa.Phi, *ssa.Store:
							return true
						}
					}
				}
			}
			return false
		}
		used := false
		if ev, _, discarded := ErrValue(c.Value()); ev != nil && !discarded {
			used = decides(ev)
			for _, ri := range c16Returns(c.Fn) {
				for _, v := range ri.Results {
					if sameOrigin(v, ev) {
						used = true
					}
				}
			}
		}
		// the same verdict is also left in the request's mirrored error field
		if s.errField != "" {
			for _, ld := range s.ix.loads[s.errField] {
				if ld.Parent() == c.Fn && sameOrigin(ld.X.(*ssa.FieldAddr).X, c.Args()[0]) && Precedes(c.Instr, ld) && decides(ld) {
					used = true
				}
			}
		}
		r.Check(used, "J-index", construct, site, "the verdict of Verify (its error result, or the request's error field after the call) decides a branch or is returned",
			"the verdict of Verify neither decides a branch nor is returned: a tampered document is treated like a verified one")
	}
	r.Analysed("verify_call_sites_outside_jsonsign", n)
}

// ---------------------------------------------------------------------------
// J-sign

// c16Part is one piece of a string built by concatenation or Sprintf("%s…").
type c16Part struct {
	lit string
	val c16CV // val.v == nil for literals
}

func (e *c16Eff) stringParts(cv c16CV, depth int) ([]c16Part, bool) {
	if depth > 8 {
		return nil, false
	}
	o := e.origin(cv)
	v := o.v
	if k, ok := ConstString(v); ok {
		return []c16Part{{lit: k}}, true
	}
	switch x := v.(type) {
	case *ssa.BinOp:
		if x.Op != token.ADD {
			return nil, false
		}
		a, ok1 := e.stringParts(c16CV{o.ctx, x.X}, depth+1)
		b, ok2 := e.stringParts(c16CV{o.ctx, x.Y}, depth+1)
		return append(a, b...), ok1 && ok2
	case *ssa.Call:
		c := CallSite{x.Parent(), x}
		if !c.IsStatic("fmt", "", "Sprintf") {
			return []c16Part{{val: o}}, true
		}
		format, ok := ConstString(x.Call.Args[0])
		if !ok || len(x.Call.Args) != 2 {
			return nil, false
		}
		sl, ok := x.Call.Args[1].(*ssa.Slice)
		if !ok {
			return nil, false
		}
		arr, ok := sl.X.(*ssa.Alloc)
		if !ok || arr.Referrers() == nil {
			return nil, false
		}
		args := map[int64]ssa.Value{}
		for _, u := range nonDebug(*arr.Referrers()) {
			ia, ok := u.(*ssa.IndexAddr)
			if !ok {
				continue
			}
			i, ok := ConstInt(ia.Index)
			if !ok || ia.Referrers() == nil {
				return nil, false
			}
			for _, w := range nonDebug(*ia.Referrers()) {
				if st, ok := w.(*ssa.Store); ok && st.Addr == ssa.Value(ia) {
					args[i] = st.Val
				}
			}
		}
		if strings.Contains(strings.ReplaceAll(format, "%s", ""), "%") {
			return nil, false // only %s verbs are modelled
		}
		lits := strings.Split(format, "%s")
		if len(lits)-1 != len(args) {
			return nil, false
		}
		var out []c16Part
		for i, l := range lits {
			if l != "" {
				out = append(out, c16Part{lit: l})
			}
			if i < len(lits)-1 {
				a := args[int64(i)]
				if a == nil {
					return nil, false
				}
				ao := e.origin(c16CV{o.ctx, a})
				if b, ok := ao.v.Type().Underlying().(*types.Basic); !ok || b.Kind() != types.String {
					return nil, false
				}
				sub, ok := e.stringParts(ao, depth+1)
				if !ok {
					return nil, false
				}
				out = append(out, sub...)
			}
		}
		return out, true
	}
	return []c16Part{{val: o}}, true
}

// c16MergeLits joins adjacent literal parts.
func c16MergeLits(ps []c16Part) []c16Part {
	var out []c16Part
	for _, q := range ps {
		if q.val.v == nil && len(out) > 0 && out[len(out)-1].val.v == nil {
			out[len(out)-1].lit += q.lit
			continue
		}
		out = append(out, q)
	}
	return out
}

func (s *c16State) ruleSign() {
	p, r := s.p, s.r
	fn := p.Func(c16Pkg, "SignRequest", "Sign")
	S := s.eff(fn)
	key := FuncKey(fn)
	detach := S.calls(func(c CallSite) bool {
		return c.Value() != nil && c.IsStatic("golang.org/x/crypto/openpgp", "", "ArmoredDetachSign")
	})
	if len(detach) != 1 {
		r.Undecided("J-sign", key+"#signed-bytes", p.Pos(fn.Pos()), fmt.Sprintf("expected exactly one openpgp.ArmoredDetachSign call site in Sign's effective body, found %d", len(detach)))
		return
	}
	d := detach[0]
	dcall := d.in.(*ssa.Call)
	dargs := dcall.Call.Args
	// what is signed: reader constructor over a string/bytes value
	var signed c16CV
	if ro := S.origin(c16CV{d.ctx, dargs[2]}); ro.v != nil {
		if rc, ok := ro.v.(*ssa.Call); ok {
			c := CallSite{rc.Parent(), rc}
			if c.IsStatic("strings", "", "NewReader") || c.IsStatic("bytes", "", "NewReader") || c.IsStatic("bytes", "", "NewBufferString") || c.IsStatic("bytes", "", "NewBuffer") {
				signed = S.origin(c16CV{ro.ctx, rc.Call.Args[0]})
				if cv, ok := signed.v.(*ssa.Convert); ok {
					signed = S.origin(c16CV{signed.ctx, cv.X})
				}
			}
		}
	}
	exits := S.successExits(S.root)
	if signed.v == nil {
		r.Undecided("J-sign", key+"#signed-bytes", p.Pos(dcall.Pos()), "the message handed to ArmoredDetachSign is not a reader built directly over a string or byte slice")
	} else if len(exits) == 0 {
		r.Violation("J-sign", key+"#signed-bytes", p.Pos(fn.Pos()), "Sign has no return whose error may be nil")
	}
	if signed.v != nil {
		done := map[*ssa.Return]bool{}
		for _, x := range exits {
			var doc ssa.Value
			for _, ri := range c16Returns(fn) {
				if ri.Ret == x.ret {
					doc = ri.Results[0]
				}
			}
			site := p.Pos(x.inner.Pos())
			parts, ok := S.stringParts(c16CV{S.root, doc}, 0)
			parts = c16MergeLits(parts)
			if !ok || len(parts) < 4 {
				if !done[x.ret] {
					r.Undecided("J-sign", key+"#signed-bytes", site, "the returned document is not built by Sprintf(\"%s…\")/concatenation of payload, separator, signature and tail")
				}
				done[x.ret] = true
				continue
			}
			bad := ""
			switch {
			case parts[0].val.v == nil || parts[0].val != signed:
				bad = "the returned document does not start with exactly the string that was signed: the verifier hashes everything before the last separator"
			case parts[1].val.v != nil:
				bad = "the signed string is not followed by a constant separator"
			case parts[2].val.v == nil:
				bad = "no signature value follows the separator"
			case parts[3].val.v != nil || !strings.HasPrefix(parts[3].lit, `"}`):
				bad = "the signature is not followed by '\"}' closing the camliSig string and the object"
			}
			if bad == "" {
				if ok, w := S.succAtExit(c16Event{d, c16EvOK}, x); !ok {
					bad = "the document is returned although ArmoredDetachSign may have failed: " + w
				}
			}
			if bad == "" {
				fromBuf := false
				buf := S.origin(c16CV{d.ctx, dargs[0]})
				if _, isAl := buf.v.(*ssa.Alloc); isAl {
					for _, y := range S.slice(parts[2].val) {
						if y == buf {
							fromBuf = true
						}
					}
				}
				if !fromBuf {
					bad = "the signature text does not derive from the buffer ArmoredDetachSign wrote to"
				}
			}
			if done[x.ret] && bad == "" {
				continue
			}
			done[x.ret] = true
			r.Check(bad == "", "J-sign", key+"#signed-bytes", site,
				"returned document = <string handed to ArmoredDetachSign> + constant + <text derived from the armor buffer> + '\"}'…, on the signing success edge", bad)
			// separator agreement
			if bad == "" {
				switch {
				case !s.sepKnown:
					r.Undecided("J-sign", key+"#separator-agreement", site, "the verifier's separator constant could not be determined")
				default:
					r.Check(parts[1].lit == s.sep, "J-sign", key+"#separator-agreement", site,
						fmt.Sprintf("Sign writes %q between payload and signature, the constant NewVerificationRequest searches for", s.sep),
						fmt.Sprintf("Sign writes %q between payload and signature but NewVerificationRequest searches for %q: signed documents would not verify (or would be split elsewhere)", parts[1].lit, s.sep))
				}
			}
		}
	}
	// who signs: entity looked up from the public key fetched under the document's signer key
	construct := key + "#signer-agreement"
	var fetches []c16Site
	for _, x := range S.slice(c16CV{d.ctx, dargs[1]}) {
		if call, ok := x.v.(*ssa.Call); ok && s.isFetch(call) {
			fetches = append(fetches, c16Site{x.ctx, call})
		}
	}
	switch {
	case len(fetches) == 0:
		r.Violation("J-sign", construct, p.Pos(dcall.Pos()), "the signing entity does not derive from a public key blob fetched through the request's blob.Fetcher: the signature need not match the key the document names")
	case s.signerKey == "":
		r.Undecided("J-sign", construct, p.Pos(dcall.Pos()), "the verifier's signer JSON key could not be determined")
	default:
		bad := ""
		for _, f := range fetches {
			fc := f.in.(*ssa.Call)
			ks := map[string]bool{}
			for _, x := range S.slice(c16CV{f.ctx, fc.Call.Args[1]}) {
				if lk, ok := x.v.(*ssa.Lookup); ok {
					if k, ok := ConstString(lk.Index); ok {
						ks[k] = true
					}
				}
			}
			if !ks[s.signerKey] || len(ks) != 1 {
				var l []string
				for k := range ks {
					l = append(l, k)
				}
				sort.Strings(l)
				bad = fmt.Sprintf("Sign fetches the public key under JSON key(s) %v but the verifier reads the signer from %q", l, s.signerKey)
			}
			if ok, w := S.succAt(c16Event{f, c16EvOK}, d, nil); !ok {
				bad = "signing proceeds although fetching the public key may have failed: " + w
			}
		}
		r.Check(bad == "", "J-sign", construct, p.Pos(dcall.Pos()),
			fmt.Sprintf("the signing entity derives from the public key blob fetched under JSON key %q, the key the verifier reads the signer from", s.signerKey), bad)
	}
	// the signed text is the unsigned JSON minus its closing brace: checked as a guard
	construct = key + "#closing-brace"
	if signed.v != nil {
		sl, ok := signed.v.(*ssa.Slice)
		bad := ""
		if !ok || sl.High == nil {
			bad = "the signed string is not the input with its last byte cut off"
		} else {
			// High must be len(x)-1 and a dominating test must establish x[len(x)-1] == '}'
			hb, ok := S.origin(c16CV{signed.ctx, sl.High}).v.(*ssa.BinOp)
			if !ok || hb.Op != token.SUB {
				bad = "the signed string is not cut exactly one byte short"
			} else if k, ok := ConstInt(hb.Y); !ok || k != 1 {
				bad = "the signed string is not cut exactly one byte short"
			} else {
				slSite := c16Site{signed.ctx, sl}
				found := S.factHolds(func(_ *c16Ctx, cond ssa.Value, val bool) bool {
					cond, val = c16StripNot(cond, val)
					bo, ok := cond.(*ssa.BinOp)
					if !ok {
						return false
					}
					k, ok := ConstInt(bo.Y)
					if !ok || k != '}' {
						return false
					}
					return (bo.Op == token.NEQ && !val) || (bo.Op == token.EQL && val)
				}, slSite, nil, 6)
				// alternative: the very string was right-trimmed of white space and then
				// successfully json.Unmarshal'ed into a map, so it ends in '}'
				if src := S.origin(c16CV{signed.ctx, sl.X}); !found {
					if tc, ok := src.v.(*ssa.Call); ok {
						c := CallSite{tc.Parent(), tc}
						if c.IsStatic("strings", "", "TrimRightFunc") || c.IsStatic("strings", "", "TrimSpace") || c.IsStatic("strings", "", "TrimRight") {
							for _, u := range S.calls(func(c CallSite) bool { return c.Value() != nil && c.IsStatic("encoding/json", "", "Unmarshal") }) {
								uargs := u.in.(*ssa.Call).Call.Args
								us := S.origin(c16CV{u.ctx, uargs[0]})
								if cv, ok := us.v.(*ssa.Convert); ok {
									us = S.origin(c16CV{us.ctx, cv.X})
								}
								cell := S.origin(c16CV{u.ctx, uargs[1]})
								al, isCell := cell.v.(*ssa.Alloc)
								if us != src || !isCell {
									continue
								}
								if _, isMap := al.Type().(*types.Pointer).Elem().Underlying().(*types.Map); !isMap {
									continue
								}
								if ok, _ := S.succAt(c16Event{u, c16EvOK}, slSite, nil); ok {
									found = true
								}
							}
						}
					}
				}
				if !found {
					bad = "the byte cut off before signing is not known to be '}' (no dominating test, and not a right-trimmed string that parsed as a JSON object): the verifier re-appends '}' to the payload before parsing it"
				}
			}
		}
		r.Check(bad == "", "J-sign", construct, p.Pos(dcall.Pos()),
			"the signed string is the input minus its last byte, which is known to be '}' (dominating test, or right-trimmed text that parsed as a JSON object) - the byte the verifier puts back", bad)
	}
}
