package main

import (
	"fmt"
	"go/constant"
	"go/token"
	"go/types"
	"sort"
	"strings"

	"golang.org/x/tools/go/ssa"
)

func init() {
	register(&PropSpec{
		ID:    "C16",
		Title: "Signed schema blobs verify, and only untampered ones do",
		Explanation: "Decided (structural necessary conditions, all on go/ssa of the current tree). " +
			"J-verify: (chain) every return of jsonsign.(*VerifyRequest).Verify whose error may be nil is dominated by the success edge of ParseSigMap, ParsePayloadMap, FindAndParsePublicKeyBlob and VerifySignature applied to Verify's own receiver, and a step that writes a request field precedes every step that reads it (order is derived from the steps' field read/write sets, not frozen); " +
			"(signature) in VerifySignature every possibly-true return is dominated by err==nil of (*packet.PublicKey).VerifySignature; the hash handed to it is created in the function and is fed only by Write calls whose argument is one field of the request (the payload field), at least one of which precedes the verification; the signature packet derives from exactly one request field (the signature field); the verifying key is a load of one request field (the key field); " +
			"(writers, module-wide, by field identity) the key field is stored only by a VerifyRequest method, with a value derived from a blob.Fetcher.Fetch of the signer-ref field, on the success edge of the fetch and of every fallible call in between, and every nil-error return of that method is preceded by the store; the signer-ref field and PayloadMap are stored only from a map json.Unmarshal'ed from one and the same request field (the payload-JSON field), the signer under a constant key; the signature field is stored only from the single constant key of a map Unmarshal'ed from the signature-bytes field, and that function returns true only under len(map)==1 on the Unmarshal success edge; SignerKeyId is stored only on the success edge of the cryptographic verification with a value derived from the key field; crypto.Hash.New on the packet's hash id is reachable only through an edge on which that id equals a constant (white list; New panics for an id that is not linked in); " +
			"(split) the payload, payload-JSON and signature-bytes fields are stored only in NewVerificationRequest, as doc[:i], doc[:i+1] (with '}' stored at index i) and a value derived from doc[i+1:], where doc is the document argument and i is the result of bytes/strings.LastIndex(doc, constant separator), each slice on the i != -1 edge; the signature JSON key occurs, quoted and followed by a colon, inside that separator. " +
			"J-index: every module function outside package jsonsign that returns a *VerifyRequest returns, together with a possibly-nil error, only a request on which Verify returned nil (dominance); every caller of a function taking a *VerifyRequest parameter passes its own such parameter or a request verified that way; every read of an exported, non-error VerifyRequest field outside package jsonsign is on a parameter (covered by the callers rule) or on a request whose Verify / verifier call is known to have succeeded at the read (err==nil edge, or - only if Verify is found to mirror a non-nil result into the request's error field from a literal deferred before the first step - that field found nil after the call); at every call of Verify outside package jsonsign the verdict decides a branch or is returned; in (*Index).populateMutationMapForSchema every path on which the blob type is permanode or claim reaches a possibly-nil-error return only through a successful verifier call (the verifier's own error may be returned). " +
			"J-sign: in (*SignRequest).Sign the bytes handed to openpgp.ArmoredDetachSign are exactly the string placed before the separator in the returned document, the text between them is the separator NewVerificationRequest searches for, the signature text derives from the armor buffer and is followed by '\"}', and the signing entity is looked up from the public key fetched under the same JSON key the verifier reads the signer from. " +
			"NOT decided: correctness of OpenPGP, armor and JSON decoding; the outcome of any particular byte substitution, insertion or deletion; that distinct documents cannot share payload bytes; key-ring contents; anything about signature times; that reArmor inverts the single-line armor for every signature; whether callers hold on to a request after a later failed Verify.",
		RuleDocs: map[string]string{
			"J-verify": "dominance + value dependence over jsonsign.VerifyRequest: Verify's success return behind the four steps (order from field read/write sets); VerifySignature's true return behind packet.PublicKey.VerifySignature==nil over a hash fed only with the payload field; module-wide writers of the key/signer/signature/payload fields; the LastIndex split in NewVerificationRequest",
			"J-index":  "who-may-read / who-may-pass: every *VerifyRequest crossing a function boundary or having an exported field read outside package jsonsign is one on which Verify is known to have returned nil; no caller of Verify ignores its verdict; signed blob types (permanode, claim) are dispatched through the verifier in the indexer",
			"J-sign":   "agreement between Sign and the verifier: signed bytes == bytes before the separator, same separator constant, same signer JSON key",
		},
		Run:       runC16,
		DesignRef: "DESIGN.md §4 C16",
		Technique: "static analysis: dominance on success edges, backward value dependence and module-wide field-writer enumeration over go/ssa; constant agreement between signer and verifier",
		LevelText: "Decides structural necessary conditions only: acceptance by Verify/VerifySignature is dominated by the cryptographic check over the payload bytes split at the last separator, with the key fetched under the signer named in those bytes; the indexer and the sign handler read verification results only from requests known verified; Sign signs exactly what it places before the separator. Does not decide OpenPGP/JSON correctness nor the result of any concrete tampering.",
	})
}

const (
	c16Pkg     = "pkg/jsonsign"
	c16PktPath = "golang.org/x/crypto/openpgp/packet"
)

type c16State struct {
	p   *Program
	r   *Reporter
	vrT *types.Named
	ix  *c16FieldIndex

	// roles discovered while checking (field names of VerifyRequest)
	payloadField string // bytes that are hashed (bp)
	sigField     string // single-line armor (CamliSig)
	keyField     string // public key packet
	signerField  string // ref of the public key blob (CamliSigner)
	bpjField     string // payload JSON bytes (bpj)
	bsField      string // signature JSON bytes (bs)
	signerKey    string // JSON key the signer ref is read from
	sigKey       string // JSON key the signature is read from
	sep          string // separator constant searched by NewVerificationRequest
	sepKnown     bool
	verifiers    map[*ssa.Function]bool // functions outside jsonsign returning a verified request
	errField     string                 // error-typed field that Verify is known to leave non-nil whenever it returns an error ("" if not established)
}

func runC16(p *Program, r *Reporter) {
	// helpers.go memoises per-Alloc facts in a process-global map; across selftest
	// mutants that map keeps every earlier Program alive (~3 GB each). It is only
	// a memo, so dropping it is harmless.
	plainVarCache = map[*ssa.Alloc]bool{}
	s := &c16State{p: p, r: r, vrT: p.NamedType(c16Pkg, "VerifyRequest"), verifiers: map[*ssa.Function]bool{}}
	s.ix = c16BuildIndex(p, s.vrT)
	r.Analysed("functions", len(p.AllFuncs))
	s.ruleChain()
	s.findErrChannel()
	s.ruleVerifySignature()
	s.ruleKeyWriters()
	s.ruleSignerAndPayloadWriters()
	s.ruleSigWriters()
	s.ruleSignerKeyID()
	s.ruleSplit()
	s.ruleHashGuard()
	r.Floor("J-verify", 23)
	s.ruleVerifiers()
	s.ruleCallers()
	s.ruleReads()
	s.ruleSignedTypes()
	s.ruleVerifyCallers()
	r.Floor("J-index", 17)
	s.ruleSign()
	r.Floor("J-sign", 4)
}

// ---------------------------------------------------------------------------
// module-wide index of accesses to VerifyRequest fields

type c16FieldIndex struct {
	stores  map[string][]*ssa.Store
	loads   map[string][]*ssa.UnOp
	escapes map[string][]ssa.Instruction // address taken / value-struct field access
	whole   []ssa.Instruction           // whole-struct stores or copies
}

func c16BuildIndex(p *Program, n *types.Named) *c16FieldIndex {
	ix := &c16FieldIndex{stores: map[string][]*ssa.Store{}, loads: map[string][]*ssa.UnOp{}, escapes: map[string][]ssa.Instruction{}}
	for _, fn := range p.AllFuncs {
		for _, b := range fn.Blocks {
			for _, in := range b.Instrs {
				switch x := in.(type) {
				case *ssa.FieldAddr:
					if NamedOf(x.X.Type()) != n {
						continue
					}
					name := fieldName(x.X.Type(), x.Field)
					refs := x.Referrers()
					if refs == nil {
						continue
					}
					for _, u := range *refs {
						switch y := u.(type) {
						case *ssa.Store:
							if y.Addr == ssa.Value(x) {
								ix.stores[name] = append(ix.stores[name], y)
							} else {
								ix.escapes[name] = append(ix.escapes[name], y)
							}
						case *ssa.UnOp:
							if y.Op == token.MUL {
								ix.loads[name] = append(ix.loads[name], y)
							} else {
								ix.escapes[name] = append(ix.escapes[name], y)
							}
						case *ssa.DebugRef:
						default:
							ix.escapes[name] = append(ix.escapes[name], u)
						}
					}
				case *ssa.Field:
					if t, ok := x.X.Type().(*types.Named); ok && t == n {
						ix.escapes[fieldName(types.NewPointer(t), x.Field)] = append(ix.escapes[fieldName(types.NewPointer(t), x.Field)], x)
					}
				case *ssa.Store:
					if t, ok := x.Val.Type().(*types.Named); ok && t == n {
						ix.whole = append(ix.whole, x)
					}
				case *ssa.UnOp:
					if t, ok := x.Type().(*types.Named); ok && t == n && x.Op == token.MUL {
						ix.whole = append(ix.whole, x)
					}
				}
			}
		}
	}
	return ix
}

// writers returns the module-wide stores to field f; why != "" when the set
// cannot be trusted to be complete (address escapes, whole-struct copies).
func (s *c16State) writers(f string) (sts []*ssa.Store, why string) {
	if len(s.ix.whole) > 0 {
		return s.ix.stores[f], fmt.Sprintf("a VerifyRequest is copied or assigned as a whole at %s; field writers cannot be enumerated", s.p.Pos(s.ix.whole[0].Pos()))
	}
	if e := s.ix.escapes[f]; len(e) > 0 {
		return s.ix.stores[f], fmt.Sprintf("the address of field %s escapes at %s; its writers cannot be enumerated", f, s.p.Pos(e[0].Pos()))
	}
	return s.ix.stores[f], ""
}

func (s *c16State) hasField(f string) bool {
	st := s.vrT.Underlying().(*types.Struct)
	for i := 0; i < st.NumFields(); i++ {
		if st.Field(i).Name() == f {
			return true
		}
	}
	return false
}

func (s *c16State) fieldKey(f string) string { return c16Pkg + ".VerifyRequest." + f }

// ---------------------------------------------------------------------------
// small value helpers

func c16Last(b *ssa.BasicBlock) ssa.Instruction { return b.Instrs[len(b.Instrs)-1] }

// c16Slice returns every value in the backward slice of v.
func c16Slice(v ssa.Value) []ssa.Value {
	var out []ssa.Value
	DependsOn(v, func(x ssa.Value) bool { out = append(out, x); return false })
	return out
}

// c16FieldLoadOn: v is a load of a field of the VerifyRequest pointed to by
// base (any base when base == nil).
func (s *c16State) fieldLoadOn(v ssa.Value, base ssa.Value) (string, bool) {
	ld, ok := originValue(v).(*ssa.UnOp)
	if !ok || ld.Op != token.MUL {
		return "", false
	}
	fa, ok := ld.X.(*ssa.FieldAddr)
	if !ok || NamedOf(fa.X.Type()) != s.vrT {
		return "", false
	}
	if base != nil && originValue(fa.X) != base {
		return "", false
	}
	return fieldName(fa.X.Type(), fa.Field), true
}

// sliceFields lists the fields of the request at base whose address occurs in
// the backward slice of v.
func (s *c16State) sliceFields(v ssa.Value, base ssa.Value) []string {
	set := map[string]bool{}
	for _, x := range c16Slice(v) {
		if fa, ok := x.(*ssa.FieldAddr); ok && NamedOf(fa.X.Type()) == s.vrT && (base == nil || originValue(fa.X) == base) {
			set[fieldName(fa.X.Type(), fa.Field)] = true
		}
	}
	var out []string
	for k := range set {
		out = append(out, k)
	}
	sort.Strings(out)
	return out
}

// vrRecv returns the receiver parameter when fn is a method on *VerifyRequest.
func (s *c16State) vrRecv(fn *ssa.Function) ssa.Value {
	if fn == nil || fn.Signature.Recv() == nil || len(fn.Params) == 0 || NamedOf(fn.Signature.Recv().Type()) != s.vrT {
		return nil
	}
	return fn.Params[0]
}

func c16InPkg(fn *ssa.Function, rel string) bool {
	t := TopFunc(fn)
	return t.Pkg != nil && RelPkg(t.Pkg.Pkg) == rel
}

// c16AlwaysFalse: every return of fn yields the constant false as result i.
func c16AlwaysFalse(fn *ssa.Function, i int) bool {
	if fn == nil || fn.Blocks == nil {
		return false
	}
	rets := Returns(fn)
	if len(rets) == 0 {
		return false
	}
	for _, ri := range rets {
		c, ok := ri.Results[i].(*ssa.Const)
		if !ok || c.Value == nil || c.Value.Kind() != constant.Bool || constant.BoolVal(c.Value) {
			return false
		}
	}
	return true
}

// c16MaybeTrueReturns lists the returns of a bool-valued function whose result
// is not known to be false (constant false, or the result of a callee that
// only ever returns false, such as (*VerifyRequest).fail).
func c16MaybeTrueReturns(fn *ssa.Function) []*ssa.Return {
	var out []*ssa.Return
	for _, ri := range Returns(fn) {
		v := ri.Results[0]
		if c, ok := v.(*ssa.Const); ok && c.Value != nil && c.Value.Kind() == constant.Bool && !constant.BoolVal(c.Value) {
			continue
		}
		if call, ok := originValue(v).(*ssa.Call); ok {
			if f := (CallSite{call.Parent(), call}).Callee(); f != nil && c16AlwaysFalse(f, 0) {
				continue
			}
		}
		out = append(out, ri.Ret)
	}
	return out
}

// c16Succeeded: every path to instruction at has passed through call c and c
// reported success (nil error, or true for a bool-valued step).
func c16Succeeded(c *ssa.Call, at ssa.Instruction) (bool, string) {
	res := c.Call.Signature().Results()
	if res.Len() == 1 {
		if b, ok := res.At(0).Type().Underlying().(*types.Basic); ok && b.Kind() == types.Bool {
			if !Precedes(c, at) {
				return false, "call does not dominate the site"
			}
			for _, f := range FactsAt(at.Block()) {
				cond, val := f.Cond, f.Val
				for {
					if u, ok := cond.(*ssa.UnOp); ok && u.Op == token.NOT {
						cond, val = u.X, !val
						continue
					}
					break
				}
				if originValue(cond) == ssa.Value(c) {
					if val {
						return true, ""
					}
					return false, "site is on the false edge of the call"
				}
			}
			return false, "site is not on the true edge of the call"
		}
	}
	return SuccessDominates(c, at)
}

// c16KnownNonNilReload: v re-loads a field path (e.g. vr.Err) that a dominating
// branch has just tested non-nil, with no call or heap store in between.
func c16KnownNonNilReload(v ssa.Value, at *ssa.BasicBlock) bool {
	ld, ok := v.(*ssa.UnOp)
	if !ok || ld.Op != token.MUL {
		return false
	}
	path := AccessPath(ld)
	if strings.HasPrefix(path, "?") || strings.Contains(path, "?") {
		return false
	}
	quiet := func(ins []ssa.Instruction) bool {
		for _, in := range ins {
			switch x := in.(type) {
			case ssa.CallInstruction:
				return false
			case *ssa.Store:
				if _, isLocal := x.Addr.(*ssa.Alloc); !isLocal {
					return false
				}
			}
		}
		return true
	}
	for _, f := range FactsAt(at) {
		bo, ok := f.Cond.(*ssa.BinOp)
		if !ok || (bo.Op != token.NEQ && bo.Op != token.EQL) {
			continue
		}
		var other ssa.Value
		if IsNilConst(bo.Y) {
			other = bo.X
		} else if IsNilConst(bo.X) {
			other = bo.Y
		} else {
			continue
		}
		nonNil := (bo.Op == token.NEQ) == f.Val
		o, ok := other.(*ssa.UnOp)
		if !nonNil || !ok || o.Op != token.MUL || AccessPath(o) != path || o.Block() != f.At {
			continue
		}
		if ld.Block() != at || len(at.Preds) != 1 || at.Preds[0] != f.At {
			continue
		}
		if quiet(f.At.Instrs[instrIndex(o)+1:]) && quiet(at.Instrs[:instrIndex(ld)]) {
			return true
		}
	}
	return false
}

// c16NonNilViaCallee: v is result i of a call to a statically known function
// (or local literal) all of whose returns yield a non-nil error expression.
func c16NonNilViaCallee(v ssa.Value) bool {
	ex, ok := v.(*ssa.Extract)
	if !ok {
		return false
	}
	call, ok := ex.Tuple.(*ssa.Call)
	if !ok {
		return false
	}
	f := (CallSite{call.Parent(), call}).Callee()
	if f == nil || f.Blocks == nil {
		return false
	}
	rets := Returns(f)
	if len(rets) == 0 {
		return false
	}
	for _, ri := range rets {
		if ex.Index >= len(ri.Results) || !isNonNilErrorExpr(ri.Results[ex.Index]) {
			return false
		}
	}
	return true
}

// successReturns lists the returns of fn whose error result may be nil.
func c16SuccessReturns(fn *ssa.Function) []NilReturn {
	var out []NilReturn
	for _, nr := range MaybeNilErrorReturns(fn) {
		if c16KnownNonNilReload(nr.Val, nr.From) || c16NonNilViaCallee(nr.Val) {
			continue
		}
		out = append(out, nr)
	}
	return out
}

// c16IntFact: what the dominating branches at block b say about `v == k`.
func c16IntFact(b *ssa.BasicBlock, match func(ssa.Value) bool, k int64) (known, equal bool) {
	for _, f := range FactsAt(b) {
		bo, ok := f.Cond.(*ssa.BinOp)
		if !ok {
			continue
		}
		x, y, op := bo.X, bo.Y, bo.Op
		if _, isConst := x.(*ssa.Const); isConst {
			x, y = y, x
			switch op {
			case token.LSS:
				op = token.GTR
			case token.GTR:
				op = token.LSS
			case token.LEQ:
				op = token.GEQ
			case token.GEQ:
				op = token.LEQ
			}
		}
		c, ok := ConstInt(y)
		if !ok || !match(x) {
			continue
		}
		switch {
		case op == token.EQL && c == k:
			return true, f.Val
		case op == token.NEQ && c == k:
			return true, !f.Val
		case op == token.LSS && c == k+1 && !f.Val && k == -1: // !(v < 0) for k == -1: v >= 0
			return true, false
		case op == token.GEQ && c == k+1 && f.Val && k == -1: // v >= 0
			return true, false
		case op == token.GTR && c == k && f.Val && k == -1: // v > -1
			return true, false
		}
	}
	return false, false
}

// ---------------------------------------------------------------------------
// J-verify: chain

// c16RW computes the request fields fn reads and writes through base
// (bound 1 through same-package callees that get base as receiver).
func (s *c16State) rw(fn *ssa.Function, base ssa.Value, depth int, r, w map[string]bool) {
	for _, b := range fn.Blocks {
		for _, in := range b.Instrs {
			switch x := in.(type) {
			case *ssa.FieldAddr:
				if NamedOf(x.X.Type()) != s.vrT || originValue(x.X) != base {
					continue
				}
				name := fieldName(x.X.Type(), x.Field)
				if refs := x.Referrers(); refs != nil {
					for _, u := range nonDebug(*refs) {
						if st, ok := u.(*ssa.Store); ok && st.Addr == ssa.Value(x) {
							w[name] = true
						} else {
							r[name] = true
						}
					}
				}
			case ssa.CallInstruction:
				c := CallSite{fn, x}
				f := c.Callee()
				if f == nil || depth >= 1 || f.Blocks == nil || !c16InPkg(f, c16Pkg) {
					continue
				}
				if rv := s.vrRecv(f); rv != nil && len(c.Args()) > 0 && originValue(c.Args()[0]) == base {
					s.rw(f, rv, depth+1, r, w)
				}
			}
		}
	}
}

var c16Steps = []string{"ParseSigMap", "ParsePayloadMap", "FindAndParsePublicKeyBlob", "VerifySignature"}

func (s *c16State) ruleChain() {
	p, r := s.p, s.r
	verify := p.Func(c16Pkg, "VerifyRequest", "Verify")
	recv := ssa.Value(verify.Params[0])
	key := FuncKey(verify)
	succ := c16SuccessReturns(verify)
	if len(succ) == 0 {
		r.Violation("J-verify", key+"#success-return", p.Pos(verify.Pos()), "Verify has no return whose error may be nil: nothing ever verifies")
	}
	stepCalls := map[string][]*ssa.Call{}
	stepFn := map[string]*ssa.Function{}
	for _, name := range c16Steps {
		f := p.Func(c16Pkg, "VerifyRequest", name)
		stepFn[name] = f
		for _, c := range CallsIn(verify, false) {
			if c.Value() != nil && c.Callee() == f && originValue(c.Args()[0]) == recv {
				stepCalls[name] = append(stepCalls[name], c.Value())
			}
		}
		construct := key + "#success-requires:" + name
		if len(stepCalls[name]) == 0 {
			r.Violation("J-verify", construct, p.Pos(verify.Pos()), "Verify no longer calls "+name+" on its receiver: a document is accepted without that step")
			continue
		}
		bad := ""
		for _, nr := range succ {
			at := c16Last(nr.From)
			ok, why := false, ""
			for _, c := range stepCalls[name] {
				if o, w := c16Succeeded(c, at); o {
					ok = true
				} else {
					why = w
				}
			}
			if !ok {
				bad = fmt.Sprintf("the return at line %d may carry a nil error although %s has not succeeded (%s)", p.Fset.Position(nr.Ret.Pos()).Line, name, why)
			}
		}
		r.Check(bad == "", "J-verify", construct, p.Pos(stepCalls[name][0].Pos()),
			fmt.Sprintf("all %d possibly-nil-error return(s) are dominated by the success edge of %s on the receiver", len(succ), name), bad)
	}
	// order from data dependence
	type rwSet struct{ r, w map[string]bool }
	sets := map[string]rwSet{}
	for _, name := range c16Steps {
		st := rwSet{map[string]bool{}, map[string]bool{}}
		s.rw(stepFn[name], stepFn[name].Params[0], 0, st.r, st.w)
		sets[name] = st
	}
	dep := func(a, b string) []string {
		var fs []string
		for f := range sets[a].w {
			if sets[b].r[f] {
				fs = append(fs, f)
			}
		}
		sort.Strings(fs)
		return fs
	}
	for _, a := range c16Steps {
		for _, b := range c16Steps {
			if a == b {
				continue
			}
			fs := dep(a, b)
			if len(fs) == 0 || len(stepCalls[a]) == 0 || len(stepCalls[b]) == 0 {
				continue
			}
			construct := key + "#order:" + a + "<" + b
			if back := dep(b, a); len(back) > 0 {
				r.Undecided("J-verify", construct, p.Pos(verify.Pos()), fmt.Sprintf("%s writes %v read by %s and %s writes %v read by %s: no order can be derived", a, fs, b, b, back, a))
				continue
			}
			bad := ""
			for _, cb := range stepCalls[b] {
				ok := false
				for _, ca := range stepCalls[a] {
					if Precedes(ca, cb) {
						ok = true
					}
				}
				if !ok {
					bad = fmt.Sprintf("%s (line %d) reads %v before %s has written it on every path", b, p.Fset.Position(cb.Pos()).Line, fs, a)
				}
			}
			r.Check(bad == "", "J-verify", construct, p.Pos(stepCalls[b][0].Pos()),
				fmt.Sprintf("%s writes %v, which %s reads; every call of %s is preceded by %s", a, fs, b, b, a), bad)
		}
	}
}

// findErrChannel establishes (without emitting an obligation) whether Verify
// mirrors a non-nil error result into an error-typed field of the request: a
// literal deferred before the first step stores the named error result into
// that field under the fact "result != nil". Callers may then test that field
// instead of the error result.
func (s *c16State) findErrChannel() {
	verify := s.verifyFn()
	recv := ssa.Value(verify.Params[0])
	var firstStep ssa.Instruction
	for _, c := range CallsIn(verify, false) {
		if f := c.Callee(); f != nil && s.vrRecv(f) != nil && c.Value() != nil && firstStep == nil {
			firstStep = c.Instr
		}
	}
	for _, d := range DeferredCalls(verify) {
		lit := ClosureOf(d)
		if lit == nil || firstStep == nil || !Precedes(d.Instr, firstStep) {
			continue
		}
		for _, b := range lit.Blocks {
			for _, in := range b.Instrs {
				st, ok := in.(*ssa.Store)
				if !ok {
					continue
				}
				fa, ok := st.Addr.(*ssa.FieldAddr)
				if !ok || NamedOf(fa.X.Type()) != s.vrT || originValue(fa.X) != recv || !isErrorType(st.Val.Type()) {
					continue
				}
				ld, ok := st.Val.(*ssa.UnOp)
				if !ok || ld.Op != token.MUL {
					continue
				}
				cell, ok := varOf(ld.X)
				al, isAl := cell.(*ssa.Alloc)
				if !ok || !isAl || al.Parent() != verify {
					continue
				}
				// the cell is Verify's error result variable: every return loads it
				isResult := false
				for _, rb := range verify.Blocks {
					if ret, ok := c16Last(rb).(*ssa.Return); ok && len(ret.Results) > 0 {
						if rl, ok := ret.Results[len(ret.Results)-1].(*ssa.UnOp); ok && rl.X == ssa.Value(al) {
							isResult = true
						}
					}
				}
				// under "result != nil"
				nonNil := false
				for _, f := range FactsAt(b) {
					if bo, ok := f.Cond.(*ssa.BinOp); ok && (bo.Op == token.NEQ) == f.Val && (bo.Op == token.NEQ || bo.Op == token.EQL) {
						var o ssa.Value
						if IsNilConst(bo.Y) {
							o = bo.X
						} else if IsNilConst(bo.X) {
							o = bo.Y
						}
						if ol, ok := o.(*ssa.UnOp); ok && ol.Op == token.MUL {
							if c2, ok := varOf(ol.X); ok && c2 == cell {
								nonNil = true
							}
						}
					}
				}
				if isResult && nonNil {
					s.errField = fieldName(fa.X.Type(), fa.Field)
				}
			}
		}
	}
}

// errFieldNilAt: a dominating branch at instruction at found the request's
// mirrored error field nil, on a load made after call c.
func (s *c16State) errFieldNilAt(v ssa.Value, c *ssa.Call, at ssa.Instruction) bool {
	if s.errField == "" || !Precedes(c, at) {
		return false
	}
	for _, f := range FactsAt(at.Block()) {
		bo, ok := f.Cond.(*ssa.BinOp)
		if !ok || (bo.Op != token.EQL && bo.Op != token.NEQ) {
			continue
		}
		var o ssa.Value
		if IsNilConst(bo.Y) {
			o = bo.X
		} else if IsNilConst(bo.X) {
			o = bo.Y
		} else {
			continue
		}
		if (bo.Op == token.EQL) != f.Val {
			continue // says non-nil
		}
		ld, ok := o.(*ssa.UnOp)
		if !ok || ld.Op != token.MUL {
			continue
		}
		fa, ok := ld.X.(*ssa.FieldAddr)
		if !ok || NamedOf(fa.X.Type()) != s.vrT || fieldName(fa.X.Type(), fa.Field) != s.errField || !sameOrigin(fa.X, v) {
			continue
		}
		if Precedes(c, ld) {
			return true
		}
	}
	return false
}

// ---------------------------------------------------------------------------
// J-verify: VerifySignature

func c16IsCryptoVerify(c CallSite) bool {
	return c.Value() != nil && (c.IsStatic(c16PktPath, "PublicKey", "VerifySignature") || c.IsStatic(c16PktPath, "PublicKey", "VerifySignatureV3"))
}

func (s *c16State) ruleVerifySignature() {
	p, r := s.p, s.r
	fn := p.Func(c16Pkg, "VerifyRequest", "VerifySignature")
	recv := ssa.Value(fn.Params[0])
	key := FuncKey(fn)
	crypto := FindCalls(fn, false, c16IsCryptoVerify)
	if len(crypto) == 0 {
		r.Violation("J-verify", key+"#crypto-verify", p.Pos(fn.Pos()), "VerifySignature contains no call of (*packet.PublicKey).VerifySignature: nothing checks the signature")
		return
	}
	trues := c16MaybeTrueReturns(fn)
	if len(trues) == 0 {
		r.Violation("J-verify", key+"#true-return", p.Pos(fn.Pos()), "VerifySignature never returns true")
	}
	for _, ret := range trues {
		ok, why := false, ""
		for _, c := range crypto {
			if o, w := SuccessDominates(c.Value(), ret); o {
				ok = true
			} else {
				why = w
			}
		}
		r.Check(ok, "J-verify", key+"#true-return", p.Pos(ret.Pos()),
			"the possibly-true return is dominated by err==nil of (*packet.PublicKey).VerifySignature",
			"VerifySignature may return true without a successful (*packet.PublicKey).VerifySignature: "+why)
	}
	for _, c := range crypto {
		args := c.Args()
		site := p.Pos(c.Pos())
		// hash
		hc, isCall := originValue(args[1]).(*ssa.Call)
		switch {
		case !isCall:
			r.Undecided("J-verify", key+"#hash-input", site, "the hash handed to the verification is not created by a call in this function; its earlier content is unknown")
		default:
			fields := map[string]bool{}
			before := 0
			bad, und := "", ""
			for _, u := range nonDebug(*hc.Referrers()) {
				if u == ssa.Instruction(c.Value()) {
					continue
				}
				ci, ok := u.(ssa.CallInstruction)
				if !ok {
					und = fmt.Sprintf("the hash is used by %T at line %d, which the analysis does not follow", u, p.Fset.Position(u.Pos()).Line)
					continue
				}
				cc := ci.Common()
				if !(cc.IsInvoke() && cc.Value == ssa.Value(hc)) {
					und = fmt.Sprintf("the hash is passed to %s, which the analysis does not follow", (CallSite{fn, ci}).CalleeKey())
					continue
				}
				switch cc.Method.Name() {
				case "Write":
					f, ok := s.fieldLoadOn(cc.Args[0], recv)
					if !ok {
						bad = fmt.Sprintf("the hash is fed (line %d) with bytes that are not a field of the request being verified", p.Fset.Position(u.Pos()).Line)
						continue
					}
					fields[f] = true
					if call, ok := u.(*ssa.Call); ok && Precedes(call, c.Value()) {
						before++
					}
				case "Size", "BlockSize":
				default:
					und = "the hash method " + cc.Method.Name() + " is called; its effect on the digest is not modelled"
				}
			}
			var fl []string
			for f := range fields {
				fl = append(fl, f)
			}
			sort.Strings(fl)
			switch {
			case bad != "":
				r.Violation("J-verify", key+"#hash-input", site, bad)
			case und != "":
				r.Undecided("J-verify", key+"#hash-input", site, und)
			case before == 0:
				r.Violation("J-verify", key+"#hash-input", site, "no Write of a request field into the hash precedes the verification: the signature is checked over nothing")
			case len(fl) != 1:
				r.Violation("J-verify", key+"#hash-input", site, fmt.Sprintf("the hash is fed from several request fields %v; exactly the payload bytes must be hashed", fl))
			default:
				s.payloadField = fl[0]
				r.OK("J-verify", key+"#hash-input", site, fmt.Sprintf("the hash is created here and fed only by Write(vr.%s), %d time(s) before the verification", fl[0], before))
			}
		}
		// signature packet
		sf := s.sliceFields(args[2], recv)
		switch len(sf) {
		case 0:
			r.Violation("J-verify", key+"#sig-source", site, "the signature packet handed to the verification does not derive from any field of the request")
		case 1:
			s.sigField = sf[0]
			r.OK("J-verify", key+"#sig-source", site, "the signature packet derives from request field "+sf[0]+" only")
		default:
			r.Undecided("J-verify", key+"#sig-source", site, fmt.Sprintf("the signature packet derives from several request fields %v", sf))
		}
		// key
		if f, ok := s.fieldLoadOn(args[0], recv); ok {
			s.keyField = f
			r.OK("J-verify", key+"#key-source", site, "the verifying key is the request field "+f)
		} else {
			r.Violation("J-verify", key+"#key-source", site, "the verifying key is not a field of the request being verified")
		}
	}
}

// ---------------------------------------------------------------------------
// J-verify: writers

func (s *c16State) isFetch(c *ssa.Call) bool {
	cc := c.Common()
	if !cc.IsInvoke() || cc.Method.Name() != "Fetch" {
		return false
	}
	return types.Implements(cc.Value.Type(), s.p.Iface("pkg/blob", "Fetcher"))
}

func (s *c16State) ruleKeyWriters() {
	p, r := s.p, s.r
	if s.keyField == "" {
		r.Undecided("J-verify", s.fieldKey("?key")+"#writers", "?", "the key field could not be identified in VerifySignature")
		return
	}
	construct := s.fieldKey(s.keyField) + "#writers"
	sts, why := s.writers(s.keyField)
	if why != "" {
		r.Undecided("J-verify", construct, "?", why)
		return
	}
	if len(sts) == 0 {
		r.Violation("J-verify", construct, "?", "nothing ever stores the verifying key")
		return
	}
	fns := map[*ssa.Function]bool{}
	for _, st := range sts {
		fn := st.Parent()
		site := p.Pos(st.Pos())
		recv := s.vrRecv(fn)
		if recv == nil || originValue(st.Addr.(*ssa.FieldAddr).X) != recv {
			r.Violation("J-verify", construct, site, fmt.Sprintf("%s stores the verifying key of a request; only a VerifyRequest method may, on its own receiver", FuncKey(fn)))
			continue
		}
		fns[fn] = true
		var fetches []*ssa.Call
		bad := ""
		for _, x := range c16Slice(st.Val) {
			call, ok := x.(*ssa.Call)
			if !ok {
				continue
			}
			if s.isFetch(call) {
				fetches = append(fetches, call)
			}
			if _, hasErr, _ := ErrValue(call); hasErr {
				if ok, w := SuccessDominates(call, st); !ok {
					bad = fmt.Sprintf("the key stored at line %d derives from %s whose failure is not excluded (%s)", p.Fset.Position(st.Pos()).Line, (CallSite{fn, call}).CalleeKey(), w)
				}
			}
		}
		if len(fetches) == 0 && bad == "" {
			bad = "the stored key does not derive from a blob.Fetcher.Fetch"
		}
		for _, f := range fetches {
			sf, ok := s.fieldLoadOn(f.Call.Args[1], recv)
			if !ok {
				bad = "the public key blob is fetched under a ref that is not a field of the request"
				continue
			}
			if s.signerField != "" && s.signerField != sf {
				bad = "public key blobs are fetched under different request fields: " + s.signerField + ", " + sf
			}
			s.signerField = sf
		}
		r.Check(bad == "", "J-verify", construct, site,
			fmt.Sprintf("stored in %s from Fetch(vr.%s) on the success edge of the fetch and of every fallible call in between", FuncKey(fn), s.signerField), bad)
	}
	for fn := range fns {
		bad := ""
		succ := c16SuccessReturns(fn)
		for _, nr := range succ {
			ok := false
			for _, st := range sts {
				if st.Parent() == fn && Precedes(st, c16Last(nr.From)) {
					ok = true
				}
			}
			if !ok {
				bad = fmt.Sprintf("the return at line %d may carry a nil error although the key has not been stored", p.Fset.Position(nr.Ret.Pos()).Line)
			}
		}
		r.Check(bad == "", "J-verify", FuncKey(fn)+"#nil-return-sets-key", p.Pos(fn.Pos()),
			fmt.Sprintf("all %d possibly-nil-error return(s) are preceded by the store of the key", len(succ)), bad)
	}
}

// c16Unmarshal describes a json.Unmarshal(vr.<src>, &cell) call.
type c16Unmarshal struct {
	call *ssa.Call
	src  string     // request field holding the bytes
	cell *ssa.Alloc // variable receiving the map
}

func (s *c16State) unmarshals(fn *ssa.Function, recv ssa.Value) []c16Unmarshal {
	var out []c16Unmarshal
	for _, c := range CallsIn(fn, false) {
		if c.Value() == nil || !c.IsStatic("encoding/json", "", "Unmarshal") {
			continue
		}
		src, ok := s.fieldLoadOn(c.Args()[0], recv)
		cell, ok2 := originValue(c.Args()[1]).(*ssa.Alloc)
		if ok && ok2 {
			out = append(out, c16Unmarshal{c.Value(), src, cell})
		}
	}
	return out
}

// parsedFrom: the value v (stored at st) derives from the map cell of exactly
// one Unmarshal of fn, through a Lookup under a constant key.
func (s *c16State) parsedFrom(v ssa.Value, fn *ssa.Function, recv ssa.Value) (um *c16Unmarshal, keys []string, why string) {
	ums := s.unmarshals(fn, recv)
	sl := c16Slice(v)
	in := map[ssa.Value]bool{}
	for _, x := range sl {
		in[x] = true
	}
	for i := range ums {
		if in[ums[i].cell] {
			if um != nil {
				return nil, nil, "the value derives from several Unmarshal targets"
			}
			um = &ums[i]
		}
	}
	if um == nil {
		return nil, nil, "the value does not derive from a map json.Unmarshal'ed from a field of the request"
	}
	ks := map[string]bool{}
	for _, x := range sl {
		if lk, ok := x.(*ssa.Lookup); ok {
			if ld, ok := lk.X.(*ssa.UnOp); ok && ld.Op == token.MUL && ld.X == ssa.Value(um.cell) {
				if k, ok := ConstString(lk.Index); ok {
					ks[k] = true
				} else {
					return um, nil, "the map is indexed by a non-constant key"
				}
			}
		}
	}
	for k := range ks {
		keys = append(keys, k)
	}
	sort.Strings(keys)
	return um, keys, ""
}

func (s *c16State) ruleSignerAndPayloadWriters() {
	p, r := s.p, s.r
	// signer ref
	if s.signerField == "" {
		r.Undecided("J-verify", s.fieldKey("?signer")+"#writers", "?", "the signer-ref field could not be identified (no Fetch feeding the key field)")
	} else {
		construct := s.fieldKey(s.signerField) + "#writers"
		sts, why := s.writers(s.signerField)
		switch {
		case why != "":
			r.Undecided("J-verify", construct, "?", why)
		case len(sts) == 0:
			r.Violation("J-verify", construct, "?", "nothing ever stores the signer ref")
		}
		if why == "" {
			for _, st := range sts {
				fn := st.Parent()
				site := p.Pos(st.Pos())
				recv := s.vrRecv(fn)
				if recv == nil || originValue(st.Addr.(*ssa.FieldAddr).X) != recv {
					r.Violation("J-verify", construct, site, fmt.Sprintf("%s stores the signer ref of a request; only a VerifyRequest method may, on its own receiver: the key would no longer be the one the payload names", FuncKey(fn)))
					continue
				}
				um, keys, bad := s.parsedFrom(st.Val, fn, recv)
				if bad == "" && len(keys) != 1 {
					bad = fmt.Sprintf("the signer ref is read under %d constant keys %v of the payload map; exactly one is expected", len(keys), keys)
				}
				if bad == "" {
					if ok, w := SuccessDominates(um.call, st); !ok {
						bad = "the signer ref is stored although json.Unmarshal of the payload may have failed: " + w
					}
				}
				if bad == "" {
					if s.bpjField != "" && s.bpjField != um.src {
						bad = "signer refs are parsed from different request fields: " + s.bpjField + ", " + um.src
					}
					s.bpjField, s.signerKey = um.src, keys[0]
				}
				r.Check(bad == "", "J-verify", construct, site,
					fmt.Sprintf("stored in %s from key %q of the map Unmarshal'ed from vr.%s, on the Unmarshal success edge", FuncKey(fn), s.signerKey, s.bpjField), bad)
			}
		}
	}
	// PayloadMap (exported API; anchored by name)
	const pm = "PayloadMap"
	if !s.hasField(pm) {
		brokenf("anchor unresolved: field %s.VerifyRequest.%s", c16Pkg, pm)
	}
	construct := s.fieldKey(pm) + "#writers"
	sts, why := s.writers(pm)
	if why != "" {
		r.Undecided("J-verify", construct, "?", why)
		return
	}
	nonNil := 0
	for _, st := range sts {
		if IsNilConst(st.Val) {
			continue
		}
		nonNil++
		fn := st.Parent()
		site := p.Pos(st.Pos())
		recv := s.vrRecv(fn)
		if recv == nil || originValue(st.Addr.(*ssa.FieldAddr).X) != recv {
			r.Violation("J-verify", construct, site, fmt.Sprintf("%s stores a non-nil PayloadMap; only a VerifyRequest method may, on its own receiver: the exposed fields would not be the signed ones", FuncKey(fn)))
			continue
		}
		bad := "the stored map is not the target of a json.Unmarshal of a request field"
		for _, um := range s.unmarshals(fn, recv) {
			linked := false
			// (a) the stored value is loaded from the Unmarshal target
			for _, x := range c16Slice(st.Val) {
				if x == ssa.Value(um.cell) {
					linked = true
				}
			}
			// (b) the Unmarshal target was initialised with the stored map (same value or re-load of the field)
			for _, ist := range storesTo(um.cell) {
				if !Precedes(ist, um.call) {
					continue
				}
				if ist.Val == st.Val {
					linked = true
				}
				if f, ok := s.fieldLoadOn(ist.Val, recv); ok && f == pm && Precedes(st, ist) {
					linked = true
				}
			}
			if !linked {
				continue
			}
			bad = ""
			if s.bpjField != "" && um.src != s.bpjField {
				bad = fmt.Sprintf("PayloadMap is parsed from vr.%s but the signer ref from vr.%s: the exposed fields and the verified signer would come from different bytes", um.src, s.bpjField)
			}
			break
		}
		r.Check(bad == "", "J-verify", construct, site,
			fmt.Sprintf("the only non-nil PayloadMap is the map Unmarshal'ed from vr.%s in %s", s.bpjField, FuncKey(fn)), bad)
	}
	if nonNil == 0 {
		r.Violation("J-verify", construct, "?", "PayloadMap is never populated: a verified document exposes no fields")
	}
}

func (s *c16State) ruleSigWriters() {
	p, r := s.p, s.r
	if s.sigField == "" {
		r.Undecided("J-verify", s.fieldKey("?sig")+"#writers", "?", "the signature field could not be identified in VerifySignature")
		return
	}
	construct := s.fieldKey(s.sigField) + "#writers"
	sts, why := s.writers(s.sigField)
	if why != "" {
		r.Undecided("J-verify", construct, "?", why)
		return
	}
	if len(sts) == 0 {
		r.Violation("J-verify", construct, "?", "nothing ever stores the signature field")
		return
	}
	for _, st := range sts {
		fn := st.Parent()
		site := p.Pos(st.Pos())
		recv := s.vrRecv(fn)
		if recv == nil || originValue(st.Addr.(*ssa.FieldAddr).X) != recv {
			r.Violation("J-verify", construct, site, fmt.Sprintf("%s stores the signature of a request; only a VerifyRequest method may, on its own receiver", FuncKey(fn)))
			continue
		}
		um, keys, bad := s.parsedFrom(st.Val, fn, recv)
		if bad == "" && len(keys) != 1 {
			bad = fmt.Sprintf("the signature is read under %d constant keys %v; exactly one is expected", len(keys), keys)
		}
		if bad == "" {
			if ok, w := SuccessDominates(um.call, st); !ok {
				bad = "the signature is stored although json.Unmarshal of the signature object may have failed: " + w
			}
		}
		if bad != "" {
			r.Violation("J-verify", construct, site, bad)
			continue
		}
		s.bsField, s.sigKey = um.src, keys[0]
		r.OK("J-verify", construct, site, fmt.Sprintf("stored in %s from key %q of the map Unmarshal'ed from vr.%s, on the Unmarshal success edge", FuncKey(fn), keys[0], um.src))
		// exactly-one-key guard on every possibly-true return of this function
		key := FuncKey(fn) + "#one-key"
		trues := c16MaybeTrueReturns(fn)
		if fn.Signature.Results().Len() != 1 || len(trues) == 0 {
			r.Undecided("J-verify", key, p.Pos(fn.Pos()), "the function storing the signature is not a bool-valued step with a true return")
			continue
		}
		isLen := func(v ssa.Value) bool {
			call, ok := v.(*ssa.Call)
			if !ok {
				return false
			}
			b, ok := call.Call.Value.(*ssa.Builtin)
			if !ok || b.Name() != "len" {
				return false
			}
			ld, ok := call.Call.Args[0].(*ssa.UnOp)
			return ok && ld.Op == token.MUL && ld.X == ssa.Value(um.cell)
		}
		bad = ""
		for _, ret := range trues {
			known, eq := c16IntFact(ret.Block(), isLen, 1)
			if !(known && eq) {
				bad = fmt.Sprintf("the return at line %d may be true although the signature object is not known to have exactly one key: unsigned members could ride along after camliSig", p.Fset.Position(ret.Pos()).Line)
			}
			if ok, w := SuccessDominates(um.call, ret); !ok {
				bad = fmt.Sprintf("the return at line %d may be true although json.Unmarshal of the signature object may have failed: %s", p.Fset.Position(ret.Pos()).Line, w)
			}
		}
		r.Check(bad == "", "J-verify", key, p.Pos(fn.Pos()),
			fmt.Sprintf("all %d possibly-true return(s) are under len(map)==1 on the Unmarshal success edge", len(trues)), bad)
	}
}

func (s *c16State) ruleSignerKeyID() {
	p, r := s.p, s.r
	const f = "SignerKeyId"
	if !s.hasField(f) {
		brokenf("anchor unresolved: field %s.VerifyRequest.%s", c16Pkg, f)
	}
	construct := s.fieldKey(f) + "#writers"
	sts, why := s.writers(f)
	if why != "" {
		r.Undecided("J-verify", construct, "?", why)
		return
	}
	if len(sts) == 0 {
		r.Violation("J-verify", construct, "?", "SignerKeyId is never set: the indexer would attribute every claim to the empty key id")
		return
	}
	for _, st := range sts {
		fn := st.Parent()
		site := p.Pos(st.Pos())
		recv := s.vrRecv(fn)
		if recv == nil || originValue(st.Addr.(*ssa.FieldAddr).X) != recv {
			r.Violation("J-verify", construct, site, fmt.Sprintf("%s stores SignerKeyId of a request; only the verifying method may", FuncKey(fn)))
			continue
		}
		bad := "the store is not dominated by a successful (*packet.PublicKey).VerifySignature"
		for _, c := range FindCalls(fn, false, c16IsCryptoVerify) {
			if ok, _ := SuccessDominates(c.Value(), st); ok {
				bad = ""
			}
		}
		if bad == "" && s.keyField != "" {
			fromKey := false
			for _, g := range s.sliceFields(st.Val, recv) {
				if g == s.keyField {
					fromKey = true
				}
			}
			if !fromKey {
				bad = "the stored id does not derive from the key the signature was verified with (vr." + s.keyField + ")"
			}
		}
		r.Check(bad == "", "J-verify", construct, site,
			"stored on the success edge of the cryptographic verification, derived from vr."+s.keyField, bad)
	}
}

// ---------------------------------------------------------------------------
// J-verify: the split in NewVerificationRequest

func (s *c16State) ruleSplit() {
	p, r := s.p, s.r
	fn := p.Func(c16Pkg, "", "NewVerificationRequest")
	key := FuncKey(fn)
	var isDoc func(v ssa.Value, depth int) bool
	isDoc = func(v ssa.Value, depth int) bool {
		if depth > 4 {
			return false
		}
		v = originValue(v)
		switch x := v.(type) {
		case *ssa.Parameter:
			b, ok := x.Type().Underlying().(*types.Basic)
			return ok && b.Kind() == types.String
		case *ssa.Convert:
			return isDoc(x.X, depth+1)
		case *ssa.UnOp:
			f, ok := s.fieldLoadOn(x, nil)
			if !ok || x.Parent() != fn {
				return false
			}
			sts, why := s.writers(f)
			if why != "" || len(sts) == 0 {
				return false
			}
			for _, st := range sts {
				if st.Parent() != fn || !isDoc(st.Val, depth+1) {
					return false
				}
			}
			return true
		}
		return false
	}
	// idx + k
	var lastIndex *ssa.Call
	idxOff := func(v ssa.Value) (int64, bool) {
		var off int64
		for i := 0; i < 4; i++ {
			v = originValue(v)
			switch x := v.(type) {
			case *ssa.BinOp:
				if x.Op != token.ADD {
					return 0, false
				}
				if k, ok := ConstInt(x.Y); ok {
					off += k
					v = x.X
					continue
				}
				if k, ok := ConstInt(x.X); ok {
					off += k
					v = x.Y
					continue
				}
				return 0, false
			case *ssa.Call:
				c := CallSite{fn, x}
				if !(c.IsStatic("bytes", "", "LastIndex") || c.IsStatic("strings", "", "LastIndex")) {
					return 0, false
				}
				if lastIndex != nil && lastIndex != x {
					return 0, false
				}
				lastIndex = x
				return off, true
			default:
				return 0, false
			}
		}
		return 0, false
	}
	zeroOrNil := func(v ssa.Value) bool {
		if v == nil {
			return true
		}
		k, ok := ConstInt(v)
		return ok && k == 0
	}
	guarded := func(sl *ssa.Slice) bool {
		known, eq := c16IntFact(sl.Block(), func(v ssa.Value) bool { return originValue(v) == ssa.Value(lastIndex) }, -1)
		return known && !eq
	}
	// prefix slice doc[:idx+k]
	prefix := func(v ssa.Value, k int64) (string, *ssa.Slice) {
		sl, ok := originValue(v).(*ssa.Slice)
		if !ok {
			return "the stored value is not a slice expression of the document", nil
		}
		if !isDoc(sl.X, 0) {
			return "the sliced value is not the document passed to NewVerificationRequest", nil
		}
		if !zeroOrNil(sl.Low) || sl.Max != nil || sl.High == nil {
			return "the slice does not start at the beginning of the document", nil
		}
		off, ok := idxOff(sl.High)
		if !ok {
			return "the slice does not end at an offset from LastIndex(document, separator)", nil
		}
		if off != k {
			return fmt.Sprintf("the slice ends at separator index %+d, expected %+d", off, k), nil
		}
		if !guarded(sl) {
			return "the slice is not on the `index != -1` edge: a document without separator would be sliced with -1", nil
		}
		return "", sl
	}
	onlyHere := func(f string) ([]*ssa.Store, string) {
		sts, why := s.writers(f)
		if why != "" {
			return nil, why
		}
		if len(sts) == 0 {
			return nil, "field " + f + " is never stored"
		}
		for _, st := range sts {
			if st.Parent() != fn {
				return nil, fmt.Sprintf("field %s is also stored in %s (line %d); the split must be made once, by NewVerificationRequest", f, FuncKey(st.Parent()), p.Fset.Position(st.Pos()).Line)
			}
		}
		return sts, ""
	}
	// payload
	check := func(role, f string, body func(st *ssa.Store) string, okDetail string) {
		construct := key + "#split-" + role
		if f == "" {
			r.Undecided("J-verify", construct, p.Pos(fn.Pos()), "the "+role+" field could not be identified by the rules above")
			return
		}
		sts, why := onlyHere(f)
		if why != "" {
			r.Violation("J-verify", construct, p.Pos(fn.Pos()), why)
			return
		}
		for _, st := range sts {
			bad := body(st)
			r.Check(bad == "", "J-verify", construct, p.Pos(st.Pos()), "vr."+f+" "+okDetail, bad)
		}
	}
	check("payload", s.payloadField, func(st *ssa.Store) string {
		why, _ := prefix(st.Val, 0)
		return why
	}, "= doc[:i], i = LastIndex(doc, separator), on the i != -1 edge; no other writer")
	check("payload-json", s.bpjField, func(st *ssa.Store) string {
		why, sl := prefix(st.Val, 1)
		if why != "" {
			return why
		}
		// '}' stored at index i of that slice (or of the document bytes)
		for _, b := range fn.Blocks {
			for _, in := range b.Instrs {
				bs, ok := in.(*ssa.Store)
				if !ok {
					continue
				}
				ia, ok := bs.Addr.(*ssa.IndexAddr)
				if !ok {
					continue
				}
				if c, ok := ConstInt(bs.Val); !ok || c != '}' {
					continue
				}
				if off, ok := idxOff(ia.Index); !ok || off != 0 {
					continue
				}
				base := originValue(ia.X)
				f, isField := s.fieldLoadOn(ia.X, nil)
				if base == ssa.Value(sl) || (isField && f == s.bpjField && Precedes(st, bs)) || (isField && isDoc(ia.X, 0) && Precedes(bs, st)) {
					return ""
				}
			}
		}
		return "no '}' is stored at the separator index of the payload JSON: the payload would not parse as the object that was signed plus its closing brace"
	}, "= doc[:i+1] with '}' stored at index i; no other writer")
	check("signature-bytes", s.bsField, func(st *ssa.Store) string {
		for _, x := range c16Slice(st.Val) {
			sl, ok := x.(*ssa.Slice)
			if !ok || !isDoc(sl.X, 0) || sl.High != nil || sl.Max != nil || sl.Low == nil {
				continue
			}
			if off, ok := idxOff(sl.Low); ok && off == 1 && guarded(sl) {
				return ""
			}
		}
		return "the signature bytes do not derive from doc[i+1:] (i = LastIndex(doc, separator)) on the i != -1 edge"
	}, "derives from doc[i+1:]; no other writer")
	// the separator
	construct := key + "#separator"
	if lastIndex == nil {
		r.Violation("J-verify", construct, p.Pos(fn.Pos()), "no bytes/strings.LastIndex over the document locates the separator: the payload must end at the LAST separator, since the payload itself may contain look-alikes")
		return
	}
	bad := ""
	if !isDoc(lastIndex.Call.Args[0], 0) {
		bad = "LastIndex does not search the document passed to NewVerificationRequest"
	}
	sepV := lastIndex.Call.Args[1]
	if cv, ok := sepV.(*ssa.Convert); ok {
		sepV = cv.X
	}
	sep, ok := ConstString(sepV)
	if bad == "" && (!ok || sep == "") {
		bad = "the separator searched for is not a non-empty constant"
	}
	if bad == "" {
		s.sep, s.sepKnown = sep, true
		if s.sigKey != "" && !strings.Contains(sep, `"`+s.sigKey+`":`) {
			bad = fmt.Sprintf("the separator %q does not contain the quoted JSON key %q under which the signature is read", sep, s.sigKey)
		}
	}
	r.Check(bad == "", "J-verify", construct, p.Pos(lastIndex.Pos()),
		fmt.Sprintf("the split index is LastIndex(doc, %q); the separator contains the signature key %q", sep, s.sigKey), bad)
}

// ---------------------------------------------------------------------------
// J-index

func (s *c16State) isVRPtr(t types.Type) bool {
	pt, ok := t.(*types.Pointer)
	return ok && NamedOf(pt) == s.vrT && pt.Elem() == types.Type(s.vrT)
}

func (s *c16State) verifyFn() *ssa.Function { return s.p.Func(c16Pkg, "VerifyRequest", "Verify") }

// verifiedAt: at instruction at, v is a request on which Verify returned nil,
// or the result of a verifier function that returned a nil error.
func (s *c16State) verifiedAt(v ssa.Value, at ssa.Instruction) (bool, string) {
	fn := at.Parent()
	why := "no call of Verify on this request dominates the site"
	vf := s.verifyFn()
	for _, c := range CallsIn(fn, false) {
		if c.Value() == nil {
			continue
		}
		if c.Callee() == vf && sameOrigin(c.Args()[0], v) {
			if ok, w := SuccessDominates(c.Value(), at); ok {
				return true, "Verify returned nil on it"
			} else if s.errFieldNilAt(v, c.Value(), at) {
				return true, "Verify ran on it and its " + s.errField + " field, which Verify sets whenever it fails, was found nil afterwards"
			} else {
				why = "Verify is called on it but " + w
			}
		}
	}
	if ex, ok := originValue(v).(*ssa.Extract); ok {
		if call, ok := ex.Tuple.(*ssa.Call); ok {
			if f := (CallSite{fn, call}).Callee(); f != nil && s.verifiers[f] {
				if ok, w := SuccessDominates(call, at); ok {
					return true, "returned by verifier " + FuncKey(f) + " with a nil error"
				} else {
					why = "it is the result of " + FuncKey(f) + " but " + w
				}
			}
		}
	}
	return false, why
}

func (s *c16State) ruleVerifiers() {
	p, r := s.p, s.r
	n := 0
	for _, fn := range p.AllFuncs {
		if c16InPkg(fn, c16Pkg) || IsTestSupportPkg(RelPkg(TopFunc(fn).Pkg.Pkg)) {
			continue
		}
		res := fn.Signature.Results()
		idx := -1
		for i := 0; i < res.Len(); i++ {
			if s.isVRPtr(res.At(i).Type()) {
				idx = i
			}
		}
		if idx < 0 {
			continue
		}
		n++
		construct := FuncKey(fn) + "#returns-verified"
		if ErrResultIndex(fn) < 0 {
			r.Undecided("J-index", construct, p.Pos(fn.Pos()), "returns a *VerifyRequest without an error result; whether callers may trust it is not modelled")
			continue
		}
		bad := ""
		cnt := 0
		for _, nr := range c16SuccessReturns(fn) {
			var v ssa.Value
			for _, ri := range Returns(fn) {
				if ri.Ret == nr.Ret {
					v = ri.Results[idx]
				}
			}
			if v == nil || IsNilConst(v) {
				continue
			}
			cnt++
			if ok, why := s.verifiedAt(v, c16Last(nr.From)); !ok {
				bad = fmt.Sprintf("the return at line %d hands out a request with a possibly-nil error although %s", p.Fset.Position(nr.Ret.Pos()).Line, why)
			}
		}
		if bad == "" {
			s.verifiers[fn] = true
		}
		r.Check(bad == "", "J-index", construct, p.Pos(fn.Pos()),
			fmt.Sprintf("%d return(s) hand out a request together with a possibly-nil error, each dominated by Verify()==nil on that request", cnt), bad)
	}
	r.Analysed("verifier_functions", n)
}

func (s *c16State) ruleCallers() {
	p, r := s.p, s.r
	n := 0
	for _, fn := range p.AllFuncs {
		if c16InPkg(fn, c16Pkg) || IsTestSupportPkg(RelPkg(TopFunc(fn).Pkg.Pkg)) || fn.Parent() != nil {
			continue
		}
		for pi, prm := range fn.Params {
			if !s.isVRPtr(prm.Type()) {
				continue
			}
			if uses := p.FuncValueUses(fn); len(uses) > 0 {
				r.Undecided("J-index", FuncKey(fn)+"#callers", p.Pos(uses[0].Pos()), "the function is used as a value; its callers cannot be enumerated statically")
			}
			if fn.Signature.Recv() != nil {
				if inv := p.InvokeSites(fn); len(inv) > 0 {
					r.Undecided("J-index", FuncKey(fn)+"#callers", p.Pos(inv[0].Pos()), "the method may be reached through an interface; those callers are not checked")
				}
			}
			callers := p.StaticCallers(fn)
			if len(callers) == 0 {
				r.OKTable("J-index", FuncKey(fn)+"#callers", p.Pos(fn.Pos()), "takes a *VerifyRequest but has no caller")
			}
			for _, c := range callers {
				n++
				construct := FuncKey(c.Fn) + "#passes-request-to:" + FuncKey(fn)
				arg := c.Args()[pi]
				if pr, ok := originValue(arg).(*ssa.Parameter); ok && s.isVRPtr(pr.Type()) {
					r.OK("J-index", construct, p.Pos(c.Pos()), "forwards its own *VerifyRequest parameter (its callers are checked in turn)")
					continue
				}
				ok, why := s.verifiedAt(arg, c.Instr)
				r.Check(ok, "J-index", construct, p.Pos(c.Pos()), "the request passed: "+why,
					fmt.Sprintf("%s receives a request that is not known verified: %s", FuncKey(fn), why))
			}
		}
	}
	r.Analysed("request_passing_call_sites", n)
}

func (s *c16State) ruleReads() {
	p, r := s.p, s.r
	st := s.vrT.Underlying().(*types.Struct)
	n := 0
	if len(s.ix.whole) > 0 {
		for _, w := range s.ix.whole {
			if !c16InPkg(w.Parent(), c16Pkg) {
				r.Undecided("J-index", FuncKey(w.Parent())+"#copies-request", p.Pos(w.Pos()), "a VerifyRequest is copied as a whole outside package jsonsign; reads of the copy are not tracked")
			}
		}
	}
	for i := 0; i < st.NumFields(); i++ {
		f := st.Field(i)
		if !f.Exported() || isErrorType(f.Type()) {
			continue // an error-typed field is the failure report: meaningful exactly when verification failed
		}
		for _, e := range s.ix.escapes[f.Name()] {
			if !c16InPkg(e.Parent(), c16Pkg) && !IsTestSupportPkg(RelPkg(TopFunc(e.Parent()).Pkg.Pkg)) {
				r.Undecided("J-index", FuncKey(e.Parent())+"#reads:"+f.Name(), p.Pos(e.Pos()), "the address of the field is taken outside package jsonsign; reads through it are not tracked")
			}
		}
		for _, ld := range s.ix.loads[f.Name()] {
			fn := ld.Parent()
			if c16InPkg(fn, c16Pkg) || IsTestSupportPkg(RelPkg(TopFunc(fn).Pkg.Pkg)) {
				continue
			}
			n++
			construct := FuncKey(fn) + "#reads:" + f.Name()
			base := ld.X.(*ssa.FieldAddr).X
			if pr, ok := originValue(base).(*ssa.Parameter); ok && s.isVRPtr(pr.Type()) {
				if pr.Parent().Parent() != nil {
					r.Undecided("J-index", construct, p.Pos(ld.Pos()), "read on the *VerifyRequest parameter of a function literal; its callers are not enumerated")
					continue
				}
				r.OK("J-index", construct, p.Pos(ld.Pos()), "read on the *VerifyRequest parameter of "+FuncKey(pr.Parent())+" (every caller passes a verified request, see #passes-request-to)")
				continue
			}
			ok, why := s.verifiedAt(base, ld)
			r.Check(ok, "J-index", construct, p.Pos(ld.Pos()), "read on a request known verified: "+why,
				fmt.Sprintf("%s of a request is read where the request is not known verified: %s", f.Name(), why))
		}
	}
	r.Analysed("request_field_reads_outside_jsonsign", n)
}

// c16SignedTypes: schema blob types that are signed documents (they carry
// camliSigner/camliSig) and that the indexer acts upon.
var c16SignedTypes = []struct{ constName, reason string }{
	{"TypePermanode", "permanodes are signed by their owner; an unverified one must not be indexed as a permanode"},
	{"TypeClaim", "claims (incl. shares and deletes) mutate permanodes on behalf of the signer"},
}

func (s *c16State) ruleSignedTypes() {
	p, r := s.p, s.r
	fn := p.Func("pkg/index", "Index", "populateMutationMapForSchema")
	typeFn := p.Func("pkg/schema", "Blob", "Type")
	key := FuncKey(fn)
	isVerifierCall := func(in ssa.Instruction) *ssa.Call {
		call, ok := in.(*ssa.Call)
		if !ok {
			return nil
		}
		f := (CallSite{fn, call}).Callee()
		if f != nil && (s.verifiers[f] || f == s.verifyFn()) {
			return call
		}
		return nil
	}
	succ := c16SuccessReturns(fn)
	maybeNil := map[*ssa.Return]bool{}
	for _, nr := range succ {
		maybeNil[nr.Ret] = true
	}
	for _, t := range c16SignedTypes {
		co, _ := p.Pkg("pkg/schema").Types.Scope().Lookup(t.constName).(*types.Const)
		if co == nil || co.Val().Kind() != constant.String {
			brokenf("anchor unresolved: constant pkg/schema.%s", t.constName)
		}
		want := constant.StringVal(co.Val())
		construct := key + "#signed-type:" + want
		assume := func(cond ssa.Value) (bool, bool) {
			neg := false
			for {
				if u, ok := cond.(*ssa.UnOp); ok && u.Op == token.NOT {
					cond, neg = u.X, !neg
					continue
				}
				break
			}
			bo, ok := cond.(*ssa.BinOp)
			if !ok || (bo.Op != token.EQL && bo.Op != token.NEQ) {
				return false, false
			}
			x, y := bo.X, bo.Y
			if _, isC := x.(*ssa.Const); isC {
				x, y = y, x
			}
			k, ok := ConstString(y)
			if !ok {
				return false, false
			}
			call, ok := originValue(x).(*ssa.Call)
			if !ok || (CallSite{fn, call}).Callee() != typeFn {
				return false, false
			}
			val := (k == want) == (bo.Op == token.EQL)
			return true, val != neg
		}
		first := fn.Blocks[0].Instrs[0]
		leaks := LeakingExits(PathQuery{
			Start:        first,
			Stop:         func(in ssa.Instruction) bool { return isVerifierCall(in) != nil },
			Assume:       assume,
			ExitOK:       func(exit ssa.Instruction) bool { ret, ok := exit.(*ssa.Return); return ok && !maybeNil[ret] },
			IgnorePanics: true,
		})
		if len(leaks) > 0 {
			r.Violation("J-index", construct, p.Pos(leaks[0].Exit.Pos()),
				fmt.Sprintf("a blob of type %q reaches the return at line %d, whose error may be nil, without any signature verification (%s)", want, p.Fset.Position(leaks[0].Exit.Pos()).Line, t.reason))
			continue
		}
		r.OK("J-index", construct, p.Pos(fn.Pos()), fmt.Sprintf("every path with Type()==%q passes a verifier call before any possibly-nil-error return (%s)", want, t.reason))
	}
	// every verifier call: later possibly-nil returns return its error or are on its success edge
	n := 0
	for _, b := range fn.Blocks {
		for _, in := range b.Instrs {
			call := isVerifierCall(in)
			if call == nil {
				continue
			}
			n++
			ev, _, discarded := ErrValue(call)
			reach := ReachableFrom(call, nil)
			bad := ""
			if discarded {
				bad = "the verifier's error is discarded"
			}
			for _, nr := range succ {
				if !reach[nr.Ret] {
					continue
				}
				if ev != nil && sameOrigin(nr.Val, ev) {
					continue
				}
				if ok, why := SuccessDominates(call, c16Last(nr.From)); !ok {
					bad = fmt.Sprintf("the return at line %d may carry a nil error after the verifier call although %s", p.Fset.Position(nr.Ret.Pos()).Line, why)
				}
			}
			r.Check(bad == "", "J-index", key+"#verifier-result-honoured", p.Pos(call.Pos()),
				"every possibly-nil-error return after the verifier call returns the verifier's own error or is on its success edge", bad)
		}
	}
	if n == 0 {
		r.Violation("J-index", key+"#verifier-result-honoured", p.Pos(fn.Pos()), "the schema dispatch contains no verifier call at all")
	}
}

// ruleVerifyCallers: outside package jsonsign nobody calls Verify and then
// ignores its verdict.
func (s *c16State) ruleVerifyCallers() {
	p, r := s.p, s.r
	vf := s.verifyFn()
	if uses := p.FuncValueUses(vf); len(uses) > 0 {
		r.Undecided("J-index", FuncKey(vf)+"#callers", p.Pos(uses[0].Pos()), "Verify is used as a method value; its callers cannot be enumerated statically")
	}
	n := 0
	for _, c := range p.StaticCallers(vf) {
		if c16InPkg(c.Fn, c16Pkg) || IsTestSupportPkg(RelPkg(TopFunc(c.Fn).Pkg.Pkg)) {
			continue
		}
		n++
		construct := FuncKey(c.Fn) + "#verify-verdict-used"
		site := p.Pos(c.Pos())
		if c.Value() == nil {
			r.Violation("J-index", construct, site, "Verify is started with go/defer: its verdict is lost")
			continue
		}
		decides := func(v ssa.Value) bool {
			if v.Referrers() == nil {
				return false
			}
			for _, u := range nonDebug(*v.Referrers()) {
				if bo, ok := u.(*ssa.BinOp); ok && (bo.Op == token.EQL || bo.Op == token.NEQ) && (IsNilConst(bo.X) || IsNilConst(bo.Y)) {
					for _, w := range nonDebug(*bo.Referrers()) {
						if _, isIf := w.(*ssa.If); isIf {
							return true
						}
					}
				}
			}
			return false
		}
		used := false
		if ev, _, discarded := ErrValue(c.Value()); ev != nil && !discarded {
			used = decides(ev)
			for _, ri := range Returns(c.Fn) {
				for _, v := range ri.Results {
					if sameOrigin(v, ev) {
						used = true
					}
				}
			}
		}
		// the same verdict is also left in the request's mirrored error field
		if s.errField != "" {
			for _, ld := range s.ix.loads[s.errField] {
				if ld.Parent() == c.Fn && sameOrigin(ld.X.(*ssa.FieldAddr).X, c.Args()[0]) && Precedes(c.Instr, ld) && decides(ld) {
					used = true
				}
			}
		}
		r.Check(used, "J-index", construct, site, "the verdict of Verify (its error result, or the request's error field after the call) decides a branch or is returned",
			"the verdict of Verify neither decides a branch nor is returned: a tampered document is treated like a verified one")
	}
	r.Analysed("verify_call_sites_outside_jsonsign", n)
}

// ---------------------------------------------------------------------------
// J-verify: hash algorithm guard

// ruleHashGuard: in VerifySignature, crypto.Hash.New (which panics for an
// algorithm that is not linked in) is reached only through an edge on which the
// packet's hash id was found equal to a constant.
func (s *c16State) ruleHashGuard() {
	p, r := s.p, s.r
	fn := p.Func(c16Pkg, "VerifyRequest", "VerifySignature")
	key := FuncKey(fn) + "#hash-algorithm-guard"
	news := FindCalls(fn, false, func(c CallSite) bool { return c.Value() != nil && c.IsStatic("crypto", "Hash", "New") })
	if len(news) == 0 {
		r.OKTable("J-verify", key, p.Pos(fn.Pos()), "VerifySignature does not instantiate a hash from an attacker-chosen id")
		return
	}
	for _, c := range news {
		path := AccessPath(c.Args()[0])
		establishes := func(d *ssa.BasicBlock, succ int) bool {
			ifi, ok := c16Last(d).(*ssa.If)
			if !ok {
				return false
			}
			bo, ok := ifi.Cond.(*ssa.BinOp)
			if !ok || (bo.Op != token.EQL && bo.Op != token.NEQ) {
				return false
			}
			x, y := bo.X, bo.Y
			if _, isC := x.(*ssa.Const); isC {
				x, y = y, x
			}
			if _, ok := ConstInt(y); !ok || AccessPath(x) != path {
				return false
			}
			return (bo.Op == token.EQL) == (succ == 0)
		}
		seen := map[*ssa.BasicBlock]bool{fn.Blocks[0]: true}
		var walk func(b *ssa.BasicBlock)
		walk = func(b *ssa.BasicBlock) {
			for i, sc := range b.Succs {
				if seen[sc] || establishes(b, i) {
					continue
				}
				seen[sc] = true
				walk(sc)
			}
		}
		walk(fn.Blocks[0])
		r.Check(!seen[c.Block()], "J-verify", key, p.Pos(c.Pos()),
			"every path to Hash.New passes an edge on which the signature packet's hash id equals a constant (white list)",
			"Hash.New is reachable without the signature packet's hash id having been found equal to an allowed constant: an id whose implementation is not linked in makes Hash.New panic, and weak digests are accepted")
	}
}

// ---------------------------------------------------------------------------
// J-sign

// c16Part is one piece of a string built by concatenation or Sprintf("%s…").
type c16Part struct {
	lit string
	val ssa.Value // nil for literals
}

func c16StringParts(v ssa.Value, depth int) ([]c16Part, bool) {
	if depth > 6 {
		return nil, false
	}
	v = originValue(v)
	if k, ok := ConstString(v); ok {
		return []c16Part{{lit: k}}, true
	}
	switch x := v.(type) {
	case *ssa.BinOp:
		if x.Op != token.ADD {
			return nil, false
		}
		a, ok1 := c16StringParts(x.X, depth+1)
		b, ok2 := c16StringParts(x.Y, depth+1)
		return append(a, b...), ok1 && ok2
	case *ssa.Call:
		c := CallSite{x.Parent(), x}
		if !c.IsStatic("fmt", "", "Sprintf") {
			return []c16Part{{val: v}}, true
		}
		format, ok := ConstString(x.Call.Args[0])
		if !ok || len(x.Call.Args) != 2 {
			return nil, false
		}
		sl, ok := x.Call.Args[1].(*ssa.Slice)
		if !ok {
			return nil, false
		}
		arr, ok := sl.X.(*ssa.Alloc)
		if !ok {
			return nil, false
		}
		args := map[int64]ssa.Value{}
		for _, u := range nonDebug(*arr.Referrers()) {
			ia, ok := u.(*ssa.IndexAddr)
			if !ok {
				continue
			}
			i, ok := ConstInt(ia.Index)
			if !ok {
				return nil, false
			}
			for _, w := range nonDebug(*ia.Referrers()) {
				if st, ok := w.(*ssa.Store); ok && st.Addr == ssa.Value(ia) {
					args[i] = originValue(st.Val)
				}
			}
		}
		if strings.Contains(strings.ReplaceAll(format, "%s", ""), "%") {
			return nil, false // only %s verbs are modelled
		}
		lits := strings.Split(format, "%s")
		if len(lits)-1 != len(args) {
			return nil, false
		}
		var out []c16Part
		for i, l := range lits {
			if l != "" {
				out = append(out, c16Part{lit: l})
			}
			if i < len(lits)-1 {
				a := args[int64(i)]
				if a == nil {
					return nil, false
				}
				if b, ok := a.Type().Underlying().(*types.Basic); !ok || b.Kind() != types.String {
					return nil, false
				}
				out = append(out, c16Part{val: a})
			}
		}
		return out, true
	}
	return []c16Part{{val: v}}, true
}

func (s *c16State) ruleSign() {
	p, r := s.p, s.r
	fn := p.Func(c16Pkg, "SignRequest", "Sign")
	key := FuncKey(fn)
	detach := FindCalls(fn, false, func(c CallSite) bool {
		return c.Value() != nil && c.IsStatic("golang.org/x/crypto/openpgp", "", "ArmoredDetachSign")
	})
	if len(detach) != 1 {
		r.Undecided("J-sign", key+"#signed-bytes", p.Pos(fn.Pos()), fmt.Sprintf("expected exactly one openpgp.ArmoredDetachSign call in Sign, found %d", len(detach)))
		return
	}
	d := detach[0]
	dargs := d.Args()
	// what is signed: reader constructor over a string/bytes value
	var signed ssa.Value
	if rc, ok := originValue(dargs[2]).(*ssa.Call); ok {
		c := CallSite{fn, rc}
		if c.IsStatic("strings", "", "NewReader") || c.IsStatic("bytes", "", "NewReader") || c.IsStatic("bytes", "", "NewBufferString") || c.IsStatic("bytes", "", "NewBuffer") {
			signed = originValue(rc.Call.Args[0])
			if cv, ok := signed.(*ssa.Convert); ok {
				signed = originValue(cv.X)
			}
		}
	}
	succ := c16SuccessReturns(fn)
	if signed == nil {
		r.Undecided("J-sign", key+"#signed-bytes", p.Pos(d.Pos()), "the message handed to ArmoredDetachSign is not a reader built directly over a string or byte slice")
	} else if len(succ) == 0 {
		r.Violation("J-sign", key+"#signed-bytes", p.Pos(fn.Pos()), "Sign has no return whose error may be nil")
	}
	if signed != nil {
		for _, nr := range succ {
			var doc ssa.Value
			for _, ri := range Returns(fn) {
				if ri.Ret == nr.Ret {
					doc = ri.Results[0]
				}
			}
			site := p.Pos(nr.Ret.Pos())
			parts, ok := c16StringParts(doc, 0)
			if !ok || len(parts) < 4 {
				r.Undecided("J-sign", key+"#signed-bytes", site, "the returned document is not built by Sprintf(\"%s…\")/concatenation of payload, separator, signature and tail")
				continue
			}
			bad := ""
			switch {
			case parts[0].val == nil || !sameOrigin(parts[0].val, signed):
				bad = "the returned document does not start with exactly the string that was signed: the verifier hashes everything before the last separator"
			case parts[1].val != nil:
				bad = "the signed string is not followed by a constant separator"
			case parts[2].val == nil:
				bad = "no signature value follows the separator"
			case parts[3].val != nil || !strings.HasPrefix(parts[3].lit, `"}`):
				bad = "the signature is not followed by '\"}' closing the camliSig string and the object"
			}
			if bad == "" {
				if ok, w := SuccessDominates(d.Value(), nr.Ret); !ok {
					bad = "the document is returned although ArmoredDetachSign may have failed: " + w
				}
			}
			if bad == "" {
				fromBuf := false
				bufCell, _ := originValue(dargs[0]).(*ssa.Alloc)
				for _, x := range c16Slice(parts[2].val) {
					if bufCell != nil && x == ssa.Value(bufCell) {
						fromBuf = true
					}
				}
				if !fromBuf {
					bad = "the signature text does not derive from the buffer ArmoredDetachSign wrote to"
				}
			}
			r.Check(bad == "", "J-sign", key+"#signed-bytes", site,
				"returned document = <string handed to ArmoredDetachSign> + constant + <text derived from the armor buffer> + '\"}'…, on the signing success edge", bad)
			// separator agreement
			if bad == "" {
				switch {
				case !s.sepKnown:
					r.Undecided("J-sign", key+"#separator-agreement", site, "the verifier's separator constant could not be determined")
				default:
					r.Check(parts[1].lit == s.sep, "J-sign", key+"#separator-agreement", site,
						fmt.Sprintf("Sign writes %q between payload and signature, the constant NewVerificationRequest searches for", s.sep),
						fmt.Sprintf("Sign writes %q between payload and signature but NewVerificationRequest searches for %q: signed documents would not verify (or would be split elsewhere)", parts[1].lit, s.sep))
				}
			}
		}
	}
	// who signs: entity looked up from the public key fetched under the document's signer key
	construct := key + "#signer-agreement"
	var fetches []*ssa.Call
	for _, x := range c16Slice(dargs[1]) {
		if call, ok := x.(*ssa.Call); ok && s.isFetch(call) {
			fetches = append(fetches, call)
		}
	}
	switch {
	case len(fetches) == 0:
		r.Violation("J-sign", construct, p.Pos(d.Pos()), "the signing entity does not derive from a public key blob fetched through the request's blob.Fetcher: the signature need not match the key the document names")
	case s.signerKey == "":
		r.Undecided("J-sign", construct, p.Pos(d.Pos()), "the verifier's signer JSON key could not be determined")
	default:
		bad := ""
		for _, f := range fetches {
			ks := map[string]bool{}
			for _, x := range c16Slice(f.Call.Args[1]) {
				if lk, ok := x.(*ssa.Lookup); ok {
					if k, ok := ConstString(lk.Index); ok {
						ks[k] = true
					}
				}
			}
			if !ks[s.signerKey] || len(ks) != 1 {
				var l []string
				for k := range ks {
					l = append(l, k)
				}
				sort.Strings(l)
				bad = fmt.Sprintf("Sign fetches the public key under JSON key(s) %v but the verifier reads the signer from %q", l, s.signerKey)
			}
			if ok, w := SuccessDominates(f, d.Value()); !ok {
				bad = "signing proceeds although fetching the public key may have failed: " + w
			}
		}
		r.Check(bad == "", "J-sign", construct, p.Pos(d.Pos()),
			fmt.Sprintf("the signing entity derives from the public key blob fetched under JSON key %q, the key the verifier reads the signer from", s.signerKey), bad)
	}
	// the signed text is the unsigned JSON minus its closing brace: checked as a guard
	construct = key + "#closing-brace"
	if signed != nil {
		sl, ok := signed.(*ssa.Slice)
		bad := ""
		if !ok || sl.High == nil {
			bad = "the signed string is not the input with its last byte cut off"
		} else {
			// High must be len(x)-1 and a dominating test must establish x[len(x)-1] == '}'
			hb, ok := originValue(sl.High).(*ssa.BinOp)
			if !ok || hb.Op != token.SUB {
				bad = "the signed string is not cut exactly one byte short"
			} else if k, ok := ConstInt(hb.Y); !ok || k != 1 {
				bad = "the signed string is not cut exactly one byte short"
			} else {
				found := false
				for _, f := range FactsAt(sl.Block()) {
					bo, ok := f.Cond.(*ssa.BinOp)
					if !ok {
						continue
					}
					k, ok := ConstInt(bo.Y)
					if !ok || k != '}' {
						continue
					}
					if (bo.Op == token.NEQ && !f.Val) || (bo.Op == token.EQL && f.Val) {
						found = true
					}
				}
				// alternative: the very string was right-trimmed of white space and then
				// successfully json.Unmarshal'ed into a map, so it ends in '}'
				if tc, ok := originValue(sl.X).(*ssa.Call); ok && !found {
					c := CallSite{fn, tc}
					if c.IsStatic("strings", "", "TrimRightFunc") || c.IsStatic("strings", "", "TrimSpace") || c.IsStatic("strings", "", "TrimRight") {
						for _, u := range CallsIn(fn, false) {
							if u.Value() == nil || !u.IsStatic("encoding/json", "", "Unmarshal") {
								continue
							}
							src := originValue(u.Args()[0])
							if cv, ok := src.(*ssa.Convert); ok {
								src = originValue(cv.X)
							}
							cell, isCell := originValue(u.Args()[1]).(*ssa.Alloc)
							if src != ssa.Value(tc) || !isCell {
								continue
							}
							if _, isMap := cell.Type().(*types.Pointer).Elem().Underlying().(*types.Map); !isMap {
								continue
							}
							if ok, _ := SuccessDominates(u.Value(), sl); ok {
								found = true
							}
						}
					}
				}
				if !found {
					bad = "the byte cut off before signing is not known to be '}' (no dominating test, and not a right-trimmed string that parsed as a JSON object): the verifier re-appends '}' to the payload before parsing it"
				}
			}
		}
		r.Check(bad == "", "J-sign", construct, p.Pos(d.Pos()),
			"the signed string is the input minus its last byte, which is known to be '}' (dominating test, or right-trimmed text that parsed as a JSON object) - the byte the verifier puts back", bad)
	}
}
