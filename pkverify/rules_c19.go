package main

import (
	"fmt"
	"go/token"
	"go/types"
	"sort"
	"strings"

	"golang.org/x/tools/go/ssa"
)

func init() {
	register(&PropSpec{
		ID:    "C19",
		Title: "Asynchronous sync delivers every blob eventually and its queue is durable",
		Explanation: "Decided (structural necessary conditions, all resolved through types): " +
			"Y-dequeue — every use of the SyncHandler's persistent queue is classified; a row is removed (queue.Delete) and the in-memory needCopy entry dropped only where an error parameter is known nil; that completion function is invoked only from a deferred literal of the copy function with the copy function's own error result; every nil return of the copy function is dominated by: a successful Fetch of the job's ref from sh.from, a successful full read whose reader passes through the hash that HashMatches later approves, HashMatches==true for the job's ref, a successful ReceiveBlob on sh.to of that same ref fed from the very buffer that was read, and a size acknowledgement of the destination that is equal (through the dominating equality facts) to the number of bytes sent. " +
			"Y-enqueue — every function that builds a queue-backed handler registers the handler's enqueue method as receive hook on the hub of the handler's own source storage on every path that hands the handler out; every may-be-nil return of enqueue is on the success edge of queue.Set, returns Set's own error, or is on the duplicate edge of the in-memory add (whose 'false' result is returned only when the ref is already present); callers of enqueue do not discard its error; every BlobHub implementation runs the registered hooks and returns nil only after the join of the hook group reported nil; the function that calls NotifyBlobReceived returns its error and notifies the hub of the store that received the blob. " +
			"Y-reload — every function that builds a queue-backed handler passes readQueueToMemory on that handler on every path that hands the handler out, and hands none out when it failed (NewSyncHandler is excepted while it has no caller in the module); readQueueToMemory feeds every element produced by the queue enumerator to the in-memory add and returns the enumerator's error; the enumerator scans the whole queue (Find(\"\",\"\")), skips a row only when parsing it failed, and returns the iterator's Close error. " +
			"Y-start — every path that hands out a queue-backed handler has started its copy loop. " +
			"Y-codec — the queue row written by enqueue (key: Ref.String of the job, value: decimal size) is what the reload parser reads (blob.Parse, base-10 ParseUint of at least 32 bits) and what the dequeue deletes (same key function). " +
			"Y-merge — ListMissingDestinationBlobs closes destMissing on every exit; a source element is taken without being sent to destMissing only under the fact that it equals the destination's head; everything sent comes from the source. " +
			"Y-enum-close — the enumerator values are computed, not listed: every call of a value of the type of runSync's enumSrc parameter in pkg/server, with the functions it can denote (static callee, method value, closure, the literal returned by a helper, the arguments of every static caller when the value is a parameter); each such enumerator closes its output channel on every path to every return (close, defer, deferred literal, or a callee/literal that is itself checked), because its consumer (runSync, readQueueToMemory) receives from that channel until it is closed. " +
			"Y-stop — in every consumer, on every path that leaves the loop receiving from the element channel on another edge than 'channel closed' and then reaches a receive of the enumerator's result, the interrupt channel handed to the enumerator has been closed before that receive (a plain close, a local function or sync.Once/sync.OnceFunc wrapper all of whose functions close it; a deferred close in the consumer's own frame does not count, it runs after the wait); every enumerator of a consumer that can leave its loop early sends on its output channel only as a case of a select that also receives from its interrupt parameter (or that has a default case), helpers handed both channels included. " +
			"NOT decided: eventual delivery in general (wake-ups, retry timing, termination of the enumerated stores' own EnumerateBlobs, that an interrupted enumerator returns promptly, that enumeratePendingBlobs' batch bound stays below the capacity of the work channel — no longer needed for liveness once Y-stop holds, and not phrased as a rule), bit-identity of what a destination stores, behaviour of the queue KV itself across a crash, interleavings of enqueue with a concurrent copy, that every store receives blobs only through blobserver.Receive (C02), any concrete fault schedule or restart.",
		RuleDocs: map[string]string{
			"Y-dequeue":    "enumerates every use of field SyncHandler.queue, every delete on SyncHandler.needCopy, every caller of the completion function and every may-be-nil error return of the copy function; guards by dominance (err==nil), value dependence (fetch -> tee(hash) -> buffer -> destination) and equality facts (acknowledged size == sent size)",
			"Y-enqueue":    "enumerates builders of queue-backed handlers (hook registration on all paths, right hub, right method), returns of enqueue, callers of enqueue, hook invocations in BlobHub implementations and callers of NotifyBlobReceived",
			"Y-reload":     "enumerates builders of queue-backed handlers (reload on all handler-returning paths, failure hands out nothing), the reload function (element flow, error flow) and the queue enumerator (full scan, rows skipped only on parse failure, Close error returned)",
			"Y-start":      "every handler-returning path of a builder starts the copy loop (go syncLoop, or a go literal all of whose paths reach syncLoop)",
			"Y-codec":      "writer/reader/deleter agreement on the queue row encoding",
			"Y-merge":      "ListMissingDestinationBlobs: close on every exit; source takes are sent unless matched; sends come from the source",
			"Y-enum-close": "enumerates every call of an enumerator-typed value (type of runSync's enumSrc parameter) in pkg/server and the functions that can flow into it; each closes its output channel on all paths to all returns (the consumer receives until the channel is closed)",
			"Y-stop":       "per consumer: every early exit of the receive loop that reaches the wait for the enumerator's result has closed the interrupt channel first (closures, sync.Once and sync.OnceFunc resolved; the consumer's own defers do not count); per enumerator of such a consumer: every send on the output channel is a select case next to a receive from the interrupt parameter",
		},
		Run:       runC19,
		DesignRef: "DESIGN.md §4 C19",
		Technique: "static analysis: dominance on err==nil edges, CFG all-paths exploration with failure assumption, value-dependence slices (fetch/hash/buffer/destination), equality-fact closure, who-may-use enumeration of a struct field, writer/reader table agreement, function-value resolution (method values, returned literals, caller arguments) and channel-protocol path exploration (close on all exits; interrupt closed before the wait on every early loop exit; sends paired with the interrupt in one select) — all over go/ssa of the current tree",
		LevelText: "Decides structural necessary conditions only: a queue row is deleted only behind a verified, acknowledged copy; received blobs are enqueued persistently with errors propagated to the uploader; the queue is reloaded (and the copy loop started) before a handler is handed out; the source-minus-destination merge never drops an unmatched source element; two structural liveness conditions of the copy loop hold: every enumerator closes the channel its consumer ranges over, and a consumer that stops consuming early interrupts the (interruptible) enumerator before it waits for it, so neither start-up, the full sync nor the periodic queue sync can block for ever on that hand-shake. Does not decide liveness in general, timing, crash behaviour of the KV, or any dynamic schedule.",
	})
}

// ---------------------------------------------------------------------------
// anchors

type c19Anchors struct {
	sh        *types.Named // pkg/server.SyncHandler
	qFind     []CallSite   // queue.Find sites
	qSet      []CallSite   // queue.Set sites
	qDelete   []CallSite   // queue.Delete sites
	ctors     []*ssa.Function
	memAdd    *ssa.Function // stores into needCopy (addBlobToCopy)
	reload    *ssa.Function // readQueueToMemory
	syncLoop  *ssa.Function
	sizedRef  *types.Named
	recvIface *types.Interface
	fetchIf   *types.Interface
}

func runC19(p *Program, r *Reporter) {
	a := &c19Anchors{
		sh:        p.NamedType("pkg/server", "SyncHandler"),
		reload:    p.Func("pkg/server", "SyncHandler", "readQueueToMemory"),
		syncLoop:  p.Func("pkg/server", "SyncHandler", "syncLoop"),
		sizedRef:  p.NamedType("pkg/blob", "SizedRef"),
		recvIface: p.Iface("pkg/blobserver", "BlobReceiver"),
		fetchIf:   p.Iface("pkg/blob", "Fetcher"),
	}
	for _, f := range []string{"queue", "from", "to", "needCopy"} {
		if c19FieldIndex(a.sh, f) < 0 {
			brokenf("anchor unresolved: field pkg/server.SyncHandler.%s", f)
		}
	}
	r.Analysed("functions", len(p.FuncsIn("pkg/server"))+len(p.FuncsIn("pkg/blobserver")))
	c19QueueUses(p, r, a)
	c19YDequeue(p, r, a)
	c19YEnqueue(p, r, a)
	c19YReload(p, r, a)
	c19YCodec(p, r, a)
	c19YMerge(p, r)
	c19YEnumProtocol(p, r)
	r.Floor("Y-dequeue", 11)
	r.Floor("Y-enqueue", 11)
	r.Floor("Y-reload", 7)
	r.Floor("Y-start", 2)
	r.Floor("Y-codec", 3)
	r.Floor("Y-merge", 6)
	r.Floor("Y-enum-close", 5)
	r.Floor("Y-stop", 5)
}

// ---------------------------------------------------------------------------
// small helpers (all prefixed; candidates for helpers.go)

func c19FieldIndex(n *types.Named, name string) int {
	st, ok := n.Underlying().(*types.Struct)
	if !ok {
		return -1
	}
	for i := 0; i < st.NumFields(); i++ {
		if st.Field(i).Name() == name {
			return i
		}
	}
	return -1
}

// c19IsFieldAddr reports whether v is &X.field for a struct of named type n.
func c19IsFieldAddr(v ssa.Value, n *types.Named, field string) (*ssa.FieldAddr, bool) {
	fa, ok := v.(*ssa.FieldAddr)
	if !ok {
		return nil, false
	}
	bn := NamedOf(fa.X.Type())
	if bn == nil || bn.Obj() != n.Obj() {
		return nil, false
	}
	if fieldName(fa.X.Type(), fa.Field) != field {
		return nil, false
	}
	return fa, true
}

// c19FieldOf reports whether v is (a load of) field `field` of a value of named
// struct type n, and returns the struct (pointer) value.
func c19FieldOf(v ssa.Value, n *types.Named, field string) (base ssa.Value, ok bool) {
	v = originValue(v)
	switch x := v.(type) {
	case *ssa.UnOp:
		if x.Op != token.MUL {
			return nil, false
		}
		if fa, ok := c19IsFieldAddr(x.X, n, field); ok {
			return fa.X, true
		}
	case *ssa.Field:
		bn := NamedOf(x.X.Type())
		if bn != nil && bn.Obj() == n.Obj() && fieldName(x.X.Type(), x.Field) == field {
			return x.X, true
		}
	}
	return nil, false
}

func c19LastInstr(b *ssa.BasicBlock) ssa.Instruction { return b.Instrs[len(b.Instrs)-1] }

// c19Flows is DependsOn extended through aggregates built in place: values
// stored into an Alloc (or into its fields/elements: composite literals,
// varargs arrays) flow into the Alloc.
func c19Flows(v ssa.Value, target func(ssa.Value) bool) bool {
	seen := map[ssa.Value]bool{}
	var walk func(v ssa.Value, d int) bool
	walk = func(v ssa.Value, d int) bool {
		if v == nil || seen[v] || d > 80 {
			return false
		}
		seen[v] = true
		if target(v) {
			return true
		}
		switch x := v.(type) {
		case *ssa.UnOp:
			if x.Op == token.MUL {
				if cell, ok := varOf(x.X); ok {
					if walk(cell, d+1) {
						return true
					}
				}
			}
		case *ssa.FreeVar:
			if b := bindingOf(x); b != nil && walk(b, d+1) {
				return true
			}
		case *ssa.Alloc:
			if refs := x.Referrers(); refs != nil {
				for _, u := range *refs {
					switch u := u.(type) {
					case *ssa.Store:
						if u.Addr == ssa.Value(x) && walk(u.Val, d+1) {
							return true
						}
					case *ssa.FieldAddr, *ssa.IndexAddr:
						if rr := u.(ssa.Value).Referrers(); rr != nil {
							for _, s := range *rr {
								if st, ok := s.(*ssa.Store); ok && st.Addr == u.(ssa.Value) && walk(st.Val, d+1) {
									return true
								}
							}
						}
					}
				}
			}
			for _, st := range storesTo(x) {
				if walk(st.Val, d+1) {
					return true
				}
			}
		}
		if in, ok := v.(ssa.Instruction); ok {
			for _, op := range in.Operands(nil) {
				if *op != nil && walk(*op, d+1) {
					return true
				}
			}
		}
		return false
	}
	return walk(v, 0)
}

func c19FlowsFrom(v, src ssa.Value) bool {
	so := originValue(src)
	return c19Flows(v, func(x ssa.Value) bool { return x == src || x == so || originValue(x) == so })
}

// c19AssumeFailed returns an Assume function for PathQuery that decides
// branches on ev's nil-ness as if ev were non-nil.
func c19AssumeFailed(ev ssa.Value) func(ssa.Value) (bool, bool) {
	return func(cond ssa.Value) (bool, bool) {
		if k, isNil := condSaysNil(cond, true, ev); k {
			return true, !isNil
		}
		return false, false
	}
}

// c19ParamOfType returns the unique parameter of fn whose type is named n.
func c19ParamOfType(fn *ssa.Function, n *types.Named) *ssa.Parameter {
	var out *ssa.Parameter
	for _, prm := range fn.Params {
		if pn, ok := prm.Type().(*types.Named); ok && pn.Obj() == n.Obj() {
			if out != nil {
				return nil
			}
			out = prm
		}
	}
	return out
}

// c19StableParam reports whether the parameter is never reassigned (whole or
// by field) in fn or its literals.
func c19StableParam(fn *ssa.Function, prm *ssa.Parameter) bool {
	refs := prm.Referrers()
	if refs == nil {
		return true
	}
	for _, u := range *refs {
		st, ok := u.(*ssa.Store)
		if !ok || st.Val != ssa.Value(prm) {
			continue
		}
		al, ok := st.Addr.(*ssa.Alloc)
		if !ok {
			return false
		}
		if len(storesTo(al)) != 1 {
			return false
		}
		if ar := al.Referrers(); ar != nil {
			for _, au := range *ar {
				switch au := au.(type) {
				case *ssa.FieldAddr:
					if fr := au.Referrers(); fr != nil {
						for _, fu := range *fr {
							if s, ok := fu.(*ssa.Store); ok && s.Addr == ssa.Value(au) {
								return false
							}
						}
					}
				}
			}
		}
	}
	return true
}

// c19Path is AccessPath after resolving single-store locals.
func c19Path(v ssa.Value) string { return AccessPath(originValue(v)) }

func c19InServer(fn *ssa.Function) bool {
	return fn != nil && fn.Pkg != nil && RelPkg(fn.Pkg.Pkg) == "pkg/server"
}

// ---------------------------------------------------------------------------
// queue field uses (who may touch the persistent queue)

func c19QueueUses(p *Program, r *Reporter, a *c19Anchors) {
	ctorSet := map[*ssa.Function]bool{}
	for _, fn := range p.AllFuncs {
		for _, b := range fn.Blocks {
			for _, in := range b.Instrs {
				fa, ok := in.(*ssa.FieldAddr)
				if !ok {
					continue
				}
				if _, ok := c19IsFieldAddr(fa, a.sh, "queue"); !ok {
					continue
				}
				refs := fa.Referrers()
				if refs == nil {
					continue
				}
				for _, u := range *refs {
					switch u := u.(type) {
					case *ssa.Store:
						if u.Addr == ssa.Value(fa) {
							if !ctorSet[fn] {
								ctorSet[fn] = true
								a.ctors = append(a.ctors, fn)
							}
							continue
						}
						r.Violation("Y-dequeue", FuncKey(fn)+"#queue-escapes", p.Pos(u.Pos()), "the address of SyncHandler.queue is stored; its users can no longer be enumerated")
					case *ssa.UnOp:
						c19ClassifyQueueValue(p, r, a, fn, u)
					case *ssa.DebugRef:
					default:
						r.Violation("Y-dequeue", FuncKey(fn)+"#queue-escapes", p.Pos(in.Pos()), "the address of SyncHandler.queue is used other than by load/store; its users can no longer be enumerated")
					}
				}
			}
			for _, in := range b.Instrs {
				// SyncHandler struct values copied as a whole are not used in the tree; a Field read of queue would be one
				if f, ok := in.(*ssa.Field); ok {
					if bn := NamedOf(f.X.Type()); bn != nil && bn.Obj() == a.sh.Obj() && fieldName(f.X.Type(), f.Field) == "queue" {
						c19ClassifyQueueValue(p, r, a, fn, f)
					}
				}
			}
		}
	}
	sort.Slice(a.ctors, func(i, j int) bool { return FuncKey(a.ctors[i]) < FuncKey(a.ctors[j]) })
}

func c19ClassifyQueueValue(p *Program, r *Reporter, a *c19Anchors, fn *ssa.Function, v ssa.Value) {
	refs := v.Referrers()
	if refs == nil {
		return
	}
	for _, u := range *refs {
		if _, ok := u.(*ssa.DebugRef); ok {
			continue
		}
		ci, ok := u.(ssa.CallInstruction)
		if ok && ci.Common().IsInvoke() && ci.Common().Value == v {
			c := CallSite{fn, ci}
			construct := FuncKey(fn) + "#queue." + c.MethodName()
			switch c.MethodName() {
			case "Find":
				a.qFind = append(a.qFind, c)
				r.OKTable("Y-dequeue", construct, p.Pos(c.Pos()), "read-only use of the queue")
			case "Get":
				r.OKTable("Y-dequeue", construct, p.Pos(c.Pos()), "read-only use of the queue")
			case "Set":
				a.qSet = append(a.qSet, c)
				r.OKTable("Y-dequeue", construct, p.Pos(c.Pos()), "insertion into the queue (checked by Y-enqueue)")
			case "Delete":
				a.qDelete = append(a.qDelete, c)
			default:
				r.Undecided("Y-dequeue", construct, p.Pos(c.Pos()), "queue method "+c.MethodName()+" is not classified (batch mutations, Close and Wipe may remove rows)")
			}
			continue
		}
		r.Undecided("Y-dequeue", FuncKey(fn)+"#queue-escapes", p.Pos(u.Pos()), "the queue value flows somewhere other than a direct method call (passed, stored, asserted); its users can no longer be enumerated")
	}
}

// ---------------------------------------------------------------------------
// Y-dequeue

// c19Guard finds, for an instruction inside fn, an error parameter of fn known
// nil at the instruction. When fn has none, the guard is looked for at every
// static caller of fn (bound 2). It returns the completion functions (function
// + index of the guarding error parameter).
type c19Completion struct {
	fn  *ssa.Function
	idx int // index into fn.Params
}

func c19Guard(p *Program, in ssa.Instruction, depth int) (comps []c19Completion, why string) {
	fn := in.Parent()
	for i, prm := range fn.Params {
		if !isErrorType(prm.Type()) {
			continue
		}
		if k, isNil := NilFact(in.Block(), prm); k && isNil {
			return []c19Completion{{fn, i}}, ""
		}
	}
	// a literal sees its parent's parameters
	if fn.Parent() != nil {
		return nil, "site is in a function literal and not under an err==nil fact of an error parameter"
	}
	for _, prm := range fn.Params {
		if isErrorType(prm.Type()) {
			return nil, fmt.Sprintf("not dominated by the fact %s == nil", prm.Name())
		}
	}
	if depth >= 2 {
		return nil, "no err==nil guard found within two call levels"
	}
	callers := p.StaticCallers(fn)
	if len(callers) == 0 || len(p.FuncValueUses(fn)) > 0 || len(p.InvokeSites(fn)) > 0 {
		return nil, "enclosing function has no error parameter and its callers cannot be enumerated"
	}
	for _, c := range callers {
		cs, w := c19Guard(p, c.Instr, depth+1)
		if w != "" {
			return nil, "via caller " + FuncKey(c.Fn) + ": " + w
		}
		comps = append(comps, cs...)
	}
	return comps, ""
}

func c19YDequeue(p *Program, r *Reporter, a *c19Anchors) {
	compSet := map[c19Completion]bool{}
	var comps []c19Completion
	add := func(cs []c19Completion) {
		for _, c := range cs {
			if !compSet[c] {
				compSet[c] = true
				comps = append(comps, c)
			}
		}
	}
	if len(a.qDelete) == 0 {
		r.Violation("Y-dequeue", "pkg/server.(*SyncHandler)#queue.Delete", "?", "no queue.Delete site: copied blobs are never dequeued")
	}
	for _, d := range a.qDelete {
		construct := FuncKey(d.Fn) + "#queue.Delete#guard"
		cs, why := c19Guard(p, d.Instr, 0)
		if why != "" {
			r.Violation("Y-dequeue", construct, p.Pos(d.Pos()), "queue row deleted where the copy's error is not known nil: "+why)
			continue
		}
		r.OK("Y-dequeue", construct, p.Pos(d.Pos()), "queue.Delete is dominated by err==nil of the completion function's error parameter")
		add(cs)
	}
	// in-memory mirror: deletes on needCopy
	nDel := 0
	for _, fn := range p.FuncsIn("pkg/server") {
		for _, c := range CallsIn(fn, false) {
			b, ok := c.Common().Value.(*ssa.Builtin)
			if !ok || b.Name() != "delete" {
				continue
			}
			if _, ok := c19FieldOf(c.Common().Args[0], a.sh, "needCopy"); !ok {
				continue
			}
			nDel++
			construct := FuncKey(fn) + "#delete(needCopy)#guard"
			cs, why := c19Guard(p, c.Instr, 0)
			if why != "" {
				r.Violation("Y-dequeue", construct, p.Pos(c.Pos()), "blob dropped from the in-memory pending set where the copy's error is not known nil (it would not be retried until restart): "+why)
				continue
			}
			r.OK("Y-dequeue", construct, p.Pos(c.Pos()), "delete(needCopy) is dominated by err==nil of the completion function's error parameter")
			add(cs)
		}
	}
	r.Analysed("needCopy_deletes", nDel)

	// callers of each completion function
	type succPoint struct {
		f    *ssa.Function
		at   ssa.Instruction
		what string
	}
	var points []succPoint
	for _, comp := range comps {
		if len(p.FuncValueUses(comp.fn)) > 0 || len(p.InvokeSites(comp.fn)) > 0 {
			r.Undecided("Y-dequeue", FuncKey(comp.fn)+"#callers", p.Pos(comp.fn.Pos()), "completion function is used as a value or through an interface; its callers cannot be enumerated")
			continue
		}
		callers := p.StaticCallers(comp.fn)
		if len(callers) == 0 {
			r.Violation("Y-dequeue", FuncKey(comp.fn)+"#callers", p.Pos(comp.fn.Pos()), "completion function is never called: nothing is ever dequeued")
		}
		for _, c := range callers {
			construct := FuncKey(c.Fn) + "#" + comp.fn.Name() + "#outcome"
			args := c.Args()
			if comp.idx >= len(args) {
				r.Undecided("Y-dequeue", construct, p.Pos(c.Pos()), "cannot map the error argument")
				continue
			}
			arg := args[comp.idx]
			if c.IsGo() {
				r.Violation("Y-dequeue", construct, p.Pos(c.Pos()), "completion function started with go: its error argument is evaluated before the copy ran")
				continue
			}
			// Form A: inside a literal deferred by F, passing F's error result cell
			if L := c.Fn; L.Parent() != nil && !c.IsDefer() {
				F := L.Parent()
				deferred := false
				for _, d := range DeferredCalls(F) {
					if ClosureOf(d) == L {
						deferred = true
					}
				}
				cell := c19ResultCell(F)
				ld, isLoad := arg.(*ssa.UnOp)
				okArg := false
				if isLoad && ld.Op == token.MUL && cell != nil {
					if cv, ok := varOf(ld.X); ok && cv == ssa.Value(cell) {
						okArg = true
					}
				}
				foreign := false
				if cell != nil {
					for _, st := range storesTo(cell) {
						if st.Parent() != F {
							foreign = true
						}
					}
				}
				switch {
				case !deferred:
					r.Violation("Y-dequeue", construct, p.Pos(c.Pos()), "completion function called from a literal that is not deferred by the copy function: it does not see the copy's final outcome")
				case !okArg:
					r.Violation("Y-dequeue", construct, p.Pos(c.Pos()), "the error handed to the completion function is not the copy function's own error result (read when the deferred literal runs)")
				case foreign:
					r.Undecided("Y-dequeue", construct, p.Pos(c.Pos()), "the error result is also assigned inside a function literal; final value not followed")
				default:
					r.OK("Y-dequeue", construct, p.Pos(c.Pos()), "called from a deferred literal of "+FuncKey(F)+" with that function's error result, read at return time")
					for _, nr := range MaybeNilErrorReturns(F) {
						at := ssa.Instruction(nr.Ret)
						if nr.From != nil && nr.From != nr.Ret.Block() {
							at = c19LastInstr(nr.From)
						}
						points = append(points, succPoint{F, at, "nil-return"})
					}
				}
				continue
			}
			// Form C: called directly (or `defer done(err)`, whose argument is evaluated at the defer statement)
			F := c.Fn
			may := maybeNil(nil, arg, c.Block(), 0)
			if len(may) == 0 {
				r.OK("Y-dequeue", construct, p.Pos(c.Pos()), "error argument is known non-nil here (failure report only)")
				continue
			}
			r.OK("Y-dequeue", construct, p.Pos(c.Pos()), "direct call with a possibly-nil error: the copy conditions are checked at this call")
			for _, m := range may {
				at := ssa.Instruction(c.Instr)
				if m.From != nil && m.From != c.Block() {
					at = c19LastInstr(m.From)
				}
				points = append(points, succPoint{F, at, "direct-success"})
			}
		}
	}
	if len(points) == 0 {
		r.Violation("Y-dequeue", "pkg/server#copy-success-points", "?", "no success point of a copy function found")
	}
	for _, sp := range points {
		c19CopyChain(p, r, a, sp.f, sp.at, sp.what)
	}
}

// c19ResultCell returns the Alloc holding fn's (named) error result when every
// return loads it; nil otherwise.
func c19ResultCell(fn *ssa.Function) *ssa.Alloc {
	idx := ErrResultIndex(fn)
	if idx < 0 {
		return nil
	}
	var cell *ssa.Alloc
	for _, b := range fn.Blocks {
		if b == fn.Recover || len(b.Instrs) == 0 {
			continue
		}
		ret, ok := c19LastInstr(b).(*ssa.Return)
		if !ok {
			continue
		}
		ld, ok := ret.Results[idx].(*ssa.UnOp)
		if !ok || ld.Op != token.MUL {
			return nil
		}
		al, ok := ld.X.(*ssa.Alloc)
		if !ok || (cell != nil && cell != al) {
			return nil
		}
		cell = al
	}
	return cell
}

// c19StoreCall normalises a call that stores a blob into (dst, ref, reader).
func c19StoreCall(c CallSite, a *c19Anchors) (dst, ref, rd ssa.Value, ok bool) {
	if c.Value() == nil {
		return
	}
	if c.Common().IsInvoke() && c.IsMethod("ReceiveBlob", a.recvIface) {
		ar := c.Args()
		if len(ar) == 4 {
			return ar[0], ar[2], ar[3], true
		}
	}
	if c.IsStatic("perkeep.org/pkg/blobserver", "", "Receive") || c.IsStatic("perkeep.org/pkg/blobserver", "", "ReceiveNoHash") {
		ar := c.Args()
		return ar[1], ar[2], ar[3], true
	}
	return
}

// c19CopyChain checks the verified-copy conditions at success point `at` of F.
func c19CopyChain(p *Program, r *Reporter, a *c19Anchors, F *ssa.Function, at ssa.Instruction, what string) {
	key := FuncKey(F) + "#" + what
	site := p.Pos(at.Pos())
	job := c19ParamOfType(F, a.sizedRef)
	if job == nil || !c19StableParam(F, job) {
		r.Undecided("Y-dequeue", key+"#job", site, "copy function has no single, never-reassigned blob.SizedRef parameter to identify the job")
		return
	}
	refPath := job.Name() + ".Ref"
	sizePath := job.Name() + ".Size"

	// (1) destination store
	var dest CallSite
	var dRef, dRd ssa.Value
	why := "no ReceiveBlob on the handler's destination (sh.to) precedes it"
	for _, c := range CallsIn(F, false) {
		dst, ref, rd, ok := c19StoreCall(c, a)
		if !ok {
			continue
		}
		if _, ok := c19FieldOf(dst, a.sh, "to"); !ok {
			continue
		}
		if ok, w := SuccessDominates(c.Value(), at); !ok {
			why = "ReceiveBlob on sh.to: " + w
			continue
		}
		dest, dRef, dRd = c, ref, rd
	}
	if dest.Instr == nil {
		r.Violation("Y-dequeue", key+"#dest-receive", site, "success is not dominated by a successful destination write: "+why+" — the row would be dequeued although the destination never acknowledged the blob")
		return
	}
	r.OK("Y-dequeue", key+"#dest-receive", p.Pos(dest.Pos()), "success point is on the err==nil edge of ReceiveBlob on sh.to")
	r.Check(c19Path(dRef) == refPath, "Y-dequeue", key+"#dest-ref", p.Pos(dest.Pos()),
		"the ref stored at the destination is the job's ref", "the ref stored at the destination ("+c19Path(dRef)+") is not the job's ref "+refPath)

	// (2) digest approval
	known, val, hm := BoolCallFact(at.Block(), func(c CallSite) bool {
		return c.IsStatic("perkeep.org/pkg/blob", "Ref", "HashMatches") || c.IsStatic("perkeep.org/pkg/blob", "SizedRef", "HashMatches")
	})
	var h ssa.Value
	if !known || !val {
		r.Violation("Y-dequeue", key+"#hash-match", site, "success is not under the fact HashMatches(...)==true: corrupt source bytes would be written and the row dequeued")
	} else if got := c19Path(hm.Args()[0]); got != refPath && got != job.Name() {
		r.Violation("Y-dequeue", key+"#hash-match", p.Pos(hm.Pos()), "HashMatches is evaluated on "+got+", not on the job's ref "+refPath)
	} else {
		h = originValue(hm.Args()[1])
		r.OK("Y-dequeue", key+"#hash-match", p.Pos(hm.Pos()), "success point is under HashMatches(job ref, h)==true")
	}

	// (3) source fetch
	var fetch *ssa.Call
	fwhy := "no Fetch on the handler's source (sh.from) precedes it"
	for _, c := range CallsIn(F, false) {
		if c.Value() == nil || !c.IsMethod("Fetch", a.fetchIf) {
			continue
		}
		ar := c.Args()
		if _, ok := c19FieldOf(ar[0], a.sh, "from"); !ok {
			continue
		}
		if c19Path(ar[len(ar)-1]) != refPath {
			fwhy = "Fetch on sh.from is not of the job's ref"
			continue
		}
		if ok, w := SuccessDominates(c.Value(), at); !ok {
			fwhy = "Fetch on sh.from: " + w
			continue
		}
		fetch = c.Value()
	}
	if fetch == nil {
		r.Violation("Y-dequeue", key+"#fetch", site, "success is not dominated by a successful source fetch: "+fwhy)
	} else {
		r.OK("Y-dequeue", key+"#fetch", p.Pos(fetch.Pos()), "success point is on the err==nil edge of Fetch(job ref) on sh.from")
	}

	// (4) bytes: fetch body -> (tee into h) -> full read into buf -> destination reader
	var buf ssa.Value
	bytesOK, bwhy := false, "no successful full read (io.ReadFull / io.ReadAll) precedes it"
	for _, c := range CallsIn(F, false) {
		if c.Value() == nil {
			continue
		}
		var rd, b ssa.Value
		switch {
		case c.IsStatic("io", "", "ReadFull"):
			rd, b = c.Args()[0], originValue(c.Args()[1])
		case c.IsStatic("io", "", "ReadAll"):
			rd, b = c.Args()[0], ResultValue(c.Value(), 0)
		default:
			continue
		}
		if b == nil {
			continue
		}
		if ok, w := SuccessDominates(c.Value(), at); !ok {
			bwhy = "full read: " + w + " (a short read would be hashed and written as if complete)"
			continue
		}
		if !c19FlowsFrom(dRd, b) {
			bwhy = "the destination is not fed from the buffer filled by the checked full read"
			continue
		}
		if fetch != nil {
			body := ResultValue(fetch, 0)
			if body == nil || !c19FlowsFrom(rd, body) {
				bwhy = "the full read does not read the body returned by the checked Fetch"
				continue
			}
		}
		if h != nil && !c19FlowsFrom(rd, h) && !c19HashFedFrom(F, h, b, hm) {
			bwhy = "the hash that HashMatches approves is fed neither by the reader of the full read nor by a Write of the filled buffer (digest of other bytes than those written)"
			continue
		}
		bytesOK, buf = true, b
	}
	if bytesOK {
		r.OK("Y-dequeue", key+"#bytes", site, "destination reader <- buffer <- successful full read <- tee(hash approved by HashMatches) <- body of the checked Fetch")
	} else {
		r.Violation("Y-dequeue", key+"#bytes", site, "the bytes written are not tied to the bytes verified: "+bwhy)
	}

	// (5) acknowledged size == sent size, through the equality facts at the success point
	var sent ssa.Value
	if ms, ok := buf.(*ssa.MakeSlice); ok {
		sent = originValue(ms.Len)
	}
	ack0 := ResultValue(dest.Value(), 0)
	keyOf := func(v ssa.Value) string {
		for {
			if cv, ok := v.(*ssa.Convert); ok {
				v = cv.X
				continue
			}
			break
		}
		o := originValue(v)
		if c19IsSizeOf(o, ack0, a) {
			return "ACK"
		}
		if sent != nil && (o == sent || sameOrigin(o, sent)) {
			return "SENT"
		}
		if call, ok := o.(*ssa.Call); ok {
			if b, ok := call.Call.Value.(*ssa.Builtin); ok && b.Name() == "len" && buf != nil && originValue(call.Call.Args[0]) == buf {
				return "SENT"
			}
		}
		return AccessPath(o)
	}
	parent := map[string]string{}
	var find func(string) string
	find = func(x string) string {
		if parent[x] == "" || parent[x] == x {
			parent[x] = x
			return x
		}
		parent[x] = find(parent[x])
		return parent[x]
	}
	for _, f := range FactsAt(at.Block()) {
		bo, ok := f.Cond.(*ssa.BinOp)
		if !ok || !((bo.Op == token.EQL && f.Val) || (bo.Op == token.NEQ && !f.Val)) {
			continue
		}
		parent[find(keyOf(bo.X))] = find(keyOf(bo.Y))
	}
	_ = sizePath
	switch {
	case ack0 == nil:
		r.Violation("Y-dequeue", key+"#dest-size", p.Pos(dest.Pos()), "the SizedRef acknowledged by the destination is ignored: a destination that stored a truncated blob would still cause the dequeue")
	case sent == nil:
		r.Undecided("Y-dequeue", key+"#dest-size", site, "cannot determine the number of bytes sent (buffer is not a make([]byte, n) filled by the checked read)")
	case find("ACK") == find("SENT"):
		r.OK("Y-dequeue", key+"#dest-size", site, "size acknowledged by the destination equals the number of bytes sent, by the equality facts dominating the success point")
	default:
		r.Violation("Y-dequeue", key+"#dest-size", site, "no chain of dominating equality facts ties the size acknowledged by the destination to the number of bytes sent")
	}
}

// c19HashFedFrom: h.Write(buf) (buf being the buffer of the checked full read)
// executed before HashMatches is evaluated.
func c19HashFedFrom(F *ssa.Function, h, buf ssa.Value, hm CallSite) bool {
	for _, c := range CallsIn(F, false) {
		if c.Value() == nil || c.MethodName() != "Write" || len(c.Args()) != 2 {
			continue
		}
		if originValue(c.Args()[0]) != h || originValue(c.Args()[1]) != buf {
			continue
		}
		if Precedes(c.Instr, hm.Instr) {
			return true
		}
	}
	return false
}

// c19IsSizeOf reports whether v is the Size field of SizedRef value sr (an
// Extract), directly or through a single-store local.
func c19IsSizeOf(v, sr ssa.Value, a *c19Anchors) bool {
	if sr == nil {
		return false
	}
	switch x := v.(type) {
	case *ssa.Field:
		return fieldName(x.X.Type(), x.Field) == "Size" && originValue(x.X) == sr
	case *ssa.UnOp:
		if x.Op != token.MUL {
			return false
		}
		fa, ok := x.X.(*ssa.FieldAddr)
		if !ok || fieldName(fa.X.Type(), fa.Field) != "Size" {
			return false
		}
		al, ok := fa.X.(*ssa.Alloc)
		if !ok {
			return false
		}
		sts := storesTo(al)
		if len(sts) != 1 || sts[0].Val != sr {
			return false
		}
		// no field-wise stores
		if ar := al.Referrers(); ar != nil {
			for _, au := range *ar {
				if f2, ok := au.(*ssa.FieldAddr); ok {
					if fr := f2.Referrers(); fr != nil {
						for _, fu := range *fr {
							if s, ok := fu.(*ssa.Store); ok && s.Addr == ssa.Value(f2) {
								return false
							}
						}
					}
				}
			}
		}
		return true
	}
	return false
}

// ---------------------------------------------------------------------------
// builders of queue-backed handlers (shared by Y-enqueue, Y-reload, Y-start)

type c19Builder struct {
	site CallSite      // call of a constructor (function storing SyncHandler.queue)
	sh   ssa.Value     // the handler value
	from ssa.Value     // the argument stored into the handler's `from` field (may be nil)
	g    *ssa.Function // enclosing function
}

func c19Builders(p *Program, a *c19Anchors) []c19Builder {
	var out []c19Builder
	for _, ctor := range a.ctors {
		fromIdx := -1
		for _, b := range ctor.Blocks {
			for _, in := range b.Instrs {
				st, ok := in.(*ssa.Store)
				if !ok {
					continue
				}
				if _, ok := c19IsFieldAddr(st.Addr, a.sh, "from"); ok {
					for i, prm := range ctor.Params {
						if originValue(st.Val) == ssa.Value(prm) {
							fromIdx = i
						}
					}
				}
			}
		}
		for _, c := range p.StaticCallers(ctor) {
			if c.Value() == nil || IsTestSupportPkg(RelPkg(c.Fn.Pkg.Pkg)) {
				continue
			}
			b := c19Builder{site: c, sh: c.Value(), g: c.Fn}
			if fromIdx >= 0 && fromIdx < len(c.Args()) {
				b.from = c.Args()[fromIdx]
			}
			out = append(out, b)
		}
	}
	return out
}

// c19HandsOut reports whether the return hands the handler out.
func c19HandsOut(ret *ssa.Return, sh ssa.Value) bool {
	// value-preserving chain only (interface conversion, single-store locals):
	// an error derived from a call on the handler does not hand the handler out
	for _, res := range ret.Results {
		if sameOrigin(res, sh) {
			return true
		}
	}
	return false
}

// c19AllPaths: every path from the builder call to a return that hands the
// handler out passes an instruction satisfying stop.
func c19AllPaths(b c19Builder, stop func(ssa.Instruction) bool) []Leak {
	return LeakingExits(PathQuery{
		Start: b.site.Instr,
		Stop:  stop,
		ExitOK: func(exit ssa.Instruction) bool {
			ret, ok := exit.(*ssa.Return)
			return ok && !c19HandsOut(ret, b.sh)
		},
		IgnorePanics: true,
	})
}

func c19LeakText(p *Program, leaks []Leak) string {
	var s []string
	for _, l := range leaks {
		s = append(s, fmt.Sprintf("return at %s via blocks %s", p.Pos(l.Exit.Pos()), blockNames(l.Via)))
		if len(s) == 3 {
			break
		}
	}
	return strings.Join(s, "; ")
}

// c19BoundMethodOf reports whether v is a bound method value (or a literal that
// only forwards to and returns) method m, and returns the receiver.
func c19BoundMethodOf(v ssa.Value, m *ssa.Function) (recv ssa.Value, ok bool) {
	mc, isMC := originValue(v).(*ssa.MakeClosure)
	if !isMC {
		return nil, false
	}
	fn := mc.Fn.(*ssa.Function)
	if fn.Object() != nil && fn.Object() == m.Object() && len(mc.Bindings) == 1 && strings.HasPrefix(fn.Synthetic, "bound method wrapper") {
		return mc.Bindings[0], true
	}
	if fn.Parent() != nil {
		var call *ssa.Call
		for _, c := range CallsIn(fn, false) {
			if c.Callee() == m && c.Value() != nil {
				if call != nil {
					return nil, false
				}
				call = c.Value()
			}
		}
		if call == nil {
			return nil, false
		}
		for _, ri := range Returns(fn) {
			if len(ri.Results) != 1 || !sameOrigin(ri.Results[0], call) {
				return nil, false
			}
		}
		return call.Call.Args[0], true
	}
	return nil, false
}

// ---------------------------------------------------------------------------
// Y-enqueue

func c19YEnqueue(p *Program, r *Reporter, a *c19Anchors) {
	hubIface := p.Iface("pkg/blobserver", "BlobHub")
	// the enqueue function, by role: encloses the queue.Set site(s)
	var enq *ssa.Function
	for _, s := range a.qSet {
		if enq != nil && enq != TopFunc(s.Fn) {
			r.Undecided("Y-enqueue", FuncKey(s.Fn)+"#queue.Set", p.Pos(s.Pos()), "more than one function inserts into the queue; the hook method cannot be identified")
		}
		enq = TopFunc(s.Fn)
	}
	if enq == nil {
		r.Violation("Y-enqueue", "pkg/server.(*SyncHandler)#queue.Set", "?", "nothing ever inserts into the persistent queue")
		return
	}
	// in-memory add, by role: updates needCopy
	for _, fn := range p.FuncsIn("pkg/server") {
		for _, b := range fn.Blocks {
			for _, in := range b.Instrs {
				if mu, ok := in.(*ssa.MapUpdate); ok {
					if _, ok := c19FieldOf(mu.Map, a.sh, "needCopy"); ok {
						a.memAdd = TopFunc(fn)
					}
				}
			}
		}
	}

	// E1: builders register the hook
	builders := c19Builders(p, a)
	if len(builders) == 0 {
		r.Violation("Y-enqueue", "pkg/server#builders", "?", "no function builds a queue-backed SyncHandler")
	}
	for _, b := range builders {
		construct := FuncKey(b.g) + "#AddReceiveHook"
		wrong := ""
		stop := func(in ssa.Instruction) bool {
			ci, ok := in.(ssa.CallInstruction)
			if !ok {
				return false
			}
			c := CallSite{in.Parent(), ci}
			if c.MethodName() != "AddReceiveHook" || !c.IsMethod("AddReceiveHook", hubIface) || c.IsGo() || c.IsDefer() {
				return false
			}
			ar := c.Args()
			recv, ok := c19BoundMethodOf(ar[1], enq)
			if !ok {
				wrong = "a hook other than the handler's enqueue method is registered"
				return false
			}
			if !sameOrigin(recv, b.sh) {
				wrong = "enqueue of a different handler is registered"
				return false
			}
			hubCall, ok := originValue(ar[0]).(*ssa.Call)
			if !ok || !(CallSite{hubCall.Parent(), hubCall}).IsStatic("perkeep.org/pkg/blobserver", "", "GetHub") {
				wrong = "the hub is not obtained from blobserver.GetHub"
				return false
			}
			st := hubCall.Call.Args[0]
			if base, ok := c19FieldOf(st, a.sh, "from"); ok && sameOrigin(base, b.sh) {
				return true
			}
			if b.from != nil && sameOrigin(st, b.from) {
				return true
			}
			wrong = "the hook is registered on the hub of a storage that is not the handler's source"
			return false
		}
		leaks := c19AllPaths(b, stop)
		if len(leaks) == 0 {
			r.OK("Y-enqueue", construct, p.Pos(b.site.Pos()), "every path handing the handler out registers its enqueue method on GetHub(source)")
		} else {
			d := "a handler is handed out without its enqueue method registered as receive hook of its source: " + c19LeakText(p, leaks)
			if wrong != "" {
				d += " (" + wrong + ")"
			}
			r.Violation("Y-enqueue", construct, p.Pos(b.site.Pos()), d)
		}
	}

	// E2: returns of enqueue
	for _, s := range a.qSet {
		if s.Fn != enq || s.Value() == nil {
			r.Undecided("Y-enqueue", FuncKey(s.Fn)+"#queue.Set", p.Pos(s.Pos()), "queue.Set inside a literal or as go/defer: its error is not followed")
			continue
		}
		ev, _, discarded := ErrValue(s.Value())
		if discarded {
			r.Violation("Y-enqueue", FuncKey(enq)+"#queue.Set#error", p.Pos(s.Pos()), "the error of queue.Set is discarded: the uploader is told the blob was accepted although it was not queued persistently")
			continue
		}
		n := 0
		for _, nr := range MaybeNilErrorReturns(enq) {
			n++
			at := ssa.Instruction(nr.Ret)
			if nr.From != nil && nr.From != nr.Ret.Block() {
				at = c19LastInstr(nr.From)
			}
			construct := FuncKey(enq) + "#nil-return"
			if sameOrigin(nr.Val, ev) {
				r.OK("Y-enqueue", construct, p.Pos(nr.Ret.Pos()), "returns queue.Set's own error")
				continue
			}
			if ok, _ := SuccessDominates(s.Value(), at); ok {
				r.OK("Y-enqueue", construct, p.Pos(nr.Ret.Pos()), "on the err==nil edge of queue.Set")
				continue
			}
			if a.memAdd != nil {
				if k, v, _ := BoolCallFact(at.Block(), func(c CallSite) bool { return c.Callee() == a.memAdd }); k && !v {
					r.OK("Y-enqueue", construct, p.Pos(nr.Ret.Pos()), "duplicate edge: the in-memory add reported the ref as already pending")
					continue
				}
			}
			r.Violation("Y-enqueue", construct, p.Pos(nr.Ret.Pos()), "enqueue can return nil without queue.Set having succeeded and without the blob being a known duplicate: the pending blob would not survive a restart")
		}
		if n == 0 {
			r.Violation("Y-enqueue", FuncKey(enq)+"#nil-return", p.Pos(enq.Pos()), "enqueue has no success return")
		}
	}
	// E3: the in-memory add says "duplicate" only when the ref is present
	if a.memAdd == nil {
		r.Violation("Y-enqueue", "pkg/server#needCopy-add", "?", "no function adds to the in-memory pending set")
	} else {
		for _, ri := range Returns(a.memAdd) {
			if len(ri.Results) != 1 {
				continue
			}
			c, ok := ri.Results[0].(*ssa.Const)
			if !ok || c.Value == nil || c.Value.String() != "false" {
				continue
			}
			present := false
			for _, f := range FactsAt(ri.Ret.Block()) {
				ex, ok := originValue(f.Cond).(*ssa.Extract)
				if !ok || ex.Index != 1 || !f.Val {
					continue
				}
				if lk, ok := ex.Tuple.(*ssa.Lookup); ok && lk.CommaOk {
					if _, ok := c19FieldOf(lk.X, a.sh, "needCopy"); ok {
						present = true
					}
				}
			}
			r.Check(present, "Y-enqueue", FuncKey(a.memAdd)+"#duplicate-means-present", p.Pos(ri.Ret.Pos()),
				"'false' (duplicate) is returned only under the fact that needCopy already holds the ref",
				"'false' (duplicate) is returned without needCopy being known to hold the ref: enqueue would skip queue.Set for a blob that is not pending")
		}
	}
	// E5: callers of enqueue keep its error
	for _, c := range p.StaticCallers(enq) {
		if strings.HasPrefix(c.Fn.Synthetic, "bound method wrapper") || c.Fn.Synthetic != "" {
			continue
		}
		construct := FuncKey(c.Fn) + "#" + enq.Name() + "#error-kept"
		if c.Value() == nil {
			r.Violation("Y-enqueue", construct, p.Pos(c.Pos()), "enqueue started with go/defer: its error is lost")
			continue
		}
		_, _, discarded := ErrValue(c.Value())
		r.Check(!discarded, "Y-enqueue", construct, p.Pos(c.Pos()), "the error of enqueue is used", "the error of enqueue is discarded")
	}

	// E4: hubs run hooks and report their errors
	for _, n := range p.Implementers(hubIface, false) {
		notify, _ := p.MethodOf(n, "NotifyBlobReceived")
		addHook, _ := p.MethodOf(n, "AddReceiveHook")
		if notify == nil || addHook == nil || notify.Blocks == nil || addHook.Blocks == nil {
			brokenf("anchor unresolved: BlobHub methods of %s", n.Obj().Name())
		}
		c19HubRule(p, r, n, notify, addHook)
		// callers of NotifyBlobReceived
		sites := p.InvokeSites(notify)
		sites = append(sites, p.StaticCallers(notify)...)
		nSites := 0
		for _, c := range sites {
			if IsTestSupportPkg(RelPkg(c.Fn.Pkg.Pkg)) {
				continue
			}
			nSites++
			c19NotifyCaller(p, r, a, c)
		}
		if nSites == 0 {
			r.Violation("Y-enqueue", typeKey(n)+"#NotifyBlobReceived#callers", "?", "nobody notifies the hub: receive hooks never run")
		}
	}
}

func c19HubRule(p *Program, r *Reporter, n *types.Named, notify, addHook *ssa.Function) {
	// the hooks field: what AddReceiveHook stores into
	hooksField := ""
	for _, b := range addHook.Blocks {
		for _, in := range b.Instrs {
			if st, ok := in.(*ssa.Store); ok {
				if fa, ok := st.Addr.(*ssa.FieldAddr); ok {
					if bn := NamedOf(fa.X.Type()); bn != nil && bn.Obj() == n.Obj() && c19FlowsFrom(st.Val, addHook.Params[1]) {
						hooksField = fieldName(fa.X.Type(), fa.Field)
					}
				}
			}
		}
	}
	if hooksField == "" {
		r.Violation("Y-enqueue", FuncKey(addHook)+"#stores-hook", p.Pos(addHook.Pos()), "AddReceiveHook does not store the hook in a field of the hub")
		return
	}
	r.OK("Y-enqueue", FuncKey(addHook)+"#stores-hook", p.Pos(addHook.Pos()), "hook stored into field "+hooksField)
	isHookCall := func(c CallSite) bool {
		cc := c.Common()
		if cc.IsInvoke() || c.Callee() != nil {
			return false
		}
		ld, ok := originValue(cc.Value).(*ssa.UnOp)
		if !ok || ld.Op != token.MUL {
			return false
		}
		ia, ok := ld.X.(*ssa.IndexAddr)
		if !ok {
			return false
		}
		_, ok = c19FieldOf(ia.X, n, hooksField)
		return ok
	}
	var hookCalls []CallSite
	for _, c := range CallsIn(notify, true) {
		if isHookCall(c) {
			hookCalls = append(hookCalls, c)
		}
	}
	if len(hookCalls) == 0 {
		r.Violation("Y-enqueue", FuncKey(notify)+"#hook-call", p.Pos(notify.Pos()), "NotifyBlobReceived never calls the registered receive hooks")
		return
	}
	for _, hc := range hookCalls {
		construct := FuncKey(notify) + "#hook-error"
		if hc.Value() == nil {
			r.Violation("Y-enqueue", construct, p.Pos(hc.Pos()), "hook started with go/defer: its error is lost")
			continue
		}
		if hc.Fn == notify {
			// sequential form: assuming the hook failed, no exit returns a possibly-nil error
			leaks := LeakingExits(PathQuery{
				Start:  hc.Instr,
				Stop:   func(ssa.Instruction) bool { return false },
				Assume: c19AssumeFailed(hc.Value()),
				ExitOK: func(exit ssa.Instruction) bool {
					ret, ok := exit.(*ssa.Return)
					if !ok {
						return true
					}
					for _, nr := range MaybeNilErrorReturns(notify) {
						if nr.Ret == ret && !sameOrigin(nr.Val, hc.Value()) {
							return false
						}
					}
					return true
				},
				IgnorePanics: true,
			})
			r.Check(len(leaks) == 0, "Y-enqueue", construct, p.Pos(hc.Pos()),
				"a failing hook makes NotifyBlobReceived return a non-nil error", "NotifyBlobReceived can return nil although a hook failed: "+c19LeakText(p, leaks))
			continue
		}
		// group form: literal spawned through a Group, joined before any nil return
		var spawn CallSite
		for _, c := range CallsIn(hc.Fn.Parent(), false) {
			if isSpawner(c) {
				for _, l := range FuncArgClosures(c) {
					if l == hc.Fn {
						spawn = c
					}
				}
			}
		}
		if spawn.Instr == nil || hc.Fn.Parent() != notify {
			r.Violation("Y-enqueue", construct, p.Pos(hc.Pos()), "hook is called from a literal that is not run through an error-collecting group: its error is lost")
			continue
		}
		retOK := true
		for _, ri := range Returns(hc.Fn) {
			if len(ri.Results) != 1 || !sameOrigin(ri.Results[0], hc.Value()) {
				retOK = false
			}
		}
		if !retOK {
			r.Violation("Y-enqueue", construct, p.Pos(hc.Pos()), "the literal running the hook does not return the hook's error to the group")
			continue
		}
		grp := spawn.Args()[0]
		var join *ssa.Call
		for _, c := range CallsIn(notify, false) {
			if c.Value() != nil && (c.IsStatic("go4.org/syncutil", "Group", "Err") || c.IsStatic("go4.org/syncutil", "Group", "Wait") || c.IsStatic("golang.org/x/sync/errgroup", "Group", "Wait")) && sameOrigin(c.Args()[0], grp) {
				if _, hasErr, _ := ErrValue(c.Value()); hasErr {
					join = c.Value()
				}
			}
		}
		if join == nil {
			r.Violation("Y-enqueue", construct, p.Pos(hc.Pos()), "the group running the hooks is never joined for its error (Err/Wait returning the first hook error)")
			continue
		}
		bad := ""
		for _, nr := range MaybeNilErrorReturns(notify) {
			at := ssa.Instruction(nr.Ret)
			if nr.From != nil && nr.From != nr.Ret.Block() {
				at = c19LastInstr(nr.From)
			}
			if sameOrigin(nr.Val, join) {
				continue
			}
			if ok, w := SuccessDominates(join, at); !ok {
				bad = fmt.Sprintf("nil return at %s: %s", p.Pos(nr.Ret.Pos()), w)
			}
		}
		r.Check(bad == "", "Y-enqueue", construct, p.Pos(hc.Pos()),
			"hooks run in a group; every possibly-nil return is on the err==nil edge of the group's join", "a hook's error can be swallowed: "+bad)
	}
}

// c19NotifyCaller: the function that notifies the hub returns the hub's error
// and notifies the hub of the store that received the blob.
func c19NotifyCaller(p *Program, r *Reporter, a *c19Anchors, c CallSite) {
	fn := c.Fn
	construct := FuncKey(fn) + "#NotifyBlobReceived"
	if c.Value() == nil {
		r.Violation("Y-enqueue", construct+"#error", p.Pos(c.Pos()), "NotifyBlobReceived started with go/defer: hook errors never reach the uploader")
		return
	}
	ev, _, discarded := ErrValue(c.Value())
	if discarded {
		r.Violation("Y-enqueue", construct+"#error", p.Pos(c.Pos()), "the error of NotifyBlobReceived is discarded: a failed enqueue is reported to the uploader as success")
		return
	}
	if ErrResultIndex(fn) < 0 {
		r.Violation("Y-enqueue", construct+"#error", p.Pos(c.Pos()), "the notifying function cannot return the hook error")
		return
	}
	after := ReachableFrom(c.Instr, nil)
	bad := ""
	for _, nr := range MaybeNilErrorReturns(fn) {
		if !after[nr.Ret] {
			continue
		}
		at := ssa.Instruction(nr.Ret)
		if nr.From != nil && nr.From != nr.Ret.Block() {
			at = c19LastInstr(nr.From)
		}
		if sameOrigin(nr.Val, ev) {
			continue
		}
		if ok, w := SuccessDominates(c.Value(), at); !ok {
			bad = fmt.Sprintf("return at %s: %s", p.Pos(nr.Ret.Pos()), w)
		}
	}
	r.Check(bad == "", "Y-enqueue", construct+"#error", p.Pos(c.Pos()),
		"every possibly-nil return after the notification returns its error or is on its err==nil edge", "a hook error can be swallowed: "+bad)
	// which hub, after which store
	hubCall, ok := originValue(c.Args()[0]).(*ssa.Call)
	if !ok || !(CallSite{hubCall.Parent(), hubCall}).IsStatic("perkeep.org/pkg/blobserver", "", "GetHub") {
		r.Undecided("Y-enqueue", construct+"#hub", p.Pos(c.Pos()), "hub is not obtained from GetHub in the same function")
		return
	}
	hubOf := hubCall.Call.Args[0]
	okStore := false
	for _, sc := range CallsIn(fn, false) {
		dst, _, _, ok := c19StoreCall(sc, a)
		if !ok || !sameOrigin(dst, hubOf) {
			continue
		}
		if ok, _ := SuccessDominates(sc.Value(), c.Instr); ok {
			if sb := ResultValue(sc.Value(), 0); sb != nil && sameOrigin(c.Args()[1], sb) {
				okStore = true
			}
		}
	}
	r.Check(okStore, "Y-enqueue", construct+"#hub", p.Pos(c.Pos()),
		"the hub notified is that of the store whose ReceiveBlob just succeeded, with the SizedRef it returned",
		"the notification is not for (the hub of) the store whose ReceiveBlob just succeeded, or not with the SizedRef it returned")
}

// ---------------------------------------------------------------------------
// Y-reload / Y-start

// c19ReloadExceptions: builders that need not reload the queue. Each entry is
// one function + one reason and is re-checked structurally on every run.
var c19ReloadExceptions = map[string]string{
	"pkg/server.NewSyncHandler": "exported library constructor that is given a queue by its caller; it has no caller in the module (only tests, with a fresh in-memory queue) — the exception lapses as soon as module code calls it",
}

func c19YReload(p *Program, r *Reporter, a *c19Anchors) {
	builders := c19Builders(p, a)
	for _, b := range builders {
		// Y-start
		startsLoop := func(in ssa.Instruction) bool {
			g, ok := in.(*ssa.Go)
			if !ok {
				return false
			}
			c := CallSite{in.Parent(), g}
			if c.Callee() == a.syncLoop {
				return sameOrigin(c.Args()[0], b.sh)
			}
			if l := ClosureOf(c); l != nil && len(l.Blocks) > 0 {
				isLoop := func(x ssa.Instruction) bool {
					ci, ok := x.(ssa.CallInstruction)
					return ok && (CallSite{x.Parent(), ci}).Callee() == a.syncLoop && c19FlowsFrom(ci.Common().Args[0], b.sh)
				}
				first := l.Blocks[0].Instrs[0]
				if isLoop(first) {
					return true
				}
				return len(LeakingExits(PathQuery{Start: first, Stop: isLoop, IgnorePanics: true})) == 0
			}
			return false
		}
		leaks := c19AllPaths(b, startsLoop)
		r.Check(len(leaks) == 0, "Y-start", FuncKey(b.g)+"#copy-loop", p.Pos(b.site.Pos()),
			"every path handing the handler out has started its copy loop (go syncLoop, or a go literal all of whose paths reach syncLoop)",
			"a handler is handed out whose copy loop was never started (queued blobs are never copied): "+c19LeakText(p, leaks))

		// Y-reload
		construct := FuncKey(b.g) + "#reload"
		if why, ok := c19ReloadExceptions[FuncKey(b.g)]; ok {
			n := 0
			for _, c := range p.StaticCallers(b.g) {
				if !IsTestSupportPkg(RelPkg(c.Fn.Pkg.Pkg)) {
					n++
				}
			}
			n += len(p.FuncValueUses(b.g))
			r.Check(n == 0, "Y-reload", construct, p.Pos(b.site.Pos()), "exception (re-checked: no caller in the module): "+why,
				fmt.Sprintf("%s builds a handler over a caller-supplied queue without reloading it and now has %d use(s) in the module: rows pending from a previous run are never copied", FuncKey(b.g), n))
			continue
		}
		isReload := func(in ssa.Instruction) bool {
			call, ok := in.(*ssa.Call)
			return ok && (CallSite{in.Parent(), call}).Callee() == a.reload && sameOrigin(call.Call.Args[0], b.sh)
		}
		leaks = c19AllPaths(b, isReload)
		if len(leaks) > 0 {
			r.Violation("Y-reload", construct, p.Pos(b.site.Pos()), "a handler is handed out without the persistent queue having been read into memory (rows pending from a previous run are never copied): "+c19LeakText(p, leaks))
			continue
		}
		bad := ""
		for _, c := range CallsIn(b.g, false) {
			if !isReload(c.Instr) {
				continue
			}
			ev, _, discarded := ErrValue(c.Value())
			if discarded {
				bad = "the error of readQueueToMemory is discarded"
				break
			}
			fl := LeakingExits(PathQuery{
				Start:  c.Instr,
				Stop:   func(ssa.Instruction) bool { return false },
				Assume: c19AssumeFailed(ev),
				ExitOK: func(exit ssa.Instruction) bool {
					ret, ok := exit.(*ssa.Return)
					return ok && !c19HandsOut(ret, b.sh)
				},
				IgnorePanics: true,
			})
			if len(fl) > 0 {
				bad = "a handler is handed out although reading the queue failed: " + c19LeakText(p, fl)
			}
		}
		r.Check(bad == "", "Y-reload", construct, p.Pos(b.site.Pos()),
			"every path handing the handler out passed readQueueToMemory on it, and none does when it failed", bad)
	}

	// inside the reload function
	var qe *ssa.Function
	for _, f := range a.qFind {
		qe = TopFunc(f.Fn)
	}
	if qe == nil {
		r.Violation("Y-reload", "pkg/server#queue.Find", "?", "nothing ever reads the persistent queue")
		return
	}
	rq := a.reload
	var qeCall *ssa.Call
	for _, c := range CallsIn(rq, true) {
		if c.Callee() == qe && c.Value() != nil {
			qeCall = c.Value()
		}
	}
	if qeCall == nil {
		r.Violation("Y-reload", FuncKey(rq)+"#enumerates-queue", p.Pos(rq.Pos()), "readQueueToMemory does not call the queue enumerator "+FuncKey(qe))
		return
	}
	dstChan := originValue(qeCall.Call.Args[1])
	fromChan := func(ch ssa.Value) func(ssa.Value) bool {
		return func(x ssa.Value) bool {
			u, ok := x.(*ssa.UnOp)
			return ok && u.Op == token.ARROW && originValue(u.X) == ch
		}
	}
	fed := false
	if a.memAdd != nil {
		for _, c := range CallsIn(rq, true) {
			if c.Callee() != a.memAdd {
				continue
			}
			for _, arg := range c.Args()[1:] {
				if c19Flows(arg, fromChan(dstChan)) {
					fed = true
				}
			}
		}
	}
	r.Check(fed, "Y-reload", FuncKey(rq)+"#feeds-memory", p.Pos(qeCall.Pos()),
		"each element received from the enumerator's channel is handed to the in-memory add",
		"the elements produced by the queue enumerator do not reach the in-memory pending set")
	errOK := true
	detail := ""
	for _, ri := range Returns(rq) {
		v := ri.Results[len(ri.Results)-1]
		if sameOrigin(v, qeCall) {
			continue
		}
		okThis := false
		if u, ok := originValue(v).(*ssa.UnOp); ok && u.Op == token.ARROW {
			ch := originValue(u.X)
			for _, b := range qeCall.Parent().Blocks {
				for _, in := range b.Instrs {
					if s, ok := in.(*ssa.Send); ok && originValue(s.Chan) == ch && sameOrigin(s.X, qeCall) {
						okThis = true
					}
				}
			}
		}
		if !okThis {
			errOK = false
			detail = "return at " + p.Pos(ri.Ret.Pos()) + " does not return the queue enumerator's error"
		}
	}
	r.Check(errOK, "Y-reload", FuncKey(rq)+"#returns-enum-error", p.Pos(rq.Pos()),
		"every return yields the enumerator's error (directly or through the channel it is sent on)", "a failed queue scan would be reported as a complete reload: "+detail)

	c19EnumeratorRules(p, r, a, qe)
}

func c19EnumeratorRules(p *Program, r *Reporter, a *c19Anchors, qe *ssa.Function) {
	for _, f := range a.qFind {
		construct := FuncKey(qe) + "#Find-range"
		ar := f.Args()
		s1, ok1 := ConstString(ar[1])
		s2, ok2 := ConstString(ar[2])
		r.Check(ok1 && ok2 && s1 == "" && s2 == "", "Y-reload", construct, p.Pos(f.Pos()),
			"the whole queue is scanned (Find(\"\", \"\"))", "the reload does not scan the whole queue: rows outside the range are never reloaded")
		if f.Fn != qe || f.Value() == nil {
			continue
		}
		it := ssa.Value(f.Value())
		onIter := func(c CallSite, name string) bool {
			return c.Common().IsInvoke() && c.MethodName() == name && sameOrigin(c.Common().Value, it)
		}
		// Close error returned
		bad := ""
		for _, ri := range Returns(qe) {
			v := ri.Results[len(ri.Results)-1]
			call, ok := originValue(v).(*ssa.Call)
			if !ok || !onIter(CallSite{qe, call}, "Close") {
				bad = "return at " + p.Pos(ri.Ret.Pos()) + " does not return the iterator's Close error (iteration errors are reported there)"
			}
		}
		r.Check(bad == "", "Y-reload", FuncKey(qe)+"#returns-iter-error", p.Pos(f.Pos()),
			"every return yields it.Close() of the queue iterator", bad)

		// every row is sent unless parsing failed
		var next *ssa.Call
		for _, c := range CallsIn(qe, false) {
			if onIter(c, "Next") && c.Value() != nil {
				next = c.Value()
			}
		}
		if next == nil {
			r.Violation("Y-reload", FuncKey(qe)+"#rows", p.Pos(f.Pos()), "the queue iterator is never advanced")
			continue
		}
		var body *ssa.BasicBlock
		if ifi, ok := c19LastInstr(next.Block()).(*ssa.If); ok && originValue(ifi.Cond) == ssa.Value(next) {
			body = next.Block().Succs[0]
		}
		if body == nil {
			r.Undecided("Y-reload", FuncKey(qe)+"#rows", p.Pos(next.Pos()), "loop shape not recognised (Next() is not the loop condition)")
			continue
		}
		var parseErrs []ssa.Value
		var parseOKs []ssa.Value
		for _, c := range CallsIn(qe, false) {
			if c.Value() == nil {
				continue
			}
			if c.IsStatic("perkeep.org/pkg/blob", "", "Parse") {
				if v := ResultValue(c.Value(), 1); v != nil {
					parseOKs = append(parseOKs, v)
				}
			}
			if c.IsStatic("strconv", "", "ParseUint") || c.IsStatic("strconv", "", "ParseInt") || c.IsStatic("strconv", "", "Atoi") {
				if ev, has, _ := ErrValue(c.Value()); has && ev != nil {
					parseErrs = append(parseErrs, ev)
				}
			}
		}
		assume := func(cond ssa.Value) (bool, bool) {
			val := true
			for {
				if u, ok := cond.(*ssa.UnOp); ok && u.Op == token.NOT {
					cond, val = u.X, !val
					continue
				}
				break
			}
			for _, okv := range parseOKs {
				if originValue(cond) == okv {
					return true, val
				}
			}
			for _, ev := range parseErrs {
				if k, isNil := condSaysNil(cond, true, ev); k {
					// parse succeeded: ev is nil
					return true, isNil == val
				}
			}
			return false, false
		}
		isSend := func(in ssa.Instruction) bool {
			isDst := func(ch ssa.Value) bool {
				prm, ok := originValue(ch).(*ssa.Parameter)
				return ok && prm.Parent() == qe
			}
			switch x := in.(type) {
			case *ssa.Send:
				return isDst(x.Chan)
			case *ssa.Select:
				for _, st := range x.States {
					if st.Dir == types.SendOnly && isDst(st.Chan) {
						return true
					}
				}
			}
			return false
		}
		skipped := ""
		seen := map[*ssa.BasicBlock]bool{}
		var walk func(b *ssa.BasicBlock, via []int)
		walk = func(b *ssa.BasicBlock, via []int) {
			if skipped != "" {
				return
			}
			if b == next.Block() {
				skipped = fmt.Sprintf("blocks %v", via)
				return
			}
			if seen[b] {
				return
			}
			seen[b] = true
			via = append(via, b.Index)
			for _, in := range b.Instrs {
				if isSend(in) {
					return
				}
				switch t := in.(type) {
				case *ssa.Return, *ssa.Panic:
					return
				case *ssa.If:
					if k, v := assume(t.Cond); k {
						if v {
							walk(b.Succs[0], via)
						} else {
							walk(b.Succs[1], via)
						}
						return
					}
				}
			}
			for _, s := range b.Succs {
				walk(s, via)
			}
		}
		walk(body, nil)
		r.Check(skipped == "", "Y-reload", FuncKey(qe)+"#rows", p.Pos(next.Pos()),
			"a row that parses is always sent to the consumer before the iterator advances (rows are skipped only on parse failure)",
			"a well-formed queue row can be skipped without being sent ("+skipped+"): that blob is never copied after a restart")
	}
}

// ---------------------------------------------------------------------------
// Y-codec

func c19YCodec(p *Program, r *Reporter, a *c19Anchors) {
	isInt := func(t types.Type) bool {
		b, ok := t.Underlying().(*types.Basic)
		return ok && b.Info()&types.IsInteger != 0
	}
	var keyFn *ssa.Function
	for _, s := range a.qSet {
		enq := TopFunc(s.Fn)
		construct := FuncKey(enq) + "#row-writer"
		job := c19ParamOfType(enq, a.sizedRef)
		if job == nil || !c19StableParam(enq, job) {
			r.Undecided("Y-codec", construct, p.Pos(s.Pos()), "enqueue has no single, never-reassigned SizedRef parameter")
			continue
		}
		bad := ""
		kc, ok := originValue(s.Args()[1]).(*ssa.Call)
		if !ok || !(CallSite{kc.Parent(), kc}).IsStatic("perkeep.org/pkg/blob", "Ref", "String") || c19Path(kc.Call.Args[0]) != job.Name()+".Ref" {
			bad = "the row key is not (blob.Ref).String() of the enqueued ref (the reload parses keys with blob.Parse)"
		} else {
			keyFn = kc.Call.StaticCallee()
		}
		vc, ok := originValue(s.Args()[2]).(*ssa.Call)
		if bad == "" {
			switch {
			case !ok:
				bad = "the row value is not produced by a decimal formatter"
			case (CallSite{vc.Parent(), vc}).IsStatic("fmt", "", "Sprint"):
				var elems []ssa.Value
				if sl, ok := vc.Call.Args[0].(*ssa.Slice); ok {
					if al, ok := sl.X.(*ssa.Alloc); ok {
						if refs := al.Referrers(); refs != nil {
							for _, u := range *refs {
								if ia, ok := u.(*ssa.IndexAddr); ok {
									if rr := ia.Referrers(); rr != nil {
										for _, x := range *rr {
											if st, ok := x.(*ssa.Store); ok {
												elems = append(elems, st.Val)
											}
										}
									}
								}
							}
						}
					}
				}
				if len(elems) != 1 {
					bad = "the row value is fmt.Sprint of other than exactly one operand (the reload parses a bare base-10 integer)"
				} else if mi, ok := elems[0].(*ssa.MakeInterface); !ok || !isInt(mi.X.Type()) || c19Path(mi.X) != job.Name()+".Size" {
					bad = "the row value is not the decimal rendering of the enqueued size"
				}
			case (CallSite{vc.Parent(), vc}).IsStatic("strconv", "", "Itoa"):
				if !c19Flows(vc, func(x ssa.Value) bool { return c19Path(x) == job.Name()+".Size" }) {
					bad = "the row value is not the enqueued size"
				}
			case (CallSite{vc.Parent(), vc}).IsStatic("strconv", "", "FormatUint"), (CallSite{vc.Parent(), vc}).IsStatic("strconv", "", "FormatInt"):
				if base, ok := ConstInt(vc.Call.Args[1]); !ok || base != 10 {
					bad = "the row value is not base 10"
				} else if !c19Flows(vc, func(x ssa.Value) bool { return c19Path(x) == job.Name()+".Size" }) {
					bad = "the row value is not the enqueued size"
				}
			default:
				bad = "the row value is not produced by a known decimal formatter (fmt.Sprint, strconv.Itoa/FormatUint/FormatInt base 10)"
			}
		}
		r.Check(bad == "", "Y-codec", construct, p.Pos(s.Pos()), "row = (Ref.String() of the job, decimal size of the job)", bad+": rows written now would be dropped as bogus at the next start")
	}
	for _, f := range a.qFind {
		qe := TopFunc(f.Fn)
		construct := FuncKey(qe) + "#row-reader"
		if f.Value() == nil {
			continue
		}
		it := ssa.Value(f.Value())
		iterCall := func(v ssa.Value, name string) bool {
			c, ok := originValue(v).(*ssa.Call)
			return ok && c.Call.IsInvoke() && c.Call.Method.Name() == name && sameOrigin(c.Call.Value, it)
		}
		var refV, sizeV ssa.Value
		bad := "the reader does not parse the key with blob.Parse and the value with a base-10 integer parser"
		for _, c := range CallsIn(qe, false) {
			if c.Value() == nil {
				continue
			}
			switch {
			case c.IsStatic("perkeep.org/pkg/blob", "", "Parse") && iterCall(c.Args()[0], "Key"):
				refV = ResultValue(c.Value(), 0)
			case c.IsStatic("strconv", "", "ParseUint") || c.IsStatic("strconv", "", "ParseInt"):
				if !iterCall(c.Args()[0], "Value") {
					continue
				}
				base, ok1 := ConstInt(c.Args()[1])
				bits, ok2 := ConstInt(c.Args()[2])
				if !ok1 || base != 10 {
					bad = "the row value is not parsed in base 10"
					continue
				}
				if !ok2 || (bits != 0 && bits < 32) {
					bad = "the row value is parsed with fewer than 32 bits (sizes are uint32)"
					continue
				}
				sizeV = ResultValue(c.Value(), 0)
			case c.IsStatic("strconv", "", "Atoi") && iterCall(c.Args()[0], "Value"):
				sizeV = ResultValue(c.Value(), 0)
			}
		}
		okRead := false
		if refV != nil && sizeV != nil {
			for _, b := range qe.Blocks {
				for _, in := range b.Instrs {
					var sent []ssa.Value
					switch x := in.(type) {
					case *ssa.Send:
						sent = append(sent, x.X)
					case *ssa.Select:
						for _, st := range x.States {
							if st.Dir == types.SendOnly {
								sent = append(sent, st.Send)
							}
						}
					}
					for _, v := range sent {
						if c19FlowsFrom(v, refV) && c19FlowsFrom(v, sizeV) {
							okRead = true
						}
					}
				}
			}
			if !okRead {
				bad = "what is sent to the consumer is not built from the parsed key and value"
			}
		}
		r.Check(okRead, "Y-codec", construct, p.Pos(f.Pos()), "row parsed with blob.Parse(key) and base-10 ParseUint(value, >=32 bits); both reach the element sent", bad)
	}
	for _, d := range a.qDelete {
		construct := FuncKey(d.Fn) + "#row-deleter"
		kc, ok := originValue(d.Args()[1]).(*ssa.Call)
		same := ok && keyFn != nil && kc.Call.StaticCallee() == keyFn
		r.Check(same, "Y-codec", construct, p.Pos(d.Pos()), "the deleted key is rendered by the same function as the inserted key",
			"the deleted key is not rendered by the function that renders the inserted key: the row of a copied blob is never removed (or another row is)")
	}
}

// ---------------------------------------------------------------------------
// Y-merge

func c19YMerge(p *Program, r *Reporter) {
	fn := p.Func("pkg/blobserver", "", "ListMissingDestinationBlobs")
	key := FuncKey(fn)
	var out *ssa.Parameter
	var ins []*ssa.Parameter
	for _, prm := range fn.Params {
		ch, ok := prm.Type().Underlying().(*types.Chan)
		if !ok || !IsNamed(ch.Elem(), "perkeep.org/pkg/blob", "SizedRef") {
			continue
		}
		if ch.Dir() == types.RecvOnly {
			ins = append(ins, prm)
		} else {
			out = prm
		}
	}
	if out == nil || len(ins) != 2 {
		brokenf("anchor unresolved: channel parameters of %s", key)
	}
	// close on every exit
	isClose := func(in ssa.Instruction) bool {
		ci, ok := in.(ssa.CallInstruction)
		if !ok {
			return false
		}
		if _, isGo := in.(*ssa.Go); isGo {
			return false
		}
		b, ok := ci.Common().Value.(*ssa.Builtin)
		return ok && b.Name() == "close" && originValue(ci.Common().Args[0]) == ssa.Value(out)
	}
	first := fn.Blocks[0].Instrs[0]
	closed := isClose(first)
	var leaks []Leak
	if !closed {
		leaks = LeakingExits(PathQuery{Start: first, Stop: isClose, IgnorePanics: true})
		closed = len(leaks) == 0
	}
	r.Check(closed, "Y-merge", key+"#close(destMissing)", p.Pos(fn.Pos()), "destMissing is closed (call or defer) on every path to every exit",
		"destMissing is not closed on every exit (the consumer ranging over it blocks for ever): "+c19LeakText(p, leaks))

	// peekers
	peekerOf := func(prm *ssa.Parameter) ssa.Value {
		for _, b := range fn.Blocks {
			for _, in := range b.Instrs {
				st, ok := in.(*ssa.Store)
				if !ok || originValue(st.Val) != ssa.Value(prm) {
					continue
				}
				if fa, ok := st.Addr.(*ssa.FieldAddr); ok && IsNamed(fa.X.Type(), "perkeep.org/pkg/blob", "ChanPeeker") {
					return originValue(fa.X)
				}
			}
		}
		return nil
	}
	src, dst := peekerOf(ins[0]), peekerOf(ins[1])
	if src == nil || dst == nil {
		r.Undecided("Y-merge", key+"#peekers", p.Pos(fn.Pos()), "source/destination are not consumed through blob.ChanPeeker values built in the function")
		return
	}
	on := func(c CallSite, pk ssa.Value, names ...string) bool {
		for _, n := range names {
			if c.IsStatic("perkeep.org/pkg/blob", "ChanPeeker", n) && originValue(c.Args()[0]) == pk {
				return true
			}
		}
		return false
	}
	fromPeeker := func(pk ssa.Value) func(ssa.Value) bool {
		return func(x ssa.Value) bool {
			call, ok := x.(*ssa.Call)
			return ok && on(CallSite{fn, call}, pk, "Peek", "MustPeek", "Take", "MustTake")
		}
	}
	var sends []*ssa.Send
	for _, b := range fn.Blocks {
		for _, in := range b.Instrs {
			if s, ok := in.(*ssa.Send); ok && originValue(s.Chan) == ssa.Value(out) {
				sends = append(sends, s)
			}
		}
	}
	for _, s := range sends {
		okS := c19Flows(s.X, fromPeeker(src)) && !c19Flows(s.X, fromPeeker(dst))
		r.Check(okS, "Y-merge", key+"#send", p.Pos(s.Pos()), "what is reported missing comes from the source enumeration only",
			"a value not taken from the source enumeration is reported as missing at the destination")
	}
	nTakes := 0
	for _, c := range CallsIn(fn, false) {
		if on(c, src, "ConsumeAll") {
			r.Undecided("Y-merge", key+"#src-take", p.Pos(c.Pos()), "source drained wholesale")
			continue
		}
		if !on(c, src, "Take", "MustTake") {
			continue
		}
		nTakes++
		construct := key + "#src-take"
		sent := false
		if c.Value() != nil {
			for _, s := range sends {
				if c19FlowsFrom(s.X, c.Value()) && (s.Block() == c.Block() || c.Block().Dominates(s.Block())) {
					sent = true
				}
			}
		}
		if sent {
			r.OK("Y-merge", construct, p.Pos(c.Pos()), "the source element taken here is sent to destMissing")
			continue
		}
		matched := false
		for _, f := range FactsAt(c.Block()) {
			bo, ok := f.Cond.(*ssa.BinOp)
			if !ok || !((bo.Op == token.EQL && f.Val) || (bo.Op == token.NEQ && !f.Val)) {
				continue
			}
			xs, xd := c19Flows(bo.X, fromPeeker(src)), c19Flows(bo.X, fromPeeker(dst))
			ys, yd := c19Flows(bo.Y, fromPeeker(src)), c19Flows(bo.Y, fromPeeker(dst))
			if (xs && !xd && yd && !ys) || (ys && !yd && xd && !xs) {
				matched = true
			}
		}
		r.Check(matched, "Y-merge", construct, p.Pos(c.Pos()), "the source element dropped here is under the fact that it equals the destination's head",
			"a source element is taken and neither sent to destMissing nor known equal to the destination's head: a blob missing at the destination is silently skipped")
	}
	if nTakes == 0 {
		r.Violation("Y-merge", key+"#src-take", p.Pos(fn.Pos()), "the source enumeration is never consumed")
	}
}

// ---------------------------------------------------------------------------
// Y-enum-close / Y-stop: the enumerator protocol of the copy loop
//
// An "enumerator" is a function value of the type of runSync's enumSrc
// parameter: func(dst chan<- blob.SizedRef, intr <-chan struct{}) error. A
// "launch" is a call of such a value in pkg/server; the function that made the
// dst channel and receives from it is the "consumer".

type c19Launch struct {
	call    CallSite
	top     *ssa.Function // outermost function containing the call
	callees []*ssa.Function
	why     string // why the callee set could not be computed ("" = computed)
	dst     ssa.Value
	intr    ssa.Value
}

type c19EnumInst struct {
	fn        *ssa.Function
	dst, intr *ssa.Parameter
	consumers []string // consumers that launch it
	earlyExit []string // those of them that can leave their receive loop before the channel is closed
}

func c19IsChan(t types.Type) bool {
	_, ok := t.Underlying().(*types.Chan)
	return ok
}

// c19EnumSig finds the enumerator type: the unique parameter of runSync whose
// type is a func(sendable chan, receivable chan) error.
func c19EnumSig(runSync *ssa.Function) (*types.Signature, int) {
	var sig *types.Signature
	idx := -1
	for i, prm := range runSync.Params {
		s, ok := prm.Type().Underlying().(*types.Signature)
		if !ok || s.Params().Len() != 2 || s.Results().Len() != 1 || !isErrorType(s.Results().At(0).Type()) {
			continue
		}
		c0, ok0 := s.Params().At(0).Type().Underlying().(*types.Chan)
		c1, ok1 := s.Params().At(1).Type().Underlying().(*types.Chan)
		if !ok0 || !ok1 || c0.Dir() == types.RecvOnly || c1.Dir() == types.SendOnly {
			continue
		}
		if sig != nil {
			brokenf("anchor unresolved: %s has more than one enumerator-typed parameter", FuncKey(runSync))
		}
		sig, idx = s, i
	}
	if sig == nil {
		brokenf("anchor unresolved: %s has no parameter of type func(chan<- T, <-chan struct{}) error", FuncKey(runSync))
	}
	return sig, idx
}

func c19ClosureFn(v ssa.Value) *ssa.Function {
	switch x := originValue(v).(type) {
	case *ssa.MakeClosure:
		f, _ := x.Fn.(*ssa.Function)
		return f
	case *ssa.Function:
		return x
	}
	return nil
}

// c19ResolveFuncs computes the set of functions a func-typed value may denote:
// closures, method values, declared functions, results of static callees (the
// returned literal is followed) and parameters (the arguments of every static
// caller are followed). why != "" when the set cannot be computed.
func c19ResolveFuncs(p *Program, v ssa.Value, depth int, seen map[ssa.Value]bool) (fns []*ssa.Function, why string) {
	o := originValue(v)
	if o == nil {
		return nil, "no value"
	}
	if seen[o] {
		return nil, ""
	}
	seen[o] = true
	if depth > 4 {
		return nil, "function value not followed beyond four levels"
	}
	fromResult := func(call *ssa.Call, idx int) ([]*ssa.Function, string) {
		g := (CallSite{call.Parent(), call}).Callee()
		if g == nil || g.Blocks == nil {
			return nil, "function value returned by a call that cannot be resolved statically"
		}
		var out []*ssa.Function
		for _, ri := range Returns(g) {
			if idx >= len(ri.Results) {
				return nil, "result index out of range in " + FuncKey(g)
			}
			fs, w := c19ResolveFuncs(p, ri.Results[idx], depth+1, seen)
			if w != "" {
				return nil, "result of " + FuncKey(g) + ": " + w
			}
			out = append(out, fs...)
		}
		return out, ""
	}
	switch x := o.(type) {
	case *ssa.MakeClosure:
		f, _ := x.Fn.(*ssa.Function)
		if f == nil {
			return nil, "closure over an unknown function"
		}
		if strings.HasPrefix(f.Synthetic, "bound method wrapper") {
			if obj, ok := f.Object().(*types.Func); ok {
				if m := p.SSA.FuncValue(obj); m != nil && m.Blocks != nil {
					return []*ssa.Function{m}, ""
				}
			}
			return nil, "method value of a method without body (interface method value)"
		}
		if f.Blocks == nil {
			return nil, "closure without body"
		}
		return []*ssa.Function{f}, ""
	case *ssa.Function:
		if x.Blocks == nil {
			return nil, "function without body: " + FuncKeyAny(x)
		}
		return []*ssa.Function{x}, ""
	case *ssa.Call:
		return fromResult(x, 0)
	case *ssa.Extract:
		if call, ok := x.Tuple.(*ssa.Call); ok {
			return fromResult(call, x.Index)
		}
	case *ssa.Phi:
		var out []*ssa.Function
		for _, e := range x.Edges {
			fs, w := c19ResolveFuncs(p, e, depth+1, seen)
			if w != "" {
				return nil, w
			}
			out = append(out, fs...)
		}
		return out, ""
	case *ssa.Parameter:
		F := x.Parent()
		if F.Parent() != nil {
			return nil, "parameter of a function literal"
		}
		idx := -1
		for i, prm := range F.Params {
			if prm == x {
				idx = i
			}
		}
		if idx < 0 {
			return nil, "parameter not found"
		}
		if n := len(p.FuncValueUses(F)) + len(p.InvokeSites(F)); n > 0 {
			return nil, fmt.Sprintf("%s is used as a value or through an interface (%d site(s)); the arguments it receives cannot be enumerated", FuncKey(F), n)
		}
		var out []*ssa.Function
		for _, c := range p.StaticCallers(F) {
			if c.Fn.Synthetic != "" {
				return nil, FuncKey(F) + " is called from a synthetic wrapper; the arguments it receives cannot be enumerated"
			}
			if idx >= len(c.Args()) {
				return nil, "argument index out of range at a caller of " + FuncKey(F)
			}
			fs, w := c19ResolveFuncs(p, c.Args()[idx], depth+1, seen)
			if w != "" {
				return nil, "argument in " + FuncKey(c.Fn) + ": " + w
			}
			out = append(out, fs...)
		}
		return out, ""
	}
	return nil, fmt.Sprintf("function value of kind %T is not followed (reassigned variable, field, map or interface)", o)
}

// c19ChanUse is one use of a channel value (identified by its origin: the
// MakeChan or the Parameter) in a function or the literals nested in it.
type c19ChanUse struct {
	kind string // send, select-send, select-recv, recv, recv-ok, close, arg, escape
	in   ssa.Instruction
	arg  int // kind "arg": index into CallSite.Args()
}

func c19ChanUses(top *ssa.Function, root ssa.Value) []c19ChanUse {
	var out []c19ChanUse
	match := func(v ssa.Value) bool {
		return v != nil && c19IsChan(v.Type()) && originValue(v) == root
	}
	var walk func(f *ssa.Function)
	walk = func(f *ssa.Function) {
		for _, b := range f.Blocks {
			for _, in := range b.Instrs {
				switch x := in.(type) {
				case *ssa.DebugRef, *ssa.ChangeType:
					continue
				case *ssa.Send:
					if match(x.Chan) {
						out = append(out, c19ChanUse{"send", in, 0})
					}
					if match(x.X) {
						out = append(out, c19ChanUse{"escape", in, 0})
					}
					continue
				case *ssa.Select:
					for _, st := range x.States {
						if match(st.Chan) {
							k := "select-recv"
							if st.Dir == types.SendOnly {
								k = "select-send"
							}
							out = append(out, c19ChanUse{k, in, 0})
						}
						if st.Send != nil && match(st.Send) {
							out = append(out, c19ChanUse{"escape", in, 0})
						}
					}
					continue
				case *ssa.UnOp:
					if x.Op == token.ARROW && match(x.X) {
						k := "recv"
						if x.CommaOk {
							k = "recv-ok"
						}
						out = append(out, c19ChanUse{k, in, 0})
					}
					continue
				case *ssa.BinOp:
					continue // comparison with nil / another channel
				case *ssa.Store:
					if match(x.Val) {
						al, ok := x.Addr.(*ssa.Alloc)
						if !ok || !plainVariable(al) || len(storesTo(al)) != 1 {
							out = append(out, c19ChanUse{"escape", in, 0})
						}
					}
					continue
				case *ssa.Phi:
					if originValue(x) == root {
						continue
					}
				case ssa.CallInstruction:
					cc := x.Common()
					if bi, ok := cc.Value.(*ssa.Builtin); ok {
						for _, a := range cc.Args {
							if match(a) {
								switch bi.Name() {
								case "close":
									out = append(out, c19ChanUse{"close", in, 0})
								case "len", "cap":
								default:
									out = append(out, c19ChanUse{"escape", in, 0})
								}
							}
						}
						continue
					}
					for i, a := range (CallSite{f, x}).Args() {
						if match(a) {
							out = append(out, c19ChanUse{"arg", in, i})
						}
					}
					continue
				}
				for _, op := range in.Operands(nil) {
					if *op != nil && match(*op) {
						out = append(out, c19ChanUse{"escape", in, 0})
						break
					}
				}
			}
		}
		for _, a := range f.AnonFuncs {
			walk(a)
		}
	}
	walk(top)
	return out
}

// c19Closer decides "this instruction closes channel root" and "every path
// through fn closes channel root".
type c19Closer struct {
	notes []string
	memo  map[[2]any]int // 0 unknown, 1 in progress, 2 yes, 3 no
	leak  map[[2]any]string
}

func newC19Closer() *c19Closer {
	return &c19Closer{memo: map[[2]any]int{}, leak: map[[2]any]string{}}
}

func (k *c19Closer) note(format string, args ...any) {
	s := fmt.Sprintf(format, args...)
	for _, n := range k.notes {
		if n == s {
			return
		}
	}
	k.notes = append(k.notes, s)
}

func c19FuncOfValue(v ssa.Value) *ssa.Function {
	switch x := v.(type) {
	case *ssa.Parameter:
		return x.Parent()
	case ssa.Instruction:
		return x.Parent()
	}
	return nil
}

func c19Encloses(outer, f *ssa.Function) bool {
	for ; f != nil; f = f.Parent() {
		if f == outer {
			return true
		}
	}
	return false
}

// closesAt: executing `in` closes root before the next instruction of the same
// frame runs (plain call), at the frame's exit (defer, only if acceptDefer), or
// eventually (go). Calls are followed into static callees and local literals
// that close the channel on every path, through sync.Once.Do and through
// functions made by sync.OnceFunc.
func (k *c19Closer) closesAt(in ssa.Instruction, root ssa.Value, acceptDefer bool, depth int) bool {
	ci, ok := in.(ssa.CallInstruction)
	if !ok {
		return false
	}
	if _, isDefer := in.(*ssa.Defer); isDefer && !acceptDefer {
		return false
	}
	c := CallSite{in.Parent(), ci}
	cc := c.Common()
	if b, ok := cc.Value.(*ssa.Builtin); ok {
		return b.Name() == "close" && len(cc.Args) == 1 && originValue(cc.Args[0]) == root
	}
	if depth > 4 {
		k.note("call chain deeper than four levels not followed at %s", FuncKey(in.Parent()))
		return false
	}
	if c.IsStatic("sync", "Once", "Do") {
		return k.onceCloses(c, root, depth)
	}
	if !cc.IsInvoke() {
		if call, ok := originValue(cc.Value).(*ssa.Call); ok && (CallSite{call.Parent(), call}).IsStatic("sync", "", "OnceFunc") {
			if f := c19ClosureFn(call.Call.Args[0]); f != nil && f.Blocks != nil {
				return k.mustClose(f, root, depth+1)
			}
			k.note("the function given to sync.OnceFunc is not a literal or declared function")
			return false
		}
	}
	g := c.Callee()
	if g == nil || g.Blocks == nil {
		for _, a := range c.Args() {
			if c19IsChan(a.Type()) && originValue(a) == root {
				k.note("the channel is handed to a callee that cannot be resolved statically in %s", FuncKey(in.Parent()))
			}
		}
		return false
	}
	for i, a := range c.Args() {
		if c19IsChan(a.Type()) && originValue(a) == root && i < len(g.Params) {
			if k.mustClose(g, g.Params[i], depth+1) {
				return true
			}
		}
	}
	if g.Parent() != nil && c19Encloses(c19FuncOfValue(root), g) {
		return k.mustClose(g, root, depth+1)
	}
	return false
}

// mustClose: every path from fn's entry to a return passes an instruction that
// closes root (explicit panics are not exits of interest: they end the process).
func (k *c19Closer) mustClose(fn *ssa.Function, root ssa.Value, depth int) bool {
	key := [2]any{fn, root}
	switch k.memo[key] {
	case 1:
		return false // recursion: not a proof
	case 2:
		return true
	case 3:
		return false
	}
	k.memo[key] = 1
	leak := ""
	seen := map[*ssa.BasicBlock]bool{}
	var walk func(b *ssa.BasicBlock, via []*ssa.BasicBlock)
	walk = func(b *ssa.BasicBlock, via []*ssa.BasicBlock) {
		if leak != "" || seen[b] {
			return
		}
		seen[b] = true
		via = append(via, b)
		for _, in := range b.Instrs {
			if k.closesAt(in, root, true, depth) {
				return
			}
			switch in.(type) {
			case *ssa.Return:
				leak = "return reached via blocks " + blockNames(via)
				return
			case *ssa.Panic:
				return
			}
		}
		for _, s := range b.Succs {
			walk(s, via)
		}
	}
	if len(fn.Blocks) == 0 {
		leak = "no body"
	} else {
		walk(fn.Blocks[0], nil)
	}
	if leak == "" {
		k.memo[key] = 2
		return true
	}
	k.memo[key] = 3
	k.leak[key] = leak
	return false
}

// onceCloses: once.Do(f) leaves root closed when every function ever given to
// that Once closes root on all its paths (either f runs now, or an earlier Do
// ran one of them), and the Once is a local variable used for nothing else.
func (k *c19Closer) onceCloses(c CallSite, root ssa.Value, depth int) bool {
	cell, ok := varOf(c.Args()[0])
	al, isAlloc := cell.(*ssa.Alloc)
	if !ok || !isAlloc {
		k.note("the sync.Once used in %s is not a local variable; its other users are not enumerated", FuncKey(c.Fn))
		return false
	}
	aliases := map[ssa.Value]bool{al: true}
	var collect func(f *ssa.Function)
	collect = func(f *ssa.Function) {
		for _, b := range f.Blocks {
			for _, in := range b.Instrs {
				if mc, ok := in.(*ssa.MakeClosure); ok {
					lf := mc.Fn.(*ssa.Function)
					for i, bnd := range mc.Bindings {
						if aliases[bnd] && i < len(lf.FreeVars) {
							aliases[lf.FreeVars[i]] = true
						}
					}
				}
			}
		}
		for _, a := range f.AnonFuncs {
			collect(a)
		}
	}
	collect(al.Parent())
	nDo := 0
	for a := range aliases {
		refs := a.Referrers()
		if refs == nil {
			continue
		}
		for _, u := range *refs {
			switch u := u.(type) {
			case *ssa.MakeClosure, *ssa.DebugRef:
			case ssa.CallInstruction:
				d := CallSite{u.Parent(), u}
				if !d.IsStatic("sync", "Once", "Do") || d.Args()[0] != a {
					k.note("the sync.Once of %s is also used by %s", FuncKey(al.Parent()), d.CalleeKey())
					return false
				}
				f := c19ClosureFn(d.Args()[1])
				if f == nil || f.Blocks == nil {
					k.note("a function given to the sync.Once of %s is not a literal or declared function", FuncKey(al.Parent()))
					return false
				}
				if !k.mustClose(f, root, depth+1) {
					return false
				}
				nDo++
			default:
				k.note("the sync.Once of %s is used other than by Do (%T): it may be reset", FuncKey(al.Parent()), u)
				return false
			}
		}
	}
	return nDo > 0
}

func c19YEnumProtocol(p *Program, r *Reporter) {
	runSync := p.Func("pkg/server", "SyncHandler", "runSync")
	sig, _ := c19EnumSig(runSync)

	// launches: calls of an enumerator-typed value in pkg/server
	var launches []*c19Launch
	for _, fn := range p.FuncsIn("pkg/server") {
		if fn.Synthetic != "" {
			continue
		}
		for _, c := range CallsIn(fn, false) {
			cc := c.Common()
			if _, isBuiltin := cc.Value.(*ssa.Builtin); isBuiltin {
				continue
			}
			cs := cc.Signature()
			if cs == nil || !types.Identical(cs, sig) {
				continue
			}
			ar := c.Args()
			if len(ar) < 2 {
				continue
			}
			l := &c19Launch{call: c, top: TopFunc(fn), dst: ar[len(ar)-2], intr: ar[len(ar)-1]}
			if g := cc.StaticCallee(); g != nil {
				if g.Blocks == nil {
					l.why = "callee without body"
				} else {
					l.callees = []*ssa.Function{g}
				}
			} else if cc.IsInvoke() {
				l.why = "enumerator called through an interface method"
			} else {
				l.callees, l.why = c19ResolveFuncs(p, cc.Value, 0, map[ssa.Value]bool{})
				if l.why == "" && len(l.callees) == 0 {
					l.why = "no function value reaches this call"
				}
			}
			launches = append(launches, l)
		}
	}
	sort.SliceStable(launches, func(i, j int) bool { return FuncKey(launches[i].call.Fn) < FuncKey(launches[j].call.Fn) })
	r.Analysed("enumerator_launches", len(launches))
	if len(launches) == 0 {
		r.Violation("Y-enum-close", FuncKey(runSync)+"#enumerators", p.Pos(runSync.Pos()), "no call of an enumerator value found in pkg/server: the copy loop enumerates nothing")
		return
	}

	insts := map[*ssa.Function]*c19EnumInst{}
	var order []*ssa.Function
	for _, l := range launches {
		construct := FuncKey(l.call.Fn) + "#enumerators"
		site := p.Pos(l.call.Pos())
		if l.why != "" {
			r.Undecided("Y-enum-close", construct, site, "the set of functions that can be called here cannot be computed: "+l.why)
			continue
		}
		// a function of enumerator type that forwards its own channels is a delegation, checked through its delegator
		if prm, ok := originValue(l.dst).(*ssa.Parameter); ok && prm.Parent() == l.top && types.Identical(l.top.Signature, sig) {
			r.OKTable("Y-enum-close", construct, site, "delegation from an enumerator to another (followed from the delegating enumerator)")
			continue
		}
		var names []string
		seenFn := map[*ssa.Function]bool{}
		for _, g := range l.callees {
			if seenFn[g] {
				continue
			}
			seenFn[g] = true
			names = append(names, FuncKey(g))
			n := len(g.Params)
			if n < 2 {
				r.Undecided("Y-enum-close", construct, site, "callee "+FuncKey(g)+" has no (dst, intr) parameters")
				continue
			}
			in := insts[g]
			if in == nil {
				in = &c19EnumInst{fn: g, dst: g.Params[n-2], intr: g.Params[n-1]}
				insts[g] = in
				order = append(order, g)
			}
			in.consumers = append(in.consumers, FuncKey(l.top))
		}
		sort.Strings(names)
		r.OKTable("Y-enum-close", construct, site, fmt.Sprintf("%d enumerator(s) can be called here: %s", len(names), strings.Join(names, ", ")))

		// consumer side
		early, decided := c19ConsumerRule(p, r, l)
		if early || !decided {
			for g := range seenFn {
				if in := insts[g]; in != nil {
					in.earlyExit = append(in.earlyExit, FuncKey(l.top))
				}
			}
		}
	}

	sort.Slice(order, func(i, j int) bool { return FuncKey(order[i]) < FuncKey(order[j]) })
	for _, g := range order {
		in := insts[g]
		// Y-enum-close
		k := newC19Closer()
		construct := FuncKey(g) + "#closes-output"
		cons := strings.Join(dedupe(in.consumers), ", ")
		if k.mustClose(g, in.dst, 0) {
			r.OK("Y-enum-close", construct, p.Pos(g.Pos()), "the output channel is closed (close, defer, or a callee/literal that closes it) on every path to every return; consumer(s) receiving until it is closed: "+cons)
		} else {
			d := "the enumerator can return without closing its output channel (" + k.leak[[2]any{g, ssa.Value(in.dst)}] + "): the consumer (" + cons + ") receives from that channel until it is closed and would block for ever — the copy loop stops delivering"
			if len(k.notes) > 0 {
				r.Undecided("Y-enum-close", construct, p.Pos(g.Pos()), d+"; not followed: "+strings.Join(k.notes, "; "))
			} else {
				r.Violation("Y-enum-close", construct, p.Pos(g.Pos()), d)
			}
		}
		// Y-stop, enumerator side
		construct = FuncKey(g) + "#send-interruptible"
		if len(in.earlyExit) == 0 {
			r.OKTable("Y-stop", construct, p.Pos(g.Pos()), "not required: no consumer of this enumerator ("+cons+") leaves its receive loop before the channel is closed")
			continue
		}
		n, bad, und := c19SendsInterruptible(p, g, in.dst, in.intr, 0)
		switch {
		case len(bad) > 0:
			r.Violation("Y-stop", construct, p.Pos(g.Pos()), strings.Join(bad, "; ")+": once the consumer ("+strings.Join(dedupe(in.earlyExit), ", ")+") has left its loop early nothing receives any more, the enumerator blocks in that send for ever and the consumer waits for it for ever")
		case len(und) > 0:
			r.Undecided("Y-stop", construct, p.Pos(g.Pos()), strings.Join(und, "; "))
		case n == 0:
			r.Undecided("Y-stop", construct, p.Pos(g.Pos()), "no send on the output channel found: how elements are delivered cannot be followed")
		default:
			r.OK("Y-stop", construct, p.Pos(g.Pos()), fmt.Sprintf("%d send(s) on the output channel, each a case of a select that also receives from the interrupt channel (or cannot block)", n))
		}
	}
}

// c19SendsInterruptible: every send on dst in fn (literals and callees that are
// handed dst included) is a case of a select that also receives from intr, or
// of a select with a default case.
func c19SendsInterruptible(p *Program, fn *ssa.Function, dst, intr ssa.Value, depth int) (n int, bad, und []string) {
	for _, u := range c19ChanUses(fn, dst) {
		at := p.Pos(u.in.Pos())
		switch u.kind {
		case "send":
			n++
			bad = append(bad, "send on the output channel outside a select at "+at+" (in "+FuncKey(u.in.Parent())+")")
		case "select-send":
			n++
			sel := u.in.(*ssa.Select)
			if !sel.Blocking {
				continue
			}
			ok := false
			for _, st := range sel.States {
				if st.Dir == types.RecvOnly && intr != nil && originValue(st.Chan) == intr {
					ok = true
				}
			}
			if !ok {
				bad = append(bad, "the select that sends on the output channel at "+at+" (in "+FuncKey(u.in.Parent())+") has no case receiving from the interrupt channel")
			}
		case "arg":
			c := CallSite{u.in.Parent(), u.in.(ssa.CallInstruction)}
			g := c.Callee()
			if g == nil || g.Blocks == nil || depth >= 3 || u.arg >= len(g.Params) {
				und = append(und, "the output channel is handed to "+c.CalleeKey()+" at "+at+", which is not followed")
				continue
			}
			var gi ssa.Value
			for i, a := range c.Args() {
				if intr != nil && c19IsChan(a.Type()) && originValue(a) == intr && i < len(g.Params) {
					gi = g.Params[i]
				}
			}
			m, b2, u2 := c19SendsInterruptible(p, g, g.Params[u.arg], gi, depth+1)
			n += m
			bad = append(bad, b2...)
			und = append(und, u2...)
		case "escape":
			und = append(und, "the output channel is stored or converted at "+at+"; its senders cannot be enumerated")
		}
	}
	return
}

// c19ConsumerRule (Y-stop, consumer side). For the launch `res <- enum(ch, intr)`:
// on every path that leaves the loop receiving from ch on another edge than
// "ch closed" and then reaches a receive of the enumerator's result, intr has
// been closed before that receive.
func c19ConsumerRule(p *Program, r *Reporter, l *c19Launch) (earlyExit, decided bool) {
	top := l.top
	construct := FuncKey(top) + "#wait-for-enumerator"
	site := p.Pos(l.call.Pos())
	und := func(s string) (bool, bool) {
		r.Undecided("Y-stop", construct, site, s)
		return false, false
	}
	E := originValue(l.dst)
	I := originValue(l.intr)
	if mk, ok := E.(*ssa.MakeChan); !ok || mk.Parent() != top {
		return und("the channel handed to the enumerator is not made in the consuming function; the consumer cannot be identified")
	}
	switch I.(type) {
	case *ssa.MakeChan, *ssa.Parameter:
	default:
		return und("the interrupt channel handed to the enumerator is not a single channel value (made here, or a parameter)")
	}
	// how the consumer receives
	var headers []*ssa.UnOp
	for _, u := range c19ChanUses(top, E) {
		switch u.kind {
		case "arg":
			if u.in == ssa.Instruction(l.call.Instr) {
				continue
			}
			return und("the element channel is also handed to " + (CallSite{u.in.Parent(), u.in.(ssa.CallInstruction)}).CalleeKey() + "; its receivers cannot be enumerated")
		case "recv-ok":
			if u.in.Parent() != top {
				return und("the element channel is received from inside a function literal; loop shape not followed")
			}
			headers = append(headers, u.in.(*ssa.UnOp))
		default:
			return und("the consumer uses the element channel by " + u.kind + " at " + p.Pos(u.in.Pos()) + "; shape not recognised (expected: range / v, ok := <-ch)")
		}
	}
	if len(headers) == 0 {
		return und("the consumer never receives from the element channel with a closed-test (range); shape not recognised")
	}
	// how the consumer learns the enumerator's result
	val := l.call.Value()
	var X ssa.Value
	if val != nil {
		for _, u := range nonDebug(*val.Referrers()) {
			snd, ok := u.(*ssa.Send)
			if !ok || snd.X != ssa.Value(val) {
				return und("the enumerator's result is used other than by sending it on a channel; how the consumer waits for it is not recognised")
			}
			x := originValue(snd.Chan)
			if X != nil && X != x {
				return und("the enumerator's result is sent on more than one channel")
			}
			X = x
		}
	}
	if X == nil {
		r.OKTable("Y-stop", construct, site, "the enumerator's result is not awaited by the consumer: nothing to order")
		return false, true
	}
	waits := map[ssa.Instruction]bool{}
	for _, u := range c19ChanUses(top, X) {
		switch u.kind {
		case "recv", "recv-ok", "select-recv":
			if u.in.Parent() != top {
				return und("the enumerator's result is received inside a function literal; not followed")
			}
			waits[u.in] = true
		case "send", "select-send":
			// the launch's own send (and other producers) need no ordering
		case "close":
		default:
			return und("the result channel is used by " + u.kind + " at " + p.Pos(u.in.Pos()) + "; its receivers cannot be enumerated")
		}
	}
	if len(waits) == 0 {
		r.OKTable("Y-stop", construct, site, "the enumerator's result is never received by the consumer: nothing to order")
		return false, true
	}
	isHeader := map[ssa.Instruction]bool{}
	var bodies []*ssa.BasicBlock
	for _, h := range headers {
		isHeader[h] = true
		ifi, ok := c19LastInstr(h.Block()).(*ssa.If)
		if !ok {
			return und("the closed-test of the receive from the element channel is not the loop condition; shape not recognised")
		}
		ex, ok := ifi.Cond.(*ssa.Extract)
		if !ok || ex.Tuple != ssa.Value(h) || ex.Index != 1 {
			return und("the closed-test of the receive from the element channel is not the loop condition; shape not recognised")
		}
		bodies = append(bodies, h.Block().Succs[0])
	}
	k := newC19Closer()
	explore := func(withCloses bool) (leak string) {
		seen := map[*ssa.BasicBlock]bool{}
		var walk func(b *ssa.BasicBlock, via []*ssa.BasicBlock)
		walk = func(b *ssa.BasicBlock, via []*ssa.BasicBlock) {
			if leak != "" || seen[b] {
				return
			}
			seen[b] = true
			via = append(via, b)
			for _, in := range b.Instrs {
				if isHeader[in] {
					return // the loop condition is evaluated again
				}
				if waits[in] {
					leak = "wait at " + p.Pos(in.Pos()) + " reached from the loop body via blocks " + blockNames(via)
					return
				}
				if withCloses && k.closesAt(in, I, false, 0) {
					return
				}
				switch in.(type) {
				case *ssa.Return, *ssa.Panic:
					return
				}
			}
			for _, s := range b.Succs {
				walk(s, via)
			}
		}
		for _, b := range bodies {
			walk(b, nil)
		}
		return leak
	}
	if explore(false) == "" {
		r.OK("Y-stop", construct, site, "the loop receiving from the element channel is left only when that channel is closed (the enumerator has finished): no interrupt is needed before waiting for its result")
		return false, true
	}
	leak := explore(true)
	if leak == "" {
		r.OK("Y-stop", construct, site, "every path that leaves the receive loop before the element channel is closed closes the interrupt channel (directly or through a local function / sync.Once) before the consumer waits for the enumerator's result")
		return true, true
	}
	d := "the consumer leaves its receive loop while the enumerator may still be sending and then waits for the enumerator's result without having closed the interrupt channel (a deferred close runs only after that wait): " + leak + " — enumerator and consumer wait for each other for ever, the copy loop stops"
	if len(k.notes) > 0 {
		r.Undecided("Y-stop", construct, site, d+"; not followed: "+strings.Join(k.notes, "; "))
	} else {
		r.Violation("Y-stop", construct, site, d)
	}
	return true, true
}
