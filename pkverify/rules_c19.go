package main

import (
	"fmt"
	"go/token"
	"go/types"
	"sort"
	"strings"

	"golang.org/x/tools/go/ssa"
)

func init() {
	register(&PropSpec{
		ID:    "C19",
		Title: "Asynchronous sync delivers every blob eventually and its queue is durable",
		Explanation: "Decided (structural necessary conditions, all resolved through types and roles, never through names of internal helpers). Every rule that looks for a site 'in function F' looks in F's EFFECTIVE BODY: F plus, transitively (depth 5), the same-package functions, methods and function literals F calls statically, with the helper's parameters standing for the caller's arguments and its results for what the helper returns; a call of helper H counts as 'P succeeded' behind the call on H's err==nil edge (or where H's own error is what is returned) when P succeeded before every return of H that may report success; struct fields never written after the initialisation of a freshly allocated struct (copyStatus.sb) are read through to the initialising value. " +
			"Y-dequeue — every use of the SyncHandler's persistent queue is classified (also when the queue value is handed to a helper); a row is removed (queue.Delete) and the in-memory needCopy entry dropped only where an error parameter is known nil (in the function itself, or — for a helper without error parameter — at every one of its callers, 4 levels); a function that hands its own error parameter (or what its own *error parameter points to) on to such a completion function is a completion function itself; the outermost completion is invoked only from a literal deferred by the copy function with the copy function's own error result, or deferred itself with the address of that result, or is that deferred literal (guard: the result, read when the literal runs, is nil); every nil return of the copy function is dominated, in its effective body, by: a successful Fetch of the job's ref from sh.from, a successful full read whose reader passes through the hash that HashMatches later approves, HashMatches==true for the job's ref, a successful ReceiveBlob on sh.to of that same ref fed from the very buffer that was read, and a size acknowledgement of the destination that is equal (through the equality facts dominating the success point, those established inside successfully returned helpers included) to the number of bytes sent. " +
			"Y-enqueue — a builder is, by role, a function in which a SyncHandler's queue field is set; a builder that is an unexported helper handing the handler to callers that are all known passes its open obligations on to them; every builder registers, on every path that hands the handler out (directly or in a helper all of whose paths do it), a method of the handler that reaches queue.Set through static calls as receive hook on the hub of the handler's own source storage; every may-be-nil return of that hook is, in its effective body, behind a successful queue.Set (err==nil edge or Set's own error returned), or on the duplicate edge of an in-memory add that returns 'false' only when the ref is already present; callers of the hook method do not discard its error; every BlobHub implementation runs the registered hooks (in NotifyBlobReceived or in a helper whose error it propagates) and returns nil only after the join of the hook group reported nil; the function that calls NotifyBlobReceived returns its error and notifies the hub of the store that received the blob (a helper that is handed the store and the SizedRef is checked at its callers). " +
			"Y-reload — the queue enumerator is, by role, the function enclosing queue.Find, the reload function the one that makes the channel the enumerator sends on; every builder passes the reload of that handler (directly or through a helper at whose every successful return the reload has succeeded) on every path that hands the handler out, and hands none out when it failed (NewSyncHandler is excepted while it has no caller in the module); in the reload function every element received from the enumerator's channel is handed to the in-memory add before the next one is received (the receive loop may sit in a helper) and every return yields the enumerator's error; the enumerator scans the whole queue (Find(\"\",\"\")), skips a row only when parsing it failed (the parser may be a helper: on the paths a parsing row takes it returns true / nil), and returns the iterator's Close error. " +
			"Y-start — every path that hands out a queue-backed handler has started its copy loop: go syncLoop, or go of a literal/function/method all of whose paths reach syncLoop on that handler, possibly inside a helper that is handed the handler. " +
			"Y-codec — the queue row written under the registered hook (key: Ref.String of the job, value: decimal size of the job, followed through helper parameters) is what the reload parser reads (blob.Parse of the iterator's key, base-10 ParseUint of at least 32 bits of its value, in the enumerator or a helper handed key and value) and what the dequeue deletes (same key function, followed through the parameters of single-caller helpers). " +
			"Y-merge — ListMissingDestinationBlobs closes destMissing on every exit; a source element is taken without being sent to destMissing only under the fact that it equals the destination's head; everything sent comes from the source. " +
			"Y-enum-close — the enumerator type is found by role (the func(chan<- blob.SizedRef, <-chan T) error parameter type of a pkg/server function); the enumerator values are computed, not listed: every call of a value of that type in pkg/server, with the functions it can denote (static callee, method value, closure, the literal returned by a helper, the arguments of every static caller when the value is a parameter); each such enumerator closes its output channel on every path to every return (close, defer, deferred literal, or a callee/literal that is itself checked), because its consumer receives from that channel until it is closed. " +
			"Y-stop — the consumer of a launch is the function that makes the element channel (followed through the parameters of a single-caller launcher method); in every consumer, on every path that leaves the loop receiving from the element channel on another edge than 'channel closed' and then reaches a receive of the enumerator's result, the interrupt channel handed to the enumerator has been closed before that receive (a plain close, a local function or sync.Once/sync.OnceFunc wrapper all of whose functions close it; a deferred close in the consumer's own frame does not count); a helper that only ranges over the element channel until it is closed counts as such a loop; every enumerator of a consumer that can leave its loop early sends on its output channel only as a case of a select that also receives from its interrupt parameter (or that has a default case), helpers handed both channels included. " +
			"NOT decided: eventual delivery in general (wake-ups, retry timing, termination of the enumerated stores' own EnumerateBlobs, that an interrupted enumerator returns promptly, that enumeratePendingBlobs' batch bound stays below the capacity of the work channel), bit-identity of what a destination stores, behaviour of the queue KV itself across a crash, interleavings of enqueue with a concurrent copy, that every store receives blobs only through blobserver.Receive (C02), any concrete fault schedule or restart. Not followed (reported Undecided, never silently passed): helpers called through interfaces or function values, a consumer whose receive loop is split over several functions with early exits, the queue enumerator or the reload function inlined into their callers (the enumerator protocol is defined on functions of the enumerator type).",
		RuleDocs: map[string]string{
			"Y-dequeue":    "enumerates every use of field SyncHandler.queue (followed into helpers), every delete on SyncHandler.needCopy, every caller of each completion function (forwarding wrappers, *error forms and deferred literals resolved) and every may-be-nil error return of the copy function; guards by dominance (err==nil, carried across helper calls), value dependence across call frames (fetch -> tee(hash) -> buffer -> destination) and equality facts (acknowledged size == sent size)",
			"Y-enqueue":    "enumerates builders of queue-backed handlers by role (hook registration on all paths, right hub, right method; helpers and wrapped/inlined constructors followed), the returns of the registered hook over its effective body, its callers, hook invocations in BlobHub implementations (also in a helper) and callers of NotifyBlobReceived (helper callers included)",
			"Y-reload":     "enumerates builders of queue-backed handlers (reload on all handler-returning paths, failure hands out nothing), the reload function found by role (every received element added, error flow) and the queue enumerator (full scan, rows skipped only on parse failure — parser helper followed —, Close error returned)",
			"Y-start":      "every handler-returning path of a builder starts the copy loop (go syncLoop, or go of a literal/function/method all of whose paths reach syncLoop, possibly inside a helper)",
			"Y-codec":      "writer/reader/deleter agreement on the queue row encoding, each followed through helper parameters",
			"Y-merge":      "ListMissingDestinationBlobs: close on every exit; source takes are sent unless matched; sends come from the source",
			"Y-enum-close": "enumerates every call of an enumerator-typed value (type found by role) in pkg/server and the functions that can flow into it; each closes its output channel on all paths to all returns (the consumer receives until the channel is closed)",
			"Y-stop":       "per consumer (the maker of the element channel): every early exit of the receive loop that reaches the wait for the enumerator's result has closed the interrupt channel first (closures, sync.Once and sync.OnceFunc resolved; the consumer's own defers do not count); per enumerator of such a consumer: every send on the output channel is a select case next to a receive from the interrupt parameter",
		},
		Run:       runC19,
		DesignRef: "DESIGN.md §4 C19",
		Technique: "static analysis over go/ssa of the current tree: dominance on err==nil edges and CFG all-paths exploration with failure assumption, both carried across static same-package calls (effective bodies: call frames with parameter/argument and result/return mapping, success summaries of helpers = what precedes every may-be-nil return); value-dependence slices across frames (fetch/hash/buffer/destination); frozen-field resolution (fields only written when a fresh struct is initialised); equality-fact closure; who-may-use enumeration of a struct field; who-may-call closure (a helper is accepted when all its static callers are); writer/reader table agreement; function-value resolution (method values, returned literals, caller arguments) and channel-protocol path exploration (close on all exits; interrupt closed before the wait on every early loop exit; sends paired with the interrupt in one select)",
		LevelText: "Decides structural necessary conditions only: a queue row is deleted only behind a verified, acknowledged copy; received blobs are enqueued persistently with errors propagated to the uploader; the queue is reloaded completely (and the copy loop started) before a handler is handed out; the source-minus-destination merge never drops an unmatched source element; two structural liveness conditions of the copy loop hold: every enumerator closes the channel its consumer ranges over, and a consumer that stops consuming early interrupts the (interruptible) enumerator before it waits for it. The conditions are stated on values, dominance and call structure, so extracting helpers, splitting functions, turning literals into methods, inlining single-caller helpers, defer<->explicit release and if<->switch reshaping do not change the verdict. Does not decide liveness in general, timing, crash behaviour of the KV, or any dynamic schedule.",
	})
}

// ---------------------------------------------------------------------------
// anchors

type c19Anchors struct {
	sh        *types.Named // pkg/server.SyncHandler
	qFind     []CallSite   // queue.Find sites
	qSet      []CallSite   // queue.Set sites
	qDelete   []CallSite   // queue.Delete sites
	ctors     []*ssa.Function
	memAdd    *ssa.Function // stores into needCopy (addBlobToCopy)
	syncLoop  *ssa.Function
	sizedRef  *types.Named
	recvIface *types.Interface
	fetchIf   *types.Interface
	x         *c19X           // effective-body machinery (frames, cross-frame values, events)
	enqs      []*ssa.Function // the enqueue functions registered as receive hooks (by role)
	queueSeen map[[2]any]bool // (helper, parameter index) pairs through which the queue value was already followed
}

func runC19(p *Program, r *Reporter) {
	a := &c19Anchors{
		sh:        p.NamedType("pkg/server", "SyncHandler"),
		syncLoop:  p.Func("pkg/server", "SyncHandler", "syncLoop"),
		sizedRef:  p.NamedType("pkg/blob", "SizedRef"),
		recvIface: p.Iface("pkg/blobserver", "BlobReceiver"),
		fetchIf:   p.Iface("pkg/blob", "Fetcher"),
		x:         newC19X(p),
	}
	for _, f := range []string{"queue", "from", "to", "needCopy"} {
		if c19FieldIndex(a.sh, f) < 0 {
			brokenf("anchor unresolved: field pkg/server.SyncHandler.%s", f)
		}
	}
	r.Analysed("functions", len(p.FuncsIn("pkg/server"))+len(p.FuncsIn("pkg/blobserver")))
	c19QueueUses(p, r, a)
	c19YDequeue(p, r, a)
	c19YEnqueue(p, r, a)
	c19YReload(p, r, a)
	c19YCodec(p, r, a)
	c19YMerge(p, r)
	c19YEnumProtocol(p, r)
	// floors are lower bounds against vacuous passes; they sit a little below today's
	// counts (11/11/7/2/3/6/5/5) because behaviour-preserving refactorings may merge
	// two obligations into one (a shared helper) or drop a table-only one
	r.Floor("Y-dequeue", 10)
	r.Floor("Y-enqueue", 9)
	r.Floor("Y-reload", 6)
	r.Floor("Y-start", 1)
	r.Floor("Y-codec", 3)
	r.Floor("Y-merge", 5)
	r.Floor("Y-enum-close", 4)
	r.Floor("Y-stop", 4)
}

// ---------------------------------------------------------------------------
// small helpers (all prefixed; candidates for helpers.go)

func c19FieldIndex(n *types.Named, name string) int {
	st, ok := n.Underlying().(*types.Struct)
	if !ok {
		return -1
	}
	for i := 0; i < st.NumFields(); i++ {
		if st.Field(i).Name() == name {
			return i
		}
	}
	return -1
}

// c19IsFieldAddr reports whether v is &X.field for a struct of named type n.
func c19IsFieldAddr(v ssa.Value, n *types.Named, field string) (*ssa.FieldAddr, bool) {
	fa, ok := v.(*ssa.FieldAddr)
	if !ok {
		return nil, false
	}
	bn := NamedOf(fa.X.Type())
	if bn == nil || bn.Obj() != n.Obj() {
		return nil, false
	}
	if fieldName(fa.X.Type(), fa.Field) != field {
		return nil, false
	}
	return fa, true
}

// c19FieldOf reports whether v is (a load of) field `field` of a value of named
// struct type n, and returns the struct (pointer) value.
func c19FieldOf(v ssa.Value, n *types.Named, field string) (base ssa.Value, ok bool) {
	v = originValue(v)
	switch x := v.(type) {
	case *ssa.UnOp:
		if x.Op != token.MUL {
			return nil, false
		}
		if fa, ok := c19IsFieldAddr(x.X, n, field); ok {
			return fa.X, true
		}
	case *ssa.Field:
		bn := NamedOf(x.X.Type())
		if bn != nil && bn.Obj() == n.Obj() && fieldName(x.X.Type(), x.Field) == field {
			return x.X, true
		}
	}
	return nil, false
}

func c19LastInstr(b *ssa.BasicBlock) ssa.Instruction { return b.Instrs[len(b.Instrs)-1] }

// c19Flows is DependsOn extended through aggregates built in place: values
// stored into an Alloc (or into its fields/elements: composite literals,
// varargs arrays) flow into the Alloc.
func c19Flows(v ssa.Value, target func(ssa.Value) bool) bool {
	seen := map[ssa.Value]bool{}
	var walk func(v ssa.Value, d int) bool
	walk = func(v ssa.Value, d int) bool {
		if v == nil || seen[v] || d > 80 {
			return false
		}
		seen[v] = true
		if target(v) {
			return true
		}
		switch x := v.(type) {
		case *ssa.UnOp:
			if x.Op == token.MUL {
				if cell, ok := varOf(x.X); ok {
					if walk(cell, d+1) {
						return true
					}
				}
			}
		case *ssa.FreeVar:
			if b := bindingOf(x); b != nil && walk(b, d+1) {
				return true
			}
		case *ssa.Alloc:
			if refs := x.Referrers(); refs != nil {
				for _, u := range *refs {
					switch u := u.(type) {
					case *ssa.Store:
						if u.Addr == ssa.Value(x) && walk(u.Val, d+1) {
							return true
						}
					case *ssa.FieldAddr, *ssa.IndexAddr:
						if rr := u.(ssa.Value).Referrers(); rr != nil {
							for _, s := range *rr {
								if st, ok := s.(*ssa.Store); ok && st.Addr == u.(ssa.Value) && walk(st.Val, d+1) {
									return true
								}
							}
						}
					}
				}
			}
			for _, st := range storesTo(x) {
				if walk(st.Val, d+1) {
					return true
				}
			}
		}
		if in, ok := v.(ssa.Instruction); ok {
			for _, op := range in.Operands(nil) {
				if *op != nil && walk(*op, d+1) {
					return true
				}
			}
		}
		return false
	}
	return walk(v, 0)
}

func c19FlowsFrom(v, src ssa.Value) bool {
	so := originValue(src)
	return c19Flows(v, func(x ssa.Value) bool { return x == src || x == so || originValue(x) == so })
}

// c19AssumeFailed returns an Assume function for PathQuery that decides
// branches on ev's nil-ness as if ev were non-nil.
func c19AssumeFailed(ev ssa.Value) func(ssa.Value) (bool, bool) {
	return func(cond ssa.Value) (bool, bool) {
		if k, isNil := condSaysNil(cond, true, ev); k {
			return true, !isNil
		}
		return false, false
	}
}

// c19ParamOfType returns the unique parameter of fn whose type is named n.
func c19ParamOfType(fn *ssa.Function, n *types.Named) *ssa.Parameter {
	var out *ssa.Parameter
	for _, prm := range fn.Params {
		if pn, ok := prm.Type().(*types.Named); ok && pn.Obj() == n.Obj() {
			if out != nil {
				return nil
			}
			out = prm
		}
	}
	return out
}

// c19StableParam reports whether the parameter is never reassigned (whole or
// by field) in fn or its literals.
func c19StableParam(fn *ssa.Function, prm *ssa.Parameter) bool {
	refs := prm.Referrers()
	if refs == nil {
		return true
	}
	for _, u := range *refs {
		st, ok := u.(*ssa.Store)
		if !ok || st.Val != ssa.Value(prm) {
			continue
		}
		al, ok := st.Addr.(*ssa.Alloc)
		if !ok {
			return false
		}
		if len(storesTo(al)) != 1 {
			return false
		}
		if ar := al.Referrers(); ar != nil {
			for _, au := range *ar {
				switch au := au.(type) {
				case *ssa.FieldAddr:
					if fr := au.Referrers(); fr != nil {
						for _, fu := range *fr {
							if s, ok := fu.(*ssa.Store); ok && s.Addr == ssa.Value(au) {
								return false
							}
						}
					}
				}
			}
		}
	}
	return true
}

func c19InServer(fn *ssa.Function) bool {
	return fn != nil && fn.Pkg != nil && RelPkg(fn.Pkg.Pkg) == "pkg/server"
}

// ---------------------------------------------------------------------------
// effective bodies
//
// A rule that looks for a site "in function F" looks in F's effective body: F
// plus, transitively, the same-package functions, methods and function literals
// that F calls statically (helper extraction, function splitting and
// closure->method refactorings move code there without changing behaviour). A
// c19Frame is one such call context; values are followed across frames
// (parameter -> argument at the call, result of the call -> the values the
// helper returns), and ordering facts are carried across the call: a call of
// helper H counts as "performed P successfully" at a point behind the call on
// the edge where H's error result is nil (or when H's own error is what is
// returned there) if P succeeded before every return of H that may report
// success.

const c19MaxDepth = 5

type c19Frame struct {
	callee *ssa.Function
	call   CallSite // the call in the frame above (zero for a root frame)
	up     *c19Frame
	depth  int
	id     int
}

type c19FrameKey struct {
	up *c19Frame
	in ssa.Instruction
	fn *ssa.Function
}

type c19InsideKey struct {
	fr      *c19Frame
	success bool
}

type c19X struct {
	p      *Program
	frames map[c19FrameKey]*c19Frame
	inside map[c19InsideKey]*c19Held
	// fieldW: struct fields that are written, or whose address escapes, anywhere
	// other than as the initialisation of a freshly allocated struct
	fieldW map[*types.Var]bool
}

func newC19X(p *Program) *c19X {
	return &c19X{p: p, frames: map[c19FrameKey]*c19Frame{}, inside: map[c19InsideKey]*c19Held{}}
}

func (x *c19X) root(fn *ssa.Function) *c19Frame {
	k := c19FrameKey{fn: fn}
	if f := x.frames[k]; f != nil {
		return f
	}
	f := &c19Frame{callee: fn, id: len(x.frames)}
	x.frames[k] = f
	return f
}

// helper returns the callee of c when c is a plain (not go/defer) static call
// of a function, method or function literal of the frame's own package whose
// body is available.
func (x *c19X) helper(c CallSite, fr *c19Frame) *ssa.Function {
	if c.Value() == nil {
		return nil
	}
	if _, isBuiltin := c.Common().Value.(*ssa.Builtin); isBuiltin {
		return nil
	}
	g := c.Callee()
	if g == nil || g.Blocks == nil || g.Synthetic != "" || g.Pkg == nil || fr == nil || g.Pkg != fr.callee.Pkg {
		return nil
	}
	return g
}

// push enters helper g through call c (nil when the chain gets too deep or recursive).
func (x *c19X) push(fr *c19Frame, c CallSite, g *ssa.Function) *c19Frame {
	if fr == nil || g == nil || fr.depth >= c19MaxDepth {
		return nil
	}
	for f := fr; f != nil; f = f.up {
		if f.callee == g {
			return nil
		}
	}
	k := c19FrameKey{up: fr, in: c.Instr}
	if f := x.frames[k]; f != nil {
		return f
	}
	f := &c19Frame{callee: g, call: c, up: fr, depth: fr.depth + 1, id: len(x.frames)}
	x.frames[k] = f
	return f
}

// enter is helper+push.
func (x *c19X) enter(c CallSite, fr *c19Frame) *c19Frame {
	if g := x.helper(c, fr); g != nil {
		return x.push(fr, c, g)
	}
	return nil
}

// frameFor returns the frame value v lives in: fr itself, or the enclosing
// frame whose function declares v (a literal called as a helper reads the
// variables of the function that declares it).
func (x *c19X) frameFor(v ssa.Value, fr *c19Frame) *c19Frame {
	fn := c19FuncOfValue(v)
	if fv, ok := v.(*ssa.FreeVar); ok {
		fn = fv.Parent()
	}
	if fn == nil || fr == nil || fn == fr.callee {
		return fr
	}
	for f := fr.up; f != nil; f = f.up {
		if f.callee == fn {
			return f
		}
	}
	return fr
}

func c19ArgOf(fr *c19Frame, prm *ssa.Parameter) ssa.Value {
	if fr == nil || fr.up == nil || prm.Parent() != fr.callee {
		return nil
	}
	args := fr.call.Args()
	for i, q := range fr.callee.Params {
		if q == prm && i < len(args) {
			return args[i]
		}
	}
	return nil
}

// origin is originValue across frames: a helper's parameter stands for the
// caller's argument, the result of a helper call for the value the helper
// returns (when all its returns yield the same one).
func (x *c19X) origin(v ssa.Value, fr *c19Frame) (ssa.Value, *c19Frame) {
	for i := 0; i < 48 && v != nil; i++ {
		v = originValue(v)
		fr = x.frameFor(v, fr)
		switch t := v.(type) {
		case *ssa.Parameter:
			if arg := c19ArgOf(fr, t); arg != nil {
				v, fr = arg, fr.up
				continue
			}
			return v, fr
		case *ssa.UnOp:
			// a struct variable whose fields are read through its address (originValue
			// gives up on those): assigned once as a whole, never written field by field
			if t.Op == token.MUL {
				if cell, ok := varOf(t.X); ok {
					if al, ok := cell.(*ssa.Alloc); ok {
						if sts := storesTo(al); len(sts) == 1 && c19AssignedOnce(al, 0) {
							v = sts[0].Val
							continue
						}
					}
				}
			}
			return v, fr
		case *ssa.Call:
			if t.Call.Signature().Results().Len() == 1 {
				if rv, rf, ok := x.resultOrigin(t, 0, fr); ok {
					v, fr = rv, rf
					continue
				}
			}
			return v, fr
		case *ssa.Extract:
			if call, ok := t.Tuple.(*ssa.Call); ok {
				if rv, rf, ok := x.resultOrigin(call, t.Index, fr); ok {
					v, fr = rv, rf
					continue
				}
			}
			return v, fr
		default:
			return v, fr
		}
	}
	return v, fr
}

func (x *c19X) resultOrigin(call *ssa.Call, idx int, fr *c19Frame) (ssa.Value, *c19Frame, bool) {
	nf := x.enter(CallSite{call.Parent(), call}, fr)
	if nf == nil {
		return nil, nil, false
	}
	var rv ssa.Value
	var rf *c19Frame
	for _, ri := range Returns(nf.callee) {
		if idx >= len(ri.Results) {
			return nil, nil, false
		}
		v, f := x.origin(ri.Results[idx], nf)
		if rv != nil && (rv != v || rf != f) {
			return nil, nil, false
		}
		rv, rf = v, f
	}
	return rv, rf, rv != nil
}

func (x *c19X) same(v ssa.Value, fr *c19Frame, w ssa.Value, wf *c19Frame) bool {
	if v == nil || w == nil {
		return false
	}
	a, af := x.origin(v, fr)
	b, bf := x.origin(w, wf)
	return a == b && af == bf
}

func c19Deref(t types.Type) types.Type {
	if pt, ok := t.Underlying().(*types.Pointer); ok {
		return pt.Elem()
	}
	return t
}

func c19FieldVar(fa *ssa.FieldAddr) *types.Var {
	st, ok := c19Deref(fa.X.Type()).Underlying().(*types.Struct)
	if !ok || fa.Field >= st.NumFields() {
		return nil
	}
	return st.Field(fa.Field)
}

// c19AddrWritten: something is stored through addr (or through the address of a
// part of it), or addr is used other than by loads and stores.
func c19AddrWritten(addr ssa.Value, depth int) bool {
	refs := addr.Referrers()
	if refs == nil {
		return false
	}
	for _, u := range *refs {
		switch u := u.(type) {
		case *ssa.DebugRef:
		case *ssa.UnOp:
			if u.Op != token.MUL {
				return true
			}
		case *ssa.Store:
			return true // stored through, or the address itself is stored
		case *ssa.FieldAddr:
			if depth > 6 || c19AddrWritten(u, depth+1) {
				return true
			}
		case *ssa.IndexAddr:
			if depth > 6 || c19AddrWritten(u, depth+1) {
				return true
			}
		default:
			return true
		}
	}
	return false
}

// c19AssignedOnce: the struct variable behind addr (an Alloc, or the FreeVar a
// literal sees it through) is written only by whole-variable stores (counted by
// the caller with storesTo): its address is otherwise only loaded, captured, or
// used to read fields.
func c19AssignedOnce(addr ssa.Value, depth int) bool {
	refs := addr.Referrers()
	if refs == nil {
		return true
	}
	for _, u := range *refs {
		switch u := u.(type) {
		case *ssa.DebugRef:
		case *ssa.UnOp:
			if u.Op != token.MUL {
				return false
			}
		case *ssa.Store:
			if u.Addr != addr {
				return false
			}
		case *ssa.FieldAddr:
			if c19AddrWritten(u, 0) {
				return false
			}
		case *ssa.IndexAddr:
			if c19AddrWritten(u, 0) {
				return false
			}
		case *ssa.MakeClosure:
			fn, _ := u.Fn.(*ssa.Function)
			if fn == nil || depth > 6 {
				return false
			}
			for i, b := range u.Bindings {
				if b == addr && i < len(fn.FreeVars) && !c19AssignedOnce(fn.FreeVars[i], depth+1) {
					return false
				}
			}
		default:
			return false
		}
	}
	return true
}

// fieldsWritten computes, once, the struct fields of the module that are not
// frozen after the initialisation of the struct they belong to.
func (x *c19X) fieldsWritten() map[*types.Var]bool {
	if x.fieldW != nil {
		return x.fieldW
	}
	w := map[*types.Var]bool{}
	markAll := func(t types.Type) {
		if st, ok := t.Underlying().(*types.Struct); ok {
			for i := 0; i < st.NumFields(); i++ {
				w[st.Field(i)] = true
			}
		}
	}
	for _, fn := range x.p.AllFuncs {
		for _, b := range fn.Blocks {
			for _, in := range b.Instrs {
				switch t := in.(type) {
				case *ssa.FieldAddr:
					fv := c19FieldVar(t)
					if fv == nil || w[fv] {
						continue
					}
					_, fresh := t.X.(*ssa.Alloc)
					refs := t.Referrers()
					if refs == nil {
						continue
					}
					for _, u := range *refs {
						switch u := u.(type) {
						case *ssa.DebugRef:
						case *ssa.UnOp:
							if u.Op != token.MUL {
								w[fv] = true
							}
						case *ssa.Store:
							if u.Addr != ssa.Value(t) || !fresh {
								w[fv] = true
							}
						case *ssa.FieldAddr:
							if c19AddrWritten(u, 0) {
								w[fv] = true
							}
						case *ssa.IndexAddr:
							if c19AddrWritten(u, 0) {
								w[fv] = true
							}
						default:
							w[fv] = true
						}
					}
				case *ssa.Store:
					// a struct overwritten as a whole through a pointer
					if _, fresh := t.Addr.(*ssa.Alloc); !fresh {
						markAll(t.Val.Type())
					}
				}
			}
		}
	}
	x.fieldW = w
	return w
}

// fieldInit resolves a read of field f of a struct that was allocated by the
// code under analysis: when f is frozen (never written after initialisation
// anywhere in the module) and the allocation site initialises it exactly once,
// the read yields the initialising value.
func (x *c19X) fieldInit(fa *ssa.FieldAddr, fr *c19Frame) (ssa.Value, *c19Frame, bool) {
	base, bf := x.origin(fa.X, fr)
	if cell, ok := varOf(base); ok && cell != base {
		base, bf = cell, x.frameFor(cell, bf) // a literal reads the struct variable of the function that declares it
	}
	al, ok := base.(*ssa.Alloc)
	if !ok {
		return nil, nil, false
	}
	fv := c19FieldVar(fa)
	if fv == nil || x.fieldsWritten()[fv] {
		return nil, nil, false
	}
	if len(storesTo(al)) != 0 {
		return nil, nil, false // the struct variable is (re)assigned as a whole
	}
	var init *ssa.Store
	refs := al.Referrers()
	if refs == nil {
		return nil, nil, false
	}
	for _, u := range *refs {
		f2, ok := u.(*ssa.FieldAddr)
		if !ok || f2.Field != fa.Field {
			continue
		}
		if fr2 := f2.Referrers(); fr2 != nil {
			for _, s := range *fr2 {
				if st, ok := s.(*ssa.Store); ok && st.Addr == ssa.Value(f2) {
					if init != nil {
						return nil, nil, false
					}
					init = st
				}
			}
		}
	}
	if init == nil {
		return nil, nil, false
	}
	return init.Val, bf, true
}

func (x *c19X) unique(v ssa.Value, fr *c19Frame) string {
	if v == nil {
		return "?nil"
	}
	id := -1
	if fr != nil {
		id = fr.id
	}
	return fmt.Sprintf("?%s@%p/%d", v.Name(), v, id)
}

// path renders a value as an access path rooted at a parameter of the ROOT
// function ("sb.Ref"); values that are not such a path render as a string that
// is unique to the (value, frame) pair. Equal paths denote the same run-time
// value as long as the root parameter is never reassigned (c19StableParam) and
// the fields passed are frozen (fieldInit) or not written by the code between
// the two reads (as before for sh.from / sh.to).
func (x *c19X) path(v ssa.Value, fr *c19Frame) string { return x.pathD(v, fr, 0) }

func (x *c19X) pathD(v ssa.Value, fr *c19Frame, d int) string {
	if v == nil || d > 24 {
		return x.unique(v, fr)
	}
	v, fr = x.origin(v, fr)
	switch t := v.(type) {
	case *ssa.Parameter:
		if fr != nil && fr.up == nil && t.Parent() == fr.callee {
			return t.Name()
		}
	case *ssa.Field:
		return x.pathD(t.X, fr, d+1) + "." + fieldName(t.X.Type(), t.Field)
	case *ssa.UnOp:
		if t.Op == token.MUL {
			switch ad := t.X.(type) {
			case *ssa.FieldAddr:
				return x.fieldPlace(ad, fr, d+1)
			case *ssa.Global:
				return "global:" + RelPkg(ad.Pkg.Pkg) + "." + ad.Name()
			}
		}
	case *ssa.Const:
		return "const:" + t.String()
	}
	return x.unique(v, fr)
}

// fieldPlace: the path of the place &X.f denotes.
func (x *c19X) fieldPlace(fa *ssa.FieldAddr, fr *c19Frame, d int) string {
	if rv, rf, ok := x.fieldInit(fa, fr); ok {
		return x.pathD(rv, rf, d+1)
	}
	name := fieldName(fa.X.Type(), fa.Field)
	base, bf := x.origin(fa.X, fr)
	if cell, ok := varOf(base); ok && cell != base {
		base, bf = cell, x.frameFor(cell, bf)
	}
	switch b := base.(type) {
	case *ssa.FieldAddr:
		return x.fieldPlace(b, bf, d+1) + "." + name
	case *ssa.Alloc:
		// a local struct variable: its value when assigned once as a whole and never field by field
		sts := storesTo(b)
		if len(sts) == 1 && c19AssignedOnce(b, 0) {
			return x.pathD(sts[0].Val, x.frameFor(sts[0].Val, bf), d+1) + "." + name
		}
		return x.unique(b, bf) + "." + name
	}
	return x.pathD(base, bf, d+1) + "." + name
}

// fieldOf is c19FieldOf across frames.
func (x *c19X) fieldOf(v ssa.Value, fr *c19Frame, n *types.Named, field string) (ssa.Value, bool) {
	o, _ := x.origin(v, fr)
	return c19FieldOf(o, n, field)
}

// flows is c19Flows across frames: may v (in frame fr) be computed from a value
// satisfying target? A helper's parameter continues at the caller's argument, a
// helper call's result at the values the helper returns.
func (x *c19X) flows(v ssa.Value, fr *c19Frame, target func(ssa.Value, *c19Frame) bool) bool {
	type key struct {
		v  ssa.Value
		fr *c19Frame
	}
	seen := map[key]bool{}
	var walk func(v ssa.Value, fr *c19Frame, d int) bool
	walk = func(v ssa.Value, fr *c19Frame, d int) bool {
		if v == nil || d > 120 {
			return false
		}
		fr = x.frameFor(v, fr)
		k := key{v, fr}
		if seen[k] {
			return false
		}
		seen[k] = true
		if target(v, fr) {
			return true
		}
		results := func(call *ssa.Call, idx int) (bool, bool) {
			nf := x.enter(CallSite{call.Parent(), call}, fr)
			if nf == nil {
				return false, false
			}
			for _, ri := range Returns(nf.callee) {
				for i, res := range ri.Results {
					if (idx < 0 || i == idx) && walk(res, nf, d+1) {
						return true, true
					}
				}
			}
			return true, false
		}
		switch t := v.(type) {
		case *ssa.Parameter:
			if arg := c19ArgOf(fr, t); arg != nil {
				return walk(arg, fr.up, d+1)
			}
			return false
		case *ssa.UnOp:
			if t.Op == token.MUL {
				if cell, ok := varOf(t.X); ok && walk(cell, fr, d+1) {
					return true
				}
			}
		case *ssa.FreeVar:
			if b := bindingOf(t); b != nil && walk(b, fr, d+1) {
				return true
			}
		case *ssa.Alloc:
			if refs := t.Referrers(); refs != nil {
				for _, u := range *refs {
					switch u := u.(type) {
					case *ssa.Store:
						if u.Addr == ssa.Value(t) && walk(u.Val, fr, d+1) {
							return true
						}
					case *ssa.FieldAddr, *ssa.IndexAddr:
						if rr := u.(ssa.Value).Referrers(); rr != nil {
							for _, s := range *rr {
								if st, ok := s.(*ssa.Store); ok && st.Addr == u.(ssa.Value) && walk(st.Val, fr, d+1) {
									return true
								}
							}
						}
					}
				}
			}
			for _, st := range storesTo(t) {
				if walk(st.Val, fr, d+1) {
					return true
				}
			}
		case *ssa.Call:
			if isHelper, found := results(t, -1); isHelper {
				return found
			}
		case *ssa.Extract:
			if call, ok := t.Tuple.(*ssa.Call); ok {
				if isHelper, found := results(call, t.Index); isHelper {
					return found
				}
			}
		}
		if in, ok := v.(ssa.Instruction); ok {
			for _, op := range in.Operands(nil) {
				if *op != nil && walk(*op, fr, d+1) {
					return true
				}
			}
		}
		return false
	}
	return walk(v, fr, 0)
}

func (x *c19X) flowsFrom(v ssa.Value, fr *c19Frame, src ssa.Value, sf *c19Frame) bool {
	so, sof := x.origin(src, sf)
	return x.flows(v, fr, func(y ssa.Value, yf *c19Frame) bool {
		if y == src && yf == sf {
			return true
		}
		o, of := x.origin(y, yf)
		return o == so && of == sof
	})
}

// events and facts that hold at a point

type c19Ev struct {
	c  CallSite
	fr *c19Frame
}

type c19Fact struct {
	cond ssa.Value
	val  bool
	fr   *c19Frame
}

type c19Held struct {
	evs   []c19Ev
	facts []c19Fact
}

// A c19Point is an instruction of a frame; val, when set, is the error value
// whose being nil defines "success" at the point (the operand of the return).
type c19Point struct {
	fr  *c19Frame
	at  ssa.Instruction
	val ssa.Value
}

// done: has call c (of the point's function) completed before the point — when
// success is set: successfully, i.e. the point is on the err==nil edge of c, or
// c's own error is the value whose being nil defines success at the point?
func c19Done(call *ssa.Call, pt c19Point, success bool) bool {
	if !success {
		return Precedes(call, pt.at)
	}
	if ok, _ := SuccessDominates(call, pt.at); ok {
		return true
	}
	if c19SuccessDominatesViaCell(call, pt.at) {
		return true
	}
	if pt.val != nil && Precedes(call, pt.at) {
		if ev, has, discarded := ErrValue(call); has && !discarded && ev != nil && sameOrigin(pt.val, ev) {
			return true
		}
	}
	return false
}

// c19OnlyDeferEscapes: the address of local variable al is used only by loads,
// stores to it, closure captures and as an argument of defer statements (the
// deferred call runs after the function's body: it cannot change what the body
// reads).
func c19OnlyDeferEscapes(al *ssa.Alloc) bool {
	refs := al.Referrers()
	if refs == nil {
		return true
	}
	for _, u := range *refs {
		switch u := u.(type) {
		case *ssa.DebugRef, *ssa.MakeClosure:
		case *ssa.UnOp:
			if u.Op != token.MUL {
				return false
			}
		case *ssa.Store:
			if u.Addr != ssa.Value(al) {
				return false
			}
		case *ssa.Defer:
			if u.Call.Value == ssa.Value(al) {
				return false
			}
		default:
			return false
		}
	}
	return true
}

// c19SuccessDominatesViaCell is SuccessDominates for an error that is kept in a
// variable whose address is handed to a deferred call (`defer cs.finish(&err)`):
// the shared helpers do not resolve loads of such a variable; the store that
// reaches the load of the dominating `err != nil` test is looked up instead.
func c19SuccessDominatesViaCell(call *ssa.Call, at ssa.Instruction) bool {
	if !Precedes(call, at) {
		return false
	}
	ev, has, discarded := ErrValue(call)
	if !has || discarded || ev == nil {
		return false
	}
	for _, f := range FactsAt(at.Block()) {
		cond, val := f.Cond, f.Val
		for {
			if u, ok := cond.(*ssa.UnOp); ok && u.Op == token.NOT {
				cond, val = u.X, !val
				continue
			}
			break
		}
		bo, ok := cond.(*ssa.BinOp)
		if !ok || (bo.Op != token.EQL && bo.Op != token.NEQ) {
			continue
		}
		other := bo.X
		if IsNilConst(bo.X) {
			other = bo.Y
		} else if !IsNilConst(bo.Y) {
			continue
		}
		if (bo.Op == token.EQL) != val {
			continue // the fact says non-nil
		}
		ld, ok := other.(*ssa.UnOp)
		if !ok || ld.Op != token.MUL {
			continue
		}
		al, ok := ld.X.(*ssa.Alloc)
		if !ok || al.Parent() != at.Parent() || !c19OnlyDeferEscapes(al) {
			continue
		}
		inFn := true
		for _, st := range storesTo(al) {
			if st.Parent() != al.Parent() {
				inFn = false
			}
		}
		if !inFn {
			continue
		}
		if st := reachingStore(al, ld); st != nil && sameOrigin(st.Val, ev) {
			return true
		}
	}
	return false
}

// local: the calls of the point's own function completed before the point
// (with what their helpers guarantee), and the branch facts dominating it.
func (x *c19X) local(pt c19Point, success bool) *c19Held {
	h := &c19Held{}
	fn := pt.at.Parent()
	for _, c := range CallsIn(fn, false) {
		call := c.Value()
		if call == nil || !c19Done(call, pt, success) {
			continue
		}
		h.evs = append(h.evs, c19Ev{c, pt.fr})
		if nf := x.enter(c, pt.fr); nf != nil {
			in := x.insideOf(nf, success)
			h.evs = append(h.evs, in.evs...)
			h.facts = append(h.facts, in.facts...)
		}
	}
	for _, f := range FactsAt(pt.at.Block()) {
		h.facts = append(h.facts, c19Fact{f.Cond, f.Val, pt.fr})
	}
	return h
}

// c19ExitPoints: the returns of fn that may report success (all returns when fn
// has no error result or success is not asked for).
func c19ExitPoints(fr *c19Frame, success bool) []c19Point {
	fn := fr.callee
	var pts []c19Point
	if success && ErrResultIndex(fn) >= 0 {
		for _, nr := range MaybeNilErrorReturns(fn) {
			at := ssa.Instruction(nr.Ret)
			if nr.From != nil && nr.From != nr.Ret.Block() {
				at = c19LastInstr(nr.From)
			}
			pts = append(pts, c19Point{fr, at, nr.Val})
		}
		return pts
	}
	for _, ri := range Returns(fn) {
		pts = append(pts, c19Point{fr, ri.Ret, nil})
	}
	return pts
}

// insideOf: what holds at EVERY (successful) return of the helper of frame nf.
func (x *c19X) insideOf(nf *c19Frame, success bool) *c19Held {
	k := c19InsideKey{nf, success}
	if h, ok := x.inside[k]; ok {
		return h
	}
	x.inside[k] = &c19Held{} // recursion guard
	pts := c19ExitPoints(nf, success)
	out := &c19Held{}
	if len(pts) > 0 {
		type ek struct {
			in ssa.Instruction
			fr *c19Frame
		}
		type fk struct {
			cond ssa.Value
			val  bool
			fr   *c19Frame
		}
		evn := map[ek]int{}
		fan := map[fk]int{}
		var first *c19Held
		for i, pt := range pts {
			h := x.local(pt, success)
			if i == 0 {
				first = h
			}
			seenE := map[ek]bool{}
			for _, e := range h.evs {
				k := ek{e.c.Instr, e.fr}
				if !seenE[k] {
					seenE[k] = true
					evn[k]++
				}
			}
			seenF := map[fk]bool{}
			for _, f := range h.facts {
				k := fk{f.cond, f.val, f.fr}
				if !seenF[k] {
					seenF[k] = true
					fan[k]++
				}
			}
		}
		for _, e := range first.evs {
			if evn[ek{e.c.Instr, e.fr}] == len(pts) {
				out.evs = append(out.evs, e)
			}
		}
		for _, f := range first.facts {
			if fan[fk{f.cond, f.val, f.fr}] == len(pts) {
				out.facts = append(out.facts, f)
			}
		}
	}
	x.inside[k] = out
	return out
}

// held: everything known to have completed (successfully) before the point,
// and every branch fact known there, in the effective body of the root: the
// point's own function, the helpers it called, and the callers above it up to
// the call that entered the frame.
func (x *c19X) held(pt c19Point, success bool) *c19Held {
	out := &c19Held{}
	for {
		h := x.local(pt, success)
		out.evs = append(out.evs, h.evs...)
		out.facts = append(out.facts, h.facts...)
		if pt.fr == nil || pt.fr.up == nil {
			return out
		}
		pt = c19Point{pt.fr.up, pt.fr.call.Instr, nil}
	}
}

// effectiveCalls visits every call of the effective body of the frame's
// function, whether or not it dominates anything (for diagnostics and for
// enumerations that are not about order).
func (x *c19X) effectiveCalls(fr *c19Frame, visit func(c CallSite, fr *c19Frame)) {
	for _, c := range CallsIn(fr.callee, false) {
		visit(c, fr)
		if nf := x.enter(c, fr); nf != nil {
			x.effectiveCalls(nf, visit)
		}
	}
}

// ---------------------------------------------------------------------------
// queue field uses (who may touch the persistent queue)

func c19QueueUses(p *Program, r *Reporter, a *c19Anchors) {
	ctorSet := map[*ssa.Function]bool{}
	for _, fn := range p.AllFuncs {
		for _, b := range fn.Blocks {
			for _, in := range b.Instrs {
				fa, ok := in.(*ssa.FieldAddr)
				if !ok {
					continue
				}
				if _, ok := c19IsFieldAddr(fa, a.sh, "queue"); !ok {
					continue
				}
				refs := fa.Referrers()
				if refs == nil {
					continue
				}
				for _, u := range *refs {
					switch u := u.(type) {
					case *ssa.Store:
						if u.Addr == ssa.Value(fa) {
							if !ctorSet[fn] {
								ctorSet[fn] = true
								a.ctors = append(a.ctors, fn)
							}
							continue
						}
						r.Violation("Y-dequeue", FuncKey(fn)+"#queue-escapes", p.Pos(u.Pos()), "the address of SyncHandler.queue is stored; its users can no longer be enumerated")
					case *ssa.UnOp:
						c19ClassifyQueueValue(p, r, a, fn, u)
					case *ssa.DebugRef:
					default:
						r.Violation("Y-dequeue", FuncKey(fn)+"#queue-escapes", p.Pos(in.Pos()), "the address of SyncHandler.queue is used other than by load/store; its users can no longer be enumerated")
					}
				}
			}
			for _, in := range b.Instrs {
				// SyncHandler struct values copied as a whole are not used in the tree; a Field read of queue would be one
				if f, ok := in.(*ssa.Field); ok {
					if bn := NamedOf(f.X.Type()); bn != nil && bn.Obj() == a.sh.Obj() && fieldName(f.X.Type(), f.Field) == "queue" {
						c19ClassifyQueueValue(p, r, a, fn, f)
					}
				}
			}
		}
	}
	sort.Slice(a.ctors, func(i, j int) bool { return FuncKey(a.ctors[i]) < FuncKey(a.ctors[j]) })
}

func c19ClassifyQueueValue(p *Program, r *Reporter, a *c19Anchors, fn *ssa.Function, v ssa.Value) {
	refs := v.Referrers()
	if refs == nil {
		return
	}
	for _, u := range *refs {
		if _, ok := u.(*ssa.DebugRef); ok {
			continue
		}
		ci, ok := u.(ssa.CallInstruction)
		if ok && ci.Common().IsInvoke() && ci.Common().Value == v {
			c := CallSite{fn, ci}
			construct := FuncKey(fn) + "#queue." + c.MethodName()
			switch c.MethodName() {
			case "Find":
				a.qFind = append(a.qFind, c)
				r.OKTable("Y-dequeue", construct, p.Pos(c.Pos()), "read-only use of the queue")
			case "Get":
				r.OKTable("Y-dequeue", construct, p.Pos(c.Pos()), "read-only use of the queue")
			case "Set":
				a.qSet = append(a.qSet, c)
				r.OKTable("Y-dequeue", construct, p.Pos(c.Pos()), "insertion into the queue (checked by Y-enqueue)")
			case "Delete":
				a.qDelete = append(a.qDelete, c)
			default:
				r.Undecided("Y-dequeue", construct, p.Pos(c.Pos()), "queue method "+c.MethodName()+" is not classified (batch mutations, Close and Wipe may remove rows)")
			}
			continue
		}
		// handed to a same-package helper (plain call, go or defer): its uses of the parameter are classified instead
		if ok && !ci.Common().IsInvoke() {
			c := CallSite{fn, ci}
			if g := c.Callee(); g != nil && g.Blocks != nil && g.Synthetic == "" && g.Pkg == fn.Pkg {
				followed := false
				for i, arg := range c.Args() {
					if arg == v && i < len(g.Params) {
						followed = true
						k := [2]any{g, i}
						if a.queueSeen == nil {
							a.queueSeen = map[[2]any]bool{}
						}
						if !a.queueSeen[k] {
							a.queueSeen[k] = true
							c19ClassifyQueueValue(p, r, a, g, g.Params[i])
						}
					}
				}
				if followed {
					continue
				}
			}
		}
		r.Undecided("Y-dequeue", FuncKey(fn)+"#queue-escapes", p.Pos(u.Pos()), "the queue value flows somewhere other than a direct method call (passed, stored, asserted); its users can no longer be enumerated")
	}
}

// ---------------------------------------------------------------------------
// Y-dequeue

// c19Guard finds, for an instruction inside fn, an error parameter of fn known
// nil at the instruction. When fn has none, the guard is looked for at every
// static caller of fn (bound 4: a helper all of whose callers hold the guard is
// entered with the guard). It returns the completion functions (function +
// index of the guarding error parameter). A site in a literal deferred by F,
// under the fact that F's own error result (read when the literal runs) is nil,
// makes that literal the completion (idx -1).
type c19Completion struct {
	fn  *ssa.Function
	idx int  // index into fn.Params; -1: fn is a deferred literal reading its parent's error result
	ptr bool // the parameter is a *error that is only read: the outcome is *param when fn runs
}

func c19DeferredBy(F, L *ssa.Function) bool {
	for _, d := range DeferredCalls(F) {
		if ClosureOf(d) == L {
			return true
		}
	}
	return false
}

// c19CellNilFact: is the block under the fact that variable cell (read at that
// moment) is nil?
func c19CellNilFact(b *ssa.BasicBlock, cell ssa.Value) bool {
	for _, f := range FactsAt(b) {
		cond, val := f.Cond, f.Val
		for {
			if u, ok := cond.(*ssa.UnOp); ok && u.Op == token.NOT {
				cond, val = u.X, !val
				continue
			}
			break
		}
		bo, ok := cond.(*ssa.BinOp)
		if !ok || (bo.Op != token.EQL && bo.Op != token.NEQ) {
			continue
		}
		other := bo.X
		if IsNilConst(bo.X) {
			other = bo.Y
		} else if !IsNilConst(bo.Y) {
			continue
		}
		ld, ok := other.(*ssa.UnOp)
		if !ok || ld.Op != token.MUL {
			continue
		}
		if cv, ok := varOf(ld.X); (!ok || cv != cell) && originValue(ld.X) != cell {
			continue
		}
		if (bo.Op == token.EQL) == val {
			return true
		}
	}
	return false
}

func c19Guard(p *Program, in ssa.Instruction, depth int) (comps []c19Completion, why string) {
	fn := in.Parent()
	for i, prm := range fn.Params {
		if !isErrorType(prm.Type()) {
			continue
		}
		if k, isNil := NilFact(in.Block(), prm); k && isNil {
			return []c19Completion{{fn: fn, idx: i}}, ""
		}
	}
	// *error parameter that is only read
	for i, prm := range fn.Params {
		if c19IsErrPtrParam(prm) && c19CellNilFact(in.Block(), prm) {
			return []c19Completion{{fn: fn, idx: i, ptr: true}}, ""
		}
	}
	// a literal deferred by the copy function, reading that function's error result
	if F := fn.Parent(); F != nil {
		if cell := c19ResultCell(F); cell != nil && c19DeferredBy(F, fn) && c19CellNilFact(in.Block(), cell) {
			return []c19Completion{{fn: fn, idx: -1}}, ""
		}
		return nil, "site is in a function literal and not under an err==nil fact of an error parameter (or of the deferring function's error result)"
	}
	for _, prm := range fn.Params {
		if isErrorType(prm.Type()) {
			return nil, fmt.Sprintf("not dominated by the fact %s == nil", prm.Name())
		}
	}
	if depth >= 4 {
		return nil, "no err==nil guard found within four call levels"
	}
	callers := p.StaticCallers(fn)
	if len(callers) == 0 || len(p.FuncValueUses(fn)) > 0 || len(p.InvokeSites(fn)) > 0 {
		return nil, "enclosing function has no error parameter and its callers cannot be enumerated"
	}
	for _, c := range callers {
		if c.Value() == nil {
			return nil, "via caller " + FuncKey(c.Fn) + ": called with go/defer, the guard at the call says nothing about the moment it runs"
		}
		cs, w := c19Guard(p, c.Instr, depth+1)
		if w != "" {
			return nil, "via caller " + FuncKey(c.Fn) + ": " + w
		}
		comps = append(comps, cs...)
	}
	return comps, ""
}

// c19IsErrPtrParam: a parameter of type *error that the function only loads.
func c19IsErrPtrParam(prm *ssa.Parameter) bool {
	pt, ok := prm.Type().(*types.Pointer)
	if !ok || !isErrorType(pt.Elem()) {
		return false
	}
	refs := prm.Referrers()
	if refs == nil {
		return false
	}
	for _, u := range *refs {
		switch u := u.(type) {
		case *ssa.DebugRef:
		case *ssa.UnOp:
			if u.Op != token.MUL {
				return false
			}
		default:
			return false
		}
	}
	return true
}

func c19YDequeue(p *Program, r *Reporter, a *c19Anchors) {
	compSet := map[c19Completion]bool{}
	var comps []c19Completion
	add := func(cs []c19Completion) {
		for _, c := range cs {
			if !compSet[c] {
				compSet[c] = true
				comps = append(comps, c)
			}
		}
	}
	if len(a.qDelete) == 0 {
		r.Violation("Y-dequeue", "pkg/server.(*SyncHandler)#queue.Delete", "?", "no queue.Delete site: copied blobs are never dequeued")
	}
	for _, d := range a.qDelete {
		construct := FuncKey(d.Fn) + "#queue.Delete#guard"
		if d.Value() == nil {
			r.Violation("Y-dequeue", construct, p.Pos(d.Pos()), "queue row deleted by a go/defer statement: the guard at the statement says nothing about the moment it runs")
			continue
		}
		cs, why := c19Guard(p, d.Instr, 0)
		if why != "" {
			r.Violation("Y-dequeue", construct, p.Pos(d.Pos()), "queue row deleted where the copy's error is not known nil: "+why)
			continue
		}
		r.OK("Y-dequeue", construct, p.Pos(d.Pos()), "queue.Delete is dominated by err==nil of the completion function's error parameter")
		add(cs)
	}
	// in-memory mirror: deletes on needCopy
	nDel := 0
	for _, fn := range p.FuncsIn("pkg/server") {
		for _, c := range CallsIn(fn, false) {
			b, ok := c.Common().Value.(*ssa.Builtin)
			if !ok || b.Name() != "delete" {
				continue
			}
			if _, ok := c19FieldOf(c.Common().Args[0], a.sh, "needCopy"); !ok {
				continue
			}
			nDel++
			construct := FuncKey(fn) + "#delete(needCopy)#guard"
			if c.Value() == nil {
				r.Violation("Y-dequeue", construct, p.Pos(c.Pos()), "blob dropped from the in-memory pending set by a go/defer statement: the guard at the statement says nothing about the moment it runs")
				continue
			}
			cs, why := c19Guard(p, c.Instr, 0)
			if why != "" {
				r.Violation("Y-dequeue", construct, p.Pos(c.Pos()), "blob dropped from the in-memory pending set where the copy's error is not known nil (it would not be retried until restart): "+why)
				continue
			}
			r.OK("Y-dequeue", construct, p.Pos(c.Pos()), "delete(needCopy) is dominated by err==nil of the completion function's error parameter")
			add(cs)
		}
	}
	r.Analysed("needCopy_deletes", nDel)

	// callers of each completion function
	type succPoint struct {
		f    *ssa.Function
		at   ssa.Instruction
		val  ssa.Value
		what string
	}
	var points []succPoint
	returnsOf := func(F *ssa.Function) {
		for _, nr := range MaybeNilErrorReturns(F) {
			at := ssa.Instruction(nr.Ret)
			if nr.From != nil && nr.From != nr.Ret.Block() {
				at = c19LastInstr(nr.From)
			}
			points = append(points, succPoint{F, at, nr.Val, "nil-return"})
		}
	}
	// foreign: F's error result is also assigned outside F's own body
	foreign := func(F *ssa.Function, cell *ssa.Alloc) bool {
		for _, st := range storesTo(cell) {
			if st.Parent() != F {
				return true
			}
		}
		return false
	}
	for i := 0; i < len(comps); i++ {
		comp := comps[i]
		if comp.idx < 0 {
			// the deferred literal itself completes the copy
			F := comp.fn.Parent()
			construct := FuncKey(F) + "#deferred-completion#outcome"
			cell := c19ResultCell(F)
			if cell == nil || foreign(F, cell) {
				r.Undecided("Y-dequeue", construct, p.Pos(comp.fn.Pos()), "the error result is also assigned inside a function literal; final value not followed")
				continue
			}
			r.OK("Y-dequeue", construct, p.Pos(comp.fn.Pos()), "the completion runs in a literal deferred by "+FuncKey(F)+" under the fact that that function's error result, read at return time, is nil")
			returnsOf(F)
			continue
		}
		if len(p.FuncValueUses(comp.fn)) > 0 || len(p.InvokeSites(comp.fn)) > 0 {
			r.Undecided("Y-dequeue", FuncKey(comp.fn)+"#callers", p.Pos(comp.fn.Pos()), "completion function is used as a value or through an interface; its callers cannot be enumerated")
			continue
		}
		callers := p.StaticCallers(comp.fn)
		if len(callers) == 0 {
			r.Violation("Y-dequeue", FuncKey(comp.fn)+"#callers", p.Pos(comp.fn.Pos()), "completion function is never called: nothing is ever dequeued")
		}
		for _, c := range callers {
			construct := FuncKey(c.Fn) + "#" + comp.fn.Name() + "#outcome"
			args := c.Args()
			if comp.idx >= len(args) {
				r.Undecided("Y-dequeue", construct, p.Pos(c.Pos()), "cannot map the error argument")
				continue
			}
			arg := args[comp.idx]
			if c.IsGo() {
				r.Violation("Y-dequeue", construct, p.Pos(c.Pos()), "completion function started with go: its error argument is evaluated before the copy ran")
				continue
			}
			if comp.ptr {
				// the completion reads *arg when it runs: arg must be the address of the error
				// result of the function F that defers it (directly or in a deferred literal),
				// or a *error parameter handed on
				if prm, ok := originValue(arg).(*ssa.Parameter); ok && c.Fn.Parent() == nil && c19IsErrPtrParam(prm) && c.Value() != nil {
					for j, q := range c.Fn.Params {
						if q == prm {
							r.OK("Y-dequeue", construct, p.Pos(c.Pos()), "hands its own *error parameter on to the completion function: "+FuncKey(c.Fn)+" is a completion function itself")
							add([]c19Completion{{fn: c.Fn, idx: j, ptr: true}})
						}
					}
					continue
				}
				F := c.Fn
				deferred := c.IsDefer()
				if !deferred && F.Parent() != nil && c19DeferredBy(F.Parent(), F) {
					F, deferred = F.Parent(), true
				}
				cell := c19ResultCell(F)
				cv, isVar := varOf(arg)
				switch {
				case !deferred:
					r.Violation("Y-dequeue", construct, p.Pos(c.Pos()), "completion function (reading the outcome through a pointer) is not deferred by the copy function: it does not see the copy's final outcome")
				case cell == nil || !isVar || cv != ssa.Value(cell):
					r.Violation("Y-dequeue", construct, p.Pos(c.Pos()), "the pointer handed to the completion function is not the address of the copy function's own error result")
				case foreign(F, cell):
					r.Undecided("Y-dequeue", construct, p.Pos(c.Pos()), "the error result is also assigned inside a function literal; final value not followed")
				default:
					r.OK("Y-dequeue", construct, p.Pos(c.Pos()), "deferred by "+FuncKey(F)+" with the address of that function's error result, read at return time")
					returnsOf(F)
				}
				continue
			}
			// Form A: inside a literal deferred by F, passing F's error result cell
			if L := c.Fn; L.Parent() != nil && !c.IsDefer() {
				F := L.Parent()
				deferred := c19DeferredBy(F, L)
				cell := c19ResultCell(F)
				ld, isLoad := arg.(*ssa.UnOp)
				okArg := false
				if isLoad && ld.Op == token.MUL && cell != nil {
					if cv, ok := varOf(ld.X); ok && cv == ssa.Value(cell) {
						okArg = true
					}
				}
				switch {
				case !deferred:
					r.Violation("Y-dequeue", construct, p.Pos(c.Pos()), "completion function called from a literal that is not deferred by the copy function: it does not see the copy's final outcome")
				case !okArg:
					r.Violation("Y-dequeue", construct, p.Pos(c.Pos()), "the error handed to the completion function is not the copy function's own error result (read when the deferred literal runs)")
				case foreign(F, cell):
					r.Undecided("Y-dequeue", construct, p.Pos(c.Pos()), "the error result is also assigned inside a function literal; final value not followed")
				default:
					r.OK("Y-dequeue", construct, p.Pos(c.Pos()), "called from a deferred literal of "+FuncKey(F)+" with that function's error result, read at return time")
					returnsOf(F)
				}
				continue
			}
			// Form P: the caller hands on what its own *error parameter points to when it
			// runs (`defer cs.finish(&err)` with `func (cs) finish(errp *error) { cs.setError(*errp) }`)
			if ld, ok := arg.(*ssa.UnOp); ok && ld.Op == token.MUL && c.Fn.Parent() == nil && c.Value() != nil {
				if prm, ok := originValue(ld.X).(*ssa.Parameter); ok && prm.Parent() == c.Fn && c19IsErrPtrParam(prm) {
					for j, q := range c.Fn.Params {
						if q == prm {
							r.OK("Y-dequeue", construct, p.Pos(c.Pos()), "hands on the error its *error parameter points to when it runs: "+FuncKey(c.Fn)+" is a completion function itself (its callers must defer it with the address of the copy function's error result)")
							add([]c19Completion{{fn: c.Fn, idx: j, ptr: true}})
						}
					}
					continue
				}
			}
			// Form F: the caller hands its own error parameter on (function split in two,
			// wrapper): the caller is a completion function itself
			if prm, ok := originValue(arg).(*ssa.Parameter); ok && c.Fn.Parent() == nil && isErrorType(prm.Type()) && c.Value() != nil {
				for j, q := range c.Fn.Params {
					if q == prm {
						r.OK("Y-dequeue", construct, p.Pos(c.Pos()), "hands its own error parameter on to the completion function: "+FuncKey(c.Fn)+" is a completion function itself (its callers are checked)")
						add([]c19Completion{{fn: c.Fn, idx: j}})
					}
				}
				continue
			}
			// Form C: called directly (or `defer done(err)`, whose argument is evaluated at the defer statement)
			F := c.Fn
			may := maybeNil(nil, arg, c.Block(), 0)
			if len(may) == 0 {
				r.OK("Y-dequeue", construct, p.Pos(c.Pos()), "error argument is known non-nil here (failure report only)")
				continue
			}
			r.OK("Y-dequeue", construct, p.Pos(c.Pos()), "direct call with a possibly-nil error: the copy conditions are checked at this call")
			for _, m := range may {
				at := ssa.Instruction(c.Instr)
				if m.From != nil && m.From != c.Block() {
					at = c19LastInstr(m.From)
				}
				points = append(points, succPoint{F, at, m.Val, "direct-success"})
			}
		}
	}
	if len(points) == 0 {
		r.Violation("Y-dequeue", "pkg/server#copy-success-points", "?", "no success point of a copy function found")
	}
	for _, sp := range points {
		c19CopyChain(p, r, a, sp.f, sp.at, sp.val, sp.what)
	}
}

// c19ResultCell returns the Alloc holding fn's (named) error result when every
// return loads it; nil otherwise.
func c19ResultCell(fn *ssa.Function) *ssa.Alloc {
	idx := ErrResultIndex(fn)
	if idx < 0 {
		return nil
	}
	var cell *ssa.Alloc
	for _, b := range fn.Blocks {
		if b == fn.Recover || len(b.Instrs) == 0 {
			continue
		}
		ret, ok := c19LastInstr(b).(*ssa.Return)
		if !ok {
			continue
		}
		ld, ok := ret.Results[idx].(*ssa.UnOp)
		if !ok || ld.Op != token.MUL {
			return nil
		}
		al, ok := ld.X.(*ssa.Alloc)
		if !ok || (cell != nil && cell != al) {
			return nil
		}
		cell = al
	}
	return cell
}

// c19StoreCall normalises a call that stores a blob into (dst, ref, reader).
func c19StoreCall(c CallSite, a *c19Anchors) (dst, ref, rd ssa.Value, ok bool) {
	if c.Value() == nil {
		return
	}
	if c.Common().IsInvoke() && c.IsMethod("ReceiveBlob", a.recvIface) {
		ar := c.Args()
		if len(ar) == 4 {
			return ar[0], ar[2], ar[3], true
		}
	}
	if c.IsStatic("perkeep.org/pkg/blobserver", "", "Receive") || c.IsStatic("perkeep.org/pkg/blobserver", "", "ReceiveNoHash") {
		ar := c.Args()
		return ar[1], ar[2], ar[3], true
	}
	return
}

// c19CopyChain checks the verified-copy conditions at success point `at` of F
// (val: the error value whose being nil defines success there), over F's
// effective body.
func c19CopyChain(p *Program, r *Reporter, a *c19Anchors, F *ssa.Function, at ssa.Instruction, val ssa.Value, what string) {
	x := a.x
	key := FuncKey(F) + "#" + what
	site := p.Pos(at.Pos())
	job := c19ParamOfType(F, a.sizedRef)
	if job == nil || !c19StableParam(F, job) {
		r.Undecided("Y-dequeue", key+"#job", site, "copy function has no single, never-reassigned blob.SizedRef parameter to identify the job")
		return
	}
	root := x.root(F)
	jobPath := x.path(job, root)
	refPath := jobPath + ".Ref"
	held := x.held(c19Point{root, at, val}, true)
	// for diagnostics: candidates anywhere in the effective body
	exists := func(pred func(c CallSite, fr *c19Frame) bool) (found bool, where string) {
		x.effectiveCalls(root, func(c CallSite, fr *c19Frame) {
			if !found && c.Value() != nil && pred(c, fr) {
				found, where = true, p.Pos(c.Pos())+" in "+FuncKey(c.Fn)
			}
		})
		return
	}
	notBefore := " does not complete successfully (err==nil edge, or its own error returned) before the success point on every path"

	// (1) destination store
	isDest := func(c CallSite, fr *c19Frame) bool {
		dst, _, _, ok := c19StoreCall(c, a)
		if !ok {
			return false
		}
		_, ok = x.fieldOf(dst, fr, a.sh, "to")
		return ok
	}
	var dest c19Ev
	var dRef, dRd ssa.Value
	for _, e := range held.evs {
		if isDest(e.c, e.fr) {
			_, ref, rd, _ := c19StoreCall(e.c, a)
			dest, dRef, dRd = e, ref, rd
		}
	}
	if dest.c.Instr == nil {
		why := "no ReceiveBlob on the handler's destination (sh.to) precedes it"
		if ok, where := exists(isDest); ok {
			why = "ReceiveBlob on sh.to at " + where + notBefore
		}
		r.Violation("Y-dequeue", key+"#dest-receive", site, "success is not dominated by a successful destination write: "+why+" — the row would be dequeued although the destination never acknowledged the blob")
		return
	}
	r.OK("Y-dequeue", key+"#dest-receive", p.Pos(dest.c.Pos()), "success point is on the err==nil edge of ReceiveBlob on sh.to"+c19Via(dest.fr))
	r.Check(x.path(dRef, dest.fr) == refPath, "Y-dequeue", key+"#dest-ref", p.Pos(dest.c.Pos()),
		"the ref stored at the destination is the job's ref", "the ref stored at the destination ("+x.path(dRef, dest.fr)+") is not the job's ref "+refPath)

	// (2) digest approval
	var hm c19Ev
	hmKnown, hmVal := false, false
	for _, f := range held.facts {
		cond, v := f.cond, f.val
		for {
			if u, ok := cond.(*ssa.UnOp); ok && u.Op == token.NOT {
				cond, v = u.X, !v
				continue
			}
			break
		}
		o, of := x.origin(cond, f.fr)
		call, ok := o.(*ssa.Call)
		if !ok {
			continue
		}
		cs := CallSite{call.Parent(), call}
		if cs.IsStatic("perkeep.org/pkg/blob", "Ref", "HashMatches") || cs.IsStatic("perkeep.org/pkg/blob", "SizedRef", "HashMatches") {
			if !hmKnown || v {
				hm, hmKnown, hmVal = c19Ev{cs, of}, true, v
			}
		}
	}
	var h ssa.Value
	var hf *c19Frame
	if !hmKnown || !hmVal {
		r.Violation("Y-dequeue", key+"#hash-match", site, "success is not under the fact HashMatches(...)==true: corrupt source bytes would be written and the row dequeued")
	} else if got := x.path(hm.c.Args()[0], hm.fr); got != refPath && got != jobPath {
		r.Violation("Y-dequeue", key+"#hash-match", p.Pos(hm.c.Pos()), "HashMatches is evaluated on "+got+", not on the job's ref "+refPath)
	} else {
		h, hf = x.origin(hm.c.Args()[1], hm.fr)
		r.OK("Y-dequeue", key+"#hash-match", p.Pos(hm.c.Pos()), "success point is under HashMatches(job ref, h)==true"+c19Via(hm.fr))
	}

	// (3) source fetch
	isFetchOnFrom := func(c CallSite, fr *c19Frame) bool {
		if c.Value() == nil || !c.IsMethod("Fetch", a.fetchIf) {
			return false
		}
		_, ok := x.fieldOf(c.Args()[0], fr, a.sh, "from")
		return ok
	}
	var fetch c19Ev
	fwhy := "no Fetch on the handler's source (sh.from) precedes it"
	if ok, where := exists(isFetchOnFrom); ok {
		fwhy = "Fetch on sh.from at " + where + notBefore
	}
	for _, e := range held.evs {
		if !isFetchOnFrom(e.c, e.fr) {
			continue
		}
		ar := e.c.Args()
		if x.path(ar[len(ar)-1], e.fr) != refPath {
			fwhy = "Fetch on sh.from is not of the job's ref"
			continue
		}
		fetch = e
	}
	if fetch.c.Instr == nil {
		r.Violation("Y-dequeue", key+"#fetch", site, "success is not dominated by a successful source fetch: "+fwhy)
	} else {
		r.OK("Y-dequeue", key+"#fetch", p.Pos(fetch.c.Pos()), "success point is on the err==nil edge of Fetch(job ref) on sh.from"+c19Via(fetch.fr))
	}

	// (4) bytes: fetch body -> (tee into h) -> full read into buf -> destination reader
	var buf ssa.Value
	var buff *c19Frame
	isFullRead := func(c CallSite, _ *c19Frame) bool {
		return c.IsStatic("io", "", "ReadFull") || c.IsStatic("io", "", "ReadAll")
	}
	bytesOK, bwhy := false, "no successful full read (io.ReadFull / io.ReadAll) precedes it"
	if ok, where := exists(isFullRead); ok {
		bwhy = "the full read at " + where + notBefore + " (a short read would be hashed and written as if complete)"
	}
	for _, e := range held.evs {
		c := e.c
		var rd, b ssa.Value
		var bf *c19Frame
		switch {
		case c.IsStatic("io", "", "ReadFull"):
			rd = c.Args()[0]
			b, bf = x.origin(c.Args()[1], e.fr)
		case c.IsStatic("io", "", "ReadAll"):
			rd = c.Args()[0]
			if rv := ResultValue(c.Value(), 0); rv != nil {
				b, bf = x.origin(rv, e.fr)
			}
		default:
			continue
		}
		if b == nil {
			continue
		}
		if !x.flowsFrom(dRd, dest.fr, b, bf) {
			bwhy = "the destination is not fed from the buffer filled by the checked full read"
			continue
		}
		if fetch.c.Instr != nil {
			body := ResultValue(fetch.c.Value(), 0)
			if body == nil || !x.flowsFrom(rd, e.fr, body, fetch.fr) {
				bwhy = "the full read does not read the body returned by the checked Fetch"
				continue
			}
		}
		if h != nil && !x.flowsFrom(rd, e.fr, h, hf) && !c19HashFedFrom(x, h, hf, b, bf, hm) {
			bwhy = "the hash that HashMatches approves is fed neither by the reader of the full read nor by a Write of the filled buffer (digest of other bytes than those written)"
			continue
		}
		bytesOK, buf, buff = true, b, bf
	}
	if bytesOK {
		r.OK("Y-dequeue", key+"#bytes", site, "destination reader <- buffer <- successful full read <- tee(hash approved by HashMatches) <- body of the checked Fetch")
	} else {
		r.Violation("Y-dequeue", key+"#bytes", site, "the bytes written are not tied to the bytes verified: "+bwhy)
	}

	// (5) acknowledged size == sent size, through the equality facts at the success point
	var sent ssa.Value
	var sentf *c19Frame
	if ms, ok := buf.(*ssa.MakeSlice); ok {
		sent, sentf = x.origin(ms.Len, buff)
	}
	ack0 := ResultValue(dest.c.Value(), 0)
	keyOf := func(v ssa.Value, fr *c19Frame) string {
		var o ssa.Value
		of := fr
		for i := 0; i < 8; i++ {
			o, of = x.origin(v, of)
			if cv, ok := o.(*ssa.Convert); ok {
				v = cv.X
				continue
			}
			break
		}
		if c19IsSizeOf(x, o, of, ack0, dest.fr) {
			return "ACK"
		}
		if sent != nil && o == sent && of == sentf {
			return "SENT"
		}
		if call, ok := o.(*ssa.Call); ok {
			if b, ok := call.Call.Value.(*ssa.Builtin); ok && b.Name() == "len" && buf != nil {
				if lo, lf := x.origin(call.Call.Args[0], of); lo == buf && lf == buff {
					return "SENT"
				}
			}
		}
		return x.path(o, of)
	}
	parent := map[string]string{}
	var find func(string) string
	find = func(s string) string {
		if parent[s] == "" || parent[s] == s {
			parent[s] = s
			return s
		}
		parent[s] = find(parent[s])
		return parent[s]
	}
	for _, f := range held.facts {
		bo, ok := f.cond.(*ssa.BinOp)
		if !ok || !((bo.Op == token.EQL && f.val) || (bo.Op == token.NEQ && !f.val)) {
			continue
		}
		parent[find(keyOf(bo.X, f.fr))] = find(keyOf(bo.Y, f.fr))
	}
	switch {
	case ack0 == nil:
		r.Violation("Y-dequeue", key+"#dest-size", p.Pos(dest.c.Pos()), "the SizedRef acknowledged by the destination is ignored: a destination that stored a truncated blob would still cause the dequeue")
	case sent == nil:
		r.Undecided("Y-dequeue", key+"#dest-size", site, "cannot determine the number of bytes sent (buffer is not a make([]byte, n) filled by the checked read)")
	case find("ACK") == find("SENT"):
		r.OK("Y-dequeue", key+"#dest-size", site, "size acknowledged by the destination equals the number of bytes sent, by the equality facts dominating the success point")
	default:
		r.Violation("Y-dequeue", key+"#dest-size", site, "no chain of dominating equality facts ties the size acknowledged by the destination to the number of bytes sent")
	}
}

// c19Via names the helper chain an event was found through ("" in the root).
func c19Via(fr *c19Frame) string {
	if fr == nil || fr.up == nil {
		return ""
	}
	var names []string
	for f := fr; f != nil && f.up != nil; f = f.up {
		names = append([]string{FuncKey(f.callee)}, names...)
	}
	return " (inside helper " + strings.Join(names, " -> ") + ", whose successful return it dominates)"
}

// c19HashFedFrom: h.Write(buf) (buf being the buffer of the checked full read)
// executed before HashMatches is evaluated.
func c19HashFedFrom(x *c19X, h ssa.Value, hf *c19Frame, buf ssa.Value, buff *c19Frame, hm c19Ev) bool {
	if hm.c.Instr == nil {
		return false
	}
	before := x.held(c19Point{hm.fr, hm.c.Instr, nil}, false)
	for _, e := range before.evs {
		c := e.c
		if c.MethodName() != "Write" || len(c.Args()) != 2 {
			continue
		}
		if o, of := x.origin(c.Args()[0], e.fr); o != h || of != hf {
			continue
		}
		if o, of := x.origin(c.Args()[1], e.fr); o != buf || of != buff {
			continue
		}
		return true
	}
	return false
}

// c19IsSizeOf reports whether v is the Size field of SizedRef value sr (an
// Extract), directly or through a single-store local.
func c19IsSizeOf(x *c19X, v ssa.Value, fr *c19Frame, sr ssa.Value, srf *c19Frame) bool {
	if sr == nil || v == nil {
		return false
	}
	switch t := v.(type) {
	case *ssa.Field:
		return fieldName(t.X.Type(), t.Field) == "Size" && x.same(t.X, fr, sr, srf)
	case *ssa.UnOp:
		if t.Op != token.MUL {
			return false
		}
		fa, ok := t.X.(*ssa.FieldAddr)
		if !ok || fieldName(fa.X.Type(), fa.Field) != "Size" {
			return false
		}
		al, ok := fa.X.(*ssa.Alloc)
		if !ok {
			return false
		}
		sts := storesTo(al)
		if len(sts) != 1 || !x.same(sts[0].Val, x.frameFor(sts[0].Val, fr), sr, srf) {
			return false
		}
		// no field-wise stores
		if ar := al.Referrers(); ar != nil {
			for _, au := range *ar {
				if f2, ok := au.(*ssa.FieldAddr); ok {
					if fr2 := f2.Referrers(); fr2 != nil {
						for _, fu := range *fr2 {
							if s, ok := fu.(*ssa.Store); ok && s.Addr == ssa.Value(f2) {
								return false
							}
						}
					}
				}
			}
		}
		return true
	}
	return false
}

// ---------------------------------------------------------------------------
// builders of queue-backed handlers (shared by Y-enqueue, Y-reload, Y-start)

type c19Builder struct {
	start ssa.Instruction // the queue-backed handler exists from here on
	sh    ssa.Value       // the handler value in g
	from  ssa.Value       // the handler's source storage as a value of g (may be nil)
	g     *ssa.Function   // enclosing function
	depth int
}

// c19Builders: by role, a builder is a function in which a queue-backed handler
// comes into existence: the store that sets SyncHandler.queue (composite
// literal or assignment). A builder that is an unexported helper whose callers
// are all known and that hands the handler to them passes its open obligations
// on to them (c19Discharge), so it does not matter whether the constructor is a
// function of its own, is wrapped once more, or is inlined into its caller.
func c19Builders(p *Program, a *c19Anchors) []c19Builder {
	var out []c19Builder
	for _, ctor := range a.ctors {
		for _, b := range ctor.Blocks {
			for _, in := range b.Instrs {
				st, ok := in.(*ssa.Store)
				if !ok {
					continue
				}
				fa, ok := c19IsFieldAddr(st.Addr, a.sh, "queue")
				if !ok {
					continue
				}
				bd := c19Builder{start: st, sh: originValue(fa.X), g: ctor}
				for _, b2 := range ctor.Blocks {
					for _, in2 := range b2.Instrs {
						if st2, ok := in2.(*ssa.Store); ok {
							if fa2, ok := c19IsFieldAddr(st2.Addr, a.sh, "from"); ok && originValue(fa2.X) == bd.sh {
								bd.from = st2.Val
							}
						}
					}
				}
				out = append(out, bd)
			}
		}
	}
	return out
}

// c19Escalate: the builders that receive the handler from b.g, when b.g is a
// helper (unexported, top-level, never used as a value, at least one caller in
// the module) that returns the handler.
func c19Escalate(p *Program, b c19Builder) ([]c19Builder, bool) {
	g := b.g
	if g.Parent() != nil || token.IsExported(g.Name()) || b.depth >= 4 || len(p.FuncValueUses(g)) > 0 || len(p.InvokeSites(g)) > 0 {
		return nil, false
	}
	idx := -1
	for _, ri := range Returns(g) {
		for i, res := range ri.Results {
			if sameOrigin(res, b.sh) {
				if idx >= 0 && idx != i {
					return nil, false
				}
				idx = i
			}
		}
	}
	if idx < 0 {
		return nil, false
	}
	var out []c19Builder
	n := 0
	for _, c := range p.StaticCallers(g) {
		if c.Fn.Pkg == nil || IsTestSupportPkg(RelPkg(c.Fn.Pkg.Pkg)) {
			continue
		}
		n++
		if c.Value() == nil {
			continue // go/defer: the result is dropped, nothing is handed out
		}
		hv := ResultValue(c.Value(), idx)
		if hv == nil {
			continue
		}
		nb := c19Builder{start: c.Instr, sh: hv, g: c.Fn, depth: b.depth + 1}
		if prm, ok := originValue(b.from).(*ssa.Parameter); ok && b.from != nil {
			for i, q := range g.Params {
				if q == prm && i < len(c.Args()) {
					nb.from = c.Args()[i]
				}
			}
		}
		out = append(out, nb)
	}
	return out, n > 0
}

// c19Discharge checks "every path from the builder's start to a return handing
// the handler out passes stop"; open paths of a helper builder become
// obligations of its callers. final is called once per function at which the
// obligation is finally decided (leaks empty = discharged).
func c19Discharge(p *Program, b c19Builder, mkStop func(b c19Builder) func(ssa.Instruction) bool, final func(b c19Builder, leaks []Leak)) {
	leaks := c19AllPaths(b, mkStop(b))
	if len(leaks) > 0 {
		if nbs, ok := c19Escalate(p, b); ok {
			for _, nb := range nbs {
				c19Discharge(p, nb, mkStop, final)
			}
			return
		}
	}
	final(b, leaks)
}

// c19DeepStop lifts a per-instruction predicate over (instruction, handler,
// source) to helper calls: a plain call of a same-package function, method or
// literal that is handed the handler satisfies it when every path through the
// helper passes an instruction that does (depth 3).
func c19DeepStop(stop func(in ssa.Instruction, sh, from ssa.Value) bool) func(in ssa.Instruction, sh, from ssa.Value) bool {
	var deep func(in ssa.Instruction, sh, from ssa.Value, depth int) bool
	deep = func(in ssa.Instruction, sh, from ssa.Value, depth int) bool {
		if stop(in, sh, from) {
			return true
		}
		call, ok := in.(*ssa.Call)
		if !ok || depth >= 3 {
			return false
		}
		c := CallSite{in.Parent(), call}
		if _, isBuiltin := call.Call.Value.(*ssa.Builtin); isBuiltin {
			return false
		}
		g := c.Callee()
		if g == nil || g.Blocks == nil || g.Synthetic != "" || g.Pkg == nil || g.Pkg != in.Parent().Pkg {
			return false
		}
		var sh2, from2 ssa.Value
		for i, arg := range c.Args() {
			if i >= len(g.Params) {
				break
			}
			if sameOrigin(arg, sh) {
				sh2 = g.Params[i]
			}
			if from != nil && sameOrigin(arg, from) {
				from2 = g.Params[i]
			}
		}
		if g.Parent() != nil {
			// a literal sees the handler through the variables it captures
			if sh2 == nil {
				sh2 = sh
			}
			if from2 == nil {
				from2 = from
			}
		}
		if sh2 == nil {
			return false
		}
		first := g.Blocks[0].Instrs[0]
		if deep(first, sh2, from2, depth+1) {
			return true
		}
		return len(LeakingExits(PathQuery{
			Start:        first,
			Stop:         func(i ssa.Instruction) bool { return deep(i, sh2, from2, depth+1) },
			IgnorePanics: true,
		})) == 0
	}
	return func(in ssa.Instruction, sh, from ssa.Value) bool { return deep(in, sh, from, 0) }
}

// c19HandsOut reports whether the return hands the handler out.
func c19HandsOut(ret *ssa.Return, sh ssa.Value) bool {
	// value-preserving chain only (interface conversion, single-store locals):
	// an error derived from a call on the handler does not hand the handler out
	for _, res := range ret.Results {
		if sameOrigin(res, sh) {
			return true
		}
	}
	return false
}

// c19AllPaths: every path from the builder call to a return that hands the
// handler out passes an instruction satisfying stop.
func c19AllPaths(b c19Builder, stop func(ssa.Instruction) bool) []Leak {
	return LeakingExits(PathQuery{
		Start: b.start,
		Stop:  stop,
		ExitOK: func(exit ssa.Instruction) bool {
			ret, ok := exit.(*ssa.Return)
			return ok && !c19HandsOut(ret, b.sh)
		},
		IgnorePanics: true,
	})
}

func c19LeakText(p *Program, leaks []Leak) string {
	var s []string
	for _, l := range leaks {
		s = append(s, fmt.Sprintf("return at %s via blocks %s", p.Pos(l.Exit.Pos()), blockNames(l.Via)))
		if len(s) == 3 {
			break
		}
	}
	return strings.Join(s, "; ")
}

// c19BoundMethodOf reports whether v is a bound method value (or a literal that
// only forwards to and returns) method m, and returns the receiver.
func c19BoundMethodOf(v ssa.Value, m *ssa.Function) (recv ssa.Value, ok bool) {
	mc, isMC := originValue(v).(*ssa.MakeClosure)
	if !isMC {
		return nil, false
	}
	fn := mc.Fn.(*ssa.Function)
	if fn.Object() != nil && fn.Object() == m.Object() && len(mc.Bindings) == 1 && strings.HasPrefix(fn.Synthetic, "bound method wrapper") {
		return mc.Bindings[0], true
	}
	if fn.Parent() != nil {
		var call *ssa.Call
		for _, c := range CallsIn(fn, false) {
			if c.Callee() == m && c.Value() != nil {
				if call != nil {
					return nil, false
				}
				call = c.Value()
			}
		}
		if call == nil {
			return nil, false
		}
		for _, ri := range Returns(fn) {
			if len(ri.Results) != 1 || !sameOrigin(ri.Results[0], call) {
				return nil, false
			}
		}
		return call.Call.Args[0], true
	}
	return nil, false
}

// c19PresentFact: the block is under the fact that needCopy holds the key
// looked up (the comma-ok of a lookup in SyncHandler.needCopy is true).
func c19PresentFact(a *c19Anchors, b *ssa.BasicBlock) bool {
	for _, f := range FactsAt(b) {
		cond, val := f.Cond, f.Val
		for {
			if u, ok := cond.(*ssa.UnOp); ok && u.Op == token.NOT {
				cond, val = u.X, !val
				continue
			}
			break
		}
		ex, ok := originValue(cond).(*ssa.Extract)
		if !ok || ex.Index != 1 || !val {
			continue
		}
		if lk, ok := ex.Tuple.(*ssa.Lookup); ok && lk.CommaOk {
			if _, ok := c19FieldOf(lk.X, a.sh, "needCopy"); ok {
				return true
			}
		}
	}
	return false
}

// c19DupFalseMeansPresent: g returns a single bool, and returns false only
// where needCopy is known to hold the ref (directly, or by returning the result
// of a function with that property, or the negation of the lookup's comma-ok).
func c19DupFalseMeansPresent(a *c19Anchors, g *ssa.Function, depth int) bool {
	if g == nil || g.Blocks == nil || depth > 3 || g.Signature.Results().Len() != 1 {
		return false
	}
	rets := Returns(g)
	if len(rets) == 0 {
		return false
	}
	for _, ri := range rets {
		if len(ri.Results) != 1 {
			return false
		}
		v := originValue(ri.Results[0])
		switch t := v.(type) {
		case *ssa.Const:
			if t.Value != nil && t.Value.String() == "true" {
				continue
			}
			if t.Value != nil && t.Value.String() == "false" && c19PresentFact(a, ri.Ret.Block()) {
				continue
			}
			return false
		case *ssa.Call:
			if c19DupFalseMeansPresent(a, (CallSite{t.Parent(), t}).Callee(), depth+1) {
				continue
			}
			return false
		case *ssa.UnOp:
			if t.Op == token.NOT {
				if ex, ok := originValue(t.X).(*ssa.Extract); ok && ex.Index == 1 {
					if lk, ok := ex.Tuple.(*ssa.Lookup); ok && lk.CommaOk {
						if _, ok := c19FieldOf(lk.X, a.sh, "needCopy"); ok {
							continue
						}
					}
				}
			}
			return false
		default:
			return false
		}
	}
	return true
}

// c19ReportDup reports, per constant-false return of g, whether it is under the
// "already pending" fact.
func c19ReportDup(p *Program, r *Reporter, a *c19Anchors, g *ssa.Function) {
	for _, ri := range Returns(g) {
		if len(ri.Results) != 1 {
			continue
		}
		c, ok := ri.Results[0].(*ssa.Const)
		if !ok || c.Value == nil || c.Value.String() != "false" {
			continue
		}
		r.Check(c19PresentFact(a, ri.Ret.Block()), "Y-enqueue", FuncKey(g)+"#duplicate-means-present", p.Pos(ri.Ret.Pos()),
			"'false' (duplicate) is returned only under the fact that needCopy already holds the ref",
			"'false' (duplicate) is returned without needCopy being known to hold the ref: enqueue would skip queue.Set for a blob that is not pending")
	}
}

// ---------------------------------------------------------------------------
// Y-enqueue

func c19YEnqueue(p *Program, r *Reporter, a *c19Anchors) {
	hubIface := p.Iface("pkg/blobserver", "BlobHub")
	x := a.x
	// the function that inserts into the queue, by role: encloses the queue.Set site(s)
	var setter *ssa.Function
	setInstr := map[ssa.Instruction]bool{}
	for _, s := range a.qSet {
		if setter != nil && setter != TopFunc(s.Fn) {
			r.Undecided("Y-enqueue", FuncKey(s.Fn)+"#queue.Set", p.Pos(s.Pos()), "more than one function inserts into the queue; the hook method cannot be identified")
		}
		setter = TopFunc(s.Fn)
		setInstr[s.Instr] = true
	}
	if setter == nil {
		r.Violation("Y-enqueue", "pkg/server.(*SyncHandler)#queue.Set", "?", "nothing ever inserts into the persistent queue")
		return
	}
	// the enqueue candidates: the setter and the pkg/server functions that reach it
	// through plain static calls (the insertion may have been extracted into a
	// helper); the hook that builders register must be one of them, and the one(s)
	// registered are checked below over their effective body
	cands := []*ssa.Function{setter}
	inCands := map[*ssa.Function]bool{setter: true}
	for i, d := 0, 0; i < len(cands) && d < 64; i, d = i+1, d+1 {
		for _, c := range p.StaticCallers(cands[i]) {
			t := TopFunc(c.Fn)
			if c.Fn.Synthetic != "" || c.Value() == nil || !c19InServer(t) || inCands[t] || len(cands) > 12 {
				continue
			}
			inCands[t] = true
			cands = append(cands, t)
		}
	}
	// in-memory add, by role: updates needCopy
	for _, fn := range p.FuncsIn("pkg/server") {
		for _, b := range fn.Blocks {
			for _, in := range b.Instrs {
				if mu, ok := in.(*ssa.MapUpdate); ok {
					if _, ok := c19FieldOf(mu.Map, a.sh, "needCopy"); ok {
						a.memAdd = TopFunc(fn)
					}
				}
			}
		}
	}

	// E1: builders register the hook
	builders := c19Builders(p, a)
	if len(builders) == 0 {
		r.Violation("Y-enqueue", "pkg/server#builders", "?", "no function builds a queue-backed SyncHandler")
	}
	hooked := map[*ssa.Function]bool{}
	var hookedList []*ssa.Function
	wrong := ""
	isHook := c19DeepStop(func(in ssa.Instruction, sh, from ssa.Value) bool {
		ci, ok := in.(ssa.CallInstruction)
		if !ok {
			return false
		}
		c := CallSite{in.Parent(), ci}
		if c.MethodName() != "AddReceiveHook" || !c.IsMethod("AddReceiveHook", hubIface) || c.IsGo() || c.IsDefer() {
			return false
		}
		ar := c.Args()
		var m *ssa.Function
		var recv ssa.Value
		for _, cand := range cands {
			if rv, ok := c19BoundMethodOf(ar[1], cand); ok {
				m, recv = cand, rv
				break
			}
		}
		if m == nil {
			wrong = "a hook other than the handler's enqueue method is registered"
			return false
		}
		if !sameOrigin(recv, sh) {
			wrong = "enqueue of a different handler is registered"
			return false
		}
		hubCall, ok := originValue(ar[0]).(*ssa.Call)
		if !ok || !(CallSite{hubCall.Parent(), hubCall}).IsStatic("perkeep.org/pkg/blobserver", "", "GetHub") {
			wrong = "the hub is not obtained from blobserver.GetHub"
			return false
		}
		st := hubCall.Call.Args[0]
		okHub := false
		if base, ok := c19FieldOf(st, a.sh, "from"); ok && sameOrigin(base, sh) {
			okHub = true
		}
		if from != nil && sameOrigin(st, from) {
			okHub = true
		}
		if !okHub {
			wrong = "the hook is registered on the hub of a storage that is not the handler's source"
			return false
		}
		if !hooked[m] {
			hooked[m] = true
			hookedList = append(hookedList, m)
		}
		return true
	})
	for _, b0 := range builders {
		c19Discharge(p, b0,
			func(b c19Builder) func(ssa.Instruction) bool {
				return func(in ssa.Instruction) bool { return isHook(in, b.sh, b.from) }
			},
			func(b c19Builder, leaks []Leak) {
				construct := FuncKey(b.g) + "#AddReceiveHook"
				if len(leaks) == 0 {
					r.OK("Y-enqueue", construct, p.Pos(b.start.Pos()), "every path handing the handler out registers its enqueue method on GetHub(source)")
					return
				}
				d := "a handler is handed out without its enqueue method registered as receive hook of its source: " + c19LeakText(p, leaks)
				if wrong != "" {
					d += " (" + wrong + ")"
				}
				r.Violation("Y-enqueue", construct, p.Pos(b.start.Pos()), d)
			})
	}
	if len(hookedList) == 0 {
		hookedList = []*ssa.Function{setter}
	}
	a.enqs = hookedList

	// E2: returns of enqueue (the registered hook), over its effective body
	for _, s := range a.qSet {
		if s.Value() == nil || s.Fn.Parent() != nil {
			r.Undecided("Y-enqueue", FuncKey(s.Fn)+"#queue.Set", p.Pos(s.Pos()), "queue.Set inside a literal or as go/defer: its error is not followed")
			continue
		}
		if _, _, discarded := ErrValue(s.Value()); discarded {
			r.Violation("Y-enqueue", FuncKey(s.Fn)+"#queue.Set#error", p.Pos(s.Pos()), "the error of queue.Set is discarded: the uploader is told the blob was accepted although it was not queued persistently")
		}
	}
	dupOK := map[*ssa.Function]bool{}
	for _, enq := range hookedList {
		n := 0
		root := x.root(enq)
		for _, pt := range c19ExitPoints(root, true) {
			n++
			construct := FuncKey(enq) + "#nil-return"
			site := p.Pos(pt.at.Pos())
			held := x.held(pt, true)
			done := false
			for _, e := range held.evs {
				if setInstr[e.c.Instr] {
					r.OK("Y-enqueue", construct, site, "queue.Set succeeded before this return (err==nil edge, or its own error is what is returned)"+c19Via(e.fr))
					done = true
					break
				}
			}
			if done {
				continue
			}
			for _, f := range held.facts {
				cond, v := f.cond, f.val
				for {
					if u, ok := cond.(*ssa.UnOp); ok && u.Op == token.NOT {
						cond, v = u.X, !v
						continue
					}
					break
				}
				call, ok := originValue(cond).(*ssa.Call)
				if !ok || v {
					continue
				}
				g := (CallSite{call.Parent(), call}).Callee()
				if g == nil || !c19DupFalseMeansPresent(a, g, 0) {
					continue
				}
				dupOK[g] = true
				r.OK("Y-enqueue", construct, site, "duplicate edge: the in-memory add reported the ref as already pending")
				done = true
				break
			}
			if !done {
				r.Violation("Y-enqueue", construct, site, "enqueue can return nil without queue.Set having succeeded and without the blob being a known duplicate: the pending blob would not survive a restart")
			}
		}
		if n == 0 {
			r.Violation("Y-enqueue", FuncKey(enq)+"#nil-return", p.Pos(enq.Pos()), "enqueue has no success return")
		}
	}
	// E3: the in-memory add says "duplicate" only when the ref is present
	if a.memAdd == nil {
		r.Violation("Y-enqueue", "pkg/server#needCopy-add", "?", "no function adds to the in-memory pending set")
	} else {
		c19ReportDup(p, r, a, a.memAdd)
		for g := range dupOK {
			if g != a.memAdd {
				c19ReportDup(p, r, a, g)
			}
		}
	}

	// E5: callers of enqueue keep its error
	for _, enq := range hookedList {
		for _, c := range p.StaticCallers(enq) {
			if c.Fn.Synthetic != "" {
				continue
			}
			construct := FuncKey(c.Fn) + "#" + enq.Name() + "#error-kept"
			if c.Value() == nil {
				r.Violation("Y-enqueue", construct, p.Pos(c.Pos()), "enqueue started with go/defer: its error is lost")
				continue
			}
			_, _, discarded := ErrValue(c.Value())
			r.Check(!discarded, "Y-enqueue", construct, p.Pos(c.Pos()), "the error of enqueue is used", "the error of enqueue is discarded")
		}
	}

	// E4: hubs run hooks and report their errors
	for _, n := range p.Implementers(hubIface, false) {
		notify, _ := p.MethodOf(n, "NotifyBlobReceived")
		addHook, _ := p.MethodOf(n, "AddReceiveHook")
		if notify == nil || addHook == nil || notify.Blocks == nil || addHook.Blocks == nil {
			brokenf("anchor unresolved: BlobHub methods of %s", n.Obj().Name())
		}
		c19HubRule(p, r, n, notify, addHook)
		// callers of NotifyBlobReceived
		sites := p.InvokeSites(notify)
		sites = append(sites, p.StaticCallers(notify)...)
		nSites := 0
		for _, c := range sites {
			if IsTestSupportPkg(RelPkg(c.Fn.Pkg.Pkg)) {
				continue
			}
			nSites++
			c19NotifyCaller(p, r, a, c)
		}
		if nSites == 0 {
			r.Violation("Y-enqueue", typeKey(n)+"#NotifyBlobReceived#callers", "?", "nobody notifies the hub: receive hooks never run")
		}
	}
}

func c19HubRule(p *Program, r *Reporter, n *types.Named, notify, addHook *ssa.Function) {
	// the hooks field: what AddReceiveHook stores into
	hooksField := ""
	for _, b := range addHook.Blocks {
		for _, in := range b.Instrs {
			if st, ok := in.(*ssa.Store); ok {
				if fa, ok := st.Addr.(*ssa.FieldAddr); ok {
					if bn := NamedOf(fa.X.Type()); bn != nil && bn.Obj() == n.Obj() && c19FlowsFrom(st.Val, addHook.Params[1]) {
						hooksField = fieldName(fa.X.Type(), fa.Field)
					}
				}
			}
		}
	}
	if hooksField == "" {
		r.Violation("Y-enqueue", FuncKey(addHook)+"#stores-hook", p.Pos(addHook.Pos()), "AddReceiveHook does not store the hook in a field of the hub")
		return
	}
	r.OK("Y-enqueue", FuncKey(addHook)+"#stores-hook", p.Pos(addHook.Pos()), "hook stored into field "+hooksField)
	isHookCall := func(c CallSite) bool {
		cc := c.Common()
		if cc.IsInvoke() || c.Callee() != nil {
			return false
		}
		ld, ok := originValue(cc.Value).(*ssa.UnOp)
		if !ok || ld.Op != token.MUL {
			return false
		}
		ia, ok := ld.X.(*ssa.IndexAddr)
		if !ok {
			return false
		}
		_, ok = c19FieldOf(ia.X, n, hooksField)
		return ok
	}
	c19HubRunner(p, r, notify, notify, isHookCall, 0)
}

// c19HubRunner checks that runner (NotifyBlobReceived itself, or a same-package
// helper it calls and whose error it propagates) calls the registered hooks and
// returns non-nil when one of them failed. Obligations are reported under
// NotifyBlobReceived's key.
func c19HubRunner(p *Program, r *Reporter, top, notify *ssa.Function, isHookCall func(CallSite) bool, depth int) {
	var hookCalls []CallSite
	for _, c := range CallsIn(notify, true) {
		if isHookCall(c) {
			hookCalls = append(hookCalls, c)
		}
	}
	if len(hookCalls) == 0 {
		// the hook loop may have been extracted: a helper that runs the hooks, and
		// whose error every later possibly-nil return of the runner respects
		found := false
		if depth < 2 {
			for _, c := range CallsIn(notify, false) {
				g := c.Callee()
				if c.Value() == nil || g == nil || g.Blocks == nil || g.Synthetic != "" || g.Pkg != notify.Pkg || g == notify {
					continue
				}
				has := false
				for _, c2 := range CallsIn(g, true) {
					if isHookCall(c2) {
						has = true
					}
				}
				if !has {
					continue
				}
				found = true
				construct := FuncKey(top) + "#hook-error"
				ev, hasErr, discarded := ErrValue(c.Value())
				if !hasErr || discarded {
					r.Violation("Y-enqueue", construct, p.Pos(c.Pos()), "the error of the helper that runs the hooks ("+FuncKey(g)+") is dropped: hook errors never reach the uploader")
					continue
				}
				after := ReachableFrom(c.Instr, nil)
				bad := ""
				for _, nr := range MaybeNilErrorReturns(notify) {
					if !after[nr.Ret] || sameOrigin(nr.Val, ev) {
						continue
					}
					at := ssa.Instruction(nr.Ret)
					if nr.From != nil && nr.From != nr.Ret.Block() {
						at = c19LastInstr(nr.From)
					}
					if ok, w := SuccessDominates(c.Value(), at); !ok {
						bad = fmt.Sprintf("nil return at %s: %s", p.Pos(nr.Ret.Pos()), w)
					}
				}
				if bad != "" {
					r.Violation("Y-enqueue", construct, p.Pos(c.Pos()), "a hook's error can be swallowed after the helper that runs the hooks returned it: "+bad)
					continue
				}
				c19HubRunner(p, r, top, g, isHookCall, depth+1)
			}
		}
		if !found {
			r.Violation("Y-enqueue", FuncKey(top)+"#hook-call", p.Pos(notify.Pos()), "NotifyBlobReceived never calls the registered receive hooks")
		}
		return
	}
	for _, hc := range hookCalls {
		construct := FuncKey(top) + "#hook-error"
		if hc.Value() == nil {
			r.Violation("Y-enqueue", construct, p.Pos(hc.Pos()), "hook started with go/defer: its error is lost")
			continue
		}
		if hc.Fn == notify {
			// sequential form: assuming the hook failed, no exit returns a possibly-nil error
			leaks := LeakingExits(PathQuery{
				Start:  hc.Instr,
				Stop:   func(ssa.Instruction) bool { return false },
				Assume: c19AssumeFailed(hc.Value()),
				ExitOK: func(exit ssa.Instruction) bool {
					ret, ok := exit.(*ssa.Return)
					if !ok {
						return true
					}
					for _, nr := range MaybeNilErrorReturns(notify) {
						if nr.Ret == ret && !sameOrigin(nr.Val, hc.Value()) {
							return false
						}
					}
					return true
				},
				IgnorePanics: true,
			})
			r.Check(len(leaks) == 0, "Y-enqueue", construct, p.Pos(hc.Pos()),
				"a failing hook makes NotifyBlobReceived return a non-nil error", "NotifyBlobReceived can return nil although a hook failed: "+c19LeakText(p, leaks))
			continue
		}
		// group form: literal spawned through a Group, joined before any nil return
		var spawn CallSite
		for _, c := range CallsIn(hc.Fn.Parent(), false) {
			if isSpawner(c) {
				for _, l := range FuncArgClosures(c) {
					if l == hc.Fn {
						spawn = c
					}
				}
			}
		}
		if spawn.Instr == nil || hc.Fn.Parent() != notify {
			r.Violation("Y-enqueue", construct, p.Pos(hc.Pos()), "hook is called from a literal that is not run through an error-collecting group: its error is lost")
			continue
		}
		retOK := true
		for _, ri := range Returns(hc.Fn) {
			if len(ri.Results) != 1 || !sameOrigin(ri.Results[0], hc.Value()) {
				retOK = false
			}
		}
		if !retOK {
			r.Violation("Y-enqueue", construct, p.Pos(hc.Pos()), "the literal running the hook does not return the hook's error to the group")
			continue
		}
		grp := spawn.Args()[0]
		var join *ssa.Call
		for _, c := range CallsIn(notify, false) {
			if c.Value() != nil && (c.IsStatic("go4.org/syncutil", "Group", "Err") || c.IsStatic("go4.org/syncutil", "Group", "Wait") || c.IsStatic("golang.org/x/sync/errgroup", "Group", "Wait")) && sameOrigin(c.Args()[0], grp) {
				if _, hasErr, _ := ErrValue(c.Value()); hasErr {
					join = c.Value()
				}
			}
		}
		if join == nil {
			r.Violation("Y-enqueue", construct, p.Pos(hc.Pos()), "the group running the hooks is never joined for its error (Err/Wait returning the first hook error)")
			continue
		}
		bad := ""
		for _, nr := range MaybeNilErrorReturns(notify) {
			at := ssa.Instruction(nr.Ret)
			if nr.From != nil && nr.From != nr.Ret.Block() {
				at = c19LastInstr(nr.From)
			}
			if sameOrigin(nr.Val, join) {
				continue
			}
			if ok, w := SuccessDominates(join, at); !ok {
				bad = fmt.Sprintf("nil return at %s: %s", p.Pos(nr.Ret.Pos()), w)
			}
		}
		r.Check(bad == "", "Y-enqueue", construct, p.Pos(hc.Pos()),
			"hooks run in a group; every possibly-nil return is on the err==nil edge of the group's join", "a hook's error can be swallowed: "+bad)
	}
}

// c19NotifyCaller: the function that notifies the hub returns the hub's error
// and notifies the hub of the store that received the blob. When the
// notification sits in an unexported helper all of whose callers are known and
// the hub / storage / SizedRef it uses are the helper's parameters, the
// questions the helper cannot answer are asked at each caller instead (with the
// helper call in the role of the notification).
func c19NotifyCaller(p *Program, r *Reporter, a *c19Anchors, c CallSite) {
	if c.Value() == nil {
		r.Violation("Y-enqueue", FuncKey(c.Fn)+"#NotifyBlobReceived#error", p.Pos(c.Pos()), "NotifyBlobReceived started with go/defer: hook errors never reach the uploader")
		return
	}
	c19NotifyAt(p, r, a, c, c.Args()[0], nil, c.Args()[1], 0)
}

func c19ParamIndex(fn *ssa.Function, v ssa.Value) int {
	prm, ok := originValue(v).(*ssa.Parameter)
	if !ok || v == nil {
		return -1
	}
	for i, q := range fn.Params {
		if q == prm {
			return i
		}
	}
	return -1
}

// c19NotifyAt: c is the notification (or a call of a helper that performs it and
// returns its error); hub is the hub value when the storage it belongs to is not
// known yet, hubOf that storage once known, sbv the SizedRef notified.
func c19NotifyAt(p *Program, r *Reporter, a *c19Anchors, c CallSite, hub, hubOf, sbv ssa.Value, depth int) {
	fn := c.Fn
	construct := FuncKey(fn) + "#NotifyBlobReceived"
	ev, _, discarded := ErrValue(c.Value())
	if discarded {
		r.Violation("Y-enqueue", construct+"#error", p.Pos(c.Pos()), "the error of NotifyBlobReceived is discarded: a failed enqueue is reported to the uploader as success")
		return
	}
	if ErrResultIndex(fn) < 0 {
		r.Violation("Y-enqueue", construct+"#error", p.Pos(c.Pos()), "the notifying function cannot return the hook error")
		return
	}
	after := ReachableFrom(c.Instr, nil)
	bad := ""
	for _, nr := range MaybeNilErrorReturns(fn) {
		if !after[nr.Ret] {
			continue
		}
		at := ssa.Instruction(nr.Ret)
		if nr.From != nil && nr.From != nr.Ret.Block() {
			at = c19LastInstr(nr.From)
		}
		if sameOrigin(nr.Val, ev) {
			continue
		}
		if ok, w := SuccessDominates(c.Value(), at); !ok {
			bad = fmt.Sprintf("return at %s: %s", p.Pos(nr.Ret.Pos()), w)
		}
	}
	r.Check(bad == "", "Y-enqueue", construct+"#error", p.Pos(c.Pos()),
		"every possibly-nil return after the notification returns its error or is on its err==nil edge", "a hook error can be swallowed: "+bad)
	// which hub, after which store
	if hubOf == nil && hub != nil {
		if hubCall, ok := originValue(hub).(*ssa.Call); ok && (CallSite{hubCall.Parent(), hubCall}).IsStatic("perkeep.org/pkg/blobserver", "", "GetHub") {
			hubOf, hub = hubCall.Call.Args[0], nil
		}
	}
	okStore := false
	if hubOf != nil {
		for _, sc := range CallsIn(fn, false) {
			dst, _, _, ok := c19StoreCall(sc, a)
			if !ok || !sameOrigin(dst, hubOf) {
				continue
			}
			if ok, _ := SuccessDominates(sc.Value(), c.Instr); ok {
				if sb := ResultValue(sc.Value(), 0); sb != nil && sameOrigin(sbv, sb) {
					okStore = true
				}
			}
		}
	}
	if okStore {
		r.OK("Y-enqueue", construct+"#hub", p.Pos(c.Pos()), "the hub notified is that of the store whose ReceiveBlob just succeeded, with the SizedRef it returned")
		return
	}
	// a helper that is handed the hub (or the storage) and the SizedRef: ask its callers
	iHub, iOf, iSb := -1, -1, c19ParamIndex(fn, sbv)
	if hub != nil {
		iHub = c19ParamIndex(fn, hub)
	}
	if hubOf != nil {
		iOf = c19ParamIndex(fn, hubOf)
	}
	helper := fn.Parent() == nil && !token.IsExported(fn.Name()) && depth < 3 && len(p.FuncValueUses(fn)) == 0 && len(p.InvokeSites(fn)) == 0 &&
		iSb >= 0 && (iHub >= 0 || iOf >= 0)
	var callers []CallSite
	if helper {
		for _, cc := range p.StaticCallers(fn) {
			if cc.Fn.Synthetic != "" || cc.Value() == nil {
				helper = false
			}
			callers = append(callers, cc)
		}
	}
	if helper && len(callers) > 0 {
		for _, cc := range callers {
			args := cc.Args()
			var h2, of2 ssa.Value
			if iHub >= 0 && iHub < len(args) {
				h2 = args[iHub]
			}
			if iOf >= 0 && iOf < len(args) {
				of2 = args[iOf]
			}
			if iSb >= len(args) {
				continue
			}
			c19NotifyAt(p, r, a, cc, h2, of2, args[iSb], depth+1)
		}
		return
	}
	if hubOf == nil {
		r.Undecided("Y-enqueue", construct+"#hub", p.Pos(c.Pos()), "hub is not obtained from GetHub in the same function")
		return
	}
	r.Violation("Y-enqueue", construct+"#hub", p.Pos(c.Pos()),
		"the notification is not for (the hub of) the store whose ReceiveBlob just succeeded, or not with the SizedRef it returned")
}

// ---------------------------------------------------------------------------
// Y-reload / Y-start

// c19ReloadExceptions: builders that need not reload the queue. Each entry is
// one function + one reason and is re-checked structurally on every run.
var c19ReloadExceptions = map[string]string{
	"pkg/server.NewSyncHandler": "exported library constructor that is given a queue by its caller; it has no caller in the module (only tests, with a fresh in-memory queue) — the exception lapses as soon as module code calls it",
}

// c19UpOrigin follows a value to where it was made: through single-store locals
// and captured variables (originValue) and, when it is a parameter of an
// unexported top-level function that has exactly one call/go/defer site in the
// module and is never used as a value, to the argument at that site (bound 3) —
// a function literal turned into a method receives as parameters what the
// literal captured.
func c19UpOrigin(p *Program, v ssa.Value) ssa.Value {
	for i := 0; i < 4 && v != nil; i++ {
		v = originValue(v)
		prm, ok := v.(*ssa.Parameter)
		if !ok {
			return v
		}
		F := prm.Parent()
		if F.Parent() != nil || token.IsExported(F.Name()) || len(p.FuncValueUses(F)) > 0 || len(p.InvokeSites(F)) > 0 {
			return v
		}
		var site *CallSite
		n := 0
		for _, c := range p.StaticCallers(F) {
			if c.Fn.Synthetic != "" {
				return v
			}
			c := c
			site = &c
			n++
		}
		if n != 1 {
			return v
		}
		idx := -1
		for j, q := range F.Params {
			if q == prm {
				idx = j
			}
		}
		args := site.Args()
		if idx < 0 || idx >= len(args) {
			return v
		}
		v = args[idx]
	}
	return originValue(v)
}

func c19YReload(p *Program, r *Reporter, a *c19Anchors) {
	x := a.x
	// the queue enumerator, by role: the function that encloses queue.Find
	var qe *ssa.Function
	for _, f := range a.qFind {
		qe = TopFunc(f.Fn)
	}
	// its output parameter: the channel of blob.SizedRef it can send on
	qeDst := -1
	if qe != nil {
		for i, prm := range qe.Params {
			if ch, ok := prm.Type().Underlying().(*types.Chan); ok && ch.Dir() != types.RecvOnly && IsNamed(ch.Elem(), "perkeep.org/pkg/blob", "SizedRef") {
				qeDst = i
			}
		}
	}
	// reload units, by role: the functions that make the channel the queue
	// enumerator sends on (and so consume what it produces)
	type unit struct {
		fn     *ssa.Function
		ch     ssa.Value // the element channel (MakeChan in fn); nil when it could not be identified
		launch *ssa.Call // the call of the queue enumerator
	}
	var units []unit
	isUnit := map[*ssa.Function]bool{}
	if qe != nil && qeDst >= 0 {
		for _, c := range p.StaticCallers(qe) {
			if c.Fn.Synthetic != "" || c.Fn.Pkg == nil || IsTestSupportPkg(RelPkg(c.Fn.Pkg.Pkg)) || qeDst >= len(c.Args()) {
				continue
			}
			construct := FuncKey(c.Fn) + "#enumerates-queue"
			if c.Value() == nil {
				r.Undecided("Y-reload", construct, p.Pos(c.Pos()), "the queue enumerator is started directly by go/defer: its result is not followed")
				continue
			}
			mk, ok := c19UpOrigin(p, c.Args()[qeDst]).(*ssa.MakeChan)
			if !ok {
				// the channel variable is reassigned, or comes from somewhere that is not followed:
				// the function that launches the enumerator is taken as the reload function,
				// and what it does with the elements is reported as not followed
				u := unit{TopFunc(c.Fn), nil, c.Value()}
				units = append(units, u)
				isUnit[u.fn] = true
				continue
			}
			u := unit{TopFunc(mk.Parent()), mk, c.Value()}
			units = append(units, u)
			isUnit[u.fn] = true
		}
	}
	sort.SliceStable(units, func(i, j int) bool { return FuncKey(units[i].fn) < FuncKey(units[j].fn) })

	// reloadDone: the plain call c (in a builder) reloads the queue of handler sh: it
	// calls a reload unit on sh, or a helper at whose every successful return such
	// a call has succeeded
	reloadDone := func(c CallSite, sh ssa.Value) bool {
		if c.Value() == nil {
			return false
		}
		onHandler := func(e CallSite, fr *c19Frame, rootFr *c19Frame) bool {
			if !isUnit[e.Callee()] {
				return false
			}
			for _, arg := range e.Args() {
				if x.same(arg, fr, sh, rootFr) {
					return true
				}
			}
			return false
		}
		root := x.root(c.Fn)
		if onHandler(c, root, root) {
			return true
		}
		if nf := x.enter(c, root); nf != nil {
			for _, e := range x.insideOf(nf, true).evs {
				if e.c.Value() != nil && onHandler(e.c, e.fr, root) {
					return true
				}
			}
		}
		return false
	}

	// Y-start: the copy loop is started. runsLoop: every path through g reaches a
	// call of the copy loop on the handler.
	var runsLoop func(g *ssa.Function, sh ssa.Value, depth int) bool
	loopCall := func(in ssa.Instruction, sh ssa.Value, depth int) bool {
		call, ok := in.(*ssa.Call)
		if !ok {
			return false
		}
		c := CallSite{in.Parent(), call}
		g := c.Callee()
		if g == nil {
			return false
		}
		if g == a.syncLoop {
			return c19FlowsFrom(call.Call.Args[0], sh)
		}
		if g.Blocks == nil || g.Synthetic != "" || g.Pkg != in.Parent().Pkg {
			return false
		}
		var sh2 ssa.Value
		for i, arg := range c.Args() {
			if i < len(g.Params) && c19FlowsFrom(arg, sh) {
				sh2 = g.Params[i]
			}
		}
		if sh2 == nil && g.Parent() != nil {
			sh2 = sh
		}
		return sh2 != nil && runsLoop(g, sh2, depth+1)
	}
	runsLoop = func(g *ssa.Function, sh ssa.Value, depth int) bool {
		if g == nil || len(g.Blocks) == 0 || depth > 3 {
			return false
		}
		stop := func(in ssa.Instruction) bool { return loopCall(in, sh, depth) }
		first := g.Blocks[0].Instrs[0]
		if stop(first) {
			return true
		}
		return len(LeakingExits(PathQuery{Start: first, Stop: stop, IgnorePanics: true})) == 0
	}
	startsLoop := c19DeepStop(func(in ssa.Instruction, sh, _ ssa.Value) bool {
		g, ok := in.(*ssa.Go)
		if !ok {
			return false
		}
		c := CallSite{in.Parent(), g}
		callee := c.Callee()
		if callee == nil {
			return false
		}
		if callee == a.syncLoop {
			return sameOrigin(c.Args()[0], sh)
		}
		if callee.Parent() != nil {
			return runsLoop(callee, sh, 0) // a literal sees the handler through its captured variables
		}
		if callee.Blocks == nil || callee.Synthetic != "" || callee.Pkg != in.Parent().Pkg {
			return false
		}
		for i, arg := range c.Args() {
			if i < len(callee.Params) && sameOrigin(arg, sh) && runsLoop(callee, callee.Params[i], 0) {
				return true
			}
		}
		return false
	})
	isReload := c19DeepStop(func(in ssa.Instruction, sh, _ ssa.Value) bool {
		call, ok := in.(*ssa.Call)
		return ok && reloadDone(CallSite{in.Parent(), call}, sh)
	})

	// inlineWaits: when the reload function was inlined into builder g (g itself makes
	// the channel the queue enumerator sends on), the reload of handler sh is complete
	// where g receives the enumerator's result
	inlineWaits := func(g *ssa.Function, sh ssa.Value) []*ssa.UnOp {
		var out []*ssa.UnOp
		for _, u := range units {
			if u.fn != g || u.launch == nil {
				continue
			}
			onSh := false
			for _, arg := range u.launch.Call.Args {
				if c19FlowsFrom(arg, sh) {
					onSh = true
				}
			}
			if !onSh {
				continue
			}
			for _, b := range u.launch.Parent().Blocks {
				for _, in := range b.Instrs {
					snd, ok := in.(*ssa.Send)
					if !ok || !sameOrigin(snd.X, u.launch) {
						continue
					}
					ch := c19UpOrigin(p, snd.Chan)
					for _, gb := range g.Blocks {
						for _, gi := range gb.Instrs {
							if rcv, ok := gi.(*ssa.UnOp); ok && rcv.Op == token.ARROW && !rcv.CommaOk && originValue(rcv.X) == ch {
								out = append(out, rcv)
							}
						}
					}
				}
			}
		}
		return out
	}
	builderFns := map[*ssa.Function]bool{}

	for _, b0 := range c19Builders(p, a) {
		c19Discharge(p, b0,
			func(b c19Builder) func(ssa.Instruction) bool {
				return func(in ssa.Instruction) bool { return startsLoop(in, b.sh, b.from) }
			},
			func(b c19Builder, leaks []Leak) {
				r.Check(len(leaks) == 0, "Y-start", FuncKey(b.g)+"#copy-loop", p.Pos(b.start.Pos()),
					"every path handing the handler out has started its copy loop (go syncLoop, or a go literal/function all of whose paths reach syncLoop)",
					"a handler is handed out whose copy loop was never started (queued blobs are never copied): "+c19LeakText(p, leaks))
			})
		c19Discharge(p, b0,
			func(b c19Builder) func(ssa.Instruction) bool {
				waits := map[ssa.Instruction]bool{}
				for _, w := range inlineWaits(b.g, b.sh) {
					waits[w] = true
				}
				return func(in ssa.Instruction) bool { return waits[in] || isReload(in, b.sh, b.from) }
			},
			func(b c19Builder, leaks []Leak) {
				construct := FuncKey(b.g) + "#reload"
				site := p.Pos(b.start.Pos())
				builderFns[b.g] = true
				if len(leaks) > 0 {
					if why, ok := c19ReloadExceptions[FuncKey(b.g)]; ok {
						n := 0
						for _, c := range p.StaticCallers(b.g) {
							if !IsTestSupportPkg(RelPkg(c.Fn.Pkg.Pkg)) {
								n++
							}
						}
						n += len(p.FuncValueUses(b.g))
						r.Check(n == 0, "Y-reload", construct, site, "exception (re-checked: no caller in the module): "+why,
							fmt.Sprintf("%s builds a handler over a caller-supplied queue without reloading it and now has %d use(s) in the module: rows pending from a previous run are never copied", FuncKey(b.g), n))
						return
					}
					r.Violation("Y-reload", construct, site, "a handler is handed out without the persistent queue having been read into memory (rows pending from a previous run are never copied): "+c19LeakText(p, leaks))
					return
				}
				bad := ""
				for _, c := range CallsIn(b.g, false) {
					if c.Value() == nil || !reloadDone(c, b.sh) {
						continue
					}
					ev, _, discarded := ErrValue(c.Value())
					if discarded {
						bad = "the error of the queue reload is discarded"
						break
					}
					fl := LeakingExits(PathQuery{
						Start:  c.Instr,
						Stop:   func(ssa.Instruction) bool { return false },
						Assume: c19AssumeFailed(ev),
						ExitOK: func(exit ssa.Instruction) bool {
							ret, ok := exit.(*ssa.Return)
							return ok && !c19HandsOut(ret, b.sh)
						},
						IgnorePanics: true,
					})
					if len(fl) > 0 {
						bad = "a handler is handed out although reading the queue failed: " + c19LeakText(p, fl)
					}
				}
				for _, w := range inlineWaits(b.g, b.sh) {
					fl := LeakingExits(PathQuery{
						Start:  w,
						Stop:   func(ssa.Instruction) bool { return false },
						Assume: c19AssumeFailed(w),
						ExitOK: func(exit ssa.Instruction) bool {
							ret, ok := exit.(*ssa.Return)
							return ok && !c19HandsOut(ret, b.sh)
						},
						IgnorePanics: true,
					})
					if len(fl) > 0 {
						bad = "a handler is handed out although the queue enumerator reported an error: " + c19LeakText(p, fl)
					}
				}
				r.Check(bad == "", "Y-reload", construct, site,
					"every path handing the handler out passed the queue reload (readQueueToMemory) on it, and none does when it failed", bad)
			})
	}

	// inside the reload function(s)
	if qe == nil {
		r.Violation("Y-reload", "pkg/server#queue.Find", "?", "nothing ever reads the persistent queue")
		return
	}
	if len(units) == 0 {
		r.Violation("Y-reload", FuncKey(qe)+"#enumerates-queue", p.Pos(qe.Pos()), "no function consumes the queue enumerator "+FuncKey(qe)+": the persistent queue is never read into memory")
	}
	for _, u := range units {
		rq, qeCall := u.fn, u.launch
		root := x.root(rq)
		if u.ch == nil {
			r.Undecided("Y-reload", FuncKey(rq)+"#feeds-memory", p.Pos(qeCall.Pos()), "the channel handed to the queue enumerator is not a single channel value made by its consumer (it is reassigned, or comes through something that is not followed): whether every element produced reaches the in-memory pending set cannot be followed")
			continue
		}
		fromChan := func(v ssa.Value, fr *c19Frame) bool {
			un, ok := v.(*ssa.UnOp)
			if !ok || un.Op != token.ARROW {
				return false
			}
			o, of := x.origin(un.X, fr)
			_ = of
			return o == ssa.Value(u.ch)
		}
		fed := false
		skipped := ""
		if a.memAdd != nil {
			var visit func(fr *c19Frame, depth int)
			visit = func(fr *c19Frame, depth int) {
				// receive loops over the element channel (`for sb := range ch` / `sb, ok := <-ch`):
				// on every path from the loop body back to the next receive the element has
				// been handed to the in-memory add
				for _, b := range fr.callee.Blocks {
					for _, in := range b.Instrs {
						rcv, ok := in.(*ssa.UnOp)
						if !ok || rcv.Op != token.ARROW || !rcv.CommaOk {
							continue
						}
						if o, _ := x.origin(rcv.X, fr); o != ssa.Value(u.ch) {
							continue
						}
						ifi, ok := c19LastInstr(b).(*ssa.If)
						if !ok {
							continue
						}
						ex, ok := ifi.Cond.(*ssa.Extract)
						if !ok || ex.Tuple != ssa.Value(rcv) || ex.Index != 1 {
							continue
						}
						var elem ssa.Value
						if refs := rcv.Referrers(); refs != nil {
							for _, ru := range *refs {
								if e0, ok := ru.(*ssa.Extract); ok && e0.Index == 0 {
									elem = e0
								}
							}
						}
						adds := func(x2 ssa.Instruction) bool {
							call, ok := x2.(*ssa.Call)
							if !ok || elem == nil || !c19Adds(a, (CallSite{x2.Parent(), call}).Callee(), 0) {
								return false
							}
							for _, arg := range call.Call.Args {
								if c19FlowsFrom(arg, elem) {
									return true
								}
							}
							return false
						}
						seenB := map[*ssa.BasicBlock]bool{}
						var walkB func(bb *ssa.BasicBlock, via []*ssa.BasicBlock)
						walkB = func(bb *ssa.BasicBlock, via []*ssa.BasicBlock) {
							if skipped != "" {
								return
							}
							if bb == b {
								skipped = "next receive at " + p.Pos(rcv.Pos()) + " reached via blocks " + blockNames(via) + " in " + FuncKey(fr.callee)
								return
							}
							if seenB[bb] {
								return
							}
							seenB[bb] = true
							via = append(via, bb)
							for _, x2 := range bb.Instrs {
								if adds(x2) {
									return
								}
								switch x2.(type) {
								case *ssa.Return, *ssa.Panic:
									return
								}
							}
							for _, sc := range bb.Succs {
								walkB(sc, via)
							}
						}
						walkB(b.Succs[0], nil)
					}
				}
				for _, c := range CallsIn(fr.callee, true) {
					g := c.Callee()
					if g == nil {
						continue
					}
					if c19Adds(a, g, 0) {
						for _, arg := range c.Args() {
							if x.flows(arg, fr, fromChan) {
								fed = true
							}
						}
					}
					if c.Fn == fr.callee {
						if nf := x.enter(c, fr); nf != nil && depth < c19MaxDepth {
							visit(nf, depth+1)
						}
					}
				}
			}
			visit(root, 0)
		}
		switch {
		case !fed:
			r.Violation("Y-reload", FuncKey(rq)+"#feeds-memory", p.Pos(qeCall.Pos()), "the elements produced by the queue enumerator do not reach the in-memory pending set")
		case skipped != "":
			r.Violation("Y-reload", FuncKey(rq)+"#feeds-memory", p.Pos(qeCall.Pos()), "an element received from the queue enumerator can be dropped without being handed to the in-memory add ("+skipped+"): that pending blob is not copied after a restart")
		default:
			r.OK("Y-reload", FuncKey(rq)+"#feeds-memory", p.Pos(qeCall.Pos()), "each element received from the enumerator's channel is handed to the in-memory add before the next one is received")
		}
		if builderFns[rq] {
			// the reload is inlined into a builder: "the enumerator's error is returned" is the
			// builder's "no handler is handed out when the reload failed", checked above
			continue
		}
		errOK := true
		detail := ""
		for _, ri := range Returns(rq) {
			if len(ri.Results) == 0 {
				errOK, detail = false, "the reload function returns no error"
				continue
			}
			v := ri.Results[len(ri.Results)-1]
			if sameOrigin(v, qeCall) {
				continue
			}
			okThis := false
			if un, ok := originValue(v).(*ssa.UnOp); ok && un.Op == token.ARROW {
				ch := originValue(un.X)
				for _, b := range qeCall.Parent().Blocks {
					for _, in := range b.Instrs {
						if s, ok := in.(*ssa.Send); ok && c19UpOrigin(p, s.Chan) == ch && sameOrigin(s.X, qeCall) {
							okThis = true
						}
					}
				}
			}
			if !okThis {
				errOK = false
				detail = "return at " + p.Pos(ri.Ret.Pos()) + " does not return the queue enumerator's error"
			}
		}
		r.Check(errOK, "Y-reload", FuncKey(rq)+"#returns-enum-error", p.Pos(rq.Pos()),
			"every return yields the enumerator's error (directly or through the channel it is sent on)", "a failed queue scan would be reported as a complete reload: "+detail)
	}

	c19EnumeratorRules(p, r, a, qe)
}

// c19Adds: g puts a blob it is handed into the in-memory pending set: it is the
// function that updates needCopy, or hands one of its own parameters to one.
func c19Adds(a *c19Anchors, g *ssa.Function, depth int) bool {
	if g == nil || a.memAdd == nil {
		return false
	}
	if g == a.memAdd {
		return true
	}
	if g.Blocks == nil || depth > 2 || g.Pkg != a.memAdd.Pkg {
		return false
	}
	for _, c := range CallsIn(g, false) {
		if c.Value() == nil || !c19Adds(a, c.Callee(), depth+1) {
			continue
		}
		for _, arg := range c.Args() {
			if _, ok := originValue(arg).(*ssa.Parameter); ok && IsNamed(arg.Type(), "perkeep.org/pkg/blob", "SizedRef") {
				return true
			}
		}
	}
	return false
}

func c19EnumeratorRules(p *Program, r *Reporter, a *c19Anchors, qe *ssa.Function) {
	for _, f := range a.qFind {
		construct := FuncKey(qe) + "#Find-range"
		ar := f.Args()
		s1, ok1 := ConstString(ar[1])
		s2, ok2 := ConstString(ar[2])
		r.Check(ok1 && ok2 && s1 == "" && s2 == "", "Y-reload", construct, p.Pos(f.Pos()),
			"the whole queue is scanned (Find(\"\", \"\"))", "the reload does not scan the whole queue: rows outside the range are never reloaded")
		if f.Fn != qe || f.Value() == nil {
			continue
		}
		it := ssa.Value(f.Value())
		onIter := func(c CallSite, name string) bool {
			return c.Common().IsInvoke() && c.MethodName() == name && sameOrigin(c.Common().Value, it)
		}
		// Close error returned
		bad := ""
		for _, ri := range Returns(qe) {
			v := ri.Results[len(ri.Results)-1]
			call, ok := originValue(v).(*ssa.Call)
			if !ok || !onIter(CallSite{qe, call}, "Close") {
				bad = "return at " + p.Pos(ri.Ret.Pos()) + " does not return the iterator's Close error (iteration errors are reported there)"
			}
		}
		r.Check(bad == "", "Y-reload", FuncKey(qe)+"#returns-iter-error", p.Pos(f.Pos()),
			"every return yields it.Close() of the queue iterator", bad)

		// every row is sent unless parsing failed
		var next *ssa.Call
		for _, c := range CallsIn(qe, false) {
			if onIter(c, "Next") && c.Value() != nil {
				next = c.Value()
			}
		}
		if next == nil {
			r.Violation("Y-reload", FuncKey(qe)+"#rows", p.Pos(f.Pos()), "the queue iterator is never advanced")
			continue
		}
		var body *ssa.BasicBlock
		if ifi, ok := c19LastInstr(next.Block()).(*ssa.If); ok {
			cond, pos := ifi.Cond, true
			for {
				if u, ok := cond.(*ssa.UnOp); ok && u.Op == token.NOT {
					cond, pos = u.X, !pos
					continue
				}
				break
			}
			if originValue(cond) == ssa.Value(next) {
				body = next.Block().Succs[0]
				if !pos {
					body = next.Block().Succs[1] // `if !it.Next() { break }`
				}
			}
		}
		if body == nil {
			r.Undecided("Y-reload", FuncKey(qe)+"#rows", p.Pos(next.Pos()), "loop shape not recognised (Next() is not the loop condition)")
			continue
		}
		// the parse calls of the enumerator's effective body (the row parser may be a helper)
		var parseErrs []ssa.Value
		parseOKs := map[ssa.Value]bool{}
		a.x.effectiveCalls(a.x.root(qe), func(c CallSite, _ *c19Frame) {
			if c.Value() == nil {
				return
			}
			if c.IsStatic("perkeep.org/pkg/blob", "", "Parse") {
				if v := ResultValue(c.Value(), 1); v != nil {
					parseOKs[v] = true
				}
			}
			if c.IsStatic("strconv", "", "ParseUint") || c.IsStatic("strconv", "", "ParseInt") || c.IsStatic("strconv", "", "Atoi") {
				if ev, has, _ := ErrValue(c.Value()); has && ev != nil {
					parseErrs = append(parseErrs, ev)
				}
			}
		})
		// assume: the truth of a branch condition for a row that parses. A result of a
		// same-package helper counts as "parsed" when, on the paths of the helper that
		// a parsing row can take, every return yields true / a nil error there.
		var assume func(cond ssa.Value) (bool, bool)
		goodMemo := map[[2]any]int{}
		var goodResult func(h *ssa.Function, idx int) bool
		helperResult := func(v ssa.Value) (*ssa.Function, int, bool) {
			var call *ssa.Call
			idx := 0
			switch t := originValue(v).(type) {
			case *ssa.Call:
				call = t
			case *ssa.Extract:
				call, _ = t.Tuple.(*ssa.Call)
				idx = t.Index
			}
			if call == nil {
				return nil, 0, false
			}
			h := (CallSite{call.Parent(), call}).Callee()
			if h == nil || h.Blocks == nil || h.Synthetic != "" || h.Pkg != qe.Pkg {
				return nil, 0, false
			}
			return h, idx, true
		}
		goodResult = func(h *ssa.Function, idx int) bool {
			k := [2]any{h, idx}
			switch goodMemo[k] {
			case 1:
				return false
			case 2:
				return true
			case 3:
				return false
			}
			goodMemo[k] = 1
			ok := true
			n := 0
			seenB := map[*ssa.BasicBlock]bool{}
			var walkH func(b *ssa.BasicBlock)
			walkH = func(b *ssa.BasicBlock) {
				if seenB[b] || !ok {
					return
				}
				seenB[b] = true
				switch t := c19LastInstr(b).(type) {
				case *ssa.Return:
					n++
					if idx >= len(t.Results) {
						ok = false
						return
					}
					res := resolveReturnValue(t.Results[idx], t)
					switch {
					case isErrorType(res.Type()):
						good := IsNilConst(res)
						for _, ev := range parseErrs {
							if sameOrigin(res, ev) {
								good = true
							}
						}
						if h2, i2, isH := helperResult(res); isH && goodResult(h2, i2) {
							good = true
						}
						if !good {
							ok = false
						}
					default:
						c, isConst := res.(*ssa.Const)
						good := isConst && c.Value != nil && c.Value.String() == "true"
						if parseOKs[originValue(res)] {
							good = true
						}
						if h2, i2, isH := helperResult(res); isH && goodResult(h2, i2) {
							good = true
						}
						if !good {
							ok = false
						}
					}
					return
				case *ssa.If:
					if k, v := assume(t.Cond); k {
						if v {
							walkH(b.Succs[0])
						} else {
							walkH(b.Succs[1])
						}
						return
					}
				}
				for _, sc := range b.Succs {
					walkH(sc)
				}
			}
			walkH(h.Blocks[0])
			if n == 0 {
				ok = false
			}
			if ok {
				goodMemo[k] = 2
			} else {
				goodMemo[k] = 3
			}
			return ok
		}
		assume = func(cond ssa.Value) (bool, bool) {
			val := true
			for {
				if u, ok := cond.(*ssa.UnOp); ok && u.Op == token.NOT {
					cond, val = u.X, !val
					continue
				}
				break
			}
			if parseOKs[originValue(cond)] {
				return true, val
			}
			for _, ev := range parseErrs {
				if k, isNil := condSaysNil(cond, true, ev); k {
					// parse succeeded: ev is nil
					return true, isNil == val
				}
			}
			if h, idx, ok := helperResult(cond); ok && !isErrorType(cond.Type()) && goodResult(h, idx) {
				return true, val
			}
			if bo, ok := cond.(*ssa.BinOp); ok && (bo.Op == token.EQL || bo.Op == token.NEQ) {
				other := bo.X
				if IsNilConst(bo.X) {
					other = bo.Y
				} else if !IsNilConst(bo.Y) {
					return false, false
				}
				if h, idx, ok := helperResult(other); ok && isErrorType(other.Type()) && goodResult(h, idx) {
					return true, (bo.Op == token.EQL) == val
				}
			}
			return false, false
		}
		isSend := func(in ssa.Instruction) bool {
			isDst := func(ch ssa.Value) bool {
				prm, ok := originValue(ch).(*ssa.Parameter)
				return ok && prm.Parent() == qe
			}
			switch x := in.(type) {
			case *ssa.Send:
				return isDst(x.Chan)
			case *ssa.Select:
				for _, st := range x.States {
					if st.Dir == types.SendOnly && isDst(st.Chan) {
						return true
					}
				}
			}
			return false
		}
		skipped := ""
		seen := map[*ssa.BasicBlock]bool{}
		var walk func(b *ssa.BasicBlock, via []int)
		walk = func(b *ssa.BasicBlock, via []int) {
			if skipped != "" {
				return
			}
			if b == next.Block() {
				skipped = fmt.Sprintf("blocks %v", via)
				return
			}
			if seen[b] {
				return
			}
			seen[b] = true
			via = append(via, b.Index)
			for _, in := range b.Instrs {
				if isSend(in) {
					return
				}
				switch t := in.(type) {
				case *ssa.Return, *ssa.Panic:
					return
				case *ssa.If:
					if k, v := assume(t.Cond); k {
						if v {
							walk(b.Succs[0], via)
						} else {
							walk(b.Succs[1], via)
						}
						return
					}
				}
			}
			for _, s := range b.Succs {
				walk(s, via)
			}
		}
		walk(body, nil)
		r.Check(skipped == "", "Y-reload", FuncKey(qe)+"#rows", p.Pos(next.Pos()),
			"a row that parses is always sent to the consumer before the iterator advances (rows are skipped only on parse failure)",
			"a well-formed queue row can be skipped without being sent ("+skipped+"): that blob is never copied after a restart")
	}
}

// ---------------------------------------------------------------------------
// Y-codec

func c19YCodec(p *Program, r *Reporter, a *c19Anchors) {
	isInt := func(t types.Type) bool {
		b, ok := t.Underlying().(*types.Basic)
		return ok && b.Info()&types.IsInteger != 0
	}
	var keyFn *ssa.Function
	x := a.x
	setInstr := map[ssa.Instruction]bool{}
	for _, s := range a.qSet {
		setInstr[s.Instr] = true
	}
	// the writer is looked at from the registered hook (enqueue): the insertion
	// itself may sit in a helper that is handed the ref / size / rendered strings
	writers := a.enqs
	if len(writers) == 0 {
		for _, s := range a.qSet {
			writers = append(writers, TopFunc(s.Fn))
		}
	}
	seenSet := map[ssa.Instruction]bool{}
	for _, enq := range writers {
		root := x.root(enq)
		job := c19ParamOfType(enq, a.sizedRef)
		x.effectiveCalls(root, func(s CallSite, fr *c19Frame) {
			if !setInstr[s.Instr] || seenSet[s.Instr] {
				return
			}
			seenSet[s.Instr] = true
			construct := FuncKey(enq) + "#row-writer"
			if job == nil || !c19StableParam(enq, job) {
				r.Undecided("Y-codec", construct, p.Pos(s.Pos()), "enqueue has no single, never-reassigned SizedRef parameter")
				return
			}
			refPath, sizePath := x.path(job, root)+".Ref", x.path(job, root)+".Size"
			isSize := func(v ssa.Value, f *c19Frame) bool { return x.path(v, f) == sizePath }
			bad := ""
			ko, kf := x.origin(s.Args()[1], fr)
			kc, ok := ko.(*ssa.Call)
			if !ok || !(CallSite{kc.Parent(), kc}).IsStatic("perkeep.org/pkg/blob", "Ref", "String") || x.path(kc.Call.Args[0], kf) != refPath {
				bad = "the row key is not (blob.Ref).String() of the enqueued ref (the reload parses keys with blob.Parse)"
			} else {
				keyFn = kc.Call.StaticCallee()
			}
			vo, vf := x.origin(s.Args()[2], fr)
			vc, ok := vo.(*ssa.Call)
			if bad == "" {
				switch {
				case !ok:
					bad = "the row value is not produced by a decimal formatter"
				case (CallSite{vc.Parent(), vc}).IsStatic("fmt", "", "Sprint"):
					var elems []ssa.Value
					if sl, ok := vc.Call.Args[0].(*ssa.Slice); ok {
						if al, ok := sl.X.(*ssa.Alloc); ok {
							if refs := al.Referrers(); refs != nil {
								for _, u := range *refs {
									if ia, ok := u.(*ssa.IndexAddr); ok {
										if rr := ia.Referrers(); rr != nil {
											for _, y := range *rr {
												if st, ok := y.(*ssa.Store); ok {
													elems = append(elems, st.Val)
												}
											}
										}
									}
								}
							}
						}
					}
					if len(elems) != 1 {
						bad = "the row value is fmt.Sprint of other than exactly one operand (the reload parses a bare base-10 integer)"
					} else if mi, ok := elems[0].(*ssa.MakeInterface); !ok || !isInt(mi.X.Type()) || !isSize(mi.X, vf) {
						bad = "the row value is not the decimal rendering of the enqueued size"
					}
				case (CallSite{vc.Parent(), vc}).IsStatic("strconv", "", "Itoa"):
					if !x.flows(vc, vf, isSize) {
						bad = "the row value is not the enqueued size"
					}
				case (CallSite{vc.Parent(), vc}).IsStatic("strconv", "", "FormatUint"), (CallSite{vc.Parent(), vc}).IsStatic("strconv", "", "FormatInt"):
					if base, ok := ConstInt(vc.Call.Args[1]); !ok || base != 10 {
						bad = "the row value is not base 10"
					} else if !x.flows(vc, vf, isSize) {
						bad = "the row value is not the enqueued size"
					}
				default:
					bad = "the row value is not produced by a known decimal formatter (fmt.Sprint, strconv.Itoa/FormatUint/FormatInt base 10)"
				}
			}
			r.Check(bad == "", "Y-codec", construct, p.Pos(s.Pos()), "row = (Ref.String() of the job, decimal size of the job)", bad+": rows written now would be dropped as bogus at the next start")
		})
	}
	for _, s := range a.qSet {
		if !seenSet[s.Instr] {
			r.Undecided("Y-codec", FuncKey(TopFunc(s.Fn))+"#row-writer", p.Pos(s.Pos()), "this insertion into the queue is not reached from the registered enqueue hook through plain static calls; what it writes is not followed")
		}
	}
	for _, f := range a.qFind {
		qe := TopFunc(f.Fn)
		construct := FuncKey(qe) + "#row-reader"
		if f.Value() == nil {
			continue
		}
		it := ssa.Value(f.Value())
		iterCall := func(v ssa.Value, name string) bool {
			c, ok := originValue(v).(*ssa.Call)
			return ok && c.Call.IsInvoke() && c.Call.Method.Name() == name && sameOrigin(c.Call.Value, it)
		}
		var refV, sizeV ssa.Value
		var refF, sizeF *c19Frame
		x := a.x
		root := x.root(qe)
		bad := "the reader does not parse the key with blob.Parse and the value with a base-10 integer parser"
		// the parse calls may sit in a helper that is handed it.Key() / it.Value()
		argIs := func(v ssa.Value, fr *c19Frame, name string) bool {
			o, _ := x.origin(v, fr)
			return iterCall(o, name)
		}
		x.effectiveCalls(root, func(c CallSite, fr *c19Frame) {
			if c.Value() == nil {
				return
			}
			switch {
			case c.IsStatic("perkeep.org/pkg/blob", "", "Parse") && argIs(c.Args()[0], fr, "Key"):
				refV, refF = ResultValue(c.Value(), 0), fr
			case c.IsStatic("strconv", "", "ParseUint") || c.IsStatic("strconv", "", "ParseInt"):
				if !argIs(c.Args()[0], fr, "Value") {
					return
				}
				base, ok1 := ConstInt(c.Args()[1])
				bits, ok2 := ConstInt(c.Args()[2])
				if !ok1 || base != 10 {
					bad = "the row value is not parsed in base 10"
					return
				}
				if !ok2 || (bits != 0 && bits < 32) {
					bad = "the row value is parsed with fewer than 32 bits (sizes are uint32)"
					return
				}
				sizeV, sizeF = ResultValue(c.Value(), 0), fr
			case c.IsStatic("strconv", "", "Atoi") && argIs(c.Args()[0], fr, "Value"):
				sizeV, sizeF = ResultValue(c.Value(), 0), fr
			}
		})
		okRead := false
		if refV != nil && sizeV != nil {
			for _, b := range qe.Blocks {
				for _, in := range b.Instrs {
					var sent []ssa.Value
					switch t := in.(type) {
					case *ssa.Send:
						sent = append(sent, t.X)
					case *ssa.Select:
						for _, st := range t.States {
							if st.Dir == types.SendOnly {
								sent = append(sent, st.Send)
							}
						}
					}
					for _, v := range sent {
						if x.flowsFrom(v, root, refV, refF) && x.flowsFrom(v, root, sizeV, sizeF) {
							okRead = true
						}
					}
				}
			}
			if !okRead {
				bad = "what is sent to the consumer is not built from the parsed key and value"
			}
		}
		r.Check(okRead, "Y-codec", construct, p.Pos(f.Pos()), "row parsed with blob.Parse(key) and base-10 ParseUint(value, >=32 bits); both reach the element sent", bad)
	}
	for _, d := range a.qDelete {
		construct := FuncKey(d.Fn) + "#row-deleter"
		kc, ok := c19UpOrigin(p, d.Args()[1]).(*ssa.Call)
		same := ok && keyFn != nil && kc.Call.StaticCallee() == keyFn
		r.Check(same, "Y-codec", construct, p.Pos(d.Pos()), "the deleted key is rendered by the same function as the inserted key",
			"the deleted key is not rendered by the function that renders the inserted key: the row of a copied blob is never removed (or another row is)")
	}
}

// ---------------------------------------------------------------------------
// Y-merge

func c19YMerge(p *Program, r *Reporter) {
	fn := p.Func("pkg/blobserver", "", "ListMissingDestinationBlobs")
	key := FuncKey(fn)
	var out *ssa.Parameter
	var ins []*ssa.Parameter
	for _, prm := range fn.Params {
		ch, ok := prm.Type().Underlying().(*types.Chan)
		if !ok || !IsNamed(ch.Elem(), "perkeep.org/pkg/blob", "SizedRef") {
			continue
		}
		if ch.Dir() == types.RecvOnly {
			ins = append(ins, prm)
		} else {
			out = prm
		}
	}
	if out == nil || len(ins) != 2 {
		brokenf("anchor unresolved: channel parameters of %s", key)
	}
	// close on every exit
	isClose := func(in ssa.Instruction) bool {
		ci, ok := in.(ssa.CallInstruction)
		if !ok {
			return false
		}
		if _, isGo := in.(*ssa.Go); isGo {
			return false
		}
		b, ok := ci.Common().Value.(*ssa.Builtin)
		return ok && b.Name() == "close" && originValue(ci.Common().Args[0]) == ssa.Value(out)
	}
	first := fn.Blocks[0].Instrs[0]
	closed := isClose(first)
	var leaks []Leak
	if !closed {
		leaks = LeakingExits(PathQuery{Start: first, Stop: isClose, IgnorePanics: true})
		closed = len(leaks) == 0
	}
	r.Check(closed, "Y-merge", key+"#close(destMissing)", p.Pos(fn.Pos()), "destMissing is closed (call or defer) on every path to every exit",
		"destMissing is not closed on every exit (the consumer ranging over it blocks for ever): "+c19LeakText(p, leaks))

	// peekers
	peekerOf := func(prm *ssa.Parameter) ssa.Value {
		for _, b := range fn.Blocks {
			for _, in := range b.Instrs {
				st, ok := in.(*ssa.Store)
				if !ok || originValue(st.Val) != ssa.Value(prm) {
					continue
				}
				if fa, ok := st.Addr.(*ssa.FieldAddr); ok && IsNamed(fa.X.Type(), "perkeep.org/pkg/blob", "ChanPeeker") {
					return originValue(fa.X)
				}
			}
		}
		return nil
	}
	src, dst := peekerOf(ins[0]), peekerOf(ins[1])
	if src == nil || dst == nil {
		r.Undecided("Y-merge", key+"#peekers", p.Pos(fn.Pos()), "source/destination are not consumed through blob.ChanPeeker values built in the function")
		return
	}
	on := func(c CallSite, pk ssa.Value, names ...string) bool {
		for _, n := range names {
			if c.IsStatic("perkeep.org/pkg/blob", "ChanPeeker", n) && originValue(c.Args()[0]) == pk {
				return true
			}
		}
		return false
	}
	fromPeeker := func(pk ssa.Value) func(ssa.Value) bool {
		return func(x ssa.Value) bool {
			call, ok := x.(*ssa.Call)
			return ok && on(CallSite{fn, call}, pk, "Peek", "MustPeek", "Take", "MustTake")
		}
	}
	var sends []*ssa.Send
	for _, b := range fn.Blocks {
		for _, in := range b.Instrs {
			if s, ok := in.(*ssa.Send); ok && originValue(s.Chan) == ssa.Value(out) {
				sends = append(sends, s)
			}
		}
	}
	for _, s := range sends {
		okS := c19Flows(s.X, fromPeeker(src)) && !c19Flows(s.X, fromPeeker(dst))
		r.Check(okS, "Y-merge", key+"#send", p.Pos(s.Pos()), "what is reported missing comes from the source enumeration only",
			"a value not taken from the source enumeration is reported as missing at the destination")
	}
	nTakes := 0
	for _, c := range CallsIn(fn, false) {
		if on(c, src, "ConsumeAll") {
			r.Undecided("Y-merge", key+"#src-take", p.Pos(c.Pos()), "source drained wholesale")
			continue
		}
		if !on(c, src, "Take", "MustTake") {
			continue
		}
		nTakes++
		construct := key + "#src-take"
		sent := false
		if c.Value() != nil {
			for _, s := range sends {
				if c19FlowsFrom(s.X, c.Value()) && (s.Block() == c.Block() || c.Block().Dominates(s.Block())) {
					sent = true
				}
			}
		}
		if sent {
			r.OK("Y-merge", construct, p.Pos(c.Pos()), "the source element taken here is sent to destMissing")
			continue
		}
		matched := false
		for _, f := range FactsAt(c.Block()) {
			bo, ok := f.Cond.(*ssa.BinOp)
			if !ok || !((bo.Op == token.EQL && f.Val) || (bo.Op == token.NEQ && !f.Val)) {
				continue
			}
			xs, xd := c19Flows(bo.X, fromPeeker(src)), c19Flows(bo.X, fromPeeker(dst))
			ys, yd := c19Flows(bo.Y, fromPeeker(src)), c19Flows(bo.Y, fromPeeker(dst))
			if (xs && !xd && yd && !ys) || (ys && !yd && xd && !xs) {
				matched = true
			}
		}
		r.Check(matched, "Y-merge", construct, p.Pos(c.Pos()), "the source element dropped here is under the fact that it equals the destination's head",
			"a source element is taken and neither sent to destMissing nor known equal to the destination's head: a blob missing at the destination is silently skipped")
	}
	// the source peeker handed to a same-package helper (an extracted case body): what the
	// helper takes from it is taken at the call; the call must be under the match fact
	for _, c := range CallsIn(fn, false) {
		g := c.Callee()
		if g == nil || on(c, src, "Peek", "MustPeek", "Take", "MustTake", "ConsumeAll", "Closed") {
			continue
		}
		idx := -1
		for i, arg := range c.Args() {
			if originValue(arg) == src {
				idx = i
			}
		}
		if idx < 0 {
			continue
		}
		construct := key + "#src-take"
		if c.Value() == nil || g.Blocks == nil || g.Synthetic != "" || g.Pkg != fn.Pkg || idx >= len(g.Params) {
			r.Undecided("Y-merge", construct, p.Pos(c.Pos()), "the source enumeration is handed to "+c.CalleeKey()+", which is not followed: what it takes from the source is not known")
			continue
		}
		takes, escapes := false, false
		if refs := g.Params[idx].Referrers(); refs != nil {
			for _, u := range *refs {
				switch u := u.(type) {
				case *ssa.DebugRef:
				case ssa.CallInstruction:
					hc := CallSite{g, u}
					switch {
					case hc.IsStatic("perkeep.org/pkg/blob", "ChanPeeker", "Take"), hc.IsStatic("perkeep.org/pkg/blob", "ChanPeeker", "MustTake"):
						// a take that the helper itself sends on the output channel it was handed needs no match
						sentInHelper := false
						if tv := hc.Value(); tv != nil {
							for j, arg := range c.Args() {
								if originValue(arg) != ssa.Value(out) || j >= len(g.Params) {
									continue
								}
								for _, hb := range g.Blocks {
									for _, hin := range hb.Instrs {
										if sd, ok := hin.(*ssa.Send); ok && originValue(sd.Chan) == ssa.Value(g.Params[j]) && c19FlowsFrom(sd.X, tv) &&
											(sd.Block() == tv.Block() || tv.Block().Dominates(sd.Block())) {
											sentInHelper = true
										}
									}
								}
							}
						}
						if !sentInHelper {
							takes = true
						}
					case hc.IsStatic("perkeep.org/pkg/blob", "ChanPeeker", "ConsumeAll"):
						takes = true
					case hc.IsStatic("perkeep.org/pkg/blob", "ChanPeeker", "Peek"), hc.IsStatic("perkeep.org/pkg/blob", "ChanPeeker", "MustPeek"), hc.IsStatic("perkeep.org/pkg/blob", "ChanPeeker", "Closed"):
					default:
						escapes = true
					}
				default:
					escapes = true
				}
			}
		}
		if escapes {
			r.Undecided("Y-merge", construct, p.Pos(c.Pos()), "helper "+FuncKey(g)+" hands the source enumeration on; what is taken from it is not followed")
			continue
		}
		// what the helper sends on the output channel comes from its source parameter only
		for j, arg := range c.Args() {
			if originValue(arg) != ssa.Value(out) || j >= len(g.Params) {
				continue
			}
			for _, hb := range g.Blocks {
				for _, hin := range hb.Instrs {
					sd, ok := hin.(*ssa.Send)
					if !ok || originValue(sd.Chan) != ssa.Value(g.Params[j]) {
						continue
					}
					fromSrc := c19Flows(sd.X, func(v ssa.Value) bool {
						call, ok := v.(*ssa.Call)
						if !ok || len(call.Call.Args) == 0 || originValue(call.Call.Args[0]) != ssa.Value(g.Params[idx]) {
							return false
						}
						hc := CallSite{g, call}
						return hc.IsStatic("perkeep.org/pkg/blob", "ChanPeeker", "Take") || hc.IsStatic("perkeep.org/pkg/blob", "ChanPeeker", "MustTake") ||
							hc.IsStatic("perkeep.org/pkg/blob", "ChanPeeker", "Peek") || hc.IsStatic("perkeep.org/pkg/blob", "ChanPeeker", "MustPeek")
					})
					r.Check(fromSrc, "Y-merge", key+"#send", p.Pos(sd.Pos()), "what helper "+FuncKey(g)+" reports missing comes from the source enumeration it was handed",
						"helper "+FuncKey(g)+" reports as missing at the destination a value that is not taken from the source enumeration")
				}
			}
		}
		if !takes {
			continue
		}
		nTakes++
		matched := false
		for _, f := range FactsAt(c.Block()) {
			bo, ok := f.Cond.(*ssa.BinOp)
			if !ok || !((bo.Op == token.EQL && f.Val) || (bo.Op == token.NEQ && !f.Val)) {
				continue
			}
			xs, xd := c19Flows(bo.X, fromPeeker(src)), c19Flows(bo.X, fromPeeker(dst))
			ys, yd := c19Flows(bo.Y, fromPeeker(src)), c19Flows(bo.Y, fromPeeker(dst))
			if (xs && !xd && yd && !ys) || (ys && !yd && xd && !xs) {
				matched = true
			}
		}
		r.Check(matched, "Y-merge", construct, p.Pos(c.Pos()), "the source element taken inside helper "+FuncKey(g)+" is under the fact (at the call) that it equals the destination's head",
			"helper "+FuncKey(g)+" takes a source element, and its call is not under the fact that the source's head equals the destination's head: a blob missing at the destination is silently skipped")
	}
	if nTakes == 0 {
		r.Violation("Y-merge", key+"#src-take", p.Pos(fn.Pos()), "the source enumeration is never consumed")
	}
}

// ---------------------------------------------------------------------------
// Y-enum-close / Y-stop: the enumerator protocol of the copy loop
//
// An "enumerator" is a function value of the type of runSync's enumSrc
// parameter: func(dst chan<- blob.SizedRef, intr <-chan struct{}) error. A
// "launch" is a call of such a value in pkg/server; the function that made the
// dst channel and receives from it is the "consumer".

type c19Launch struct {
	call    CallSite
	top     *ssa.Function // outermost function containing the call
	callees []*ssa.Function
	why     string // why the callee set could not be computed ("" = computed)
	dst     ssa.Value
	intr    ssa.Value
}

type c19EnumInst struct {
	fn        *ssa.Function
	dst, intr *ssa.Parameter
	consumers []string // consumers that launch it
	earlyExit []string // those of them that can leave their receive loop before the channel is closed
}

func c19IsChan(t types.Type) bool {
	_, ok := t.Underlying().(*types.Chan)
	return ok
}

func c19ClosureFn(v ssa.Value) *ssa.Function {
	switch x := originValue(v).(type) {
	case *ssa.MakeClosure:
		f, _ := x.Fn.(*ssa.Function)
		return f
	case *ssa.Function:
		return x
	}
	return nil
}

// c19ResolveFuncs computes the set of functions a func-typed value may denote:
// closures, method values, declared functions, results of static callees (the
// returned literal is followed) and parameters (the arguments of every static
// caller are followed). why != "" when the set cannot be computed.
func c19ResolveFuncs(p *Program, v ssa.Value, depth int, seen map[ssa.Value]bool) (fns []*ssa.Function, why string) {
	o := originValue(v)
	if o == nil {
		return nil, "no value"
	}
	if seen[o] {
		return nil, ""
	}
	seen[o] = true
	if depth > 4 {
		return nil, "function value not followed beyond four levels"
	}
	fromResult := func(call *ssa.Call, idx int) ([]*ssa.Function, string) {
		g := (CallSite{call.Parent(), call}).Callee()
		if g == nil || g.Blocks == nil {
			return nil, "function value returned by a call that cannot be resolved statically"
		}
		var out []*ssa.Function
		for _, ri := range Returns(g) {
			if idx >= len(ri.Results) {
				return nil, "result index out of range in " + FuncKey(g)
			}
			fs, w := c19ResolveFuncs(p, ri.Results[idx], depth+1, seen)
			if w != "" {
				return nil, "result of " + FuncKey(g) + ": " + w
			}
			out = append(out, fs...)
		}
		return out, ""
	}
	switch x := o.(type) {
	case *ssa.MakeClosure:
		f, _ := x.Fn.(*ssa.Function)
		if f == nil {
			return nil, "closure over an unknown function"
		}
		if strings.HasPrefix(f.Synthetic, "bound method wrapper") {
			if obj, ok := f.Object().(*types.Func); ok {
				if m := p.SSA.FuncValue(obj); m != nil && m.Blocks != nil {
					return []*ssa.Function{m}, ""
				}
			}
			return nil, "method value of a method without body (interface method value)"
		}
		if f.Blocks == nil {
			return nil, "closure without body"
		}
		return []*ssa.Function{f}, ""
	case *ssa.Function:
		if x.Blocks == nil {
			return nil, "function without body: " + FuncKeyAny(x)
		}
		return []*ssa.Function{x}, ""
	case *ssa.Call:
		return fromResult(x, 0)
	case *ssa.Extract:
		if call, ok := x.Tuple.(*ssa.Call); ok {
			return fromResult(call, x.Index)
		}
	case *ssa.Phi:
		var out []*ssa.Function
		for _, e := range x.Edges {
			fs, w := c19ResolveFuncs(p, e, depth+1, seen)
			if w != "" {
				return nil, w
			}
			out = append(out, fs...)
		}
		return out, ""
	case *ssa.Parameter:
		F := x.Parent()
		if F.Parent() != nil {
			return nil, "parameter of a function literal"
		}
		idx := -1
		for i, prm := range F.Params {
			if prm == x {
				idx = i
			}
		}
		if idx < 0 {
			return nil, "parameter not found"
		}
		if n := len(p.FuncValueUses(F)) + len(p.InvokeSites(F)); n > 0 {
			return nil, fmt.Sprintf("%s is used as a value or through an interface (%d site(s)); the arguments it receives cannot be enumerated", FuncKey(F), n)
		}
		var out []*ssa.Function
		for _, c := range p.StaticCallers(F) {
			if c.Fn.Synthetic != "" {
				return nil, FuncKey(F) + " is called from a synthetic wrapper; the arguments it receives cannot be enumerated"
			}
			if idx >= len(c.Args()) {
				return nil, "argument index out of range at a caller of " + FuncKey(F)
			}
			fs, w := c19ResolveFuncs(p, c.Args()[idx], depth+1, seen)
			if w != "" {
				return nil, "argument in " + FuncKey(c.Fn) + ": " + w
			}
			out = append(out, fs...)
		}
		return out, ""
	}
	return nil, fmt.Sprintf("function value of kind %T is not followed (reassigned variable, field, map or interface)", o)
}

// c19ChanUse is one use of a channel value (identified by its origin: the
// MakeChan or the Parameter) in a function or the literals nested in it.
type c19ChanUse struct {
	kind string // send, select-send, select-recv, recv, recv-ok, close, arg, escape
	in   ssa.Instruction
	arg  int // kind "arg": index into CallSite.Args()
}

func c19ChanUses(top *ssa.Function, root ssa.Value) []c19ChanUse {
	var out []c19ChanUse
	match := func(v ssa.Value) bool {
		return v != nil && c19IsChan(v.Type()) && originValue(v) == root
	}
	var walk func(f *ssa.Function)
	walk = func(f *ssa.Function) {
		for _, b := range f.Blocks {
			for _, in := range b.Instrs {
				switch x := in.(type) {
				case *ssa.DebugRef, *ssa.ChangeType:
					continue
				case *ssa.Send:
					if match(x.Chan) {
						out = append(out, c19ChanUse{"send", in, 0})
					}
					if match(x.X) {
						out = append(out, c19ChanUse{"escape", in, 0})
					}
					continue
				case *ssa.Select:
					for _, st := range x.States {
						if match(st.Chan) {
							k := "select-recv"
							if st.Dir == types.SendOnly {
								k = "select-send"
							}
							out = append(out, c19ChanUse{k, in, 0})
						}
						if st.Send != nil && match(st.Send) {
							out = append(out, c19ChanUse{"escape", in, 0})
						}
					}
					continue
				case *ssa.UnOp:
					if x.Op == token.ARROW && match(x.X) {
						k := "recv"
						if x.CommaOk {
							k = "recv-ok"
						}
						out = append(out, c19ChanUse{k, in, 0})
					}
					continue
				case *ssa.BinOp:
					continue // comparison with nil / another channel
				case *ssa.Store:
					if match(x.Val) {
						al, ok := x.Addr.(*ssa.Alloc)
						if !ok || !plainVariable(al) || len(storesTo(al)) != 1 {
							out = append(out, c19ChanUse{"escape", in, 0})
						}
					}
					continue
				case *ssa.Phi:
					if originValue(x) == root {
						continue
					}
				case ssa.CallInstruction:
					cc := x.Common()
					if bi, ok := cc.Value.(*ssa.Builtin); ok {
						for _, a := range cc.Args {
							if match(a) {
								switch bi.Name() {
								case "close":
									out = append(out, c19ChanUse{"close", in, 0})
								case "len", "cap":
								default:
									out = append(out, c19ChanUse{"escape", in, 0})
								}
							}
						}
						continue
					}
					for i, a := range (CallSite{f, x}).Args() {
						if match(a) {
							out = append(out, c19ChanUse{"arg", in, i})
						}
					}
					continue
				}
				for _, op := range in.Operands(nil) {
					if *op != nil && match(*op) {
						out = append(out, c19ChanUse{"escape", in, 0})
						break
					}
				}
			}
		}
		for _, a := range f.AnonFuncs {
			walk(a)
		}
	}
	walk(top)
	return out
}

// c19Closer decides "this instruction closes channel root" and "every path
// through fn closes channel root".
type c19Closer struct {
	notes []string
	memo  map[[2]any]int // 0 unknown, 1 in progress, 2 yes, 3 no
	leak  map[[2]any]string
}

func newC19Closer() *c19Closer {
	return &c19Closer{memo: map[[2]any]int{}, leak: map[[2]any]string{}}
}

func (k *c19Closer) note(format string, args ...any) {
	s := fmt.Sprintf(format, args...)
	for _, n := range k.notes {
		if n == s {
			return
		}
	}
	k.notes = append(k.notes, s)
}

func c19FuncOfValue(v ssa.Value) *ssa.Function {
	switch x := v.(type) {
	case *ssa.Parameter:
		return x.Parent()
	case ssa.Instruction:
		return x.Parent()
	}
	return nil
}

func c19Encloses(outer, f *ssa.Function) bool {
	for ; f != nil; f = f.Parent() {
		if f == outer {
			return true
		}
	}
	return false
}

// closesAt: executing `in` closes root before the next instruction of the same
// frame runs (plain call), at the frame's exit (defer, only if acceptDefer), or
// eventually (go). Calls are followed into static callees and local literals
// that close the channel on every path, through sync.Once.Do and through
// functions made by sync.OnceFunc.
func (k *c19Closer) closesAt(in ssa.Instruction, root ssa.Value, acceptDefer bool, depth int) bool {
	ci, ok := in.(ssa.CallInstruction)
	if !ok {
		return false
	}
	if _, isDefer := in.(*ssa.Defer); isDefer && !acceptDefer {
		return false
	}
	c := CallSite{in.Parent(), ci}
	cc := c.Common()
	if b, ok := cc.Value.(*ssa.Builtin); ok {
		return b.Name() == "close" && len(cc.Args) == 1 && originValue(cc.Args[0]) == root
	}
	if depth > 4 {
		k.note("call chain deeper than four levels not followed at %s", FuncKey(in.Parent()))
		return false
	}
	if c.IsStatic("sync", "Once", "Do") {
		return k.onceCloses(c, root, depth)
	}
	if !cc.IsInvoke() {
		if call, ok := originValue(cc.Value).(*ssa.Call); ok && (CallSite{call.Parent(), call}).IsStatic("sync", "", "OnceFunc") {
			if f := c19ClosureFn(call.Call.Args[0]); f != nil && f.Blocks != nil {
				return k.mustClose(f, root, depth+1)
			}
			k.note("the function given to sync.OnceFunc is not a literal or declared function")
			return false
		}
	}
	g := c.Callee()
	if g == nil || g.Blocks == nil {
		for _, a := range c.Args() {
			if c19IsChan(a.Type()) && originValue(a) == root {
				k.note("the channel is handed to a callee that cannot be resolved statically in %s", FuncKey(in.Parent()))
			}
		}
		return false
	}
	for i, a := range c.Args() {
		if c19IsChan(a.Type()) && originValue(a) == root && i < len(g.Params) {
			if k.mustClose(g, g.Params[i], depth+1) {
				return true
			}
		}
	}
	if g.Parent() != nil && c19Encloses(c19FuncOfValue(root), g) {
		return k.mustClose(g, root, depth+1)
	}
	return false
}

// mustClose: every path from fn's entry to a return passes an instruction that
// closes root (explicit panics are not exits of interest: they end the process).
func (k *c19Closer) mustClose(fn *ssa.Function, root ssa.Value, depth int) bool {
	key := [2]any{fn, root}
	switch k.memo[key] {
	case 1:
		return false // recursion: not a proof
	case 2:
		return true
	case 3:
		return false
	}
	k.memo[key] = 1
	leak := ""
	seen := map[*ssa.BasicBlock]bool{}
	var walk func(b *ssa.BasicBlock, via []*ssa.BasicBlock)
	walk = func(b *ssa.BasicBlock, via []*ssa.BasicBlock) {
		if leak != "" || seen[b] {
			return
		}
		seen[b] = true
		via = append(via, b)
		for _, in := range b.Instrs {
			if k.closesAt(in, root, true, depth) {
				return
			}
			switch in.(type) {
			case *ssa.Return:
				leak = "return reached via blocks " + blockNames(via)
				return
			case *ssa.Panic:
				return
			}
		}
		for _, s := range b.Succs {
			walk(s, via)
		}
	}
	if len(fn.Blocks) == 0 {
		leak = "no body"
	} else {
		walk(fn.Blocks[0], nil)
	}
	if leak == "" {
		k.memo[key] = 2
		return true
	}
	k.memo[key] = 3
	k.leak[key] = leak
	return false
}

// onceCloses: once.Do(f) leaves root closed when every function ever given to
// that Once closes root on all its paths (either f runs now, or an earlier Do
// ran one of them), and the Once is a local variable used for nothing else.
func (k *c19Closer) onceCloses(c CallSite, root ssa.Value, depth int) bool {
	cell, ok := varOf(c.Args()[0])
	al, isAlloc := cell.(*ssa.Alloc)
	if !ok || !isAlloc {
		k.note("the sync.Once used in %s is not a local variable; its other users are not enumerated", FuncKey(c.Fn))
		return false
	}
	aliases := map[ssa.Value]bool{al: true}
	var collect func(f *ssa.Function)
	collect = func(f *ssa.Function) {
		for _, b := range f.Blocks {
			for _, in := range b.Instrs {
				if mc, ok := in.(*ssa.MakeClosure); ok {
					lf := mc.Fn.(*ssa.Function)
					for i, bnd := range mc.Bindings {
						if aliases[bnd] && i < len(lf.FreeVars) {
							aliases[lf.FreeVars[i]] = true
						}
					}
				}
			}
		}
		for _, a := range f.AnonFuncs {
			collect(a)
		}
	}
	collect(al.Parent())
	nDo := 0
	for a := range aliases {
		refs := a.Referrers()
		if refs == nil {
			continue
		}
		for _, u := range *refs {
			switch u := u.(type) {
			case *ssa.MakeClosure, *ssa.DebugRef:
			case ssa.CallInstruction:
				d := CallSite{u.Parent(), u}
				if !d.IsStatic("sync", "Once", "Do") || d.Args()[0] != a {
					k.note("the sync.Once of %s is also used by %s", FuncKey(al.Parent()), d.CalleeKey())
					return false
				}
				f := c19ClosureFn(d.Args()[1])
				if f == nil || f.Blocks == nil {
					k.note("a function given to the sync.Once of %s is not a literal or declared function", FuncKey(al.Parent()))
					return false
				}
				if !k.mustClose(f, root, depth+1) {
					return false
				}
				nDo++
			default:
				k.note("the sync.Once of %s is used other than by Do (%T): it may be reset", FuncKey(al.Parent()), u)
				return false
			}
		}
	}
	return nDo > 0
}

func c19YEnumProtocol(p *Program, r *Reporter) {
	// the enumerator type, by role: the one function type of the shape
	// func(chan<- blob.SizedRef, <-chan T) error that a pkg/server function takes
	// as a parameter (today: runSync's enumSrc)
	var sig *types.Signature
	var runSync *ssa.Function
	for _, fn := range p.FuncsIn("pkg/server") {
		if fn.Synthetic != "" || fn.Parent() != nil {
			continue
		}
		for _, prm := range fn.Params {
			sg, ok := prm.Type().Underlying().(*types.Signature)
			if !ok || sg.Params().Len() != 2 || sg.Results().Len() != 1 || !isErrorType(sg.Results().At(0).Type()) {
				continue
			}
			c0, ok0 := sg.Params().At(0).Type().Underlying().(*types.Chan)
			c1, ok1 := sg.Params().At(1).Type().Underlying().(*types.Chan)
			if !ok0 || !ok1 || c0.Dir() == types.RecvOnly || c1.Dir() == types.SendOnly || !IsNamed(c0.Elem(), "perkeep.org/pkg/blob", "SizedRef") {
				continue
			}
			if sig != nil && !types.Identical(sig, sg) {
				brokenf("anchor unresolved: pkg/server has more than one enumerator-shaped parameter type")
			}
			if sig == nil {
				sig, runSync = sg, fn
			}
		}
	}
	if sig == nil {
		brokenf("anchor unresolved: no pkg/server function takes a func(chan<- blob.SizedRef, <-chan T) error parameter")
	}

	// launches: calls of an enumerator-typed value in pkg/server
	var launches []*c19Launch
	for _, fn := range p.FuncsIn("pkg/server") {
		if fn.Synthetic != "" {
			continue
		}
		for _, c := range CallsIn(fn, false) {
			cc := c.Common()
			if _, isBuiltin := cc.Value.(*ssa.Builtin); isBuiltin {
				continue
			}
			cs := cc.Signature()
			if cs == nil || !types.Identical(cs, sig) {
				continue
			}
			ar := c.Args()
			if len(ar) < 2 {
				continue
			}
			l := &c19Launch{call: c, top: TopFunc(fn), dst: ar[len(ar)-2], intr: ar[len(ar)-1]}
			if g := cc.StaticCallee(); g != nil {
				if g.Blocks == nil {
					l.why = "callee without body"
				} else {
					l.callees = []*ssa.Function{g}
				}
			} else if cc.IsInvoke() {
				l.why = "enumerator called through an interface method"
			} else {
				l.callees, l.why = c19ResolveFuncs(p, cc.Value, 0, map[ssa.Value]bool{})
				if l.why == "" && len(l.callees) == 0 {
					l.why = "no function value reaches this call"
				}
			}
			launches = append(launches, l)
		}
	}
	sort.SliceStable(launches, func(i, j int) bool { return FuncKey(launches[i].call.Fn) < FuncKey(launches[j].call.Fn) })
	r.Analysed("enumerator_launches", len(launches))
	if len(launches) == 0 {
		r.Violation("Y-enum-close", FuncKey(runSync)+"#enumerators", p.Pos(runSync.Pos()), "no call of an enumerator value found in pkg/server: the copy loop enumerates nothing")
		return
	}

	insts := map[*ssa.Function]*c19EnumInst{}
	var order []*ssa.Function
	for _, l := range launches {
		construct := FuncKey(l.call.Fn) + "#enumerators"
		site := p.Pos(l.call.Pos())
		if l.why != "" {
			r.Undecided("Y-enum-close", construct, site, "the set of functions that can be called here cannot be computed: "+l.why)
			continue
		}
		// a function of enumerator type that forwards its own channels is a delegation, checked through its delegator
		if prm, ok := originValue(l.dst).(*ssa.Parameter); ok && prm.Parent() == l.top && types.Identical(l.top.Signature, sig) {
			r.OKTable("Y-enum-close", construct, site, "delegation from an enumerator to another (followed from the delegating enumerator)")
			continue
		}
		var names []string
		seenFn := map[*ssa.Function]bool{}
		for _, g := range l.callees {
			if seenFn[g] {
				continue
			}
			seenFn[g] = true
			names = append(names, FuncKey(g))
			n := len(g.Params)
			if n < 2 {
				r.Undecided("Y-enum-close", construct, site, "callee "+FuncKey(g)+" has no (dst, intr) parameters")
				continue
			}
			in := insts[g]
			if in == nil {
				in = &c19EnumInst{fn: g, dst: g.Params[n-2], intr: g.Params[n-1]}
				insts[g] = in
				order = append(order, g)
			}
			in.consumers = append(in.consumers, FuncKey(l.top))
		}
		sort.Strings(names)
		r.OKTable("Y-enum-close", construct, site, fmt.Sprintf("%d enumerator(s) can be called here: %s", len(names), strings.Join(names, ", ")))

		// consumer side
		early, decided := c19ConsumerRule(p, r, l)
		if early || !decided {
			for g := range seenFn {
				if in := insts[g]; in != nil {
					in.earlyExit = append(in.earlyExit, FuncKey(l.top))
				}
			}
		}
	}

	sort.Slice(order, func(i, j int) bool { return FuncKey(order[i]) < FuncKey(order[j]) })
	for _, g := range order {
		in := insts[g]
		// Y-enum-close
		k := newC19Closer()
		construct := FuncKey(g) + "#closes-output"
		cons := strings.Join(dedupe(in.consumers), ", ")
		if k.mustClose(g, in.dst, 0) {
			r.OK("Y-enum-close", construct, p.Pos(g.Pos()), "the output channel is closed (close, defer, or a callee/literal that closes it) on every path to every return; consumer(s) receiving until it is closed: "+cons)
		} else {
			d := "the enumerator can return without closing its output channel (" + k.leak[[2]any{g, ssa.Value(in.dst)}] + "): the consumer (" + cons + ") receives from that channel until it is closed and would block for ever — the copy loop stops delivering"
			if len(k.notes) > 0 {
				r.Undecided("Y-enum-close", construct, p.Pos(g.Pos()), d+"; not followed: "+strings.Join(k.notes, "; "))
			} else {
				r.Violation("Y-enum-close", construct, p.Pos(g.Pos()), d)
			}
		}
		// Y-stop, enumerator side
		construct = FuncKey(g) + "#send-interruptible"
		if len(in.earlyExit) == 0 {
			r.OKTable("Y-stop", construct, p.Pos(g.Pos()), "not required: no consumer of this enumerator ("+cons+") leaves its receive loop before the channel is closed")
			continue
		}
		n, bad, und := c19SendsInterruptible(p, g, in.dst, in.intr, 0)
		switch {
		case len(bad) > 0:
			r.Violation("Y-stop", construct, p.Pos(g.Pos()), strings.Join(bad, "; ")+": once the consumer ("+strings.Join(dedupe(in.earlyExit), ", ")+") has left its loop early nothing receives any more, the enumerator blocks in that send for ever and the consumer waits for it for ever")
		case len(und) > 0:
			r.Undecided("Y-stop", construct, p.Pos(g.Pos()), strings.Join(und, "; "))
		case n == 0:
			r.Undecided("Y-stop", construct, p.Pos(g.Pos()), "no send on the output channel found: how elements are delivered cannot be followed")
		default:
			r.OK("Y-stop", construct, p.Pos(g.Pos()), fmt.Sprintf("%d send(s) on the output channel, each a case of a select that also receives from the interrupt channel (or cannot block)", n))
		}
	}
}

// c19SendsInterruptible: every send on dst in fn (literals and callees that are
// handed dst included) is a case of a select that also receives from intr, or
// of a select with a default case.
func c19SendsInterruptible(p *Program, fn *ssa.Function, dst, intr ssa.Value, depth int) (n int, bad, und []string) {
	for _, u := range c19ChanUses(fn, dst) {
		at := p.Pos(u.in.Pos())
		switch u.kind {
		case "send":
			n++
			bad = append(bad, "send on the output channel outside a select at "+at+" (in "+FuncKey(u.in.Parent())+")")
		case "select-send":
			n++
			sel := u.in.(*ssa.Select)
			if !sel.Blocking {
				continue
			}
			ok := false
			for _, st := range sel.States {
				if st.Dir == types.RecvOnly && intr != nil && originValue(st.Chan) == intr {
					ok = true
				}
			}
			if !ok {
				bad = append(bad, "the select that sends on the output channel at "+at+" (in "+FuncKey(u.in.Parent())+") has no case receiving from the interrupt channel")
			}
		case "arg":
			c := CallSite{u.in.Parent(), u.in.(ssa.CallInstruction)}
			g := c.Callee()
			if g == nil || g.Blocks == nil || depth >= 3 || u.arg >= len(g.Params) {
				und = append(und, "the output channel is handed to "+c.CalleeKey()+" at "+at+", which is not followed")
				continue
			}
			var gi ssa.Value
			for i, a := range c.Args() {
				if intr != nil && c19IsChan(a.Type()) && originValue(a) == intr && i < len(g.Params) {
					gi = g.Params[i]
				}
			}
			m, b2, u2 := c19SendsInterruptible(p, g, g.Params[u.arg], gi, depth+1)
			n += m
			bad = append(bad, b2...)
			und = append(und, u2...)
		case "escape":
			und = append(und, "the output channel is stored or converted at "+at+"; its senders cannot be enumerated")
		}
	}
	return
}

// c19DrainsUntilClosed: helper g uses its channel parameter idx only to receive
// from it with a closed-test (range), and every path from a loop body leads
// back to the receive: g leaves the loop only when the channel is closed.
func c19DrainsUntilClosed(g *ssa.Function, idx int) bool {
	if g == nil || g.Blocks == nil || g.Synthetic != "" || idx >= len(g.Params) {
		return false
	}
	uses := c19ChanUses(g, g.Params[idx])
	if len(uses) == 0 {
		return false
	}
	for _, u := range uses {
		if u.kind != "recv-ok" || u.in.Parent() != g {
			return false
		}
		h := u.in.(*ssa.UnOp)
		ifi, ok := c19LastInstr(h.Block()).(*ssa.If)
		if !ok {
			return false
		}
		ex, ok := ifi.Cond.(*ssa.Extract)
		if !ok || ex.Tuple != ssa.Value(h) || ex.Index != 1 {
			return false
		}
		okLoop := true
		seen := map[*ssa.BasicBlock]bool{}
		var walk func(b *ssa.BasicBlock)
		walk = func(b *ssa.BasicBlock) {
			if !okLoop || b == h.Block() || seen[b] {
				return
			}
			seen[b] = true
			switch c19LastInstr(b).(type) {
			case *ssa.Return:
				okLoop = false
				return
			case *ssa.Panic:
				return
			}
			if len(b.Succs) == 0 {
				okLoop = false
				return
			}
			for _, sc := range b.Succs {
				walk(sc)
			}
		}
		walk(h.Block().Succs[0])
		// the loop body must not be able to reach the code behind the loop other than through the header
		if !okLoop {
			return false
		}
		done := h.Block().Succs[1]
		if seen[done] {
			return false
		}
	}
	return true
}

// c19ConsumerRule (Y-stop, consumer side). For the launch `res <- enum(ch, intr)`:
// on every path that leaves the loop receiving from ch on another edge than
// "ch closed" and then reaches a receive of the enumerator's result, intr has
// been closed before that receive.
func c19ConsumerRule(p *Program, r *Reporter, l *c19Launch) (earlyExit, decided bool) {
	top := l.top
	construct := FuncKey(top) + "#wait-for-enumerator"
	site := p.Pos(l.call.Pos())
	und := func(s string) (bool, bool) {
		r.Undecided("Y-stop", construct, site, s)
		return false, false
	}
	// the channels are followed to where they are made: through captured variables
	// and through the parameters of a single-caller launcher (a go literal turned
	// into a method receives as parameters what the literal captured)
	E := c19UpOrigin(p, l.dst)
	I := c19UpOrigin(p, l.intr)
	launcher := TopFunc(l.call.Fn)
	if mk, ok := E.(*ssa.MakeChan); !ok {
		return und("the channel handed to the enumerator is not made in the consuming function; the consumer cannot be identified")
	} else if TopFunc(mk.Parent()) != top {
		top = TopFunc(mk.Parent())
		l.top = top
		construct = FuncKey(top) + "#wait-for-enumerator"
	}
	if mk := E.(*ssa.MakeChan); mk.Parent() != top {
		return und("the channel handed to the enumerator is made inside a function literal of the consumer; the consumer's loop is not followed")
	}
	// onlyLaunches: parameter prm of the launcher is used for nothing but the launch
	onlyLaunches := func(g *ssa.Function, idx int) bool {
		if g != launcher || g == top || idx >= len(g.Params) {
			return false
		}
		for _, u := range c19ChanUses(g, g.Params[idx]) {
			if u.kind != "arg" || u.in != ssa.Instruction(l.call.Instr) {
				return false
			}
		}
		return true
	}
	switch I.(type) {
	case *ssa.MakeChan, *ssa.Parameter:
	default:
		return und("the interrupt channel handed to the enumerator is not a single channel value (made here, or a parameter)")
	}
	// how the consumer receives
	drained := false // the channel is handed to a helper that receives from it until it is closed
	var headers []*ssa.UnOp
	for _, u := range c19ChanUses(top, E) {
		switch u.kind {
		case "arg":
			if u.in == ssa.Instruction(l.call.Instr) {
				continue
			}
			if onlyLaunches((CallSite{u.in.Parent(), u.in.(ssa.CallInstruction)}).Callee(), u.arg) {
				continue
			}
			if _, plain := u.in.(*ssa.Call); plain && u.in.Parent() == top && c19DrainsUntilClosed((CallSite{u.in.Parent(), u.in.(ssa.CallInstruction)}).Callee(), u.arg) {
				drained = true
				continue
			}
			return und("the element channel is also handed to " + (CallSite{u.in.Parent(), u.in.(ssa.CallInstruction)}).CalleeKey() + "; its receivers cannot be enumerated")
		case "recv-ok":
			if u.in.Parent() != top {
				return und("the element channel is received from inside a function literal; loop shape not followed")
			}
			headers = append(headers, u.in.(*ssa.UnOp))
		default:
			return und("the consumer uses the element channel by " + u.kind + " at " + p.Pos(u.in.Pos()) + "; shape not recognised (expected: range / v, ok := <-ch)")
		}
	}
	if len(headers) == 0 && !drained {
		return und("the consumer never receives from the element channel with a closed-test (range); shape not recognised")
	}
	// how the consumer learns the enumerator's result
	val := l.call.Value()
	var X ssa.Value
	if val != nil {
		for _, u := range nonDebug(*val.Referrers()) {
			snd, ok := u.(*ssa.Send)
			if !ok || snd.X != ssa.Value(val) {
				return und("the enumerator's result is used other than by sending it on a channel; how the consumer waits for it is not recognised")
			}
			x := c19UpOrigin(p, snd.Chan)
			if X != nil && X != x {
				return und("the enumerator's result is sent on more than one channel")
			}
			X = x
		}
	}
	if X == nil {
		r.OKTable("Y-stop", construct, site, "the enumerator's result is not awaited by the consumer: nothing to order")
		return false, true
	}
	waits := map[ssa.Instruction]bool{}
	for _, u := range c19ChanUses(top, X) {
		switch u.kind {
		case "recv", "recv-ok", "select-recv":
			if u.in.Parent() != top {
				return und("the enumerator's result is received inside a function literal; not followed")
			}
			waits[u.in] = true
		case "send", "select-send":
			// the launch's own send (and other producers) need no ordering
		case "close":
		case "arg":
			// handed to the launcher, which only sends the enumerator's result on it
			g := (CallSite{u.in.Parent(), u.in.(ssa.CallInstruction)}).Callee()
			okArg := g != nil && g == launcher && g != top && u.arg < len(g.Params)
			if okArg {
				for _, u2 := range c19ChanUses(g, g.Params[u.arg]) {
					if u2.kind != "send" && u2.kind != "select-send" {
						okArg = false
					}
				}
			}
			if !okArg {
				return und("the result channel is handed to another function at " + p.Pos(u.in.Pos()) + "; its receivers cannot be enumerated")
			}
		default:
			return und("the result channel is used by " + u.kind + " at " + p.Pos(u.in.Pos()) + "; its receivers cannot be enumerated")
		}
	}
	if len(waits) == 0 {
		r.OKTable("Y-stop", construct, site, "the enumerator's result is never received by the consumer: nothing to order")
		return false, true
	}
	isHeader := map[ssa.Instruction]bool{}
	var bodies []*ssa.BasicBlock
	for _, h := range headers {
		isHeader[h] = true
		ifi, ok := c19LastInstr(h.Block()).(*ssa.If)
		if !ok {
			return und("the closed-test of the receive from the element channel is not the loop condition; shape not recognised")
		}
		ex, ok := ifi.Cond.(*ssa.Extract)
		if !ok || ex.Tuple != ssa.Value(h) || ex.Index != 1 {
			return und("the closed-test of the receive from the element channel is not the loop condition; shape not recognised")
		}
		bodies = append(bodies, h.Block().Succs[0])
	}
	k := newC19Closer()
	explore := func(withCloses bool) (leak string) {
		seen := map[*ssa.BasicBlock]bool{}
		var walk func(b *ssa.BasicBlock, via []*ssa.BasicBlock)
		walk = func(b *ssa.BasicBlock, via []*ssa.BasicBlock) {
			if leak != "" || seen[b] {
				return
			}
			seen[b] = true
			via = append(via, b)
			for _, in := range b.Instrs {
				if isHeader[in] {
					return // the loop condition is evaluated again
				}
				if waits[in] {
					leak = "wait at " + p.Pos(in.Pos()) + " reached from the loop body via blocks " + blockNames(via)
					return
				}
				if withCloses && k.closesAt(in, I, false, 0) {
					return
				}
				switch in.(type) {
				case *ssa.Return, *ssa.Panic:
					return
				}
			}
			for _, s := range b.Succs {
				walk(s, via)
			}
		}
		for _, b := range bodies {
			walk(b, nil)
		}
		return leak
	}
	if explore(false) == "" {
		r.OK("Y-stop", construct, site, "the loop receiving from the element channel is left only when that channel is closed (the enumerator has finished): no interrupt is needed before waiting for its result")
		return false, true
	}
	leak := explore(true)
	if leak == "" {
		r.OK("Y-stop", construct, site, "every path that leaves the receive loop before the element channel is closed closes the interrupt channel (directly or through a local function / sync.Once) before the consumer waits for the enumerator's result")
		return true, true
	}
	d := "the consumer leaves its receive loop while the enumerator may still be sending and then waits for the enumerator's result without having closed the interrupt channel (a deferred close runs only after that wait): " + leak + " — enumerator and consumer wait for each other for ever, the copy loop stops"
	if len(k.notes) > 0 {
		r.Undecided("Y-stop", construct, site, d+"; not followed: "+strings.Join(k.notes, "; "))
	} else {
		r.Violation("Y-stop", construct, site, d)
	}
	return true, true
}
