package main

import (
	"fmt"
	"go/constant"
	"go/token"
	"go/types"
	"sort"
	"strings"

	"golang.org/x/tools/go/ssa"
)

// ---------------------------------------------------------------------------
// Calls and callee matching (type-resolved, never by text)

// A CallSite is one call, go or defer instruction.
type CallSite struct {
	Fn    *ssa.Function
	Instr ssa.CallInstruction
}

func (c CallSite) Common() *ssa.CallCommon { return c.Instr.Common() }
func (c CallSite) Pos() token.Pos {
	if p := c.Instr.Pos(); p.IsValid() {
		return p
	}
	return c.Instr.Common().Pos()
}
func (c CallSite) Block() *ssa.BasicBlock { return c.Instr.Block() }
func (c CallSite) IsGo() bool             { _, ok := c.Instr.(*ssa.Go); return ok }
func (c CallSite) IsDefer() bool          { _, ok := c.Instr.(*ssa.Defer); return ok }

// Value returns the call's result value (nil for go/defer).
func (c CallSite) Value() *ssa.Call { v, _ := c.Instr.(*ssa.Call); return v }

// Callee is the statically known callee (nil for interface/dynamic calls).
// Calls of a function literal bound in the same function are resolved too.
func (c CallSite) Callee() *ssa.Function {
	cc := c.Common()
	if f := cc.StaticCallee(); f != nil {
		return f
	}
	if cc.IsInvoke() {
		return nil
	}
	if mc, ok := originValue(cc.Value).(*ssa.MakeClosure); ok {
		return mc.Fn.(*ssa.Function)
	}
	return nil
}

// Args returns the call's arguments including the receiver (first) for both
// static method calls and interface invokes.
func (c CallSite) Args() []ssa.Value {
	cc := c.Common()
	if cc.IsInvoke() {
		return append([]ssa.Value{cc.Value}, cc.Args...)
	}
	return cc.Args
}

// CalleeKey names the callee: "pkg.(Recv).Name" / "pkg.Name" for static calls,
// "iface:<pkg>.<Iface>.Name" for invokes, "builtin:name", or "dynamic".
func (c CallSite) CalleeKey() string {
	cc := c.Common()
	if cc.IsInvoke() {
		return "iface:" + typeKey(cc.Value.Type()) + "." + cc.Method.Name()
	}
	if f := c.Callee(); f != nil {
		return FuncKeyAny(f)
	}
	if b, ok := cc.Value.(*ssa.Builtin); ok {
		return "builtin:" + b.Name()
	}
	return "dynamic"
}

// FuncKeyAny is FuncKey that also names functions outside the module by full
// package path.
func FuncKeyAny(f *ssa.Function) string {
	if InModule(f) || f.Parent() != nil && InModule(TopFunc(f)) {
		return FuncKey(f)
	}
	pkg := ""
	if f.Pkg != nil {
		pkg = f.Pkg.Pkg.Path()
	} else if f.Object() != nil && f.Object().Pkg() != nil {
		pkg = f.Object().Pkg().Path()
	}
	if recv := f.Signature.Recv(); recv != nil {
		t := recv.Type()
		ptr := ""
		if pt, ok := t.(*types.Pointer); ok {
			t, ptr = pt.Elem(), "*"
		}
		name := t.String()
		if n, ok := t.(*types.Named); ok {
			name = n.Obj().Name()
		}
		return fmt.Sprintf("%s.(%s%s).%s", pkg, ptr, name, f.Name())
	}
	return pkg + "." + f.Name()
}

func typeKey(t types.Type) string {
	if pt, ok := t.(*types.Pointer); ok {
		return "*" + typeKey(pt.Elem())
	}
	if n, ok := t.(*types.Named); ok {
		if n.Obj().Pkg() == nil {
			return n.Obj().Name()
		}
		return strings.TrimPrefix(n.Obj().Pkg().Path(), modPrefix) + "." + n.Obj().Name()
	}
	return t.String()
}

// MethodName returns the called method's or function's bare name ("" if dynamic).
func (c CallSite) MethodName() string {
	cc := c.Common()
	if cc.IsInvoke() {
		return cc.Method.Name()
	}
	if f := c.Callee(); f != nil {
		return f.Name()
	}
	if b, ok := cc.Value.(*ssa.Builtin); ok {
		return b.Name()
	}
	return ""
}

// RecvType returns the static type of the receiver of a method call (the
// interface type for invokes), or nil for non-method calls.
func (c CallSite) RecvType() types.Type {
	cc := c.Common()
	if cc.IsInvoke() {
		return cc.Value.Type()
	}
	if f := cc.StaticCallee(); f != nil && f.Signature.Recv() != nil {
		return f.Signature.Recv().Type()
	}
	return nil
}

// IsStatic reports whether the call statically resolves to the function
// pkgPath.(recv).name. pkgPath is a full import path ("sync", "os",
// "perkeep.org/pkg/blobserver"); recv is "" for package functions and the bare
// type name (no '*') for methods.
func (c CallSite) IsStatic(pkgPath, recv, name string) bool {
	f := c.Callee()
	if f == nil {
		return false
	}
	return funcIs(f, pkgPath, recv, name)
}

func funcIs(f *ssa.Function, pkgPath, recv, name string) bool {
	if f == nil || f.Name() != name {
		return false
	}
	if o := f.Origin(); o != nil {
		f = o
	}
	var pkg *types.Package
	if f.Pkg != nil {
		pkg = f.Pkg.Pkg
	} else if f.Object() != nil {
		pkg = f.Object().Pkg()
	}
	if pkg == nil || pkg.Path() != pkgPath {
		return false
	}
	r := f.Signature.Recv()
	if recv == "" {
		return r == nil
	}
	if r == nil {
		return false
	}
	t := r.Type()
	if pt, ok := t.(*types.Pointer); ok {
		t = pt.Elem()
	}
	n, ok := t.(*types.Named)
	return ok && n.Obj().Name() == recv
}

// IsMethod reports whether the call is a method call named name whose
// receiver's static type (concrete or interface) implements iface. This is
// how "any implementation of BlobReceiver.ReceiveBlob" is matched.
func (c CallSite) IsMethod(name string, iface *types.Interface) bool {
	if c.MethodName() != name {
		return false
	}
	rt := c.RecvType()
	if rt == nil {
		return false
	}
	if types.Implements(rt, iface) {
		return true
	}
	if _, ok := rt.(*types.Pointer); !ok {
		if types.Implements(types.NewPointer(rt), iface) {
			return true
		}
	}
	return false
}

// CallsIn lists the call/go/defer instructions of fn; with deep, also those of
// function literals nested in fn.
func CallsIn(fn *ssa.Function, deep bool) []CallSite {
	var out []CallSite
	var walk func(f *ssa.Function)
	walk = func(f *ssa.Function) {
		for _, b := range f.Blocks {
			for _, in := range b.Instrs {
				if ci, ok := in.(ssa.CallInstruction); ok {
					out = append(out, CallSite{f, ci})
				}
			}
		}
		if deep {
			for _, a := range f.AnonFuncs {
				walk(a)
			}
		}
	}
	walk(fn)
	return out
}

// FindCalls returns the calls in fn (deep) satisfying pred.
func FindCalls(fn *ssa.Function, deep bool, pred func(CallSite) bool) []CallSite {
	var out []CallSite
	for _, c := range CallsIn(fn, deep) {
		if pred(c) {
			out = append(out, c)
		}
	}
	return out
}

// AllCalls visits every call site in the given functions.
func AllCalls(fns []*ssa.Function, visit func(CallSite)) int {
	n := 0
	for _, f := range fns {
		for _, c := range CallsIn(f, false) {
			n++
			visit(c)
		}
	}
	return n
}

// ---------------------------------------------------------------------------
// Values: origins, access paths, dependence

// originValue strips value-preserving wrappers and resolves loads of
// single-assignment variables (including captured ones).
func originValue(v ssa.Value) ssa.Value {
	for i := 0; i < 32 && v != nil; i++ {
		switch x := v.(type) {
		case *ssa.ChangeType:
			v = x.X
		case *ssa.MakeInterface:
			v = x.X
		case *ssa.ChangeInterface:
			v = x.X
		case *ssa.UnOp:
			if x.Op != token.MUL {
				return v
			}
			if r := resolveLoad(x); r != nil {
				v = r
			} else {
				return v
			}
		case *ssa.Phi:
			// phi of identical origins
			var first ssa.Value
			same := true
			for _, e := range x.Edges {
				o := e
				if o == x {
					continue
				}
				if first == nil {
					first = o
				} else if o != first {
					same = false
				}
			}
			if same && first != nil {
				v = first
			} else {
				return v
			}
		default:
			return v
		}
	}
	return v
}

// varOf returns the variable cell (Alloc in the defining function, or Global)
// that address value addr denotes, following closure captures up to the
// function that declares the variable. ok=false when addr is not a plain
// variable address.
func varOf(addr ssa.Value) (cell ssa.Value, ok bool) {
	for i := 0; i < 16; i++ {
		switch x := addr.(type) {
		case *ssa.Alloc:
			return x, true
		case *ssa.Global:
			return x, true
		case *ssa.FreeVar:
			b := bindingOf(x)
			if b == nil {
				return x, true
			}
			addr = b
		default:
			return nil, false
		}
	}
	return nil, false
}

// bindingOf returns the value bound to free variable fv where its closure is
// created (nil when not found or ambiguous).
func bindingOf(fv *ssa.FreeVar) ssa.Value {
	fn := fv.Parent()
	parent := fn.Parent()
	if parent == nil {
		return nil
	}
	idx := -1
	for i, f := range fn.FreeVars {
		if f == fv {
			idx = i
		}
	}
	if idx < 0 {
		return nil
	}
	var found ssa.Value
	for _, b := range parent.Blocks {
		for _, in := range b.Instrs {
			if mc, ok := in.(*ssa.MakeClosure); ok && mc.Fn == fn {
				if found != nil && found != mc.Bindings[idx] {
					return nil
				}
				found = mc.Bindings[idx]
			}
		}
	}
	return found
}

// storesTo lists all stores to the variable cell across the declaring
// function and every nested function literal.
func storesTo(cell ssa.Value) []*ssa.Store {
	var root *ssa.Function
	switch c := cell.(type) {
	case *ssa.Alloc:
		root = c.Parent()
	default:
		return nil
	}
	var out []*ssa.Store
	var walk func(f *ssa.Function)
	walk = func(f *ssa.Function) {
		for _, b := range f.Blocks {
			for _, in := range b.Instrs {
				if st, ok := in.(*ssa.Store); ok {
					if c, ok := varOf(st.Addr); ok && c == cell {
						out = append(out, st)
					}
				}
			}
		}
		for _, a := range f.AnonFuncs {
			walk(a)
		}
	}
	walk(root)
	return out
}

// resolveLoad returns the value a load (*addr) yields when that is statically
// unique: the variable has a single store anywhere, or a unique store of the
// same function reaches the load. nil otherwise.
func resolveLoad(load *ssa.UnOp) ssa.Value {
	cell, ok := varOf(load.X)
	if !ok {
		return nil
	}
	al, ok := cell.(*ssa.Alloc)
	if !ok {
		return nil
	}
	// the address must not escape other than through loads/stores/closure capture
	if !plainVariable(al) {
		return nil
	}
	stores := storesTo(al)
	if len(stores) == 1 {
		return stores[0].Val
	}
	if len(stores) == 0 {
		return nil
	}
	// flow-sensitive: only when the load is in the declaring function and all stores are too
	fn := load.Parent()
	if al.Parent() != fn {
		return nil
	}
	for _, s := range stores {
		if s.Parent() != fn {
			return nil
		}
	}
	if st := reachingStore(al, load); st != nil {
		return st.Val
	}
	return nil
}

var plainVarCache = map[*ssa.Alloc]bool{}

// plainVariable reports whether the alloc's address is used only by loads,
// stores (as address) and closure captures - i.e. it is a plain Go variable
// whose address is never taken explicitly.
func plainVariable(al *ssa.Alloc) bool {
	if v, ok := plainVarCache[al]; ok {
		return v
	}
	ok := true
	var check func(addr ssa.Value, depth int)
	check = func(addr ssa.Value, depth int) {
		refs := addr.Referrers()
		if refs == nil {
			return
		}
		for _, r := range *refs {
			switch r := r.(type) {
			case *ssa.UnOp:
				if r.Op != token.MUL {
					ok = false
				}
			case *ssa.Store:
				if r.Addr != addr {
					ok = false // address stored somewhere
				}
			case *ssa.MakeClosure:
				fn := r.Fn.(*ssa.Function)
				for i, b := range r.Bindings {
					if b == addr && depth < 8 {
						check(fn.FreeVars[i], depth+1)
					}
				}
			case *ssa.DebugRef:
			default:
				ok = false
			}
		}
	}
	check(al, 0)
	plainVarCache[al] = ok
	return ok
}

// reachingStore finds the unique store to al (all in one function) reaching
// the instruction at, or nil.
func reachingStore(al *ssa.Alloc, at ssa.Instruction) *ssa.Store {
	blk := at.Block()
	lastIn := func(b *ssa.BasicBlock, before ssa.Instruction) *ssa.Store {
		var last *ssa.Store
		for _, in := range b.Instrs {
			if in == before {
				break
			}
			if st, ok := in.(*ssa.Store); ok && st.Addr == ssa.Value(al) {
				last = st
			}
		}
		return last
	}
	if st := lastIn(blk, at); st != nil {
		return st
	}
	var found *ssa.Store
	multiple := false
	seen := map[*ssa.BasicBlock]bool{blk: true}
	var walk func(b *ssa.BasicBlock)
	walk = func(b *ssa.BasicBlock) {
		for _, p := range b.Preds {
			if seen[p] {
				continue
			}
			seen[p] = true
			if st := lastIn(p, nil); st != nil {
				if found != nil && found != st {
					multiple = true
				}
				found = st
				continue
			}
			if len(p.Preds) == 0 {
				multiple = true // reaches entry without a store: zero value
				continue
			}
			walk(p)
		}
	}
	walk(blk)
	// a loop back to blk itself with a store after `at` would also reach; be conservative
	if multiple {
		return nil
	}
	if found != nil {
		// check stores later in blk reaching via back edge
		for _, in := range blk.Instrs {
			if st, ok := in.(*ssa.Store); ok && st.Addr == ssa.Value(al) && st != found {
				// only matters if blk is in a loop
				if inLoop(blk) {
					return nil
				}
			}
		}
	}
	return found
}

func inLoop(b *ssa.BasicBlock) bool {
	seen := map[*ssa.BasicBlock]bool{}
	var walk func(x *ssa.BasicBlock) bool
	walk = func(x *ssa.BasicBlock) bool {
		for _, s := range x.Succs {
			if s == b {
				return true
			}
			if !seen[s] {
				seen[s] = true
				if walk(s) {
					return true
				}
			}
		}
		return false
	}
	return walk(b)
}

// AccessPath renders a canonical, function-independent-ish path for a value:
// parameters and receivers by name, fields by name, globals by qualified name,
// local variables by name, so that two mentions of "s.mu" in one function (or
// in a function and its literals) compare equal. Unknown shapes get a unique
// "?n" suffix so they never compare equal by accident.
func AccessPath(v ssa.Value) string {
	return accessPath(v, 0)
}

func accessPath(v ssa.Value, depth int) string {
	if depth > 24 || v == nil {
		return uniquePath(v)
	}
	// Addresses render as "&<place>", values as "<place>"; a load strips the "&".
	strip := func(s string) string {
		if strings.HasPrefix(s, "&") {
			return s[1:]
		}
		return "*" + s
	}
	switch x := v.(type) {
	case *ssa.Parameter:
		return x.Name()
	case *ssa.Global:
		return "&global:" + RelPkg(x.Pkg.Pkg) + "." + x.Name()
	case *ssa.Alloc:
		// address of a variable
		if x.Comment != "" && x.Comment != "complit" && x.Comment != "slicelit" && x.Comment != "varargs" && x.Comment != "new" && x.Comment != "makeslice" {
			return "&" + x.Comment
		}
		return uniquePath(v)
	case *ssa.FreeVar:
		if b := bindingOf(x); b != nil {
			return accessPath(b, depth+1)
		}
		return "&" + x.Name()
	case *ssa.UnOp:
		if x.Op == token.MUL {
			return strip(accessPath(x.X, depth+1))
		}
	case *ssa.FieldAddr:
		base := accessPath(x.X, depth+1)
		if strings.HasPrefix(base, "&") {
			base = base[1:] // field of an addressable struct
		}
		return "&" + base + "." + fieldName(x.X.Type(), x.Field)
	case *ssa.Field:
		return accessPath(x.X, depth+1) + "." + fieldName(x.X.Type(), x.Field)
	case *ssa.IndexAddr:
		base := accessPath(x.X, depth+1)
		if strings.HasPrefix(base, "&") {
			base = base[1:]
		}
		return "&" + base + "[]"
	case *ssa.Index:
		return accessPath(x.X, depth+1) + "[]"
	case *ssa.ChangeType:
		return accessPath(x.X, depth+1)
	case *ssa.MakeInterface:
		return accessPath(x.X, depth+1)
	case *ssa.ChangeInterface:
		return accessPath(x.X, depth+1)
	case *ssa.Phi:
		o := originValue(x)
		if o != ssa.Value(x) {
			return accessPath(o, depth+1)
		}
	case *ssa.Const:
		return "const:" + x.String()
	}
	return uniquePath(v)
}

func uniquePath(v ssa.Value) string {
	if v == nil {
		return "?nil"
	}
	return fmt.Sprintf("?%s@%p", v.Name(), v)
}

func fieldName(t types.Type, idx int) string {
	if pt, ok := t.Underlying().(*types.Pointer); ok {
		t = pt.Elem()
	}
	if st, ok := t.Underlying().(*types.Struct); ok && idx < st.NumFields() {
		return st.Field(idx).Name()
	}
	return fmt.Sprintf("f%d", idx)
}

// DependsOn reports whether value v transitively depends (through operands,
// loads of variables with resolvable stores, and all stores to a loaded
// variable) on a value satisfying target.
func DependsOn(v ssa.Value, target func(ssa.Value) bool) bool {
	seen := map[ssa.Value]bool{}
	var walk func(v ssa.Value, depth int) bool
	walk = func(v ssa.Value, depth int) bool {
		if v == nil || seen[v] || depth > 60 {
			return false
		}
		seen[v] = true
		if target(v) {
			return true
		}
		switch x := v.(type) {
		case *ssa.UnOp:
			if x.Op == token.MUL {
				if cell, ok := varOf(x.X); ok {
					if cell != x.X && target(cell) {
						return true
					}
					for _, st := range storesTo(cell) {
						if walk(st.Val, depth+1) {
							return true
						}
					}
				}
			}
		}
		if in, ok := v.(ssa.Instruction); ok {
			for _, op := range in.Operands(nil) {
				if *op != nil && walk(*op, depth+1) {
					return true
				}
			}
		}
		return false
	}
	return walk(v, 0)
}

// ConstString returns the constant string value of v, if any.
func ConstString(v ssa.Value) (string, bool) {
	if c, ok := originValue(v).(*ssa.Const); ok && c.Value != nil && c.Value.Kind() == constant.String {
		return constant.StringVal(c.Value), true
	}
	return "", false
}

// ConstInt returns the constant integer value of v, if any.
func ConstInt(v ssa.Value) (int64, bool) {
	if c, ok := originValue(v).(*ssa.Const); ok && c.Value != nil && c.Value.Kind() == constant.Int {
		return c.Int64(), true
	}
	return 0, false
}

// IsNilConst reports whether v is the nil constant.
func IsNilConst(v ssa.Value) bool {
	c, ok := v.(*ssa.Const)
	return ok && c.Value == nil
}

// ---------------------------------------------------------------------------
// Dominating facts (H1)

// A CondFact says that condition Cond evaluated to Val on every path to the block.
type CondFact struct {
	Cond ssa.Value
	Val  bool
	At   *ssa.BasicBlock // the block whose If established it
}

// FactsAt returns the branch conditions known at entry of block b, from the
// If terminators of its dominators.
func FactsAt(b *ssa.BasicBlock) []CondFact {
	var out []CondFact
	for d := b.Idom(); d != nil; d = d.Idom() {
		if len(d.Instrs) == 0 {
			continue
		}
		ifi, ok := d.Instrs[len(d.Instrs)-1].(*ssa.If)
		if !ok || len(d.Succs) != 2 || d.Succs[0] == d.Succs[1] {
			continue
		}
		for i := 0; i < 2; i++ {
			s := d.Succs[i]
			if !(s == b || s.Dominates(b)) {
				continue
			}
			// every predecessor of s other than d must be dominated by s (back edges)
			okEdge := true
			for _, p := range s.Preds {
				if p != d && !s.Dominates(p) {
					okEdge = false
				}
			}
			if !okEdge {
				continue
			}
			out = append(out, CondFact{ifi.Cond, i == 0, d})
		}
	}
	return out
}

// FactsAtInstr is FactsAt for the block of an instruction.
func FactsAtInstr(in ssa.Instruction) []CondFact { return FactsAt(in.Block()) }

// sameOrigin reports whether two values denote the same run-time value as far
// as the local analysis can tell.
func sameOrigin(a, b ssa.Value) bool {
	if a == b {
		return true
	}
	oa, ob := originValue(a), originValue(b)
	if oa == ob {
		return true
	}
	// a phi one of whose incoming values is the other
	if ph, ok := oa.(*ssa.Phi); ok {
		for _, e := range ph.Edges {
			if originValue(e) == ob {
				return true
			}
		}
	}
	if ph, ok := ob.(*ssa.Phi); ok {
		for _, e := range ph.Edges {
			if originValue(e) == oa {
				return true
			}
		}
	}
	return false
}

// NilFact reports what is known about v's nil-ness at block b:
// known=false when nothing is known.
func NilFact(b *ssa.BasicBlock, v ssa.Value) (known, isNil bool) {
	for _, f := range FactsAt(b) {
		if k, n := condSaysNil(f.Cond, f.Val, v); k {
			return true, n
		}
	}
	return false, false
}

// condSaysNil interprets cond (with truth value val) as a statement about v.
func condSaysNil(cond ssa.Value, val bool, v ssa.Value) (known, isNil bool) {
	switch c := cond.(type) {
	case *ssa.BinOp:
		if c.Op != token.EQL && c.Op != token.NEQ {
			return false, false
		}
		var other ssa.Value
		if IsNilConst(c.Y) {
			other = c.X
		} else if IsNilConst(c.X) {
			other = c.Y
		} else {
			return false, false
		}
		if !sameOrigin(other, v) {
			return false, false
		}
		eq := c.Op == token.EQL
		return true, eq == val
	case *ssa.UnOp:
		if c.Op == token.NOT {
			return condSaysNil(c.X, !val, v)
		}
	}
	return false, false
}

// CondKey renders a branch condition structurally (operator + access paths of
// its operands) so that two evaluations of the same source condition compare
// equal. "" when the condition has no stable rendering.
func CondKey(cond ssa.Value) string {
	switch c := cond.(type) {
	case *ssa.BinOp:
		x, y := AccessPath(c.X), AccessPath(c.Y)
		if strings.HasPrefix(x, "?") || strings.HasPrefix(y, "?") {
			return ""
		}
		return x + " " + c.Op.String() + " " + y
	case *ssa.UnOp:
		if c.Op == token.NOT {
			if k := CondKey(c.X); k != "" {
				return "!(" + k + ")"
			}
			return ""
		}
		if c.Op == token.MUL {
			p := AccessPath(c)
			if !strings.HasPrefix(p, "?") {
				return p
			}
		}
	}
	return ""
}

// BoolCallFact reports whether a call satisfying pred is known to have
// returned a given boolean at block b. known=false when no such fact.
func BoolCallFact(b *ssa.BasicBlock, pred func(CallSite) bool) (known, val bool, call CallSite) {
	for _, f := range FactsAt(b) {
		cond, v := f.Cond, f.Val
		for {
			if u, ok := cond.(*ssa.UnOp); ok && u.Op == token.NOT {
				cond, v = u.X, !v
				continue
			}
			break
		}
		if c, ok := originValue(cond).(*ssa.Call); ok {
			cs := CallSite{c.Parent(), c}
			if pred(cs) {
				return true, v, cs
			}
		}
	}
	return false, false, CallSite{}
}

// ErrValue returns the error result value of a call: the call itself when it
// returns a single error, or the Extract of the last result when that is an
// error. discarded=true when the call returns an error that no instruction
// reads.
func ErrValue(c *ssa.Call) (v ssa.Value, hasErr, discarded bool) {
	sig := c.Call.Signature()
	res := sig.Results()
	if res.Len() == 0 {
		return nil, false, false
	}
	last := res.At(res.Len() - 1).Type()
	if !isErrorType(last) {
		return nil, false, false
	}
	if res.Len() == 1 {
		refs := c.Referrers()
		if refs == nil || len(nonDebug(*refs)) == 0 {
			return c, true, true
		}
		return c, true, false
	}
	refs := c.Referrers()
	if refs != nil {
		for _, r := range *refs {
			if ex, ok := r.(*ssa.Extract); ok && ex.Index == res.Len()-1 {
				if er := ex.Referrers(); er == nil || len(nonDebug(*er)) == 0 {
					return ex, true, true
				}
				return ex, true, false
			}
		}
	}
	return nil, true, true
}

func nonDebug(ins []ssa.Instruction) []ssa.Instruction {
	var out []ssa.Instruction
	for _, in := range ins {
		if _, ok := in.(*ssa.DebugRef); !ok {
			out = append(out, in)
		}
	}
	return out
}

// ResultValue returns the Extract for result index i of a multi-result call
// (or the call itself for i==0 on a single-result call); nil when unused.
func ResultValue(c *ssa.Call, i int) ssa.Value {
	res := c.Call.Signature().Results()
	if res.Len() == 1 && i == 0 {
		return c
	}
	if refs := c.Referrers(); refs != nil {
		for _, r := range *refs {
			if ex, ok := r.(*ssa.Extract); ok && ex.Index == i {
				return ex
			}
		}
	}
	return nil
}

var errorType = types.Universe.Lookup("error").Type()

func isErrorType(t types.Type) bool { return types.Identical(t, errorType) }

// instrIndex returns the index of in within its block.
func instrIndex(in ssa.Instruction) int {
	for i, x := range in.Block().Instrs {
		if x == in {
			return i
		}
	}
	return -1
}

// Precedes reports whether a executes before b on every path to b: a's block
// strictly dominates b's, or they share a block and a comes first.
func Precedes(a, b ssa.Instruction) bool {
	if a.Parent() != b.Parent() {
		return false
	}
	if a.Block() == b.Block() {
		return instrIndex(a) < instrIndex(b)
	}
	return a.Block().Dominates(b.Block())
}

// SuccessDominates (H2) reports whether every path to instruction s has passed
// through call c AND c's error result (if it has one) is known nil at s.
func SuccessDominates(c *ssa.Call, s ssa.Instruction) (bool, string) {
	if !Precedes(c, s) {
		return false, "call does not dominate the site"
	}
	ev, hasErr, discarded := ErrValue(c)
	if !hasErr {
		return true, ""
	}
	if discarded {
		return false, "error result of the call is discarded"
	}
	if k, isNil := NilFact(s.Block(), ev); k && isNil {
		return true, ""
	}
	return false, "site is not on the err==nil edge of the call"
}

// ---------------------------------------------------------------------------
// Returns

// ReturnInfo describes one return instruction with resolved result values
// (through the named-result spill that go/ssa emits in functions with defer).
type ReturnInfo struct {
	Ret     *ssa.Return
	Results []ssa.Value
}

// Returns lists the function's explicit returns (the synthetic recover block is skipped).
func Returns(fn *ssa.Function) []ReturnInfo {
	var out []ReturnInfo
	for _, b := range fn.Blocks {
		if b == fn.Recover {
			continue
		}
		if len(b.Instrs) == 0 {
			continue
		}
		ret, ok := b.Instrs[len(b.Instrs)-1].(*ssa.Return)
		if !ok {
			continue
		}
		ri := ReturnInfo{Ret: ret}
		for _, r := range ret.Results {
			ri.Results = append(ri.Results, resolveReturnValue(r, ret))
		}
		out = append(out, ri)
	}
	return out
}

// resolveReturnValue undoes the "store to result local; rundefers; load;
// return" sequence.
func resolveReturnValue(v ssa.Value, ret *ssa.Return) ssa.Value {
	ld, ok := v.(*ssa.UnOp)
	if !ok || ld.Op != token.MUL {
		return v
	}
	al, ok := ld.X.(*ssa.Alloc)
	if !ok {
		return v
	}
	if st := reachingStore(al, ld); st != nil {
		return st.Val
	}
	return v
}

// ErrResultIndex returns the index of the trailing error result, or -1.
func ErrResultIndex(fn *ssa.Function) int {
	res := fn.Signature.Results()
	if res.Len() == 0 {
		return -1
	}
	if isErrorType(res.At(res.Len() - 1).Type()) {
		return res.Len() - 1
	}
	return -1
}

// MaybeNilErrorReturns lists the returns of fn whose error result may be nil:
// constant nil, or a value not known non-nil at the return. For a phi, the
// incoming edges are examined separately; sites are (return, pred block or nil).
type NilReturn struct {
	Ret  *ssa.Return
	Val  ssa.Value       // the error operand (resolved)
	From *ssa.BasicBlock // for phi operands: the predecessor block contributing a maybe-nil value
}

func MaybeNilErrorReturns(fn *ssa.Function) []NilReturn {
	idx := ErrResultIndex(fn)
	if idx < 0 {
		return nil
	}
	var out []NilReturn
	for _, ri := range Returns(fn) {
		v := ri.Results[idx]
		out = append(out, maybeNil(ri.Ret, v, ri.Ret.Block(), 0)...)
	}
	return out
}

func maybeNil(ret *ssa.Return, v ssa.Value, at *ssa.BasicBlock, depth int) []NilReturn {
	if IsNilConst(v) {
		return []NilReturn{{ret, v, at}}
	}
	if k, isNil := NilFact(at, v); k && !isNil {
		return nil
	}
	if isNonNilErrorExpr(v) {
		return nil
	}
	if ph, ok := v.(*ssa.Phi); ok && depth < 6 {
		var out []NilReturn
		for i, e := range ph.Edges {
			out = append(out, maybeNil(ret, e, ph.Block().Preds[i], depth+1)...)
		}
		return out
	}
	return []NilReturn{{ret, v, at}}
}

// isNonNilErrorExpr recognises expressions that always yield a non-nil error:
// errors.New, fmt.Errorf, composite error values, package-level error vars.
func isNonNilErrorExpr(v ssa.Value) bool {
	v = originValue(v)
	switch x := v.(type) {
	case *ssa.Call:
		if f := x.Call.StaticCallee(); f != nil {
			if funcIs(f, "errors", "", "New") || funcIs(f, "fmt", "", "Errorf") {
				return true
			}
		}
	case *ssa.Alloc, *ssa.MakeInterface:
		return true
	case *ssa.UnOp:
		if x.Op == token.MUL {
			if g, ok := x.X.(*ssa.Global); ok {
				// package-level sentinel errors (os.ErrNotExist, errMissingDep ...)
				return strings.HasPrefix(g.Name(), "Err") || strings.HasPrefix(g.Name(), "err")
			}
		}
	}
	return false
}

// ---------------------------------------------------------------------------
// Path exploration (H4)

// PathQuery asks: starting right after Start, does every path to a function
// exit pass an instruction satisfying Stop?
type PathQuery struct {
	Start ssa.Instruction
	// Stop reports whether the path's obligation is met at this instruction.
	Stop func(ssa.Instruction) bool
	// Assume may prune a branch: given an If condition, return (known, value).
	Assume func(cond ssa.Value) (known, val bool)
	// ExitOK reports whether an exit (Return / Panic) is acceptable even though
	// Stop was not passed (e.g. returns whose error is non-nil).
	ExitOK func(exit ssa.Instruction) bool
	// IgnorePanics treats explicit panic exits as acceptable.
	IgnorePanics bool
}

// A Leak is an exit reached without passing Stop.
type Leak struct {
	Exit ssa.Instruction
	Via  []*ssa.BasicBlock
}

// LeakingExits returns the exits reachable from q.Start without passing Stop.
func LeakingExits(q PathQuery) []Leak {
	var leaks []Leak
	start := q.Start.Block()
	startIdx := instrIndex(q.Start) + 1
	type key struct {
		b *ssa.BasicBlock
	}
	seen := map[*ssa.BasicBlock]bool{}
	var walk func(b *ssa.BasicBlock, from int, via []*ssa.BasicBlock)
	walk = func(b *ssa.BasicBlock, from int, via []*ssa.BasicBlock) {
		via = append(via, b)
		for i := from; i < len(b.Instrs); i++ {
			in := b.Instrs[i]
			if q.Stop(in) {
				return
			}
			switch t := in.(type) {
			case *ssa.Return:
				if q.ExitOK == nil || !q.ExitOK(t) {
					leaks = append(leaks, Leak{t, append([]*ssa.BasicBlock(nil), via...)})
				}
				return
			case *ssa.Panic:
				if !q.IgnorePanics && (q.ExitOK == nil || !q.ExitOK(t)) {
					leaks = append(leaks, Leak{t, append([]*ssa.BasicBlock(nil), via...)})
				}
				return
			case *ssa.If:
				if q.Assume != nil {
					if known, val := q.Assume(t.Cond); known {
						s := b.Succs[1]
						if val {
							s = b.Succs[0]
						}
						if !seen[s] {
							seen[s] = true
							walk(s, 0, via)
						}
						return
					}
				}
			}
		}
		for _, s := range b.Succs {
			if !seen[s] {
				seen[s] = true
				walk(s, 0, via)
			}
		}
	}
	walk(start, startIdx, nil)
	_ = key{}
	return leaks
}

// ReachableFrom returns the set of instructions reachable from (after) start
// without passing an instruction satisfying barrier.
func ReachableFrom(start ssa.Instruction, barrier func(ssa.Instruction) bool) map[ssa.Instruction]bool {
	out := map[ssa.Instruction]bool{}
	seen := map[*ssa.BasicBlock]bool{}
	var walk func(b *ssa.BasicBlock, from int)
	walk = func(b *ssa.BasicBlock, from int) {
		for i := from; i < len(b.Instrs); i++ {
			in := b.Instrs[i]
			if barrier != nil && barrier(in) {
				return
			}
			out[in] = true
		}
		for _, s := range b.Succs {
			if !seen[s] {
				seen[s] = true
				walk(s, 0)
			}
		}
	}
	walk(start.Block(), instrIndex(start)+1)
	return out
}

// BlocksOnEdge returns the blocks reachable from successor idx of the If
// ending block b without returning to b.
func BlocksFrom(s *ssa.BasicBlock) map[*ssa.BasicBlock]bool {
	seen := map[*ssa.BasicBlock]bool{s: true}
	var walk func(b *ssa.BasicBlock)
	walk = func(b *ssa.BasicBlock) {
		for _, x := range b.Succs {
			if !seen[x] {
				seen[x] = true
				walk(x)
			}
		}
	}
	walk(s)
	return seen
}

// ---------------------------------------------------------------------------
// Deferred calls

// DeferredCalls lists the Defer instructions of fn; for each, Target is the
// deferred function when statically known (including function literals).
func DeferredCalls(fn *ssa.Function) []CallSite {
	var out []CallSite
	for _, c := range CallsIn(fn, false) {
		if c.IsDefer() {
			out = append(out, c)
		}
	}
	return out
}

// ClosureOf returns the function literal a call/go/defer invokes, if its
// callee value is a closure made in the same function.
func ClosureOf(c CallSite) *ssa.Function {
	cc := c.Common()
	if cc.IsInvoke() {
		return nil
	}
	switch v := originValue(cc.Value).(type) {
	case *ssa.MakeClosure:
		return v.Fn.(*ssa.Function)
	case *ssa.Function:
		if v.Parent() != nil {
			return v
		}
	}
	return nil
}

// FuncArgClosures returns the function literals passed as arguments to the call.
func FuncArgClosures(c CallSite) []*ssa.Function {
	var out []*ssa.Function
	for _, a := range c.Common().Args {
		switch v := originValue(a).(type) {
		case *ssa.MakeClosure:
			out = append(out, v.Fn.(*ssa.Function))
		case *ssa.Function:
			if v.Parent() != nil {
				out = append(out, v)
			}
		}
	}
	return out
}

// ---------------------------------------------------------------------------
// Types helpers

// Implementers returns the named, non-interface types declared in module
// packages (test-support packages excluded unless includeTest) whose pointer
// or value implements iface, sorted by name.
func (p *Program) Implementers(iface *types.Interface, includeTest bool) []*types.Named {
	var out []*types.Named
	var paths []string
	for path := range p.ByPath {
		if strings.HasPrefix(path, modPrefix) {
			paths = append(paths, path)
		}
	}
	sort.Strings(paths)
	for _, path := range paths {
		rel := strings.TrimPrefix(path, modPrefix)
		if !includeTest && IsTestSupportPkg(rel) {
			continue
		}
		pk := p.ByPath[path]
		if pk.Types == nil {
			continue
		}
		sc := pk.Types.Scope()
		for _, name := range sc.Names() {
			tn, ok := sc.Lookup(name).(*types.TypeName)
			if !ok || tn.IsAlias() {
				continue
			}
			n, ok := tn.Type().(*types.Named)
			if !ok || n.TypeParams().Len() > 0 {
				continue
			}
			if _, isIface := n.Underlying().(*types.Interface); isIface {
				continue
			}
			if types.Implements(n, iface) || types.Implements(types.NewPointer(n), iface) {
				out = append(out, n)
			}
		}
	}
	return out
}

// MethodOf returns the SSA function for method name of named type n (pointer
// receiver preferred); declared=false when the method is promoted from an
// embedded field (synthetic wrapper).
func (p *Program) MethodOf(n *types.Named, name string) (fn *ssa.Function, declared bool) {
	for _, t := range []types.Type{types.NewPointer(n), n} {
		sel := p.SSA.MethodSets.MethodSet(t).Lookup(n.Obj().Pkg(), name)
		if sel == nil {
			continue
		}
		f := p.SSA.MethodValue(sel)
		if f == nil {
			continue
		}
		return f, f.Synthetic == ""
	}
	return nil, false
}

// NamedOf returns the named type behind t (through one pointer), or nil.
func NamedOf(t types.Type) *types.Named {
	if pt, ok := t.(*types.Pointer); ok {
		t = pt.Elem()
	}
	n, _ := t.(*types.Named)
	return n
}

// IsNamed reports whether t (through one pointer) is the named type pkgPath.name.
func IsNamed(t types.Type, pkgPath, name string) bool {
	n := NamedOf(t)
	return n != nil && n.Obj().Name() == name && n.Obj().Pkg() != nil && n.Obj().Pkg().Path() == pkgPath
}
