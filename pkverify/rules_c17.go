package main

import (
	"fmt"
	"go/constant"
	"go/token"
	"go/types"
	"sort"
	"strings"

	"golang.org/x/tools/go/ssa"
)

func init() {
	register(&PropSpec{
		ID:    "C17",
		Title: "Without credentials, blobs are reachable only through a valid share chain; every other endpoint requires auth",
		Explanation: "Decided (structural necessary conditions, all computed from go/ssa + types of the current tree): " +
			"H-gate — in (*shareHandler).handleGetViaSharing every call that receives the http.ResponseWriter (other than rw.Header()) is a content emitter; each emitter lies after normal exhaustion of the chain loop (dominated by the loop's range-exhausted edge, no other way out of the loop), serves exactly the requested blobRef parameter, and any emitter other than the single-blob gethandler.ServeBlobRef additionally sits under the fact isTransitive==true; " +
			"for every validation predicate (share not deleted in the index, share fetch ok, size bound, AsShare ok, not expired, hop 1 equals the share target, transitive when the chain is longer than 2, intermediate fetch ok, bytesHaveSchemaLink(cur, bytes-of-cur, next) true, assemble only when transitive) no emitter is reachable from the predicate's bad edge, the predicate is evaluated on the right values (current chain element, the share parsed from that element's bytes, chain[1] / chain[i+1]) and, under each chain-position scenario (first element of a chain of length 1, 2, long; middle element), every path through one loop iteration crosses the predicate's good edge; non-GET requests return before any fetch or emitter; ServeHTTP/serveHTTP hand the ResponseWriter only to handleGetViaSharing or to the 400/401 error senders. " +
			"H-links — every exported blob.Ref-carrying accessor of *schema.Blob is classified (tree link or not, one reason each); each tree-link accessor (ByteParts incl. every blob.Ref field of BytesPart, DirectoryEntries, StaticSetMembers, StaticSetMergeSets) is called in bytesHaveSchemaLink on the parsed blob, reachable for each camliType it applies to, and its result is compared for equality with the target parameter with the comparison deciding the return value; every possibly-true return is guarded by such a comparison (no text search can say yes). " +
			"H-auth — (i) every handler type registered with blobserver.RegisterHandlerConstructor is either answered true by handlerTypeWantsAuth (evaluated on the constant) or is a reasoned exception re-checked structurally (share: H-gate; root: serveDiscovery only under auth.Allowed); (ii) every blob-protocol handler constructor (handlers.Create*Handler, gethandler.CreateGetHandler) is called only where its result flows into auth.RequireAuth and nowhere else, and every Operation handed to RequireAuth is a non-zero constant (a zero Operation is allowed to everybody); (iii) every handler registration (HandlerInstaller.Handle, ServeMux/webserver Handle/HandleFunc) in the server packages installs an always-refusing handler, an auth.RequireAuth value, an auth.Handler wrap, a handler function all of whose response paths go through RequireAuth, or a bare handler only on the edge where handlerTypeWantsAuth(h.htype) is false for the same htype given to CreateHandler; (iv) auth.Handler / RequireAuth call the inner handler only under Allowed(sameRequest, op)==true, Allowed says yes only under AllowedWithAuth(mode, req, op)==true, and AllowedWithAuth returns (AllowedAccess(req) & mask) == mask with mask derived from op. " +
			"NOT decided: that the predicates compute the right thing on every input (schema parsing, expiry arithmetic, index deletion state, hash of fetched bytes); completeness (every valid chain is served) beyond the link-kind agreement; credential checking inside each auth mode; app handlers' own auth (separate processes behind pkg/server/app); what authenticated handlers do after the wrapper; timing side channels; runtime configuration generation.",
		RuleDocs: map[string]string{
			"H-gate":  "handleGetViaSharing: emitters (calls receiving the ResponseWriter) x validation predicates: loop-exit dominance, bad-edge unreachability, per-scenario must-cross of the good edge, value relations; method gate; entry points hand rw only to the gate or error senders",
			"H-links": "bytesHaveSchemaLink honours exactly the tree-link accessors of schema.Blob: each called, type-reachable, compared with target, decisive; every possibly-true return guarded by such a comparison; accessor classification exhaustive",
			"H-auth":  "registered handler types vs. handlerTypeWantsAuth (+2 re-checked exceptions); blob-protocol handler constructors flow only into RequireAuth with non-zero op; every Handle registration classified; auth wrappers call through only under Allowed==true",
		},
		Run:       runC17,
		DesignRef: "DESIGN.md §4 C17",
		Technique: "static analysis: dominance and edge-reachability over go/ssa with scenario-pruned path exploration, value dependence, who-may-call and table agreement (handler types, link accessors)",
		LevelText: "Decides structural necessary conditions only: nothing is written to an unauthenticated share response except after the whole via-chain passed every validation predicate on the right values; the link check honours exactly the schema tree links; every registered handler type and every installed endpoint of the server packages is behind an auth wrapper (or is the share/root exception, re-checked), and the wrappers call through only when Allowed said yes. Does not decide that the predicates, the auth modes or the schema parser are correct on all inputs, nor app-side auth.",
	})
}

func runC17(p *Program, r *Reporter) {
	a := c17NewAuth(p, r)
	c17RuleGate(p, r, a)
	c17RuleLinks(p, r)
	c17RuleAuth(a)
}

// ---------------------------------------------------------------------------
// general helpers (c17-prefixed; candidates for helpers.go)

// c17DependsOn is DependsOn that also follows values stored into in-memory
// aggregates (varargs arrays, composite literals, struct locals) through
// their field/index addresses, and captured variables.
func c17DependsOn(v ssa.Value, target func(ssa.Value) bool) bool {
	seen := map[ssa.Value]bool{}
	var walk func(v ssa.Value, d int) bool
	walk = func(v ssa.Value, d int) bool {
		if v == nil || seen[v] || d > 120 {
			return false
		}
		seen[v] = true
		if target(v) {
			return true
		}
		switch x := v.(type) {
		case *ssa.UnOp:
			if x.Op == token.MUL {
				if cell, ok := varOf(x.X); ok {
					if al, isAlloc := cell.(*ssa.Alloc); isAlloc {
						if walk(al, d+1) {
							return true
						}
					}
				}
			}
		case *ssa.Alloc:
			for _, st := range storesTo(x) {
				if walk(st.Val, d+1) {
					return true
				}
			}
			if refs := x.Referrers(); refs != nil {
				for _, ref := range *refs {
					var sub ssa.Value
					switch a := ref.(type) {
					case *ssa.FieldAddr:
						sub = a
					case *ssa.IndexAddr:
						sub = a
					}
					if sub == nil || sub.Referrers() == nil {
						continue
					}
					for _, rr := range *sub.Referrers() {
						if st, ok := rr.(*ssa.Store); ok && st.Addr == sub {
							if walk(st.Val, d+1) {
								return true
							}
						}
					}
				}
			}
		case *ssa.FreeVar:
			if b := bindingOf(x); b != nil && walk(b, d+1) {
				return true
			}
		}
		if in, ok := v.(ssa.Instruction); ok {
			for _, op := range in.Operands(nil) {
				if *op != nil && walk(*op, d+1) {
					return true
				}
			}
		}
		return false
	}
	return walk(v, 0)
}

// c17IsGenericStatic matches a call of (an instantiation of) the generic
// package-level function pkgPath.name.
func c17IsGenericStatic(c CallSite, pkgPath, name string) bool {
	f := c.Callee()
	if f == nil {
		return false
	}
	if o := f.Origin(); o != nil {
		f = o
	}
	if f.Name() != name || f.Signature.Recv() != nil {
		return false
	}
	var pkg *types.Package
	if f.Pkg != nil {
		pkg = f.Pkg.Pkg
	} else if f.Object() != nil {
		pkg = f.Object().Pkg()
	}
	return pkg != nil && pkg.Path() == pkgPath
}

// c17Method returns the declared (non-synthetic) method name of named type n,
// whether it has a value or a pointer receiver; nil when absent.
func c17Method(p *Program, n *types.Named, name string) *ssa.Function {
	for _, t := range []types.Type{n, types.NewPointer(n)} {
		sel := p.SSA.MethodSets.MethodSet(t).Lookup(n.Obj().Pkg(), name)
		if sel == nil {
			continue
		}
		if f := p.SSA.MethodValue(sel); f != nil && f.Synthetic == "" && f.Blocks != nil {
			return f
		}
	}
	return nil
}

func c17DependsOnValue(v, on ssa.Value) bool {
	return c17DependsOn(v, func(x ssa.Value) bool { return x == on })
}

// c17Params returns fn's parameters whose type is (a pointer to) pkgPath.name.
func c17Params(fn *ssa.Function, pkgPath, name string) []*ssa.Parameter {
	var out []*ssa.Parameter
	for _, prm := range fn.Params {
		if IsNamed(prm.Type(), pkgPath, name) {
			out = append(out, prm)
		}
	}
	return out
}

// c17OneParam returns the unique parameter of that type or nil.
func c17OneParam(fn *ssa.Function, pkgPath, name string) *ssa.Parameter {
	ps := c17Params(fn, pkgPath, name)
	if len(ps) == 1 {
		return ps[0]
	}
	return nil
}

// c17UsesOf lists the call sites (nested literals included) that receive value
// v (matched through sameOrigin, so spilled/captured parameters count) as
// receiver or argument.
func c17UsesOf(fn *ssa.Function, v ssa.Value) []CallSite {
	var out []CallSite
	for _, c := range CallsIn(fn, true) {
		for _, a := range c.Args() {
			if sameOrigin(a, v) {
				out = append(out, c)
				break
			}
		}
	}
	return out
}

func c17StripNot(cond ssa.Value, val bool) (ssa.Value, bool) {
	for {
		u, ok := cond.(*ssa.UnOp)
		if !ok || u.Op != token.NOT {
			return cond, val
		}
		cond, val = u.X, !val
	}
}

// c17EdgeFacts: the branch facts known when control arrives in succ from pred.
func c17EdgeFacts(pred, succ *ssa.BasicBlock) []CondFact {
	facts := append([]CondFact(nil), FactsAt(pred)...)
	if n := len(pred.Instrs); n > 0 {
		if ifi, ok := pred.Instrs[n-1].(*ssa.If); ok && len(pred.Succs) == 2 && pred.Succs[0] != pred.Succs[1] {
			if pred.Succs[0] == succ {
				facts = append(facts, CondFact{ifi.Cond, true, pred})
			} else if pred.Succs[1] == succ {
				facts = append(facts, CondFact{ifi.Cond, false, pred})
			}
		}
	}
	return facts
}

// c17BoolCallIn looks for a fact about the boolean result of a call satisfying pred.
func c17BoolCallIn(facts []CondFact, pred func(CallSite) bool) (known, val bool, call CallSite) {
	for _, f := range facts {
		cond, v := c17StripNot(f.Cond, f.Val)
		if c, ok := originValue(cond).(*ssa.Call); ok {
			cs := CallSite{c.Parent(), c}
			if pred(cs) {
				return true, v, cs
			}
		}
	}
	return false, false, CallSite{}
}

// c17Branch is one If whose condition evaluates a predicate; GoodIdx is the
// successor index (0 = true edge) taken when the predicate has its good value.
type c17Branch struct {
	If      *ssa.If
	GoodIdx int
}

func (b c17Branch) good() *ssa.BasicBlock { return b.If.Block().Succs[b.GoodIdx] }
func (b c17Branch) bad() *ssa.BasicBlock  { return b.If.Block().Succs[1-b.GoodIdx] }

// c17Branches finds the Ifs of fn whose (NOT-stripped) condition matches;
// goodWhenTrue says which value of the stripped condition is the good one.
func c17Branches(fn *ssa.Function, match func(cond ssa.Value) (matched, goodWhenTrue bool)) []c17Branch {
	var out []c17Branch
	for _, b := range fn.Blocks {
		if len(b.Instrs) == 0 || len(b.Succs) != 2 || b.Succs[0] == b.Succs[1] {
			continue
		}
		ifi, ok := b.Instrs[len(b.Instrs)-1].(*ssa.If)
		if !ok {
			continue
		}
		// polarity: condition as written == (stripped == pol)
		stripped, pol := c17StripNot(ifi.Cond, true)
		m, goodTrue := match(stripped)
		if !m {
			continue
		}
		// the true edge is taken when stripped == pol
		goodIdx := 1
		if goodTrue == pol {
			goodIdx = 0
		}
		out = append(out, c17Branch{ifi, goodIdx})
	}
	return out
}

// c17PhiLeaves flattens nested phis.
func c17PhiLeaves(v ssa.Value) []ssa.Value {
	var out []ssa.Value
	seen := map[ssa.Value]bool{}
	var walk func(v ssa.Value)
	walk = func(v ssa.Value) {
		if seen[v] {
			return
		}
		seen[v] = true
		if ph, ok := v.(*ssa.Phi); ok {
			for _, e := range ph.Edges {
				walk(e)
			}
			return
		}
		out = append(out, v)
	}
	walk(v)
	return out
}

// c17Scenario fixes symbolic integers (loop index, chain length) and one
// access path assumed non-nil, so that branch conditions over them can be
// evaluated during path exploration.
type c17Scenario struct {
	Name    string
	Idx     ssa.Value
	IdxVal  int64
	Chain   ssa.Value
	LenVal  int64
	NonNil  string // access path assumed non-nil ("" = none)
	Unknown []string
}

func (s *c17Scenario) intVal(v ssa.Value) (int64, bool) {
	if s.Idx != nil && v == s.Idx {
		return s.IdxVal, true
	}
	if n, ok := ConstInt(v); ok {
		return n, true
	}
	switch x := v.(type) {
	case *ssa.Call:
		if b, ok := x.Call.Value.(*ssa.Builtin); ok && b.Name() == "len" && len(x.Call.Args) == 1 && s.Chain != nil && sameOrigin(x.Call.Args[0], s.Chain) {
			return s.LenVal, true
		}
	case *ssa.BinOp:
		a, ok1 := s.intVal(x.X)
		b, ok2 := s.intVal(x.Y)
		if ok1 && ok2 {
			switch x.Op {
			case token.ADD:
				return a + b, true
			case token.SUB:
				return a - b, true
			}
		}
	case *ssa.Convert:
		return s.intVal(x.X)
	}
	return 0, false
}

// Eval evaluates a branch condition under the scenario.
func (s *c17Scenario) Eval(cond ssa.Value) (known, val bool) {
	cond, pol := c17StripNot(cond, true)
	bo, ok := cond.(*ssa.BinOp)
	if !ok {
		return false, false
	}
	if a, ok1 := s.intVal(bo.X); ok1 {
		if b, ok2 := s.intVal(bo.Y); ok2 {
			var res bool
			switch bo.Op {
			case token.EQL:
				res = a == b
			case token.NEQ:
				res = a != b
			case token.LSS:
				res = a < b
			case token.LEQ:
				res = a <= b
			case token.GTR:
				res = a > b
			case token.GEQ:
				res = a >= b
			default:
				return false, false
			}
			return true, res == pol
		}
	}
	if s.NonNil != "" && (bo.Op == token.EQL || bo.Op == token.NEQ) {
		var other ssa.Value
		if IsNilConst(bo.Y) {
			other = bo.X
		} else if IsNilConst(bo.X) {
			other = bo.Y
		}
		if other != nil && AccessPath(other) == s.NonNil {
			return true, (bo.Op == token.NEQ) == pol
		}
	}
	return false, false
}

// c17Reach explores forward from start. Edges for which cut returns true are
// not followed; branch conditions the scenario can evaluate are followed only
// on the taken side; blocks in stop are recorded but not expanded.
func c17Reach(start *ssa.BasicBlock, sc *c17Scenario, cut func(from *ssa.BasicBlock, succIdx int) bool, stop map[*ssa.BasicBlock]bool) map[*ssa.BasicBlock]bool {
	seen := map[*ssa.BasicBlock]bool{}
	var walk func(b *ssa.BasicBlock)
	walk = func(b *ssa.BasicBlock) {
		if seen[b] {
			return
		}
		seen[b] = true
		if stop[b] {
			return
		}
		only := -1
		if sc != nil && len(b.Succs) == 2 && len(b.Instrs) > 0 {
			if ifi, ok := b.Instrs[len(b.Instrs)-1].(*ssa.If); ok {
				if k, v := sc.Eval(ifi.Cond); k {
					only = 1
					if v {
						only = 0
					}
				}
			}
		}
		for i, s := range b.Succs {
			if only >= 0 && i != only {
				continue
			}
			if cut != nil && cut(b, i) {
				continue
			}
			walk(s)
		}
	}
	walk(start)
	return seen
}

func c17IsBuiltinLen(v ssa.Value) (arg ssa.Value, ok bool) {
	c, isCall := v.(*ssa.Call)
	if !isCall {
		return nil, false
	}
	if b, isB := c.Call.Value.(*ssa.Builtin); isB && b.Name() == "len" && len(c.Call.Args) == 1 {
		return c.Call.Args[0], true
	}
	return nil, false
}

func c17BlockNames(bs []*ssa.BasicBlock) string {
	var s []string
	for _, b := range bs {
		s = append(s, fmt.Sprintf("%d", b.Index))
	}
	return strings.Join(s, ",")
}

// ---------------------------------------------------------------------------
// H-gate

type c17Loop struct {
	Header, Body, Done *ssa.BasicBlock
	Idx, Chain         ssa.Value
	In                 map[*ssa.BasicBlock]bool
}

// c17FindLoop finds the innermost counted loop (`idx < len(chain)`) whose body
// dominates block b.
func c17FindLoop(b *ssa.BasicBlock) *c17Loop {
	for h := b.Idom(); h != nil; h = h.Idom() {
		if len(h.Instrs) == 0 || len(h.Succs) != 2 {
			continue
		}
		ifi, ok := h.Instrs[len(h.Instrs)-1].(*ssa.If)
		if !ok {
			continue
		}
		bo, ok := ifi.Cond.(*ssa.BinOp)
		if !ok {
			continue
		}
		var idx, bound ssa.Value
		switch bo.Op {
		case token.LSS:
			idx, bound = bo.X, bo.Y
		case token.GTR:
			idx, bound = bo.Y, bo.X
		default:
			continue
		}
		chain, isLen := c17IsBuiltinLen(bound)
		if !isLen {
			continue
		}
		body, done := h.Succs[0], h.Succs[1]
		if !(body == b || body.Dominates(b)) {
			continue
		}
		back := false
		for _, pr := range h.Preds {
			if h.Dominates(pr) {
				back = true
			}
		}
		if !back {
			continue
		}
		l := &c17Loop{Header: h, Body: body, Done: done, Idx: idx, Chain: chain, In: map[*ssa.BasicBlock]bool{}}
		for _, x := range h.Parent().Blocks {
			if h.Dominates(x) && BlocksFrom(x)[h] && (x == h || body == x || body.Dominates(x)) {
				l.In[x] = true
			}
		}
		return l
	}
	return nil
}

type c17Gate struct {
	p   *Program
	r   *Reporter
	fn  *ssa.Function
	key string
	rw  *ssa.Parameter
	req *ssa.Parameter
	ref *ssa.Parameter
	lp  *c17Loop

	emitters []CallSite
	emitBlk  map[*ssa.BasicBlock]bool
}

func (g *c17Gate) isCur(v ssa.Value) bool {
	ld, ok := originValue(v).(*ssa.UnOp)
	if !ok || ld.Op != token.MUL {
		return false
	}
	ia, ok := ld.X.(*ssa.IndexAddr)
	return ok && sameOrigin(ia.X, g.lp.Chain) && ia.Index == g.lp.Idx
}

// isElem reports whether v is a load of chain[k] for constant k or of chain[idx+1] (k = -1).
func (g *c17Gate) isElemAt(v ssa.Value, constIdx int64, next bool) bool {
	ld, ok := originValue(v).(*ssa.UnOp)
	if !ok || ld.Op != token.MUL {
		return false
	}
	ia, ok := ld.X.(*ssa.IndexAddr)
	if !ok || !sameOrigin(ia.X, g.lp.Chain) {
		return false
	}
	if n, isC := ConstInt(ia.Index); isC {
		return !next && n == constIdx
	}
	if bo, isB := ia.Index.(*ssa.BinOp); isB && bo.Op == token.ADD {
		if n, isC := ConstInt(bo.Y); isC && n == 1 && bo.X == g.lp.Idx {
			return next
		}
		if n, isC := ConstInt(bo.X); isC && n == 1 && bo.Y == g.lp.Idx {
			return next
		}
	}
	return false
}

func (g *c17Gate) scenario(name string, idx, n int64, nonNil string) *c17Scenario {
	return &c17Scenario{Name: name, Idx: g.lp.Idx, IdxVal: idx, Chain: g.lp.Chain, LenVal: n, NonNil: nonNil}
}

// badEdgeReaches returns the emitter blocks reachable from the bad edge of br.
func (g *c17Gate) badEdgeReaches(br c17Branch) []*ssa.BasicBlock {
	var out []*ssa.BasicBlock
	reach := BlocksFrom(br.bad())
	for b := range g.emitBlk {
		if reach[b] {
			out = append(out, b)
		}
	}
	sort.Slice(out, func(i, j int) bool { return out[i].Index < out[j].Index })
	return out
}

// mustCross: under scenario sc, every path through one iteration (from the
// loop body entry to the back edge or out of the loop towards Done) crosses a
// good edge of one of brs.
func (g *c17Gate) mustCross(sc *c17Scenario, brs []c17Branch) (bool, string) {
	cut := func(from *ssa.BasicBlock, i int) bool {
		for _, br := range brs {
			if br.If.Block() == from && br.GoodIdx == i {
				return true
			}
		}
		return false
	}
	stop := map[*ssa.BasicBlock]bool{g.lp.Header: true, g.lp.Done: true}
	for b := range g.emitBlk {
		stop[b] = true
	}
	reach := c17Reach(g.lp.Body, sc, cut, stop)
	var hit []*ssa.BasicBlock
	for b := range stop {
		if reach[b] {
			hit = append(hit, b)
		}
	}
	if len(hit) == 0 {
		return true, ""
	}
	sort.Slice(hit, func(i, j int) bool { return hit[i].Index < hit[j].Index })
	return false, fmt.Sprintf("scenario %s (index %d of a chain of %d): the iteration can complete (reach block %s) without crossing the predicate's good edge", sc.Name, sc.IdxVal, sc.LenVal, c17BlockNames(hit))
}

// pred reports one predicate obligation.
type c17Pred struct {
	name      string
	brs       []c17Branch
	valueErr  string         // non-empty: predicate evaluated on the wrong values
	scenarios []*c17Scenario // must-cross scenarios (nil = bad-edge rule only)
	site      token.Pos
	missing   string // non-empty: predicate absent
	optional  bool   // absent predicate is fine (bad-edge rule only)
	what      string
}

func (g *c17Gate) report(pd *c17Pred) {
	construct := g.key + "#pred:" + pd.name
	site := g.p.Pos(pd.site)
	if pd.missing != "" {
		if pd.optional {
			g.r.OKTable("H-gate", construct, g.p.Pos(g.fn.Pos()), "predicate not present; it is redundant for the property ("+pd.missing+")")
			return
		}
		g.r.Violation("H-gate", construct, g.p.Pos(g.fn.Pos()), "validation predicate missing: "+pd.missing)
		return
	}
	if pd.valueErr != "" {
		g.r.Violation("H-gate", construct, site, pd.what+": evaluated on the wrong value: "+pd.valueErr)
		return
	}
	if len(pd.brs) == 0 {
		g.r.Violation("H-gate", construct, site, pd.what+": the predicate's result never decides a branch (computed but not checked)")
		return
	}
	for _, br := range pd.brs {
		if hit := g.badEdgeReaches(br); len(hit) > 0 {
			g.r.Violation("H-gate", construct, g.p.Pos(br.If.Cond.Pos()), fmt.Sprintf("%s: from the bad edge of the check in block %d a content emitter is still reachable (emitter block %s)", pd.what, br.If.Block().Index, c17BlockNames(hit)))
			return
		}
	}
	var done []string
	for _, sc := range pd.scenarios {
		ok, why := g.mustCross(sc, pd.brs)
		if !ok {
			g.r.Violation("H-gate", construct, site, pd.what+": "+why)
			return
		}
		done = append(done, sc.Name)
	}
	detail := fmt.Sprintf("%s: %d check(s); no emitter reachable from a bad edge", pd.what, len(pd.brs))
	if len(done) > 0 {
		detail += "; good edge crossed on every iteration path in scenarios " + strings.Join(done, ",")
	}
	g.r.OK("H-gate", construct, site, detail)
}

func c17RuleGate(p *Program, r *Reporter, a *c17Auth) {
	fn := p.Func("pkg/server", "shareHandler", "handleGetViaSharing")
	g := &c17Gate{p: p, r: r, fn: fn, key: FuncKey(fn), emitBlk: map[*ssa.BasicBlock]bool{}}
	site := p.Pos(fn.Pos())
	g.rw = c17OneParam(fn, "net/http", "ResponseWriter")
	g.req = c17OneParam(fn, "net/http", "Request")
	g.ref = c17OneParam(fn, "perkeep.org/pkg/blob", "Ref")
	if g.rw == nil || g.req == nil || g.ref == nil {
		brokenf("anchor unresolved: %s no longer has exactly one ResponseWriter, *Request and blob.Ref parameter", g.key)
	}
	fetcher := p.Iface("pkg/blob", "Fetcher")
	linkFn := p.Func("pkg/server", "", "bytesHaveSchemaLink")
	r.Analysed("functions", 1+len(fn.AnonFuncs))
	r.Floor("H-gate", 17)

	// --- emitters: every call that gets the ResponseWriter, except rw.Header()
	nestedEmit := false
	for _, c := range c17UsesOf(fn, g.rw) {
		if c.Common().IsInvoke() && c.MethodName() == "Header" {
			continue
		}
		g.emitters = append(g.emitters, c)
		if c.Fn != fn {
			nestedEmit = true
			continue
		}
		g.emitBlk[c.Block()] = true
	}
	r.Analysed("call_sites", len(CallsIn(fn, true)))
	if len(g.emitters) == 0 {
		r.Violation("H-gate", g.key+"#emitters", site, "no call receives the ResponseWriter: the handler no longer serves anything (anchor moved?)")
		return
	}
	if nestedEmit {
		r.Undecided("H-gate", g.key+"#emitters", site, "the ResponseWriter is used inside a nested function literal; dominance by the chain loop cannot be decided there")
		return
	}

	// --- the chain loop, found from the Fetch calls
	var fetches []CallSite
	for _, c := range CallsIn(fn, false) {
		if c.Common().IsInvoke() && c.IsMethod("Fetch", fetcher) && c.Value() != nil {
			fetches = append(fetches, c)
		}
	}
	if len(fetches) == 0 {
		r.Violation("H-gate", g.key+"#chain-loop", site, "no blob.Fetcher.Fetch call in the handler: the chain is not validated against stored blobs")
		return
	}
	for _, f := range fetches {
		l := c17FindLoop(f.Block())
		if l == nil {
			r.Undecided("H-gate", g.key+"#chain-loop", p.Pos(f.Pos()), "a Fetch call is not inside a counted loop `i < len(chain)`; the per-hop analysis cannot follow this shape")
			return
		}
		if g.lp != nil && g.lp.Header != l.Header {
			r.Undecided("H-gate", g.key+"#chain-loop", p.Pos(f.Pos()), "Fetch calls sit in different loops; the per-hop analysis expects one chain loop")
			return
		}
		g.lp = l
	}
	lp := g.lp
	{
		var why []string
		if !c17DependsOnValue(lp.Chain, g.ref) {
			why = append(why, "the iterated chain does not contain the requested blobRef parameter")
		}
		for _, pr := range lp.Done.Preds {
			if pr != lp.Header {
				why = append(why, fmt.Sprintf("the loop is left early from block %d (break) without exhausting the chain", pr.Index))
			}
		}
		if lp.In[lp.Done] {
			why = append(why, "loop exit block is inside the loop")
		}
		if len(why) > 0 {
			r.Violation("H-gate", g.key+"#chain-loop", p.Pos(lp.Header.Instrs[len(lp.Header.Instrs)-1].Pos()), strings.Join(why, "; "))
		} else {
			r.OK("H-gate", g.key+"#chain-loop", p.Pos(lp.Chain.Pos()), fmt.Sprintf("one counted loop over a chain that includes blobRef; header block %d, left only when the index reaches len(chain) (block %d)", lp.Header.Index, lp.Done.Index))
		}
	}

	// --- predicates
	isIdx := func(c CallSite, recv, name string) bool { return c.IsStatic("perkeep.org/pkg/schema", recv, name) }
	var asShare, isExpired, isTransitive, isDeleted, linkCalls []CallSite
	for _, c := range CallsIn(fn, false) {
		switch {
		case isIdx(c, "Blob", "AsShare"):
			asShare = append(asShare, c)
		case isIdx(c, "Share", "IsExpired"):
			isExpired = append(isExpired, c)
		case isIdx(c, "Share", "IsTransitive"):
			isTransitive = append(isTransitive, c)
		case c.IsStatic("perkeep.org/pkg/index", "Index", "IsDeleted"):
			isDeleted = append(isDeleted, c)
		case c.Callee() == linkFn:
			linkCalls = append(linkCalls, c)
		}
	}
	// scenarios
	nonNil := ""
	if len(isDeleted) > 0 {
		nonNil = AccessPath(isDeleted[0].Args()[0])
	}
	first1 := g.scenario("first-of-1", 0, 1, nonNil)
	first2 := g.scenario("first-of-2", 0, 2, nonNil)
	first3 := g.scenario("first-of-3", 0, 3, nonNil)
	firstN := g.scenario("first-of-many", 0, 1000, nonNil)
	mid3 := g.scenario("middle-of-3", 1, 3, nonNil)
	midN := g.scenario("middle-of-many", 500, 1000, nonNil)
	firstAll := []*c17Scenario{first1, first2, first3, firstN}

	boolCallBranches := func(call CallSite, resultIdx int, goodVal bool) []c17Branch {
		rv := ResultValue(call.Value(), resultIdx)
		if rv == nil {
			return nil
		}
		return c17Branches(fn, func(cond ssa.Value) (bool, bool) {
			if originValue(cond) == rv || cond == rv {
				return true, goodVal
			}
			return false, false
		})
	}
	errBranches := func(call CallSite) []c17Branch {
		ev, has, discarded := ErrValue(call.Value())
		if !has || discarded {
			return nil
		}
		return c17Branches(fn, func(cond ssa.Value) (bool, bool) {
			if k, isNil := condSaysNil(cond, true, ev); k {
				return true, isNil // good when err is nil
			}
			return false, false
		})
	}

	// the share value: AsShare on a blob parsed from the bytes fetched for the current element
	var shareCall CallSite
	var shareFetch CallSite
	haveShare := false
	if len(asShare) == 1 {
		shareCall = asShare[0]
		haveShare = true
		for _, f := range fetches {
			if c17DependsOnValue(shareCall.Args()[0], f.Value()) {
				shareFetch = f
			}
		}
	}
	dependsOnShare := func(v ssa.Value) bool {
		return haveShare && c17DependsOnValue(v, shareCall.Value())
	}

	// P: deleted
	{
		pd := &c17Pred{name: "deleted", what: "index says the share claim is deleted", scenarios: firstAll}
		switch {
		case len(isDeleted) == 0:
			pd.missing = "no (*index.Index).IsDeleted call: a deleted share would still be honoured"
		case len(isDeleted) > 1:
			pd.valueErr = "more than one IsDeleted call; expected one, on the first chain element"
			pd.site = isDeleted[1].Pos()
		default:
			c := isDeleted[0]
			pd.site = c.Pos()
			if !g.isCur(c.Args()[1]) {
				pd.valueErr = "IsDeleted is not asked about the current chain element"
			}
			pd.brs = boolCallBranches(c, 0, false)
		}
		g.report(pd)
	}
	// P: share fetch error, size
	{
		pd := &c17Pred{name: "share-fetch-err", what: "fetch of the share claim failed", scenarios: firstAll}
		ps := &c17Pred{name: "size", what: "share blob larger than schema.MaxSchemaBlobSize", optional: true}
		if shareFetch.Instr == nil {
			pd.missing = "no Fetch whose bytes are parsed into the share (AsShare receiver does not depend on a Fetch result)"
			ps.missing = "no share fetch"
			ps.optional = false
		} else {
			pd.site = shareFetch.Pos()
			ps.site = shareFetch.Pos()
			if !g.isCur(shareFetch.Args()[2]) {
				pd.valueErr = "the share is not fetched by the current chain element's ref"
			}
			pd.brs = errBranches(shareFetch)
			// size predicate: comparison of the fetch's size result with the constant MaxSchemaBlobSize
			maxC, _ := p.Pkg("pkg/schema").Types.Scope().Lookup("MaxSchemaBlobSize").(*types.Const)
			if maxC == nil {
				brokenf("anchor unresolved: schema.MaxSchemaBlobSize")
			}
			maxV, _ := constant.Int64Val(constant.ToInt(maxC.Val()))
			sizeV := ResultValue(shareFetch.Value(), 1)
			ps.brs = c17Branches(fn, func(cond ssa.Value) (bool, bool) {
				bo, ok := cond.(*ssa.BinOp)
				if !ok || sizeV == nil {
					return false, false
				}
				x, y := bo.X, bo.Y
				op := bo.Op
				if cv, ok := ConstInt(x); ok && cv == maxV && c17DependsOnValue(y, sizeV) {
					// K op size  ==  size op' K
					x, y = y, x
					switch op {
					case token.LSS:
						op = token.GTR
					case token.LEQ:
						op = token.GEQ
					case token.GTR:
						op = token.LSS
					case token.GEQ:
						op = token.LEQ
					}
				}
				cv, ok := ConstInt(y)
				if !ok || cv != maxV || !c17DependsOnValue(x, sizeV) {
					return false, false
				}
				switch op {
				case token.GTR, token.GEQ:
					return true, false // true = too large = bad
				case token.LSS, token.LEQ:
					return true, true
				}
				return false, false
			})
			if len(ps.brs) == 0 {
				ps.missing = "schema.BlobFromReader/parseSuperset enforces the same bound"
			}
		}
		g.report(pd)
		g.report(ps)
	}
	// P: AsShare ok
	{
		pd := &c17Pred{name: "as-share", what: "first chain element is not a valid share claim", scenarios: firstAll}
		switch {
		case len(asShare) == 0:
			pd.missing = "no (*schema.Blob).AsShare call: the first chain element is not required to be a share claim"
		case len(asShare) > 1:
			pd.valueErr = "more than one AsShare call"
			pd.site = asShare[1].Pos()
		default:
			pd.site = shareCall.Pos()
			pd.brs = boolCallBranches(shareCall, 1, true)
		}
		g.report(pd)
	}
	// P: expired
	{
		pd := &c17Pred{name: "expired", what: "share claim is expired", scenarios: firstAll}
		switch {
		case len(isExpired) == 0:
			pd.missing = "no (schema.Share).IsExpired call: expired shares would still be honoured"
		default:
			c := isExpired[0]
			pd.site = c.Pos()
			if !dependsOnShare(c.Args()[0]) {
				pd.valueErr = "IsExpired is not asked of the share parsed from the first chain element"
			}
			for _, c := range isExpired {
				pd.brs = append(pd.brs, boolCallBranches(c, 0, false)...)
			}
		}
		g.report(pd)
	}
	// P: target equality: comparison of something derived from chain[1]/chain[i+1] with share.Target()
	{
		pd := &c17Pred{name: "target", what: "hop 1 is not the share's target", scenarios: []*c17Scenario{first2, first3, firstN}}
		isTargetOfShare := func(v ssa.Value) bool {
			return c17DependsOn(v, func(x ssa.Value) bool {
				c, ok := x.(*ssa.Call)
				if !ok {
					return false
				}
				cs := CallSite{fn, c}
				if !(cs.IsStatic("perkeep.org/pkg/schema", "Claim", "Target") || cs.IsStatic("perkeep.org/pkg/schema", "Share", "Target") || cs.IsStatic("perkeep.org/pkg/schema", "Blob", "ShareTarget")) {
					return false
				}
				return dependsOnShare(c.Call.Args[0]) || (haveShare && c17DependsOnValue(c.Call.Args[0], shareCall.Args()[0]))
			})
		}
		isHop1 := func(v ssa.Value) bool {
			return c17DependsOn(v, func(x ssa.Value) bool { return g.isElemAt(x, 1, false) || g.isElemAt(x, 0, true) })
		}
		pd.brs = c17Branches(fn, func(cond ssa.Value) (bool, bool) {
			bo, ok := cond.(*ssa.BinOp)
			if !ok || (bo.Op != token.EQL && bo.Op != token.NEQ) {
				return false, false
			}
			if (isTargetOfShare(bo.X) && isHop1(bo.Y)) || (isTargetOfShare(bo.Y) && isHop1(bo.X)) {
				return true, bo.Op == token.EQL
			}
			return false, false
		})
		if len(pd.brs) == 0 {
			pd.missing = "no comparison between the second chain element and the target of the share parsed from the first: any blob could be requested through any share"
		} else {
			pd.site = pd.brs[0].If.Cond.Pos()
		}
		g.report(pd)
	}
	// P: transitive (in loop: chains longer than 2) and assemble (after loop)
	isTransVal := func(v ssa.Value) bool {
		// IsTransitive() of the share, or a phi all of whose leaves are that or the constant false
		sawCall := false
		for _, l := range c17PhiLeaves(v) {
			if c, ok := l.(*ssa.Call); ok {
				cs := CallSite{fn, c}
				if cs.IsStatic("perkeep.org/pkg/schema", "Share", "IsTransitive") && dependsOnShare(c.Call.Args[0]) {
					sawCall = true
					continue
				}
				return false
			}
			if k, ok := l.(*ssa.Const); ok && k.Value != nil && k.Value.Kind() == constant.Bool && !constant.BoolVal(k.Value) {
				continue
			}
			return false
		}
		return sawCall
	}
	transBranches := c17Branches(fn, func(cond ssa.Value) (bool, bool) {
		if isTransVal(cond) {
			return true, true
		}
		return false, false
	})
	{
		pd := &c17Pred{name: "transitive", what: "share is not transitive but the chain is longer than share -> target", scenarios: []*c17Scenario{first3, firstN}}
		if len(isTransitive) == 0 {
			pd.missing = "no (schema.Share).IsTransitive call: non-transitive shares would open their whole subtree"
		} else {
			pd.site = isTransitive[0].Pos()
			pd.brs = transBranches
		}
		g.report(pd)
	}
	// P: intermediate hops
	{
		pe := &c17Pred{name: "link-fetch-err", what: "fetch of an intermediate chain element failed", scenarios: []*c17Scenario{mid3, midN}}
		pl := &c17Pred{name: "link", what: "intermediate chain element has no schema link to the next one", scenarios: []*c17Scenario{mid3, midN}}
		switch {
		case len(linkCalls) == 0:
			pl.missing = "bytesHaveSchemaLink is not called: via hops are not checked for a link to the next element"
			pe.missing = "no link check, hence no fetch feeding it"
		default:
			c := linkCalls[0]
			pl.site = c.Pos()
			var linkFetch CallSite
			for _, f := range fetches {
				if c17DependsOnValue(c.Args()[1], f.Value()) {
					linkFetch = f
				}
			}
			switch {
			case len(linkCalls) > 1:
				pl.valueErr = "more than one bytesHaveSchemaLink call"
			case linkFetch.Instr == nil:
				pl.valueErr = "the bytes searched for the link are not the bytes fetched in this handler"
			case !g.isCur(linkFetch.Args()[2]):
				pl.valueErr = "the bytes searched for the link were not fetched by the current chain element's ref"
			case !g.isElemAt(c.Args()[2], 0, true):
				pl.valueErr = "the link sought is not the next chain element (chain[i+1])"
			case !g.isCur(c.Args()[0]):
				pl.valueErr = "the ref given for the searched blob is not the current chain element"
			}
			pl.brs = boolCallBranches(c, 0, true)
			if linkFetch.Instr == nil {
				pe.missing = "no Fetch feeds bytesHaveSchemaLink"
			} else {
				pe.site = linkFetch.Pos()
				pe.brs = errBranches(linkFetch)
			}
		}
		g.report(pe)
		g.report(pl)
	}

	// --- emitters
	for _, e := range g.emitters {
		construct := g.key + "#emit:" + e.CalleeKey()
		es := p.Pos(e.Pos())
		var why []string
		if !(lp.Done == e.Block() || lp.Done.Dominates(e.Block())) || lp.In[e.Block()] {
			why = append(why, "not dominated by normal exhaustion of the chain loop: the response can be written before every chain element was validated")
		}
		servesRef := false
		for _, a := range e.Args() {
			if sameOrigin(a, g.ref) {
				servesRef = true
			} else if IsNamed(a.Type(), "perkeep.org/pkg/blob", "Ref") {
				why = append(why, "serves a blob.Ref other than the requested (validated) blobRef parameter")
			}
		}
		if !servesRef {
			why = append(why, "does not serve the requested blobRef parameter")
		}
		single := e.IsStatic("perkeep.org/pkg/blobserver/gethandler", "", "ServeBlobRef")
		transOK := false
		if !single {
			for _, f := range FactsAt(e.Block()) {
				c, v := c17StripNot(f.Cond, f.Val)
				if v && isTransVal(c) {
					transOK = true
				}
			}
			if !transOK {
				why = append(why, "may serve more than the one validated blob (not gethandler.ServeBlobRef) but is not under the fact share.IsTransitive()==true")
			}
		}
		if len(why) > 0 {
			r.Violation("H-gate", construct, es, strings.Join(why, "; "))
			continue
		}
		d := "after exhaustion of the chain loop; serves blobRef"
		if !single {
			d += "; multi-blob emitter under isTransitive==true"
		}
		r.OK("H-gate", construct, es, d)
	}

	// --- method gate
	{
		construct := g.key + "#method-gate"
		isGet := func(c CallSite) bool {
			return c.IsStatic("perkeep.org/internal/httputil", "", "IsGet") && sameOrigin(c.Args()[0], g.req)
		}
		var bad []string
		check := func(what string, c CallSite) {
			if k, v, _ := BoolCallFact(c.Block(), isGet); !(k && v) {
				bad = append(bad, fmt.Sprintf("%s at %s is not under httputil.IsGet(req)==true", what, p.Pos(c.Pos())))
			}
		}
		for _, f := range fetches {
			check("Fetch", f)
		}
		for _, e := range g.emitters {
			check("emitter "+e.CalleeKey(), e)
		}
		r.Check(len(bad) == 0, "H-gate", construct, site, fmt.Sprintf("all %d Fetch calls and %d emitters are dominated by httputil.IsGet(req)==true", len(fetches), len(g.emitters)), strings.Join(bad, "; "))
	}

	// --- entry points: the ResponseWriter goes only to the gate or to error senders
	c17GateEntries(p, r, fn)

	// --- the emitters' other callers are all behind auth
	c17WhoServes(p, r, a, g)
}

// c17WhoServes: "without credentials, blob contents only through the share
// endpoint". For every module function the gate uses as a content emitter,
// walk its static callers upwards; every chain must end in the gate itself or
// in the ServeHTTP of a handler type that is auth-wrapped (registered under a
// type handlerTypeWantsAuth answers true for, or built by a blob-protocol
// constructor whose result flows only into auth.RequireAuth).
func c17WhoServes(p *Program, r *Reporter, a *c17Auth, g *c17Gate) {
	a.tables()
	done := map[*ssa.Function]bool{}
	for _, e := range g.emitters {
		ef := e.Callee()
		if ef == nil || !InModule(ef) || done[ef] {
			continue
		}
		done[ef] = true
		construct := g.key + "#who-serves:" + FuncKey(ef)
		var roots, bad, undec []string
		seen := map[*ssa.Function]bool{}
		var up func(f *ssa.Function, depth int)
		up = func(f *ssa.Function, depth int) {
			if seen[f] {
				return
			}
			seen[f] = true
			if depth > 8 {
				undec = append(undec, "caller chain above "+FuncKey(f)+" is deeper than 8")
				return
			}
			if uses := p.FuncValueUses(f); len(uses) > 0 {
				undec = append(undec, FuncKey(f)+" is used as a function value at "+p.Pos(uses[0].Pos()))
			}
			for _, c := range p.StaticCallers(f) {
				top := TopFunc(c.Fn)
				rel := RelPkg(top.Pkg.Pkg)
				if IsTestSupportPkg(rel) || strings.HasPrefix(rel, "app/") || strings.HasPrefix(rel, "cmd/") {
					continue // separate processes / tools, not perkeepd endpoints
				}
				if top == g.fn {
					roots = append(roots, "the gate")
					continue
				}
				if top.Name() == "ServeHTTP" && top.Signature.Recv() != nil && types.Implements(top.Signature.Recv().Type(), a.httpHandler) {
					tn := NamedOf(top.Signature.Recv().Type())
					if typ, ok := a.wrappedConcrete[tn]; ok {
						roots = append(roots, fmt.Sprintf("%s (handler type %q, auth.Handler-wrapped)", FuncKey(top), typ))
						continue
					}
					if ctor, ok := a.protocolConcrete[tn]; ok {
						roots = append(roots, fmt.Sprintf("%s (built by %s, behind auth.RequireAuth)", FuncKey(top), ctor))
						continue
					}
					if site := a.madeInterface(tn); site != "" {
						bad = append(bad, fmt.Sprintf("%s reaches the emitter and %s is used as an http.Handler value (at %s) without being an auth-wrapped handler type", FuncKey(top), tn.Obj().Name(), site))
						continue
					}
				}
				up(top, depth+1)
			}
		}
		up(ef, 0)
		roots = c17Uniq(roots)
		sort.Strings(roots)
		switch {
		case len(bad) > 0:
			r.Violation("H-gate", construct, p.Pos(ef.Pos()), "blob contents can be served without credentials outside the share gate: "+strings.Join(c17Uniq(bad), "; "))
		case len(undec) > 0:
			r.Undecided("H-gate", construct, p.Pos(ef.Pos()), strings.Join(c17Uniq(undec), "; "))
		case len(roots) == 0:
			r.Violation("H-gate", construct, p.Pos(ef.Pos()), "no caller chain found at all (anchor moved?)")
		default:
			r.OK("H-gate", construct, p.Pos(ef.Pos()), "every static caller chain ends in: "+strings.Join(roots, "; "))
		}
	}
}

// c17ErrorSenders are the calls a share entry point may hand the
// ResponseWriter to besides the gate itself.
var c17ErrorSenders = map[string]string{
	"internal/httputil.BadRequestError": "replies 400 with the error text only",
	"pkg/auth.SendUnauthorized":         "replies 401",
}

func c17GateEntries(p *Program, r *Reporter, gate *ssa.Function) {
	recv := NamedOf(gate.Signature.Recv().Type())
	serve := c17Method(p, recv, "ServeHTTP")
	if serve == nil {
		brokenf("anchor unresolved: %s has no ServeHTTP", recv)
	}
	// every function of the package that can reach the gate statically, starting at ServeHTTP
	allowed := map[*ssa.Function]bool{gate: true}
	work := []*ssa.Function{serve}
	seen := map[*ssa.Function]bool{}
	for len(work) > 0 {
		fn := work[0]
		work = work[1:]
		if seen[fn] || fn == gate {
			continue
		}
		seen[fn] = true
		construct := FuncKey(fn) + "#rw-uses"
		rw := c17OneParam(fn, "net/http", "ResponseWriter")
		if rw == nil {
			r.Undecided("H-gate", construct, p.Pos(fn.Pos()), "entry point without a unique ResponseWriter parameter")
			continue
		}
		var bad []string
		n := 0
		for _, c := range c17UsesOf(fn, rw) {
			n++
			callee := c.Callee()
			switch {
			case callee != nil && (allowed[callee] || callee == gate):
			case callee != nil && callee.Pkg == gate.Pkg && callee.Signature.Recv() != nil && NamedOf(callee.Signature.Recv().Type()) == recv:
				work = append(work, callee) // another method of the share handler: checked the same way
			case callee != nil && c17ErrorSenders[FuncKeyAny(callee)] != "":
			default:
				bad = append(bad, fmt.Sprintf("%s at %s", c.CalleeKey(), p.Pos(c.Pos())))
			}
		}
		r.Check(len(bad) == 0, "H-gate", construct, p.Pos(fn.Pos()),
			fmt.Sprintf("the ResponseWriter is handed only to share-handler methods leading to the gate or to the 400/401 error senders (%d uses)", n),
			"the unauthenticated share endpoint writes a response outside the gate: "+strings.Join(bad, "; "))
	}
	// who calls the gate: only methods of the share handler
	for _, c := range p.StaticCallers(gate) {
		if !seen[c.Fn] {
			r.Violation("H-gate", FuncKey(c.Fn)+"#calls-gate", p.Pos(c.Pos()), "handleGetViaSharing is called from a function that is not reachable from the share handler's ServeHTTP through ResponseWriter hand-over")
		}
	}
	if uses := p.FuncValueUses(gate); len(uses) > 0 {
		r.Undecided("H-gate", FuncKey(gate)+"#value-uses", p.Pos(uses[0].Pos()), "the gate is used as a function value; its callers cannot be enumerated")
	}
}

// ---------------------------------------------------------------------------
// H-links

// c17RefAccessors classifies every exported, argument-less method of
// *schema.Blob whose result carries a blob.Ref. link=true: an outgoing edge of
// the file/directory tree that a transitive share covers; types = the
// camliTypes for which the accessor can yield refs.
var c17RefAccessors = map[string]struct {
	link   bool
	types  []string
	reason string
}{
	"ByteParts":          {true, []string{"file", "bytes"}, "parts[].blobRef / parts[].bytesRef: content tree of file and bytes schemas"},
	"DirectoryEntries":   {true, []string{"directory"}, "entries: directory -> its static-set"},
	"StaticSetMembers":   {true, []string{"static-set"}, "members: static-set -> children"},
	"StaticSetMergeSets": {true, []string{"static-set"}, "mergeSets: static-set -> sub-sets of a large directory"},
	"BlobRef":            {false, nil, "the blob's own ref, not an outgoing link"},
	"ShareTarget":        {false, nil, "target of a share claim: checked as hop 1 by H-gate pred:target, never followed as a tree link"},
}

// c17CarriesRef: blob.Ref, []blob.Ref, or (slice of / pointer to) a struct with a blob.Ref field.
func c17CarriesRef(t types.Type) bool {
	if IsNamed(t, "perkeep.org/pkg/blob", "Ref") {
		if _, isPtr := t.(*types.Pointer); !isPtr {
			return true
		}
	}
	switch u := t.Underlying().(type) {
	case *types.Slice:
		return c17CarriesRef(u.Elem())
	case *types.Array:
		return c17CarriesRef(u.Elem())
	case *types.Pointer:
		if _, isStruct := u.Elem().Underlying().(*types.Struct); isStruct && !IsNamed(u.Elem(), "perkeep.org/pkg/schema", "Blob") {
			return c17CarriesRef(u.Elem())
		}
	case *types.Struct:
		for i := 0; i < u.NumFields(); i++ {
			if IsNamed(u.Field(i).Type(), "perkeep.org/pkg/blob", "Ref") {
				if _, isPtr := u.Field(i).Type().(*types.Pointer); !isPtr {
					return true
				}
			}
		}
	}
	return false
}

func c17RuleLinks(p *Program, r *Reporter) {
	fn := p.Func("pkg/server", "", "bytesHaveSchemaLink")
	key := FuncKey(fn)
	site := p.Pos(fn.Pos())
	r.Floor("H-links", 9)
	blobT := p.NamedType("pkg/schema", "Blob")

	// target: the blob.Ref parameter that is not the searched blob's own ref (the one given to BlobFromReader)
	var parse []CallSite
	for _, c := range CallsIn(fn, false) {
		if c.IsStatic("perkeep.org/pkg/schema", "", "BlobFromReader") && c.Value() != nil {
			parse = append(parse, c)
		}
	}
	if len(parse) != 1 {
		r.Violation("H-links", key+"#parse", site, fmt.Sprintf("expected exactly one schema.BlobFromReader call (the link check must parse the blob, not search its text); found %d", len(parse)))
		return
	}
	var target *ssa.Parameter
	for _, prm := range c17Params(fn, "perkeep.org/pkg/blob", "Ref") {
		if sameOrigin(parse[0].Args()[0], prm) {
			continue
		}
		if target != nil {
			brokenf("anchor unresolved: %s has more than one candidate target parameter", key)
		}
		target = prm
	}
	if target == nil {
		brokenf("anchor unresolved: %s has no target blob.Ref parameter", key)
	}
	parsed := ResultValue(parse[0].Value(), 0)
	if parsed == nil {
		r.Violation("H-links", key+"#parse", site, "the parsed *schema.Blob is discarded")
		return
	}
	// the parsed bytes are the function's byte-slice parameter
	{
		var bb *ssa.Parameter
		for _, prm := range fn.Params {
			if sl, ok := prm.Type().Underlying().(*types.Slice); ok {
				if b, ok := sl.Elem().(*types.Basic); ok && b.Kind() == types.Byte {
					bb = prm
				}
			}
		}
		ok := bb != nil && c17DependsOnValue(parse[0].Args()[1], bb)
		r.Check(ok, "H-links", key+"#parse", p.Pos(parse[0].Pos()), "the blob is parsed (schema.BlobFromReader) from the byte-slice parameter", "schema.BlobFromReader does not read the bytes parameter")
	}

	// 1. exhaustive classification of Ref-carrying accessors
	var links []string
	ms := p.SSA.MethodSets.MethodSet(types.NewPointer(blobT))
	for i := 0; i < ms.Len(); i++ {
		m := ms.At(i).Obj().(*types.Func)
		if !m.Exported() {
			continue
		}
		sig := m.Type().(*types.Signature)
		if sig.Params().Len() != 0 || sig.Results().Len() == 0 {
			continue
		}
		if !c17CarriesRef(sig.Results().At(0).Type()) {
			continue
		}
		construct := key + "#accessor:" + m.Name()
		cl, ok := c17RefAccessors[m.Name()]
		if !ok {
			r.Undecided("H-links", construct, p.Pos(m.Pos()), "new blob.Ref-carrying accessor on *schema.Blob: decide whether it is a tree link a transitive share must follow (then bytesHaveSchemaLink must honour it) and classify it in c17RefAccessors")
			continue
		}
		if !cl.link {
			r.OKTable("H-links", construct, p.Pos(m.Pos()), "not a tree link: "+cl.reason)
			continue
		}
		links = append(links, m.Name())
	}
	for name, cl := range c17RefAccessors {
		if cl.link {
			found := false
			for _, l := range links {
				found = found || l == name
			}
			if !found {
				brokenf("anchor unresolved: (*schema.Blob).%s", name)
			}
		}
	}
	sort.Strings(links)

	// comparisons with target: value -> the If branches / returns it decides
	isTarget := func(v ssa.Value) bool { return sameOrigin(v, target) }
	type cmp struct {
		val   ssa.Value // bool: true == "equals target"
		from  ssa.Value // the compared operand (not the target side)
		label string
	}
	var cmps []cmp
	for _, b := range fn.Blocks {
		for _, in := range b.Instrs {
			switch x := in.(type) {
			case *ssa.BinOp:
				if x.Op != token.EQL {
					continue
				}
				if isTarget(x.Y) {
					cmps = append(cmps, cmp{x, x.X, "=="})
				} else if isTarget(x.X) {
					cmps = append(cmps, cmp{x, x.Y, "=="})
				}
			case *ssa.Call:
				cs := CallSite{fn, x}
				if c17IsGenericStatic(cs, "slices", "Contains") && len(x.Call.Args) == 2 && isTarget(x.Call.Args[1]) {
					cmps = append(cmps, cmp{x, x.Call.Args[0], "slices.Contains"})
				}
			}
		}
	}
	// decisive: some return value is the comparison itself, or a `return true` sits under comparison==true
	rets := Returns(fn)
	decisive := func(c cmp) bool {
		for _, ri := range rets {
			v := ri.Results[0]
			if originValue(v) == c.val {
				return true
			}
			if k, ok := v.(*ssa.Const); ok && k.Value != nil && k.Value.Kind() == constant.Bool && constant.BoolVal(k.Value) {
				for _, f := range FactsAt(ri.Ret.Block()) {
					cond, val := c17StripNot(f.Cond, f.Val)
					if val && cond == c.val {
						return true
					}
				}
			}
		}
		return false
	}

	// 2. each link accessor honoured
	for _, name := range links {
		cl := c17RefAccessors[name]
		construct := key + "#" + name
		var calls []CallSite
		for _, c := range CallsIn(fn, false) {
			if c.IsStatic("perkeep.org/pkg/schema", "Blob", name) && c.Value() != nil && sameOrigin(c.Args()[0], parsed) {
				calls = append(calls, c)
			}
		}
		if len(calls) == 0 {
			r.Violation("H-links", construct, site, fmt.Sprintf("(*schema.Blob).%s is never consulted on the parsed blob: links of kind %q (%s) are refused in a transitive share chain", name, name, cl.reason))
			continue
		}
		var why []string
		// which Ref-typed pieces of the result must be compared
		resT := calls[0].Value().Call.Signature().Results().At(0).Type()
		var fields []string // for struct elements: names of blob.Ref fields; empty = the value itself
		elem := resT
		if sl, ok := resT.Underlying().(*types.Slice); ok {
			elem = sl.Elem()
		}
		if st, ok := elem.Underlying().(*types.Struct); ok && !IsNamed(elem, "perkeep.org/pkg/blob", "Ref") {
			for i := 0; i < st.NumFields(); i++ {
				if IsNamed(st.Field(i).Type(), "perkeep.org/pkg/blob", "Ref") {
					fields = append(fields, st.Field(i).Name())
				}
			}
		}
		okCall := false
		for _, c := range calls {
			res := ResultValue(c.Value(), 0)
			if res == nil {
				continue
			}
			var mine []cmp
			for _, cm := range cmps {
				if c17DependsOnValue(cm.from, res) {
					mine = append(mine, cm)
				}
			}
			if len(fields) == 0 {
				dec := false
				for _, cm := range mine {
					dec = dec || decisive(cm)
				}
				if !dec {
					why = append(why, "its result is not compared with target in a way that decides the return value")
					continue
				}
			} else {
				missing := false
				for _, fname := range fields {
					got := false
					for _, cm := range mine {
						if c17ReadsField(cm.from, fname) && decisive(cm) {
							got = true
						}
					}
					if !got {
						why = append(why, fmt.Sprintf("field %s of its elements is not compared with target decisively", fname))
						missing = true
					}
				}
				if missing {
					continue
				}
			}
			// reachable for every camliType the accessor applies to
			typeOK := true
			for _, ct := range cl.types {
				if !c17ReachableForType(fn, parsed, ct, c.Block()) {
					why = append(why, fmt.Sprintf("the call is not reachable when the blob's camliType is %q", ct))
					typeOK = false
				}
			}
			if typeOK {
				okCall = true
			}
		}
		if okCall {
			r.OK("H-links", construct, p.Pos(calls[0].Pos()), fmt.Sprintf("consulted on the parsed blob, reachable for camliType %s, compared with target, comparison decides the result (%s)", strings.Join(cl.types, "/"), cl.reason))
		} else {
			r.Violation("H-links", construct, p.Pos(calls[0].Pos()), fmt.Sprintf("(*schema.Blob).%s is called but %s", name, strings.Join(why, "; ")))
		}
	}

	// 3. only those: every possibly-true return is guarded by a comparison of a link accessor's result with target
	isLinkCmp := func(v ssa.Value) bool {
		for _, cm := range cmps {
			if cm.val != v {
				continue
			}
			return c17DependsOn(cm.from, func(x ssa.Value) bool {
				c, ok := x.(*ssa.Call)
				if !ok {
					return false
				}
				cs := CallSite{fn, c}
				for _, name := range links {
					if cs.IsStatic("perkeep.org/pkg/schema", "Blob", name) && sameOrigin(cs.Args()[0], parsed) {
						return true
					}
				}
				return false
			})
		}
		return false
	}
	nTrue := 0
	for i, ri := range rets {
		v := ri.Results[0]
		for _, leaf := range c17PhiLeaves(v) {
			if k, ok := leaf.(*ssa.Const); ok && k.Value != nil && k.Value.Kind() == constant.Bool && !constant.BoolVal(k.Value) {
				continue // return false
			}
			nTrue++
			construct := fmt.Sprintf("%s#yes-return", key)
			_ = i
			ok := false
			if k, isC := leaf.(*ssa.Const); isC && k.Value != nil {
				for _, f := range FactsAt(ri.Ret.Block()) {
					cond, val := c17StripNot(f.Cond, f.Val)
					if val && isLinkCmp(cond) {
						ok = true
					}
				}
			} else if isLinkCmp(originValue(leaf)) {
				ok = true
			}
			r.Check(ok, "H-links", construct, p.Pos(ri.Ret.Pos()), "a 'has link' answer is decided by equality of a tree-link accessor's result with target", "bytesHaveSchemaLink can answer true without a tree-link accessor's result being equal to target (text search or a non-link field would open unrelated blobs)")
		}
	}
	if nTrue == 0 {
		r.Violation("H-links", key+"#yes-return", site, "bytesHaveSchemaLink never returns true")
	}
}

// c17ReadsField reports whether v is (derived from) a read of field name.
func c17ReadsField(v ssa.Value, name string) bool {
	return c17DependsOn(v, func(x ssa.Value) bool {
		switch f := x.(type) {
		case *ssa.FieldAddr:
			return fieldName(f.X.Type(), f.Field) == name
		case *ssa.Field:
			return fieldName(f.X.Type(), f.Field) == name
		}
		return false
	})
}

// c17ReachableForType: is block reachable from the entry when every comparison
// of (*schema.Blob).Type() of the parsed blob with a constant is decided as if
// the type were ct?
func c17ReachableForType(fn *ssa.Function, parsed ssa.Value, ct string, block *ssa.BasicBlock) bool {
	isType := func(v ssa.Value) bool {
		c, ok := originValue(v).(*ssa.Call)
		if !ok {
			return false
		}
		cs := CallSite{fn, c}
		return cs.IsStatic("perkeep.org/pkg/schema", "Blob", "Type") && sameOrigin(cs.Args()[0], parsed)
	}
	seen := map[*ssa.BasicBlock]bool{}
	var walk func(b *ssa.BasicBlock)
	walk = func(b *ssa.BasicBlock) {
		if seen[b] {
			return
		}
		seen[b] = true
		only := -1
		if len(b.Succs) == 2 && len(b.Instrs) > 0 {
			if ifi, ok := b.Instrs[len(b.Instrs)-1].(*ssa.If); ok {
				cond, pol := c17StripNot(ifi.Cond, true)
				if bo, ok := cond.(*ssa.BinOp); ok && (bo.Op == token.EQL || bo.Op == token.NEQ) {
					var k string
					var have bool
					if isType(bo.X) {
						k, have = ConstString(bo.Y)
					} else if isType(bo.Y) {
						k, have = ConstString(bo.X)
					}
					if have {
						res := (k == ct) == (bo.Op == token.EQL)
						if res == pol {
							only = 0
						} else {
							only = 1
						}
					}
				}
			}
		}
		for i, s := range b.Succs {
			if only >= 0 && i != only {
				continue
			}
			walk(s)
		}
	}
	walk(fn.Blocks[0])
	return seen[block]
}

// ---------------------------------------------------------------------------
// H-auth

type c17Auth struct {
	p           *Program
	r           *Reporter
	requireAuth *ssa.Function
	allowed     *ssa.Function
	allowedWith *ssa.Function
	wantsAuth   *ssa.Function
	createH     *ssa.Function
	authHandler *types.Named
	httpHandler *types.Interface
	// concrete handler type -> registered type name, for types handlerTypeWantsAuth answers true
	wrappedConcrete map[*types.Named]string
	// concrete handler type -> blob-protocol constructor that builds it
	protocolConcrete map[*types.Named]string
	protoCtors       []*ssa.Function
	ifaceSites       map[*types.Named]string
}

// tables computes the handler-type tables shared by H-gate and H-auth.
func (a *c17Auth) tables() {
	if a.wrappedConcrete != nil {
		return
	}
	p := a.p
	a.wrappedConcrete = map[*types.Named]string{}
	a.protocolConcrete = map[*types.Named]string{}
	reg := p.Func("pkg/blobserver", "", "RegisterHandlerConstructor")
	for _, c := range p.StaticCallers(reg) {
		typ, ok := ConstString(c.Args()[0])
		ctor, _ := originValue(c.Args()[1]).(*ssa.Function)
		if !ok || ctor == nil || IsTestSupportPkg(RelPkg(TopFunc(c.Fn).Pkg.Pkg)) {
			continue
		}
		if val, decided := c17EvalStringPred(a.wantsAuth, typ); decided && val {
			if cn := c17CtorConcrete(ctor); cn != nil {
				a.wrappedConcrete[cn] = typ
			}
		}
	}
	for _, rel := range []string{"pkg/blobserver/handlers", "pkg/blobserver/gethandler"} {
		for _, fn := range p.FuncsIn(rel) {
			if fn.Parent() != nil || fn.Signature.Recv() != nil || fn.Object() == nil || !fn.Object().Exported() {
				continue
			}
			res := fn.Signature.Results()
			if res.Len() != 1 || !IsNamed(res.At(0).Type(), "net/http", "Handler") {
				continue
			}
			a.protoCtors = append(a.protoCtors, fn)
			if cn := c17CtorConcrete(fn); cn != nil && c17InModuleType(cn) {
				a.protocolConcrete[cn] = FuncKey(fn)
			}
		}
	}
}

// c17InModuleType reports whether the named type is declared in a perkeep.org package.
func c17InModuleType(n *types.Named) bool {
	return n.Obj().Pkg() != nil && strings.HasPrefix(n.Obj().Pkg().Path(), modPrefix)
}

// madeInterface returns a site where a value of named type n (or *n) is
// converted to an interface having a ServeHTTP method, "" when there is none.
func (a *c17Auth) madeInterface(n *types.Named) string {
	if a.ifaceSites == nil {
		a.ifaceSites = map[*types.Named]string{}
		for _, fn := range a.p.AllFuncs {
			for _, b := range fn.Blocks {
				for _, in := range b.Instrs {
					mi, ok := in.(*ssa.MakeInterface)
					if !ok {
						continue
					}
					tn := NamedOf(mi.X.Type())
					if tn == nil || !c17InModuleType(tn) || a.ifaceSites[tn] != "" {
						continue
					}
					if !types.Implements(mi.X.Type(), a.httpHandler) {
						continue
					}
					if it, ok := mi.Type().Underlying().(*types.Interface); ok && it.NumMethods() > 0 {
						a.ifaceSites[tn] = a.p.Pos(mi.Pos())
					}
				}
			}
		}
	}
	return a.ifaceSites[n]
}

// c17ServerScope: packages whose handler registrations make up a perkeepd
// server. app/ (separate processes with their own auth, behind
// pkg/server/app) and cmd/ (clients, dev tools) are out of scope.
var c17ServerScope = []string{"pkg", "server", "internal"}

func c17NewAuth(p *Program, r *Reporter) *c17Auth {
	a := &c17Auth{p: p, r: r}
	a.requireAuth = p.Func("pkg/auth", "", "RequireAuth")
	a.allowed = p.Func("pkg/auth", "", "Allowed")
	a.allowedWith = p.Func("pkg/auth", "", "AllowedWithAuth")
	a.wantsAuth = p.Func("pkg/serverinit", "", "handlerTypeWantsAuth")
	a.createH = p.Func("pkg/blobserver", "", "CreateHandler")
	a.authHandler = p.NamedType("pkg/auth", "Handler")
	hp := p.ByPath["net/http"]
	if hp == nil || hp.Types == nil {
		brokenf("anchor unresolved: net/http not loaded")
	}
	tn, _ := hp.Types.Scope().Lookup("Handler").(*types.TypeName)
	if tn == nil {
		brokenf("anchor unresolved: net/http.Handler")
	}
	a.httpHandler = tn.Type().Underlying().(*types.Interface)
	return a
}

func c17RuleAuth(a *c17Auth) {
	a.r.Floor("H-auth", 28)
	a.tables()
	a.handlerTypes()
	a.constructors()
	a.registrations()
	a.wrappers()
}

// c17EvalStringPred evaluates a func(string) bool on a constant argument by
// following only comparisons of the parameter with string constants (switch,
// if chains, ||/&& chains lowered to phis).
func c17EvalStringPred(fn *ssa.Function, arg string) (val, decided bool) {
	if len(fn.Params) != 1 || len(fn.Blocks) == 0 {
		return false, false
	}
	prm := fn.Params[0]
	env := map[ssa.Value]ssa.Value{} // phi -> chosen incoming value
	var eval func(v ssa.Value, d int) (bool, bool)
	eval = func(v ssa.Value, d int) (bool, bool) {
		if d > 50 {
			return false, false
		}
		switch x := v.(type) {
		case *ssa.Const:
			if x.Value != nil && x.Value.Kind() == constant.Bool {
				return constant.BoolVal(x.Value), true
			}
		case *ssa.Phi:
			if e, ok := env[x]; ok {
				return eval(e, d+1)
			}
		case *ssa.UnOp:
			if x.Op == token.NOT {
				r, ok := eval(x.X, d+1)
				return !r, ok
			}
		case *ssa.BinOp:
			if x.Op != token.EQL && x.Op != token.NEQ {
				return false, false
			}
			var k string
			var have bool
			if sameOrigin(x.X, prm) {
				k, have = ConstString(x.Y)
			} else if sameOrigin(x.Y, prm) {
				k, have = ConstString(x.X)
			}
			if !have {
				return false, false
			}
			return (k == arg) == (x.Op == token.EQL), true
		}
		return false, false
	}
	b := fn.Blocks[0]
	var prev *ssa.BasicBlock
	for steps := 0; steps < 1000; steps++ {
		if prev != nil {
			for _, in := range b.Instrs {
				ph, ok := in.(*ssa.Phi)
				if !ok {
					break
				}
				for i, pr := range b.Preds {
					if pr == prev {
						env[ph] = ph.Edges[i]
					}
				}
			}
		}
		var next *ssa.BasicBlock
		switch t := b.Instrs[len(b.Instrs)-1].(type) {
		case *ssa.Return:
			if len(t.Results) != 1 {
				return false, false
			}
			return eval(t.Results[0], 0)
		case *ssa.Jump:
			next = b.Succs[0]
		case *ssa.If:
			res, ok := eval(t.Cond, 0)
			if !ok {
				return false, false
			}
			if res {
				next = b.Succs[0]
			} else {
				next = b.Succs[1]
			}
		default:
			return false, false
		}
		prev, b = b, next
	}
	return false, false
}

// (i) registered handler types
func (a *c17Auth) handlerTypes() {
	p, r := a.p, a.r
	reg := p.Func("pkg/blobserver", "", "RegisterHandlerConstructor")
	if uses := p.FuncValueUses(reg); len(uses) > 0 {
		r.Undecided("H-auth", FuncKey(reg)+"#value-uses", p.Pos(uses[0].Pos()), "RegisterHandlerConstructor is used as a value; registrations cannot be enumerated")
	}
	exceptions := map[string]struct {
		reason string
		check  func(ctor *ssa.Function) (bool, string)
	}{
		"share": {"the share handler is the one deliberately unauthenticated endpoint; it validates the via chain itself (H-gate)", a.checkShareCtor},
		"root":  {"the root handler serves only a public landing page/redirects and gates discovery per request", a.checkRootCtor},
	}
	n := 0
	for _, c := range p.StaticCallers(reg) {
		if IsTestSupportPkg(RelPkg(c.Fn.Pkg.Pkg)) {
			continue
		}
		n++
		typ, ok := ConstString(c.Args()[0])
		if !ok {
			r.Undecided("H-auth", FuncKey(c.Fn)+"#register", p.Pos(c.Pos()), "handler type registered under a non-constant name")
			continue
		}
		construct := "pkg/serverinit.handlerTypeWantsAuth#type:" + typ
		site := p.Pos(c.Pos())
		val, decided := c17EvalStringPred(a.wantsAuth, typ)
		if !decided {
			r.Undecided("H-auth", construct, site, "handlerTypeWantsAuth could not be evaluated on this constant (not a chain of comparisons of its parameter with string constants)")
			continue
		}
		if val {
			r.OK("H-auth", construct, site, fmt.Sprintf("handlerTypeWantsAuth(%q) evaluates to true: setupHandler wraps it in auth.Handler", typ))
			continue
		}
		ex, isEx := exceptions[typ]
		if !isEx {
			r.Violation("H-auth", construct, site, fmt.Sprintf("handler type %q is registered but handlerTypeWantsAuth(%q) is false and it is not a reasoned exception: its endpoint is installed without any auth wrapper", typ, typ))
			continue
		}
		ctor, _ := originValue(c.Args()[1]).(*ssa.Function)
		if ctor == nil {
			r.Undecided("H-auth", construct, site, "exception type registered with a non-static constructor")
			continue
		}
		okc, why := ex.check(ctor)
		r.Check(okc, "H-auth", construct, site, "exception ("+ex.reason+"), re-checked: "+why, "exception ("+ex.reason+") no longer holds: "+why)
	}
	r.Analysed("handler_types", n)
}

// ctorConcrete returns the concrete named type of the handler a constructor returns.
func c17CtorConcrete(ctor *ssa.Function) *types.Named {
	var out *types.Named
	for _, ri := range Returns(ctor) {
		if len(ri.Results) == 0 {
			continue
		}
		for _, leaf := range c17PhiLeaves(ri.Results[0]) {
			if IsNilConst(leaf) {
				continue
			}
			mi, ok := leaf.(*ssa.MakeInterface)
			if !ok {
				if ld, isLd := leaf.(*ssa.UnOp); isLd && ld.Op == token.MUL {
					// named result: look at its stores
					if cell, ok := varOf(ld.X); ok {
						for _, st := range storesTo(cell) {
							for _, l2 := range c17PhiLeaves(st.Val) {
								if m2, ok := l2.(*ssa.MakeInterface); ok {
									if n := NamedOf(m2.X.Type()); n != nil {
										if out != nil && out != n {
											return nil
										}
										out = n
									}
								}
							}
						}
					}
					continue
				}
				return nil
			}
			n := NamedOf(mi.X.Type())
			if n == nil || (out != nil && out != n) {
				return nil
			}
			out = n
		}
	}
	return out
}

func (a *c17Auth) checkShareCtor(ctor *ssa.Function) (bool, string) {
	gate := a.p.Func("pkg/server", "shareHandler", "handleGetViaSharing")
	n := c17CtorConcrete(ctor)
	if n == nil || n != NamedOf(gate.Signature.Recv().Type()) {
		return false, "the registered constructor does not return the handler type whose ServeHTTP is checked by H-gate"
	}
	return true, "constructor returns *" + n.Obj().Name() + ", whose every response goes through handleGetViaSharing (H-gate)"
}

func (a *c17Auth) checkRootCtor(ctor *ssa.Function) (bool, string) {
	p := a.p
	n := c17CtorConcrete(ctor)
	if n == nil {
		return false, "cannot determine the concrete handler type the constructor returns"
	}
	serve := c17Method(p, n, "ServeHTTP")
	if serve == nil {
		return false, "no ServeHTTP on " + n.Obj().Name()
	}
	req := c17OneParam(serve, "net/http", "Request")
	rw := c17OneParam(serve, "net/http", "ResponseWriter")
	if req == nil || rw == nil {
		return false, "unexpected ServeHTTP signature"
	}
	// every method of the handler that receives the ResponseWriter must be called under Allowed(req, op!=0)==true
	nGuarded := 0
	for _, c := range c17UsesOf(serve, rw) {
		callee := c.Callee()
		if callee == nil || callee.Signature.Recv() == nil || NamedOf(callee.Signature.Recv().Type()) != n {
			continue
		}
		k, v, ac := BoolCallFact(c.Block(), func(x CallSite) bool { return x.Callee() == a.allowed })
		if !(k && v) {
			return false, fmt.Sprintf("%s is called at %s outside auth.Allowed(...)==true", FuncKey(callee), p.Pos(c.Pos()))
		}
		if !sameOrigin(ac.Args()[0], req) {
			return false, "auth.Allowed is asked about a different request"
		}
		if okOp, why := a.opNonZero(ac.Args()[1]); !okOp {
			return false, "auth.Allowed op: " + why
		}
		nGuarded++
	}
	if nGuarded == 0 {
		return false, "no state-reporting method (serveDiscovery) found under auth.Allowed in " + FuncKey(serve)
	}
	// and those methods have no other unauthenticated caller / are not used as values
	var others []string
	for _, c := range c17UsesOf(serve, rw) {
		callee := c.Callee()
		if callee == nil || callee.Signature.Recv() == nil || NamedOf(callee.Signature.Recv().Type()) != n {
			continue
		}
		for _, oc := range p.StaticCallers(callee) {
			if oc.Fn == serve {
				continue
			}
			// another handler may reuse it when that handler's own type is auth-wrapped by policy
			top := TopFunc(oc.Fn)
			var on *types.Named
			if top.Signature.Recv() != nil {
				on = NamedOf(top.Signature.Recv().Type())
			}
			if typ, ok := a.wrappedConcrete[on]; ok && on != nil {
				others = append(others, fmt.Sprintf("%s (type %q, auth-wrapped)", FuncKey(oc.Fn), typ))
				continue
			}
			return false, fmt.Sprintf("%s is also called from %s, which is not a handler of an auth-wrapped type", FuncKey(callee), FuncKey(oc.Fn))
		}
		if len(p.FuncValueUses(callee)) > 0 {
			return false, FuncKey(callee) + " is used as a function value"
		}
	}
	d := fmt.Sprintf("%d receiver method(s) given the ResponseWriter in %s, each under auth.Allowed(req, op!=0)==true", nGuarded, FuncKey(serve))
	if len(others) > 0 {
		d += "; other callers: " + strings.Join(others, ", ")
	} else {
		d += "; no other caller"
	}
	return true, d
}

// opNonZero: the Operation is a non-zero constant, or a result of a module
// function all of whose returned values for that result are non-zero constants.
func (a *c17Auth) opNonZero(v ssa.Value) (bool, string) {
	v = originValue(v)
	if n, ok := ConstInt(v); ok {
		if n == 0 {
			return false, "the zero Operation is allowed for everybody (AllowedAccess(req)&0 == 0)"
		}
		return true, fmt.Sprintf("constant %d", n)
	}
	if ex, ok := v.(*ssa.Extract); ok {
		if call, ok := ex.Tuple.(*ssa.Call); ok {
			if f := call.Call.StaticCallee(); f != nil && InModule(f) {
				for _, ri := range Returns(f) {
					for _, leaf := range c17PhiLeaves(ri.Results[ex.Index]) {
						n, ok := ConstInt(leaf)
						if !ok {
							return false, "operation returned by " + FuncKey(f) + " is not a constant on every path"
						}
						if n == 0 {
							return false, FuncKey(f) + " can return the zero Operation, which is allowed for everybody"
						}
					}
				}
				return true, "every Operation returned by " + FuncKey(f) + " is a non-zero constant"
			}
		}
	}
	if prm, ok := v.(*ssa.Parameter); ok {
		return false, "operation is parameter " + prm.Name() + " (callers not followed)"
	}
	return false, "operation is not a constant"
}

// c17Sinks follows v through value-preserving instructions, phis and tuple
// extraction and returns the instructions that finally consume it.
func c17Sinks(v ssa.Value) []ssa.Instruction {
	var out []ssa.Instruction
	seen := map[ssa.Value]bool{}
	var walk func(v ssa.Value)
	walk = func(v ssa.Value) {
		if seen[v] || v.Referrers() == nil {
			return
		}
		seen[v] = true
		for _, ref := range *v.Referrers() {
			switch x := ref.(type) {
			case *ssa.DebugRef:
			case *ssa.Phi:
				walk(x)
			case *ssa.MakeInterface:
				walk(x)
			case *ssa.ChangeType:
				walk(x)
			case *ssa.ChangeInterface:
				walk(x)
			default:
				out = append(out, ref)
			}
		}
	}
	walk(v)
	return out
}

// flowsOnlyToRequireAuth: every consumer of v is the handler argument of
// auth.RequireAuth, a nil comparison, or (depth permitting) a return whose
// callers are checked the same way.
func (a *c17Auth) flowsOnlyToRequireAuth(v ssa.Value, depth int) (bool, string) {
	p := a.p
	n := 0
	for _, s := range c17Sinks(v) {
		switch x := s.(type) {
		case *ssa.BinOp:
			if (x.Op == token.EQL || x.Op == token.NEQ) && (IsNilConst(x.X) || IsNilConst(x.Y)) {
				continue
			}
			return false, "compared at " + p.Pos(x.Pos())
		case ssa.CallInstruction:
			cs := CallSite{x.Parent(), x}
			if cs.Callee() == a.requireAuth && len(x.Common().Args) == 2 && c17FlowsTo(v, x.Common().Args[0]) {
				if okOp, why := a.opNonZero(x.Common().Args[1]); !okOp {
					return false, "auth.RequireAuth at " + p.Pos(cs.Pos()) + ": " + why
				}
				n++
				continue
			}
			return false, fmt.Sprintf("passed to %s at %s without auth.RequireAuth", cs.CalleeKey(), p.Pos(cs.Pos()))
		case *ssa.Return:
			fn := x.Parent()
			if depth <= 0 || fn.Parent() != nil {
				return false, "returned from " + FuncKey(fn) + " (callers not followed further)"
			}
			idx := -1
			for i, rv := range x.Results {
				if c17FlowsTo(v, rv) {
					idx = i
				}
			}
			if idx < 0 {
				return false, "returned from " + FuncKey(fn) + " in an unexpected way"
			}
			if len(p.FuncValueUses(fn)) > 0 {
				return false, FuncKey(fn) + " is used as a function value"
			}
			callers := p.StaticCallers(fn)
			if len(callers) == 0 {
				return false, FuncKey(fn) + " returns the handler but has no static caller"
			}
			for _, c := range callers {
				if c.Value() == nil {
					return false, "go/defer call of " + FuncKey(fn)
				}
				rv := ResultValue(c.Value(), idx)
				if rv == nil {
					continue // result unused
				}
				if ok, why := a.flowsOnlyToRequireAuth(rv, depth-1); !ok {
					return false, why
				}
				n++
			}
		case *ssa.Extract:
			if ok, why := a.flowsOnlyToRequireAuth(x, depth); !ok {
				return false, why
			}
			n++
		default:
			return false, fmt.Sprintf("escapes through %T at %s", s, p.Pos(s.Pos()))
		}
	}
	if n == 0 {
		return false, "the handler is dropped"
	}
	return true, ""
}

// c17FlowsTo: does value src reach dst through phis and value-preserving conversions?
func c17FlowsTo(src, dst ssa.Value) bool {
	if src == dst {
		return true
	}
	seen := map[ssa.Value]bool{}
	var walk func(v ssa.Value) bool
	walk = func(v ssa.Value) bool {
		if v == src {
			return true
		}
		if seen[v] {
			return false
		}
		seen[v] = true
		switch x := v.(type) {
		case *ssa.Phi:
			for _, e := range x.Edges {
				if walk(e) {
					return true
				}
			}
		case *ssa.MakeInterface:
			return walk(x.X)
		case *ssa.ChangeType:
			return walk(x.X)
		case *ssa.ChangeInterface:
			return walk(x.X)
		}
		return false
	}
	return walk(dst)
}

// (ii) blob-protocol handler constructors
func (a *c17Auth) constructors() {
	p, r := a.p, a.r
	ctors := a.protoCtors
	isCtor := map[*ssa.Function]bool{}
	for _, fn := range ctors {
		isCtor[fn] = true
	}
	if len(ctors) < 6 {
		brokenf("anchor unresolved: expected the blob-protocol handler constructors in pkg/blobserver/handlers and gethandler, found %d", len(ctors))
	}
	for _, ctor := range ctors {
		if uses := p.FuncValueUses(ctor); len(uses) > 0 {
			r.Undecided("H-auth", FuncKey(ctor)+"#value-uses", p.Pos(uses[0].Pos()), "handler constructor used as a function value; its call sites cannot be enumerated")
		}
		for _, c := range p.StaticCallers(ctor) {
			if IsTestSupportPkg(RelPkg(TopFunc(c.Fn).Pkg.Pkg)) {
				continue
			}
			construct := FuncKey(c.Fn) + "#" + FuncKey(ctor)
			site := p.Pos(c.Pos())
			if isCtor[c.Fn] {
				r.OK("H-auth", construct, site, "wrapper constructor: the obligation is checked at its own callers")
				continue
			}
			if c.Value() == nil {
				r.Violation("H-auth", construct, site, "handler constructor called by go/defer")
				continue
			}
			ok, why := a.flowsOnlyToRequireAuth(c.Value(), 1)
			r.Check(ok, "H-auth", construct, site, "the unauthenticated blob-protocol handler flows only into auth.RequireAuth (non-zero Operation)", "blob-protocol handler reachable without the auth wrapper: "+why)
		}
	}
	r.Analysed("handler_constructors", len(ctors))
}

// (iii) registrations
func (a *c17Auth) isRegistration(c CallSite) (pathArg, handlerArg ssa.Value, ok bool) {
	cc := c.Common()
	name := c.MethodName()
	if name != "Handle" && name != "HandleFunc" {
		return nil, nil, false
	}
	args := c.Args()
	if cc.IsInvoke() {
		// an interface with Handle(string, http.Handler)
		sig, _ := cc.Method.Type().(*types.Signature)
		if sig == nil || sig.Params().Len() != 2 {
			return nil, nil, false
		}
		if b, isB := sig.Params().At(0).Type().Underlying().(*types.Basic); !isB || b.Kind() != types.String {
			return nil, nil, false
		}
		return args[1], args[2], true
	}
	f := c.Callee()
	if f == nil {
		return nil, nil, false
	}
	switch {
	case funcIs(f, "net/http", "", "Handle"), funcIs(f, "net/http", "", "HandleFunc"):
		return args[0], args[1], true
	case funcIs(f, "net/http", "ServeMux", "Handle"), funcIs(f, "net/http", "ServeMux", "HandleFunc"),
		funcIs(f, "perkeep.org/pkg/webserver", "Server", "Handle"), funcIs(f, "perkeep.org/pkg/webserver", "Server", "HandleFunc"):
		return args[1], args[2], true
	}
	return nil, nil, false
}

func c17PathLabel(v ssa.Value) string {
	if s, ok := ConstString(v); ok {
		return s
	}
	if bo, ok := originValue(v).(*ssa.BinOp); ok && bo.Op == token.ADD {
		return c17PathLabel(bo.X) + "+" + c17PathLabel(bo.Y)
	}
	return AccessPath(v)
}

func (a *c17Auth) registrations() {
	p, r := a.p, a.r
	n := 0
	for _, fn := range p.FuncsUnder(c17ServerScope...) {
		rel := RelPkg(TopFunc(fn).Pkg.Pkg)
		if IsTestSupportPkg(rel) || rel == "pkg/webserver" {
			continue // pkg/webserver: the mux wrapper itself, forwards what it is given
		}
		for _, c := range CallsIn(fn, false) {
			pathArg, h, ok := a.isRegistration(c)
			if !ok {
				continue
			}
			n++
			construct := FuncKey(fn) + "#" + c17PathLabel(pathArg)
			site := p.Pos(c.Pos())
			okc, why := a.classify(h, nil, c.Block(), fn, 0)
			r.Check(okc, "H-auth", construct, site, why, "endpoint installed without an auth wrapper: "+why)
		}
	}
	r.Analysed("handler_registrations", n)
	if n < 8 {
		r.Violation("H-auth", "registrations#floor", "?", fmt.Sprintf("only %d handler registrations found in the server packages; 8 confirmed on the pinned tree", n))
	}
}

// classify decides whether handler value v, used in block at (arriving from
// pred when v is a phi operand), is behind auth.
func (a *c17Auth) classify(v ssa.Value, pred, at *ssa.BasicBlock, fn *ssa.Function, depth int) (bool, string) {
	p := a.p
	if depth > 4 {
		return false, "handler value too deeply nested to classify"
	}
	// strip interface conversions but keep the concrete value
	for {
		switch x := v.(type) {
		case *ssa.ChangeInterface:
			v = x.X
			continue
		case *ssa.UnOp:
			if x.Op == token.MUL {
				if rv := resolveLoad(x); rv != nil {
					v = rv
					continue
				}
			}
		}
		break
	}
	switch x := v.(type) {
	case *ssa.Phi:
		var parts []string
		for i, e := range x.Edges {
			ok, why := a.classify(e, x.Block().Preds[i], x.Block(), fn, depth+1)
			if !ok {
				return false, fmt.Sprintf("on the path through block %d: %s", x.Block().Preds[i].Index, why)
			}
			parts = append(parts, why)
		}
		return true, strings.Join(c17Uniq(parts), " | ")
	case *ssa.Call:
		callee := CallSite{x.Parent(), x}.Callee()
		switch {
		case callee == a.requireAuth:
			if ok, why := a.opNonZero(x.Call.Args[1]); !ok {
				return false, "auth.RequireAuth with a bad Operation: " + why
			}
			return true, "auth.RequireAuth value"
		case callee != nil && InModule(callee) && callee.Parent() == nil:
			// a module function building the handler: every returned value must classify
			var parts []string
			for _, ri := range Returns(callee) {
				if len(ri.Results) != 1 {
					return false, "handler built by " + FuncKey(callee) + " (multi-result; not followed)"
				}
				ok, why := a.classify(ri.Results[0], nil, ri.Ret.Block(), callee, depth+1)
				if !ok {
					return false, "built by " + FuncKey(callee) + ": " + why
				}
				parts = append(parts, why)
			}
			return true, "built by " + FuncKey(callee) + ": " + strings.Join(c17Uniq(parts), " | ")
		}
		return false, "result of " + (CallSite{x.Parent(), x}).CalleeKey() + " is not an auth wrapper"
	case *ssa.MakeInterface:
		inner := x.X
		t := inner.Type()
		// auth.Handler wrap
		if n := NamedOf(t); n != nil && n == a.authHandler {
			return true, "auth.Handler wrap (requires OpAll)"
		}
		// http.HandlerFunc(closure or function)
		if IsNamed(t, "net/http", "HandlerFunc") {
			var f *ssa.Function
			switch y := originValue(inner).(type) {
			case *ssa.MakeClosure:
				f = y.Fn.(*ssa.Function)
			case *ssa.Function:
				f = y
			}
			if f == nil {
				return false, "http.HandlerFunc of a dynamic function value"
			}
			return a.classifyFunc(f, depth+1)
		}
		// a concrete handler type: always refusing?
		if n := NamedOf(t); n != nil {
			if serve := c17Method(p, n, "ServeHTTP"); serve != nil && InModule(serve) {
				if ok, why := a.alwaysRefuses(serve); ok {
					return true, why
				}
			}
		}
		// bare handler: acceptable only on the edge where the policy function said "no auth" for the same htype
		var facts []CondFact
		if pred != nil {
			facts = c17EdgeFacts(pred, at)
		} else {
			facts = FactsAt(at)
		}
		k, val, pc := c17BoolCallIn(facts, func(c CallSite) bool { return c.Callee() == a.wantsAuth })
		if k && !val {
			// the htype asked about is the one the handler was created from
			asked := AccessPath(pc.Args()[0])
			for _, c := range CallsIn(fn, false) {
				if c.Callee() == a.createH {
					if got := AccessPath(c.Args()[0]); got != asked || strings.HasPrefix(got, "?") {
						return false, fmt.Sprintf("bare handler: handlerTypeWantsAuth is asked about %s but the handler is created from %s", asked, got)
					}
				}
			}
			return true, "bare handler only where handlerTypeWantsAuth(" + asked + ")==false (types covered by #type:* obligations; app handlers authenticate themselves — not decided)"
		}
		return false, fmt.Sprintf("%s is installed as is (no auth.RequireAuth / auth.Handler around it, not an always-refusing handler)", typeKey(t))
	}
	return false, fmt.Sprintf("handler value of unrecognised shape (%T)", v)
}

func c17Uniq(in []string) []string {
	seen := map[string]bool{}
	var out []string
	for _, s := range in {
		if !seen[s] {
			seen[s] = true
			out = append(out, s)
		}
	}
	return out
}

// refusingReplies: callees that only ever produce an error reply.
var c17RefusingHelpers = map[string]string{
	"pkg/serverinit.unsupportedHandler": "replies 400 'Unsupported Perkeep path or method' (re-checked: hands rw only to httputil.BadRequestError)",
}

// classifyFunc: a handler function is behind auth when every call that gets
// its ResponseWriter is ServeHTTP on an auth-classified handler value or a
// refusing helper.
func (a *c17Auth) classifyFunc(f *ssa.Function, depth int) (bool, string) {
	p := a.p
	rw := c17OneParam(f, "net/http", "ResponseWriter")
	if rw == nil {
		return false, FuncKey(f) + " has no ResponseWriter parameter"
	}
	uses := c17UsesOf(f, rw)
	if len(uses) == 0 {
		return false, FuncKey(f) + " never uses its ResponseWriter"
	}
	nAuth := 0
	for _, c := range uses {
		if c.Common().IsInvoke() && c.MethodName() == "ServeHTTP" {
			ok, why := a.classify(c.Common().Value, nil, c.Block(), f, depth+1)
			if !ok {
				return false, fmt.Sprintf("%s serves through a handler that is not auth-wrapped at %s: %s", FuncKey(f), p.Pos(c.Pos()), why)
			}
			nAuth++
			continue
		}
		if callee := c.Callee(); callee != nil {
			if _, ok := c17RefusingHelpers[FuncKey(callee)]; ok {
				if a.onlyErrorReplies(callee) {
					continue
				}
				return false, FuncKey(callee) + " no longer only replies with an error"
			}
		}
		return false, fmt.Sprintf("%s hands the ResponseWriter to %s at %s without an auth wrapper", FuncKey(f), c.CalleeKey(), p.Pos(c.Pos()))
	}
	if nAuth == 0 {
		return false, FuncKey(f) + " never serves through an auth-wrapped handler"
	}
	return true, fmt.Sprintf("handler function %s: every response path is ServeHTTP on an auth.RequireAuth value or a 400 helper", FuncKey(f))
}

func (a *c17Auth) onlyErrorReplies(f *ssa.Function) bool {
	rw := c17OneParam(f, "net/http", "ResponseWriter")
	if rw == nil {
		return false
	}
	uses := c17UsesOf(f, rw)
	for _, c := range uses {
		callee := c.Callee()
		if callee == nil || FuncKey(callee) != "internal/httputil.BadRequestError" {
			return false
		}
	}
	return len(uses) > 0
}

// alwaysRefuses: a ServeHTTP whose only uses of the ResponseWriter are
// http.Error(w, _, 401|403).
func (a *c17Auth) alwaysRefuses(serve *ssa.Function) (bool, string) {
	rw := c17OneParam(serve, "net/http", "ResponseWriter")
	if rw == nil {
		return false, ""
	}
	uses := c17UsesOf(serve, rw)
	if len(uses) == 0 {
		return false, ""
	}
	for _, c := range uses {
		if !c.IsStatic("net/http", "", "Error") {
			return false, ""
		}
		code, ok := ConstInt(c.Args()[2])
		if !ok || (code != 401 && code != 403) {
			return false, ""
		}
	}
	return true, "always-refusing handler " + FuncKey(serve) + " (only http.Error 401/403)"
}

// (iv) the wrappers themselves
func (a *c17Auth) wrappers() {
	p, r := a.p, a.r
	isAllowed := func(c CallSite) bool { return c.Callee() == a.allowed }

	// functions that call through to an inner http.Handler in package auth
	var through []*ssa.Function
	for _, fn := range p.FuncsIn("pkg/auth") {
		for _, c := range CallsIn(fn, false) {
			if c.Common().IsInvoke() && c.MethodName() == "ServeHTTP" && types.Implements(c.Common().Value.Type(), a.httpHandler) {
				through = append(through, fn)
				break
			}
		}
	}
	var closureOK, methodOK bool
	for _, fn := range through {
		for _, c := range CallsIn(fn, false) {
			if !(c.Common().IsInvoke() && c.MethodName() == "ServeHTTP") {
				continue
			}
			construct := FuncKey(fn) + "#inner.ServeHTTP"
			site := p.Pos(c.Pos())
			k, v, ac := BoolCallFact(c.Block(), isAllowed)
			switch {
			case !(k && v):
				r.Violation("H-auth", construct, site, "the wrapped handler is invoked on a path where auth.Allowed(...)==true is not established")
				continue
			case !sameOrigin(ac.Args()[0], c.Args()[2]):
				r.Violation("H-auth", construct, site, "auth.Allowed is asked about a different request than the one served")
				continue
			}
			// op: a parameter of fn, or the op captured from RequireAuth's parameter
			op := originValue(ac.Args()[1])
			opOK := false
			opWhy := ""
			if prm, isP := op.(*ssa.Parameter); isP && IsNamed(prm.Type(), "perkeep.org/pkg/auth", "Operation") {
				opOK = true
				opWhy = "op parameter " + prm.Name() + " of " + FuncKey(prm.Parent())
				// parameters of unexported helpers: every caller passes a non-zero constant or its own op parameter
				if prm.Parent() == fn && fn.Parent() == nil {
					for _, cc := range p.StaticCallers(fn) {
						idx := -1
						for i, fp := range fn.Params {
							if fp == prm {
								idx = i
							}
						}
						if idx >= 0 {
							if ok2, why2 := a.opNonZero(cc.Common().Args[idx]); !ok2 {
								opOK = false
								opWhy = "caller " + FuncKey(cc.Fn) + ": " + why2
							}
						}
					}
				}
			} else if ok2, why2 := a.opNonZero(op); ok2 {
				opOK, opWhy = true, why2
			} else {
				opWhy = why2
			}
			if !opOK {
				r.Violation("H-auth", construct, site, "auth.Allowed is asked about the wrong Operation: "+opWhy)
				continue
			}
			r.OK("H-auth", construct, site, "inner handler invoked only under auth.Allowed(sameRequest, "+opWhy+")==true")
			if fn.Parent() == a.requireAuth {
				closureOK = true
			}
			if fn.Signature.Recv() != nil && NamedOf(fn.Signature.Recv().Type()) == a.authHandler {
				methodOK = true
			}
		}
	}
	// RequireAuth returns that closure; auth.Handler.ServeHTTP reaches the checked method
	{
		construct := FuncKey(a.requireAuth) + "#returns-guard"
		ok := closureOK
		for _, ri := range Returns(a.requireAuth) {
			mc, isMC := originValue(ri.Results[0]).(*ssa.MakeClosure)
			if !isMC || mc.Fn.(*ssa.Function).Parent() != a.requireAuth {
				ok = false
			}
		}
		r.Check(ok, "H-auth", construct, p.Pos(a.requireAuth.Pos()), "RequireAuth returns its guarding closure on every path", "RequireAuth does not (only) return a closure that checks auth.Allowed before calling the wrapped handler")
	}
	{
		serve := c17Method(p, a.authHandler, "ServeHTTP")
		if serve == nil {
			brokenf("anchor unresolved: auth.Handler.ServeHTTP")
		}
		construct := FuncKey(serve) + "#guarded"
		ok := methodOK
		why := ""
		direct := false
		for _, fn := range through {
			if fn == serve {
				direct = true
			}
		}
		if !direct {
			// must hand the ResponseWriter only to a checked method of auth.Handler
			rw := c17OneParam(serve, "net/http", "ResponseWriter")
			for _, c := range c17UsesOf(serve, rw) {
				callee := c.Callee()
				isThrough := false
				for _, fn := range through {
					if fn == callee {
						isThrough = true
					}
				}
				if !isThrough {
					ok = false
					why = "hands the ResponseWriter to " + c.CalleeKey()
				}
			}
		}
		r.Check(ok, "H-auth", construct, p.Pos(serve.Pos()), "auth.Handler.ServeHTTP serves only through the Allowed-guarded path with a non-zero Operation", "auth.Handler.ServeHTTP is not guarded: "+why)
	}

	// Allowed: yes only under AllowedWithAuth(mode, req, op)==true
	{
		fn := a.allowed
		construct := FuncKey(fn) + "#yes-return"
		req := c17OneParam(fn, "net/http", "Request")
		opP := c17OneParam(fn, "perkeep.org/pkg/auth", "Operation")
		if req == nil || opP == nil {
			brokenf("anchor unresolved: auth.Allowed signature")
		}
		var bad []string
		nYes := 0
		for _, ri := range Returns(fn) {
			for _, leaf := range c17PhiLeaves(ri.Results[0]) {
				if k, ok := leaf.(*ssa.Const); ok && k.Value != nil && k.Value.Kind() == constant.Bool && !constant.BoolVal(k.Value) {
					continue
				}
				nYes++
				var ac CallSite
				known, val := false, false
				if c, ok := originValue(leaf).(*ssa.Call); ok && (CallSite{fn, c}).Callee() == a.allowedWith {
					known, val, ac = true, true, CallSite{fn, c} // return AllowedWithAuth(...)
				} else if _, isC := leaf.(*ssa.Const); isC {
					known, val, ac = BoolCallFact(ri.Ret.Block(), func(c CallSite) bool { return c.Callee() == a.allowedWith })
				}
				switch {
				case !(known && val):
					bad = append(bad, "a yes-return at "+p.Pos(ri.Ret.Pos())+" is not under AllowedWithAuth(...)==true")
				case !sameOrigin(ac.Args()[1], req) || !sameOrigin(ac.Args()[2], opP):
					bad = append(bad, "AllowedWithAuth is not asked about this request and this Operation")
				}
			}
		}
		if nYes == 0 {
			bad = append(bad, "auth.Allowed never says yes")
		}
		r.Check(len(bad) == 0, "H-auth", construct, p.Pos(fn.Pos()), "auth.Allowed answers true only under AllowedWithAuth(mode, req, op)==true", strings.Join(bad, "; "))
	}
	// AllowedWithAuth: (AllowedAccess(req) & mask) == mask, mask derived from op
	{
		fn := a.allowedWith
		construct := FuncKey(fn) + "#mask"
		req := c17OneParam(fn, "net/http", "Request")
		opP := c17OneParam(fn, "perkeep.org/pkg/auth", "Operation")
		if req == nil || opP == nil {
			brokenf("anchor unresolved: auth.AllowedWithAuth signature")
		}
		isAccess := func(v ssa.Value) bool {
			return c17DependsOn(v, func(x ssa.Value) bool {
				c, ok := x.(*ssa.Call)
				return ok && c.Call.IsInvoke() && c.Call.Method.Name() == "AllowedAccess" && len(c.Call.Args) == 1 && sameOrigin(c.Call.Args[0], req)
			})
		}
		status, why := "ok", ""
		for _, ri := range Returns(fn) {
			bo, ok := originValue(ri.Results[0]).(*ssa.BinOp)
			if !ok {
				status, why = "undecided", "the result is not a comparison"
				break
			}
			if bo.Op != token.EQL {
				status, why = "violated", fmt.Sprintf("the result is `%s`, not an equality with the full mask: a credential holding any one of the requested operations would be allowed all of them", bo.Op)
				break
			}
			and, mask := bo.X, bo.Y
			if _, isAnd := and.(*ssa.BinOp); !isAnd {
				and, mask = bo.Y, bo.X
			}
			ab, isAnd := and.(*ssa.BinOp)
			if !isAnd || ab.Op != token.AND {
				status, why = "violated", "the granted operations are not masked with & before the comparison"
				break
			}
			var granted ssa.Value
			switch {
			case sameOrigin(ab.X, mask):
				granted = ab.Y
			case sameOrigin(ab.Y, mask):
				granted = ab.X
			default:
				status, why = "violated", "the comparison is not of the form (granted & mask) == mask"
			}
			if status != "ok" {
				break
			}
			if !isAccess(granted) {
				status, why = "violated", "granted operations do not come from am.AllowedAccess(req)"
				break
			}
			if isAccess(mask) || !c17DependsOnValue(mask, opP) {
				status, why = "violated", "the mask is not derived from the requested Operation"
				break
			}
		}
		switch status {
		case "ok":
			r.OK("H-auth", construct, p.Pos(fn.Pos()), "returns (am.AllowedAccess(req) & mask) == mask with mask derived from op")
		case "undecided":
			r.Undecided("H-auth", construct, p.Pos(fn.Pos()), why)
		default:
			r.Violation("H-auth", construct, p.Pos(fn.Pos()), why)
		}
	}
}
